(* C11, the chain line counter -> diff -> burndown consumer, for one modification of a tracked file. *)
From Coq Require Import List ZArith Bool Arith Lia.
From Herc Require Import Plumbing.LineCount Plumbing.LineCountProofs Plumbing.StripLines Plumbing.Script Plumbing.ScriptProofs.
Import ListNotations.

(* FileDiff.Consume reports len(src), len(dst) of DiffLinesToRunes on the (possibly stripped) blobs; [ds] is
   whatever the diff engine returned, provided the validator accepts it.  The tracked file has CountLines(old blob)
   lines (handleInsertion created it so, or the previous modification left it so: that is the invariant).
   The consumer accepts and leaves a file of CountLines(new blob) lines - for every configuration. *)
Theorem modification_chain : forall {V : Type} (v : V) (ws : bool) (a b : bytes) (ds : script) (file : list V),
  textb a = true -> textb b = true ->
  file_diff_ok ws a b ds = true ->
  count_lines a = Lines (length file) ->
  exists file', handle_modification v (diff_loc ws a) (diff_loc ws b) file ds = HmOk file'
                /\ count_lines b = Lines (length file') /\ file' = relabel v ds file.
Proof.
  intros V v ws a b ds file Ta Tb Hok Hfile.
  assert (L : length file = length (split_lines (strip ws a))).
  { rewrite (diff_loc_agrees ws a Ta) in Hfile. now injection Hfile. }
  destruct (consumer_accepts list_eqb v _ _ file ds list_eqb_spec Hok L) as (file' & E & Lf & R).
  exists file'. unfold diff_loc. rewrite E. repeat split; [|exact R].
  rewrite (diff_loc_agrees ws b Tb). unfold diff_loc. now rewrite Lf.
Qed.

(* BEFORE the repair of F9 the same held only outside the class of the finding ... *)
Theorem modification_chain_before_fix : forall {V : Type} (v : V) (ws : bool) (a b : bytes) (ds : script) (file : list V),
  textb a = true -> textb b = true ->
  (ws = false \/ (last_blank a = false /\ last_blank b = false)) ->
  file_diff_ok_before_fix ws a b ds = true ->
  count_lines a = Lines (length file) ->
  exists file', handle_modification v (diff_loc_before_fix ws a) (diff_loc_before_fix ws b) file ds = HmOk file'
                /\ count_lines b = Lines (length file') /\ file' = relabel v ds file.
Proof.
  intros V v ws a b ds file Ta Tb Hws Hok Hfile.
  assert (Ha : count_lines a = Lines (diff_loc_before_fix ws a)) by (apply diff_loc_agrees_before_fix; tauto).
  assert (Hb : count_lines b = Lines (diff_loc_before_fix ws b)) by (apply diff_loc_agrees_before_fix; tauto).
  assert (L : length file = length (split_lines (strip_before_fix ws a))).
  { rewrite Hfile in Ha. injection Ha as ->. reflexivity. }
  destruct (consumer_accepts list_eqb v _ _ file ds list_eqb_spec Hok L) as (file' & E & Lf & R).
  exists file'. unfold diff_loc_before_fix. rewrite E. repeat split; [|exact R].
  rewrite Hb. unfold diff_loc_before_fix. now rewrite Lf.
Qed.

(* ... and broke inside it: the diff "é\n" -> "é\n" (after stripping) is valid, the file has CountLines = 2 lines,
   and handleModification answered "internal integrity error src". *)
Theorem modification_chain_refuted_before_fix :
  exists (a b : bytes) (ds : script) (file : list bool),
    textb a = true /\ textb b = true /\ file_diff_ok_before_fix true a b ds = true /\
    count_lines a = Lines (length file) /\
    handle_modification true (diff_loc_before_fix true a) (diff_loc_before_fix true b) file ds = HmErr IntegritySrc.
Proof.
  exists f9_witness, [195; 169; 10]%Z, [(Equal, 1)], [false; false]. vm_compute. repeat split; reflexivity.
Qed.

(* ---------------------------------------------------------------- the property-level oracle [spec_ok] *)

Lemma spec_ok_mapped : forall ws a b ds,
  spec_ok ws a b ds = lines_script_ok (map (unspace ws) (split_lines a)) (map (unspace ws) (split_lines b)) ds.
Proof. intros. unfold spec_ok, line_eq, lines_script_ok. apply (script_ok_map list_eqb (unspace ws)). Qed.

(* What the property demands, for every configuration: whatever script the implementation reports, if the oracle
   accepts it (with the line totals of the unstripped blobs) then the consumer accepts it, and the file keeps
   CountLines(blob) lines. *)
Theorem spec_chain : forall {V : Type} (v : V) (ws : bool) (a b : bytes) (ds : script) (file : list V),
  textb a = true -> textb b = true ->
  spec_ok ws a b ds = true ->
  count_lines a = Lines (length file) ->
  exists file', handle_modification v (length (split_lines a)) (length (split_lines b)) file ds = HmOk file'
                /\ count_lines b = Lines (length file') /\ file' = relabel v ds file.
Proof.
  intros V v ws a b ds file Ta Tb Hok Hfile.
  rewrite spec_ok_mapped in Hok.
  assert (L : length file = length (map (unspace ws) (split_lines a))).
  { rewrite (count_split a Ta) in Hfile. injection Hfile as Hf. rewrite map_length. congruence. }
  destruct (consumer_accepts list_eqb v _ _ file ds list_eqb_spec Hok L) as (file' & E & Lf & R).
  rewrite !map_length in *. exists file'. rewrite E. repeat split; [|exact R].
  rewrite (count_split b Tb). now rewrite Lf.
Qed.

(* Before the repair, on every pair of blobs outside the class of F9, judging the diff against the lines of the
   stripped blobs (what the implementation fed into the engine) was the same as judging it against the property. *)
Theorem spec_ok_file_diff_ok_before_fix : forall ws a b ds,
  (ws = false \/ (last_blank a = false /\ last_blank b = false)) ->
  spec_ok ws a b ds = file_diff_ok_before_fix ws a b ds.
Proof.
  intros ws a b ds H. rewrite spec_ok_mapped. unfold file_diff_ok_before_fix.
  destruct ws; cbn [strip_before_fix unspace].
  - destruct H as [H|[Ha Hb]]; [discriminate|]. now rewrite !split_lines_strip.
  - now rewrite !map_id.
Qed.

(* ---------------------------------------------------------------- the two oracles coincide *)

Lemma In_skipn : forall {A} n (l : list A) x, In x (skipn n l) -> In x l.
Proof.
  induction n as [|n IH]; intros l x H; [exact H|]. destruct l as [|y l]; [exact H|]. right. now apply IH.
Qed.

(* the validator only ever compares an old line with a new line *)
Lemma eq_prefix_ext : forall {A} (e1 e2 : A -> A -> bool) n o w,
  (forall x y, In x o -> In y w -> e1 x y = e2 x y) -> eq_prefix e1 n o w = eq_prefix e2 n o w.
Proof.
  induction n as [|n IH]; intros o w H; [reflexivity|].
  destruct o as [|x o], w as [|y w]; try reflexivity. cbn [eq_prefix].
  rewrite (H x y) by now left. rewrite (IH o w); [reflexivity|]. intros; apply H; now right.
Qed.

Lemma walk_ext : forall {A} (e1 e2 : A -> A -> bool) ds p o w,
  (forall x y, In x o -> In y w -> e1 x y = e2 x y) -> walk e1 p o w ds = walk e2 p o w ds.
Proof.
  induction ds as [|[op n] r IH]; intros p o w H; [reflexivity|].
  cbn [walk]. destruct op.
  - rewrite (eq_prefix_ext e1 e2 n o w H). rewrite (IH Equal (skipn n o) (skipn n w)); [reflexivity|].
    intros x y Hx Hy. apply H; eapply In_skipn; eauto.
  - rewrite (IH Delete (skipn n o) w); [reflexivity|]. intros x y Hx Hy. apply H; [eapply In_skipn; eauto|exact Hy].
  - rewrite (IH Insert o (skipn n w)); [reflexivity|]. intros x y Hx Hy. apply H; [exact Hx|eapply In_skipn; eauto].
Qed.

Lemma list_eqb_ext : forall x y x' y', (x = y <-> x' = y') -> list_eqb x y = list_eqb x' y'.
Proof.
  intros x y x' y' H. destruct (list_eqb x y) eqn:E1, (list_eqb x' y') eqn:E2; try reflexivity.
  - apply list_eqb_spec in E1. apply H in E1. apply list_eqb_spec in E1. congruence.
  - apply list_eqb_spec in E2. apply H in E2. apply list_eqb_spec in E2. congruence.
Qed.

(* Judging the diff against the lines of the stripped blobs (what FileDiff feeds into the engine) is the same as
   judging it against the property-level oracle - for every pair of blobs and every configuration. *)
Theorem spec_ok_file_diff_ok : forall ws a b ds, spec_ok ws a b ds = file_diff_ok ws a b ds.
Proof.
  intros ws a b ds. unfold file_diff_ok, spec_ok, lines_script_ok. destruct ws; cbn [strip]; [|reflexivity].
  rewrite !split_lines_strip_whitespace.
  rewrite <- (script_ok_map list_eqb strip_whitespace).
  unfold script_ok. apply walk_ext. intros x y Hx Hy. unfold line_eq. cbn [unspace].
  pose proof (split_lines_shape a) as Sa. pose proof (split_lines_shape b) as Sb.
  rewrite Forall_forall in Sa, Sb.
  apply list_eqb_ext. symmetry. apply strip_line_eq; auto.
Qed.
