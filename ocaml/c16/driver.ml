(* C16: replay the harness traces (cmd/c16: GeneratePeopleDict + Consume; cmd/c16m: the two merge
   functions) through the extracted Gallina model of identity.go and judge the implementation's outputs
   with the extracted executable statements of the property. *)
open C16_model
open Conv

(* every message of a stage of a sequence case is prefixed with the stage *)
let pfx = ref ""
let mismatch id m = Conv.mismatch id (!pfx ^ m)
let propfail id m = Conv.propfail id (!pfx ^ m)

(* tail-recursive helpers: the scale cases have strings of 10^6 bytes and lists of 10^5 .. 10^6 commits *)
let tmap f l = List.rev (List.rev_map f l)
let zstr (s : sx) : z list = tmap (fun x -> z_of_int (int_of_sx x)) (list_of_sx s)
let ints (l : z list) = tmap int_of_z l
let show_str (l : z list) =
  "\"" ^ String.concat "" (List.map (fun z -> let c = int_of_z z in
     if c >= 33 && c < 127 && c <> 34 && c <> 40 && c <> 41 then String.make 1 (Char.chr c) else Printf.sprintf "\\x%02x" c) l) ^ "\""
let show_strs l = "[" ^ String.concat "," (List.map show_str l) ^ "]"

(* ---------- GeneratePeopleDict / Consume ---------- *)
let iints (s : sx) : int list = tmap int_of_sx (list_of_sx s)
let zstr_t (s : sx) : z list = tmap (fun x -> z_of_int (int_of_sx x)) (list_of_sx s)

(* unary naturals with shared tails: nat_tbl.(i+1) = S nat_tbl.(i) *)
let nat_tbl = ref [| O |]
let snat (i : int) : nat =
  if i < 0 then O else begin
    if i >= Array.length !nat_tbl then begin
      let old = !nat_tbl in
      let n = max (i + 1) (2 * Array.length old) in
      let a = Array.make n O in
      Array.blit old 0 a 0 (Array.length old);
      for k = Array.length old to n - 1 do a.(k) <- S a.(k - 1) done;
      nat_tbl := a
    end;
    !nat_tbl.(i)
  end

(* strings.ToLower as observed by the harness: ASCII lower-casing except on the listed strings *)
let lower_of (obs : sx) : z list -> z list =
  match field_opt "lower" obs with
  | None -> lower_ascii
  | Some f ->
      let tbl = Hashtbl.create 16 in
      List.iter (fun x -> match list_of_sx x with
        | [r; l] -> Hashtbl.replace tbl (iints r) (zstr l)
        | _ -> failwith "lower") (args f);
      count "gen_nonascii_lowering";
      (fun s -> match Hashtbl.find_opt tbl (ints s) with Some l -> l | None -> lower_ascii s)

(* the deterministic commit list of the scale-few cases: (gen few n p q) *)
let gen_commits (g : sx) : (z list * z list) list =
  match args g with
  | [A "few"; n; p; q] ->
      let n = int_of_sx n and p = int_of_sx p and q = int_of_sx q in
      let cf k s = List.mapi (fun j ch -> let c = Char.code ch in
                      z_of_int (if (k + j) mod 3 = 0 && c >= 97 && c <= 122 then c - 32 else c))
                     (List.init (String.length s) (String.get s)) in
      (* the strings are shared: one list per (text, phase of the case pattern) *)
      let memo = Hashtbl.create 4096 in
      let cfm k s = match Hashtbl.find_opt memo (k mod 3, s) with
        | Some l -> l | None -> let l = cf (k mod 3) s in Hashtbl.replace memo (k mod 3, s) l; l in
      let rec go i acc = if i < 0 then acc else
          go (i - 1) ((cfm i (string_of_int (i mod p) ^ "name"),
                       cfm (i + 1) (string_of_int ((i * 7 + i / p) mod q) ^ "m@x.org")) :: acc) in
      go (n - 1) []
  | _ -> failwith "gen"

let show_mm mm = "[" ^ String.concat "; " (List.map (fun (k, (n, e)) -> show_str k ^ " -> " ^ show_str n ^ " <" ^ show_str e ^ ">") mm) ^ "]"
let show_ints l = "[" ^ String.concat ";" (List.map string_of_int l) ^ "]"

let rec perms = function
  | [] -> [[]]
  | l -> List.concat (List.mapi (fun i x -> List.map (fun p -> x :: p) (perms (List.filteri (fun j _ -> j <> i) l))) l)
let rotations l =
  let n = List.length l in
  List.init n (fun k -> List.filteri (fun i _ -> i >= k) l @ List.filteri (fun i _ -> i < k) l)

let big_limit = 3000       (* above: no quadratic extracted oracle, per-commit loops instead *)

let rec gen_case id c =
  if field_opt "seq" c <> None then seq_case id c else
  match field_opt "verdict" (field "obs" c) with
  | Some v ->
      (* judged inside the harness (scale-many with 2^17 developers and more) *)
      count "gen_scale_judged_in_harness";
      (match args v with
       | [A "ok"] -> ()
       | A "fail" :: what :: _ ->
           propfail id ((match atom what with
             | "total" -> "total: an author of the list does not resolve to an index below the number of developers"
             | "same-email" -> "same-email: two commits with the same e-mail / signature (case-insensitively) resolve to different developers"
             | "panic" -> "GeneratePeopleDict/Consume panics on a non-empty commit list"
             | "consume" -> "total: Consume does not return the index PeopleDict holds for the e-mail / signature of the commit"
             | w -> "description: a developer's description does not list exactly the names and e-mails attached to it (" ^ w ^ ")")
             ^ " [judged in the harness: " ^ string_of_sx v ^ " " ^ string_of_sx (field "gen" c) ^ "]")
       | _ -> failwith "verdict")
  | None -> gen_case_replayed id c
and gen_case_replayed id c =
  let exact = bool_of_sx (List.hd (args (field "exact" c))) in
  let cs = match field_opt "gen" c with
    | Some g -> gen_commits g
    | None ->
        (* round 4: an item may be (name email committer-name committer-email author-time committer-time); the property and
           the model speak about the AUTHOR's name and e-mail only *)
        tmap (fun x -> match list_of_sx x with
          | [n; e] -> (zstr n, zstr e)
          | [n; e; cn; ce; _; _] -> if cn <> n || ce <> e then count "gen_committer_differs_from_author"; (zstr n, zstr e)
          | _ -> failwith "commit") (args (field "commits" c)) in
  let ncs = List.length cs in
  let big = ncs > big_limit in
  let nomodel = field_opt "nomodel" c <> None in
  let obs = field "obs" c in
  let lower = lower_of obs in
  (* (mmode 3): the tree entry .mailmap is a submodule (no blob in the repository): Commit.File fails, no mailmap is read *)
  let mmode = match field_opt "mmode" c with Some m -> int_of_sx (List.hd (args m)) | None -> 0 in
  if mmode <> 0 then count "gen_mailmap_entry_not_a_regular_file";
  let mailmap = match field_opt "mailmap" c with Some m when mmode <> 3 -> Some (zstr_t (List.hd (args m))) | _ -> None in
  count (if exact then "gen_exact" else "gen_loose");
  if field_opt "decoy" c <> None then count "gen_mailmap_in_other_commits_only";
  (* ---- the parsed mailmap: implementation (hook) against the model of ParseMailmap ---- *)
  let gmm = match field_opt "mm" obs with
    | Some f -> Some (tmap (fun x -> match list_of_sx x with [k; n; e] -> (zstr k, (zstr n, zstr e)) | _ -> failwith "mm") (args f))
    | None -> None in
  let gmm_panic = field_opt "mmpanic" obs <> None in
  let mparse = match mailmap with Some t -> Some (parse_mailmap t) | None -> None in
  let norm_mm l = List.sort compare (List.map (fun (k, (n, e)) -> (ints k, ints n, ints e)) l) in
  (match mparse, gmm, gmm_panic with
   | None, None, false -> ()
   | Some None, None, true -> mismatch id "ParseMailmap: model and implementation panic (the repaired function never does)"
   | Some (Some m), Some g, false ->
       count "mailmap_parsed";
       if g <> [] then count "mailmap_nonempty";
       if norm_mm m <> norm_mm g then mismatch id ("ParseMailmap differs: impl=" ^ show_mm g ^ " model=" ^ show_mm m)
   | Some None, Some g, _ -> mismatch id ("ParseMailmap: the model panics, the implementation returns " ^ show_mm g)
   | Some (Some m), _, true -> mismatch id ("ParseMailmap: the implementation panics, the model returns " ^ show_mm m)
   | _ -> failwith "mailmap observation");
  (* the table GeneratePeopleDict works with: none in exact mode (the file is not read) *)
  let mm = if exact then [] else match gmm with Some g -> g | None -> [] in
  let expect_parse_panic = (not exact) && gmm_panic in
  let in_dom = mm_domb lower mm in
  if mm <> [] then count (if in_dom then "mailmap_in_domain" else "mailmap_overlap_domain");
  let where = match mailmap with
    | Some t -> " .mailmap=" ^ show_str t ^ (if mm <> [] then " parsed=" ^ show_mm mm else "") | None -> "" in
  let model_with order = if exact then generate_people_dict lower true id_order cs
                         else generate_people_dict_mm lower id_order (fun l -> l) order cs in
  let runs = match List.filter (fun x -> tag x = "run") (args obs) with [] -> [obs] | l -> l in
  let case_failed = ref false in
  if field_opt "panic" obs <> None then begin
    if ncs = 0 then begin
      match model_with [] with None -> count "gen_panic_empty_list" | Some _ -> mismatch id "implementation panics on the empty list, the model does not"
    end else propfail id ("GeneratePeopleDict/Consume panics on a non-empty commit list" ^
                          (if expect_parse_panic then " (in ParseMailmap)" else "") ^ where)
  end else if ncs = 0 then mismatch id "model panics (empty commit list), implementation does not"
  else if expect_parse_panic then mismatch id ("ParseMailmap panics but GeneratePeopleDict does not" ^ where)
  else List.iter (fun run ->
      let gdict_i = tmap (fun x -> match list_of_sx x with [k; v] -> (zstr k, int_of_sx v) | _ -> failwith "dict") (args (field "dict" run)) in
      let grev = tmap zstr (args (field "rev" run)) in
      let gauth_i = iints (List.hd (args (field "authors" run))) in
      let nrev = List.length grev in
      let ok = ref true in
      let fail what = if !ok then begin ok := false; if not !case_failed then begin case_failed := true; propfail id what end end in
      let total_msg () = "total: an author of the list does not resolve to an index below the number of developers: authors=" ^
                         (if ncs <= 40 then show_ints gauth_i else "...") ^ " developers=" ^ string_of_int nrev ^ where in
      let same_msg () = "same-email: two commits with the same " ^ (if exact then "signature" else "e-mail") ^
                        " (case-insensitively) resolve to different developers" ^ (if ncs <= 40 then ": authors=" ^ show_ints gauth_i else "") ^ where in
      let desc_msg sfx = "description: a developer's description does not list exactly the names and e-mails attached to it: " ^
                         (if nrev <= 40 then show_strs grev else "...") ^ where ^ sfx in
      if List.length gauth_i <> ncs then fail ("total: " ^ string_of_int (List.length gauth_i) ^ " authors for " ^ string_of_int ncs ^ " commits");
      if nomodel || big then begin
        (* hash-based statement of the property, per commit *)
        count "gen_scale_case";
        if List.exists (fun a -> a < 0 || a >= nrev) gauth_i then fail (total_msg ());
        let seen = Hashtbl.create 1024 in
        List.iter2 (fun (n, e) a ->
            let k = ints (lower (if exact then sig_string (n, e) else e)) in
            match Hashtbl.find_opt seen k with
            | Some a' -> if a' <> a then fail (same_msg ())
            | None -> Hashtbl.add seen k a) cs gauth_i
      end else begin
        let gauth = tmap z_of_int gauth_i in
        if not (total_okb grev gauth) then fail (total_msg ())
        else if not (same_email_okb lower exact cs gauth) then fail (same_msg ())
      end;
      if nomodel then begin
        (* every description = the set of keys of the developer (names and e-mails are disjoint and bar-free here) *)
        let by_dev = Array.make (max nrev 1) [] in
        List.iter (fun (k, v) -> if v >= 0 && v < nrev then by_dev.(v) <- ints k :: by_dev.(v) else fail (desc_msg " (a key points outside the list)")) gdict_i;
        let bar = 124 in
        let split l = let rec go cur acc = function
            | [] -> List.rev (List.rev cur :: acc)
            | x :: r -> if x = bar then go [] (List.rev cur :: acc) r else go (x :: cur) acc r in go [] [] l in
        List.iteri (fun d r ->
            let parts = if exact then [ints r] else split (ints r) in
            if List.sort_uniq compare parts <> List.sort_uniq compare by_dev.(d) || List.length parts <> List.length by_dev.(d) then
              fail (desc_msg (" (developer " ^ string_of_int d ^ ": " ^ show_str r ^ ")"))) grev;
        let used = Hashtbl.create 1024 in
        List.iter (fun (n, e) -> if exact then Hashtbl.replace used (ints (lower (sig_string (n, e)))) ()
                                 else begin Hashtbl.replace used (ints (lower n)) (); Hashtbl.replace used (ints (lower e)) () end) cs;
        if List.exists (fun (k, _) -> not (Hashtbl.mem used (ints k))) gdict_i || List.length gdict_i <> Hashtbl.length used then
          fail (desc_msg " (the keys of PeopleDict are not the names and e-mails in use)");
        if !ok then count "gen_scale_judged_without_model"
      end else begin
        let gdict = tmap (fun (k, v) -> (k, snat v)) gdict_i in
        (* the description half of the property *)
        if !ok then begin
          if mm = [] then begin
            if ncs * List.length gdict_i <= 20_000_000 then begin
              if not (description_okb lower exact cs gdict grev) then fail (desc_msg "") end
            else count "gen_description_by_model_only"
          end else if List.for_all (fun (k, _) -> nobarb k) gdict then begin
            if not (description_mm_okb lower cs mm gdict grev) then
              fail (desc_msg (if in_dom then "" else " [mailmap-overlap: a lower-cased mailmap key is also the key or the canonical name/e-mail of an entry with a different canonical pair; the outcome depends on Go's map order]"))
            else if not in_dom then count "mailmap_overlap_harmless_order"
          end else count "mailmap_keys_with_bars_description_by_model_only"
        end;
        (* round 4: C16_mailmap_entries_honoured stated on the implementation's dictionary (in the domain): the key of every
           entry is attached to the developer of its canonical e-mail or name.  A .mailmap that is not read at all (wrong
           commit, entry kind, blob content "sanitised" away) fails here, not only in the fine correspondence *)
        if !ok && mm <> [] && in_dom then begin
          let tbl = Hashtbl.create 64 in
          List.iter (fun (k, v) -> Hashtbl.replace tbl (ints k) v) gdict_i;
          let look s = Hashtbl.find_opt tbl (ints (lower s)) in
          let bad = List.filter (fun (k, (n, e)) -> match look k with
            | None -> true
            | Some d -> not ((n = [] && e = []) || look e = Some d || look n = Some d)) mm in
          match bad with
          | [] -> count "mailmap_entries_honoured"
          | (k, _) :: _ -> fail ("mailmap-honoured: the key " ^ show_str k ^ " of a .mailmap entry is not attached to the developer of its canonical e-mail / name: " ^
                                 (if nrev <= 40 then show_strs grev else "...") ^ where)
        end;
        (* fine: the dictionaries and the authors are the model's, for some iteration order of the mailmap *)
        if !ok then begin
          let norm d = List.sort compare (List.map (fun (k, v) -> (ints k, v)) d) in
          let gnorm = norm gdict_i and grev_i = List.map ints grev in
          let matches order = match model_with order with
            | Some (d, r) -> List.map ints r = grev_i && norm (List.map (fun (k, v) -> (k, int_of_nat v)) d) = gnorm
            | None -> false in
          let found =
            if mm = [] then matches []
            else begin
              let idof k = match List.assoc_opt (ints (lower k)) gnorm with Some v -> v | None -> max_int in
              let score (k, (n, e)) =
                let i = idof k in
                let reg x = if x = [] then 0 else if idof x = i then 1 else -1 in
                - (reg n + reg e) in
              let keyed = List.mapi (fun pos ((k, _) as en) -> ((idof k, score en, pos), en)) mm in
              let heur = List.map snd (List.sort (fun (a, _) (b, _) -> compare a b) keyed) in
              let n = List.length mm in
              matches heur
              || (match mparse with Some (Some m) when norm_mm m = norm_mm mm -> List.exists matches (rotations m) | _ -> false)
              || (n <= 6 && List.exists matches (perms mm))
              || (let st = Random.State.make [| id; n |] in
                  let rec tries k = k > 0 && begin
                      let sh = List.map snd (List.sort compare (List.map (fun ((i, _, _), en) -> ((i, Random.State.bits st), en)) keyed)) in
                      matches sh || tries (k - 1) end in
                  tries 200)
            end in
          if not found then begin
            match model_with (if mm = [] then [] else mm) with
            | Some (d, r) ->
                let md = norm (List.map (fun (k, v) -> (k, int_of_nat v)) d) in
                if mm = [] && md <> gnorm then mismatch id "PeopleDict differs from the model"
                else if mm = [] then mismatch id ("ReversedPeopleDict differs: impl=" ^ show_strs grev ^ " model=" ^ show_strs r)
                else mismatch id ("no iteration order of the mailmap makes the model return the implementation's dictionaries: impl=" ^ show_strs grev ^ where)
            | None -> mismatch id "model panics"
          end else begin
            if mm <> [] then count "mailmap_order_found";
            let consume_ok =
              if big then List.for_all2 (fun cm a -> int_of_z (consume lower exact gdict cm) = a) cs gauth_i
              else consume_okb lower exact cs gdict (tmap z_of_int gauth_i) in
            if not consume_ok then mismatch id "Consume differs from the model's lookup"
            else if nrev >= 2 then count "gen_two_or_more_developers"
          end
        end
      end) runs

(* A sequence on ONE Detector (round 3): (commits (st exact init how pre (cs ...) [(mailmap ..)]) ...) and
   (obs (st <observation of a single case>) ... [(late i (dict ..) (rev ..))]).  Every stage is judged exactly like a case
   of its own on a new Detector: the model is started afresh for every stage (it is the new-instance twin). *)
and seq_case id c =
  let stages = args (field "commits" c) in
  let obs = args (field "obs" c) in
  let sobs = List.filter (fun x -> tag x = "st") obs in
  let nst = List.length stages in
  if List.length sobs <> nst then failwith "sequence: stages and observations differ in number";
  count "gen_seq_cases";
  let sub st ob = L ([A "case"; A (string_of_int id); L [A "exact"; List.nth (args st) 0]; L (A "commits" :: args (field "cs" st))]
                     @ (match field_opt "mailmap" st with Some m -> [m] | None -> [])
                     @ (match field_opt "mmode" st with Some m -> [m] | None -> [])
                     @ [L (A "obs" :: args ob)]) in
  let describe i st =
    let a = args st in
    let b k = bool_of_sx (List.nth a k) in
    Printf.sprintf "stage %d of %d on ONE Detector (%s%s%s%s, %d commits): " (i + 1) nst
      (if b 0 then "exact" else "opportunistic") (if b 1 then ", Initialize first" else ", no Initialize")
      (if int_of_sx (List.nth a 2) = 1 then ", dictionaries set to nil + Configure" else ", GeneratePeopleDict")
      (if b 3 then ", the list consumed once under the old dictionary before" else "")
      (List.length (args (field "cs" st))) in
  let finish () = pfx := "" in
  (try
    List.iteri (fun i (st, ob) ->
      count "gen_seq_stages";
      if i > 0 then count "gen_seq_stages_on_a_used_detector";
      pfx := describe i st;
      gen_case_replayed id (sub st ob)) (List.combine stages sobs);
    (* dictionaries handed out by an earlier stage that changed afterwards: judged again *)
    List.iter (fun l ->
      if tag l = "late" then begin
        let a = args l in
        let i = int_of_sx (List.nth a 0) in
        let st = List.nth stages i and ob = List.nth sobs i in
        count "gen_seq_dictionaries_changed_afterwards";
        let keep = List.filter (fun x -> tag x <> "dict" && tag x <> "rev") (args ob) in
        let ob' = L (A "st" :: (keep @ [List.nth a 1; List.nth a 2])) in
        pfx := describe i st ^ "its dictionaries read AGAIN after the later stages: ";
        gen_case_replayed id (sub st ob')
      end) obs
  with e -> finish (); raise e);
  finish ()

(* ---------- merges ---------- *)
type mres = MPanic | MOk of (z list * ((z * z) * z)) list * z list list

let mres_of_sx (s : sx) : mres =
  match field_opt "panic" s with
  | Some _ -> MPanic
  | None ->
      let ok = field "ok" s in
      let idx = List.map (fun x -> match list_of_sx x with
          | [k; f; a; b] -> (zstr k, ((z_of_int (int_of_sx f), z_of_int (int_of_sx a)), z_of_int (int_of_sx b)))
          | _ -> failwith "idx") (args (field "idx" ok)) in
      MOk (idx, List.map zstr (args (field "merged" ok)))

let norm_idx idx = List.sort compare (List.map (fun (k, ((f, a), b)) -> (ints k, int_of_z f, int_of_z a, int_of_z b)) idx)
let show_idx idx = String.concat " " (List.map (fun (k, ((f, a), b)) ->
  Printf.sprintf "%s->(%d,%d,%d)" (show_str k) (int_of_z f) (int_of_z a) (int_of_z b)) idx)

let rec nodup = function [] -> true | x :: r -> not (List.mem x r) && nodup r

(* Large pairs of lists (more than 80 identities): the extracted model and oracles are of high polynomial degree, so the
   merge half of the property is stated here with hash tables and union-find: total, pointers, same Final <-> connected,
   merged description = union of the parts of its members; the literal merge: index / pointers / merged list. *)
let ostr (l : z list) = let b = Buffer.create 16 in List.iter (fun z -> Buffer.add_char b (Char.chr (int_of_z z land 255))) l; Buffer.contents b
let big_merge_case id rd1 rd2 obs =
  let a1 = Array.of_list (tmap ostr rd1) and a2 = Array.of_list (tmap ostr rd2) in
  let n1 = Array.length a1 and n2 = Array.length a2 in
  let parts s = String.split_on_char '|' s in
  let dom_list a =
    let owner = Hashtbl.create 1024 and ok = ref true in
    Array.iteri (fun i s -> List.iter (fun p -> match Hashtbl.find_opt owner p with
      | Some j when j <> i -> ok := false | _ -> Hashtbl.replace owner p i) (parts s)) a; !ok in
  let dom = dom_list a1 && dom_list a2 in
  count (if dom then "merge_in_domain" else "merge_f7_domain");
  count "merge_scale_case";
  let sfx = if dom then "" else " [F7-domain: a part occurs in two entries of one input list]" in
  let ok = ref true in
  let fail what = if !ok then begin ok := false; propfail id (what ^ sfx) end in
  let pos1 = Hashtbl.create 1024 and pos2 = Hashtbl.create 1024 in
  Array.iteri (fun i s -> Hashtbl.replace pos1 s i) a1; Array.iteri (fun i s -> Hashtbl.replace pos2 s i) a2;
  let table gidx = let t = Hashtbl.create 1024 in
    List.iter (fun (k, ((f, a), b)) -> Hashtbl.replace t (ostr k) (int_of_z f, int_of_z a, int_of_z b)) gidx; t in
  let total_pointers name t nmerged =
    let chk s = match Hashtbl.find_opt t s with
      | None -> fail (name ^ "-total: the input identity \"" ^ String.escaped s ^ "\" has no merged index")
      | Some (f, a, b) ->
          if f < 0 || f >= nmerged then fail (name ^ "-total: merged index out of range for \"" ^ String.escaped s ^ "\"");
          let e1 = (match Hashtbl.find_opt pos1 s with Some i -> i | None -> -1)
          and e2 = (match Hashtbl.find_opt pos2 s with Some i -> i | None -> -1) in
          if a <> e1 || b <> e2 then
            fail (Printf.sprintf "%s-pointers: \"%s\" has First/Second = %d/%d, its positions are %d/%d" name (String.escaped s) a b e1 e2) in
    Array.iter chk a1; Array.iter chk a2;
    Hashtbl.iter (fun k _ -> if not (Hashtbl.mem pos1 k || Hashtbl.mem pos2 k) then
                     fail (name ^ "-total: the key \"" ^ String.escaped k ^ "\" is not an input identity")) t in
  (match mres_of_sx (field "ident" obs) with
   | MPanic -> fail "MergeReversedDictsIdentities panics"
   | MOk (gidx, gmerged) ->
       if not (bool_of_sx (List.hd (args (field "agree" obs)))) then fail "merge: answers differ between runs on equal inputs";
       let t = table gidx and merged = Array.of_list (tmap ostr gmerged) in
       total_pointers "merge" t (Array.length merged);
       if dom && !ok then begin
         (* union-find over the n1 + n2 entries, joined through their parts *)
         let uf = Array.init (n1 + n2) (fun i -> i) in
         let rec find i = if uf.(i) = i then i else begin let r = find uf.(i) in uf.(i) <- r; r end in
         let owner = Hashtbl.create 1024 in
         let visit i s = List.iter (fun p -> match Hashtbl.find_opt owner p with
           | Some j -> uf.(find i) <- find j | None -> Hashtbl.replace owner p i) (parts s) in
         Array.iteri visit a1; Array.iteri (fun j s -> visit (n1 + j) s) a2;
         let comp_final = Hashtbl.create 1024 and final_comp = Hashtbl.create 1024 and final_parts = Hashtbl.create 1024 in
         let node i s =
           let f = (match Hashtbl.find_opt t s with Some (f, _, _) -> f | None -> -1) and r = find i in
           (match Hashtbl.find_opt comp_final r with
            | Some f' -> if f' <> f then fail ("merge-components: connected identities have different merged indexes (\"" ^ String.escaped s ^ "\")")
            | None -> Hashtbl.replace comp_final r f);
           (match Hashtbl.find_opt final_comp f with
            | Some r' -> if r' <> r then fail ("merge-components: identities that are not connected share a merged index (\"" ^ String.escaped s ^ "\")")
            | None -> Hashtbl.replace final_comp f r);
           List.iter (fun p -> Hashtbl.replace final_parts (f, p) ()) (parts s) in
         Array.iteri node a1; Array.iteri (fun j s -> node (n1 + j) s) a2;
         let nparts = ref 0 in
         Array.iteri (fun w m ->
             let ps = parts m in
             let seen = Hashtbl.create 16 in
             List.iter (fun p ->
                 if Hashtbl.mem seen p then fail ("merge-union: a part occurs twice in the merged description \"" ^ String.escaped m ^ "\"");
                 Hashtbl.replace seen p ();
                 if not (Hashtbl.mem final_parts (w, p)) then fail ("merge-union: the merged description \"" ^ String.escaped m ^ "\" has a part of no member");
                 incr nparts) ps) merged;
         if !nparts <> Hashtbl.length final_parts then fail "merge-union: a part of a member is missing from the merged description";
         if Hashtbl.length final_comp <> Array.length merged then fail "merge-union: a merged description without members";
         if !ok && Array.length merged < n1 + n2 then count "merge_really_merging"
       end);
  (match mres_of_sx (field "lit" obs) with
   | MPanic -> if dom then propfail id "MergeReversedDictsLiteral panics on duplicate-free lists"
   | MOk (gidx, gmerged) ->
       if dom then begin
         count "literal_in_domain";
         let t = table gidx and merged = Array.of_list (tmap ostr gmerged) in
         total_pointers "literal" t (Array.length merged);
         Hashtbl.iter (fun k (f, _, _) -> if f >= 0 && f < Array.length merged && merged.(f) <> k then
                          fail ("literal: merged[Final] is not the string \"" ^ String.escaped k ^ "\"")) t;
         if Array.length merged <> Hashtbl.length t then fail "literal: the merged list and the index differ in size"
       end)

let rec merge_case id c =
  let ids = args (field "ids" c) in
  let pick t = List.rev (List.fold_left (fun acc x -> if tag x = t then zstr (List.hd (args x)) :: acc else acc) [] ids) in
  let rd1 = pick "a" and rd2 = pick "b" in
  let obs = field "obs" c in
  if field_opt "chain" c = None then merge_judge id rd1 rd2 obs
  else begin
    (* chained merges (round 3): (A+B)+C and A+(B+C); every call is judged like a single merge of its two argument lists,
       the intermediate list being what the first call returned *)
    let rd3 = pick "c" in
    count "merge_chain_cases";
    let merged_of o = match mres_of_sx (field "ident" o) with MOk (_, m) -> Some m | MPanic -> None in
    let step name a b o =
      pfx := name;
      (try merge_judge id a b o with e -> pfx := ""; raise e);
      pfx := "" in
    step "A+B of a chained merge: " rd1 rd2 obs;
    (match field_opt "chl" obs, merged_of obs with
     | Some o, Some m -> count "merge_chain_steps"; step "(A+B)+C, the second call gets the list the first one returned: " m rd3 o
     | _ -> ());
    let bc = field "bc" obs in
    step "B+C of a chained merge: " rd2 rd3 bc;
    (match field_opt "chr" obs, merged_of bc with
     | Some o, Some m -> count "merge_chain_steps"; step "A+(B+C), the second call gets the list the first one returned: " rd1 m o
     | _ -> ());
    if not (bool_of_sx (List.hd (args (field "stable" obs)))) then
      propfail id "chained merges: the index map / merged list returned by an earlier call reads differently after the later calls (results share storage)"
  end
and merge_judge id rd1 rd2 obs =
  (match field_opt "inputs" obs with
   | Some f when not (bool_of_sx (List.hd (args f))) ->
       propfail id "merge: the call changed its argument lists (the positions First/Second point into are no longer the caller's)"
   | _ -> ());
  if List.length rd1 + List.length rd2 > 80 then big_merge_case id rd1 rd2 obs else
  let dom = merge_domb rd1 rd2 in
  count (if dom then "merge_in_domain" else "merge_f7_domain");
  let sfx = if dom then "" else " [F7-domain: a part occurs in two entries of one input list]" in
  (* MergeReversedDictsIdentities *)
  let g = mres_of_sx (field "ident" obs) in
  let m = merge_identities rd1 rd2 in
  (match g, m with
   | _, None -> mismatch id "model out of fuel"
   | MPanic, Some _ -> propfail id ("MergeReversedDictsIdentities panics" ^ sfx)
   | MOk (gidx, gmerged), Some (midx, mmerged) ->
       let ok = ref true in
       let fail what = if !ok then begin ok := false; propfail id (what ^ sfx) end in
       if not (bool_of_sx (List.hd (args (field "agree" obs)))) then fail "merge: answers differ between runs on equal inputs";
       if not (mtotal_okb rd1 rd2 gidx gmerged) then
         fail ("merge-total: an input identity has no merged index (or one out of range), or a key is not an input identity: " ^ show_idx gidx);
       if not (mpointers_okb rd1 rd2 gidx) then
         fail ("merge-pointers: First/Second do not point to the original positions (-1 when absent): " ^ show_idx gidx);
       if not (mcomponents_okb rd1 rd2 gidx) then
         fail ("merge-components: same merged index is not equivalent to being connected: " ^ show_idx gidx);
       if not (munion_okb rd1 rd2 gidx gmerged) then
         fail ("merge-union: a merged description is not the union of its component's parts: " ^ show_strs gmerged);
       if !ok && List.length gmerged < List.length rd1 + List.length rd2 then count "merge_really_merging";
       (* fine *)
       if norm_idx gidx <> norm_idx midx then mismatch id ("merged index differs: impl=" ^ show_idx gidx ^ " model=" ^ show_idx midx)
       else if List.map ints gmerged <> List.map ints mmerged then
         mismatch id ("merged list differs: impl=" ^ show_strs gmerged ^ " model=" ^ show_strs mmerged));
  (* MergeReversedDictsLiteral *)
  let gl = mres_of_sx (field "lit" obs) in
  let ml = merge_literal rd1 rd2 in
  let ldom = nodup (List.map ints rd1) && nodup (List.map ints rd2) in
  (match gl, ml with
   | MPanic, None -> count "literal_panic_duplicates"
   | MPanic, Some _ -> if ldom then propfail id "MergeReversedDictsLiteral panics on duplicate-free lists" else mismatch id "literal: implementation panics, model does not"
   | MOk _, None -> mismatch id "literal: model panics (index out of range), implementation does not"
   | MOk (gidx, gmerged), Some (midx, mmerged) ->
       if ldom then begin
         count "literal_in_domain";
         let str_of k = try List.nth gmerged (int_of_z (fst (fst (List.assoc k gidx)))) with _ -> [] in
         if not (mtotal_okb rd1 rd2 gidx gmerged && mpointers_okb rd1 rd2 gidx
                 && List.for_all (fun s -> ints (str_of s) = ints s) (rd1 @ rd2)
                 && List.length gmerged = List.length gidx) then
           propfail id ("literal: index/pointers/merged list wrong on duplicate-free lists: " ^ show_idx gidx)
       end;
       if norm_idx gidx <> norm_idx midx then mismatch id ("literal index differs: impl=" ^ show_idx gidx ^ " model=" ^ show_idx midx)
       else begin
         let finals = List.map (fun (_, ((f, _), _)) -> int_of_z f) gidx in
         if nodup finals then begin
           if List.map ints gmerged <> List.map ints mmerged then mismatch id "literal merged list differs"
         end else count "literal_order_dependent"
       end)

let () =
  iter_cases (fun id c ->
    match field_opt "commits" c, field_opt "gen" c with
    | None, None -> merge_case id c
    | _ -> gen_case id c)
