(* Run plans of internal/core/forks.go: the syntax.

   A plan is the list of [runAction]s that [prepareRunPlan] hands to [Pipeline.Run].
   Branch ids are Go ints (Z); commits are numbered 0..n-1 (nat) by the harness in a
   topological numbering of the analysed history (a parent has a smaller number than its
   child); a commit graph is the list of parent lists, [nth c g []] = parents of commit c,
   restricted to the analysed commit set, possibly with duplicate entries. *)
From Coq Require Import List ZArith Bool Arith Lia.
Import ListNotations.

Inductive akind := KCommit | KFork | KMerge | KEmerge | KDelete | KHibernate | KBoot.

(* runAction{Action, Commit, Items}; [commit = None] is a nil *object.Commit *)
Record action := mkA { kind : akind; commit : option nat; items : list Z }.

Notation plan := (list action) (only parsing).
Notation dag := (list (list nat)) (only parsing).

Definition parents (g : dag) (c : nat) : list nat := nth c g [].

Definition kind_eqb (a b : akind) : bool :=
  match a, b with
  | KCommit, KCommit | KFork, KFork | KMerge, KMerge | KEmerge, KEmerge
  | KDelete, KDelete | KHibernate, KHibernate | KBoot, KBoot => true
  | _, _ => false
  end.

Lemma kind_eqb_eq a b : kind_eqb a b = true <-> a = b.
Proof. destruct a, b; simpl; split; intro H; try reflexivity; try discriminate. Qed.

(* the well-shaped actions, as [generatePlan] / [collectGarbage] / [insertHibernateBoot] emit them *)
Definition commit_on (c : nat) (b : Z) : action := mkA KCommit (Some c) [b].
Definition emerge (b : Z) (c : option nat) : action := mkA KEmerge c [b].
Definition delete (b : Z) : action := mkA KDelete None [b].
Definition merge_of (bs : list Z) : action := mkA KMerge None bs.

(* what [Pipeline.Run] reads of an action: Commit, Emerge, Delete use Items[0] only, Fork copies
   Items[0] onto Items[1:], Merge / Hibernate / Boot use every item *)
Definition wf_action (a : action) : Prop :=
  match kind a with
  | KCommit => exists c b, commit a = Some c /\ items a = [b]
  | KEmerge | KDelete => exists b, items a = [b]
  | KFork => exists b t ts, items a = b :: t :: ts
  | KMerge => exists b1 b2 bs, items a = b1 :: b2 :: bs
  | KHibernate | KBoot => items a <> []
  end.

Definition wf_actionb (a : action) : bool :=
  match kind a, commit a, items a with
  | KCommit, Some _, [_] => true
  | KEmerge, _, [_] | KDelete, _, [_] => true
  | KFork, _, _ :: _ :: _ | KMerge, _, _ :: _ :: _ => true
  | KHibernate, _, _ :: _ | KBoot, _, _ :: _ => true
  | _, _, _ => false
  end.

(* the commits replayed by a plan, in order, with repetitions *)
Definition analysed (p : plan) : list nat :=
  flat_map (fun a => match kind a, commit a with KCommit, Some c => [c] | _, _ => [] end) p.

Definition replayed (c : nat) (p : plan) : Prop := In c (analysed p).

(* erasures used by the C04 theorems *)
Definition is_kind (k : akind) (a : action) : bool := kind_eqb (kind a) k.
Definition erase_deletes (p : plan) : plan := filter (fun a => negb (is_kind KDelete a)) p.
Definition erase_hb (p : plan) : plan :=
  filter (fun a => negb (is_kind KHibernate a || is_kind KBoot a)) p.
