(* C01_ownership: at the end of a validated plan, on a branch that holds every commit of a single-head history,
   the ownership walk over the file of a path counts, per developer, the lines of that path alive at HEAD that
   the developer authored.  The structural part of the invariant W of DagProofs.v (every live branch holds the
   lines of its last commit, each with the (author, tick) of its birth) is all that is needed. *)
From Coq Require Import List ZArith Lia Bool Permutation.
From Herc Require Import Burndown.Base Burndown.Dense Burndown.DenseProofs Burndown.Lifetimes Burndown.LifetimesFacts
  Burndown.AncFacts Burndown.Analysis Burndown.SparseFacts Burndown.AnalysisFacts Burndown.Replay
  Burndown.HunkProofs Burndown.LinearProofs Burndown.StepProofs Burndown.CommitProofs Burndown.MergeProofs
  Burndown.PlanProofs Burndown.DagProofs Burndown.MatrixProofs Burndown.FrameFacts Burndown.ViewStep Burndown.ViewMerge
  Burndown.ViewMatrix.
Import ListNotations.
Open Scope Z_scope.

(* the key under which the ownership walk counts a value: -1 when the author is missing (people tracking off) *)
Definition okey (cf : cfg) (v : Z) : Z :=
  let a := fst (unpack cf v) in if a =? author_missing then -1 else a.

Lemma ownership_spec cf : forall vals acc i,
  aget_d 0 (ownership cf vals acc) i = aget_d 0 acc i + count (fun v => okey cf v =? i) vals.
Proof.
  induction vals as [|v r IH]; intros acc i; cbn [ownership].
  - unfold count. cbn. lia.
  - rewrite IH, count_cons, aget_d_aset. fold (okey cf v). destruct (okey cf v =? i) eqn:E.
    + apply Z.eqb_eq in E. rewrite E. lia.
    + lia.
Qed.

(* the developer key of a line: its author's people index, -1 when people tracking is off *)
Definition lkey (cf : cfg) (aidx : list Z) (l : line) : Z :=
  if c_people cf =? 0 then -1 else znth 0 aidx (l_born l).

Section Owner.
  Variable h : hist.
  Variable cf : cfg.
  Variable aidx : list Z.
  Hypothesis Hcf : conflict_free h = true.
  Hypothesis Hmark : forall c, 0 <= c < ncommits h -> tick_of h c < mark.
  Hypothesis Haidx : forall c, 0 <= znth 0 aidx c < author_missing.
  Notation A := (ancs h).

  Lemma Haidx0 : forall c, 0 <= znth 0 aidx c.
  Proof. intros c. apply Haidx. Qed.

  Lemma okey_val p seq l : In (p, seq) (h_paths h) -> In l seq -> okey cf (val h cf aidx l) = lkey cf aidx l.
  Proof.
    intros Hin Hl. unfold okey, lkey, val. destruct (line_facts h Hcf p seq l Hin Hl) as [Hb _].
    pose proof (tick_nonneg h Hcf _ Hb). pose proof (Hmark _ Hb). pose proof (Haidx (l_born l)). unfold mark in *.
    rewrite unpack_pack by lia. destruct (c_people cf =? 0); cbn [fst].
    - rewrite Z.eqb_refl. reflexivity.
    - destruct (Z.eqb_spec (znth 0 aidx (l_born l)) author_missing); [lia|reflexivity].
  Qed.

  (* a commit that descends from every commit sees exactly the lines that were never killed *)
  Lemma full_alive l0 pl : (forall c, 0 <= c < ncommits h -> ancb A l0 c = true) -> In pl (all_lines h) ->
    aliveb A l0 (snd pl) = negb (has_killer (snd pl)).
  Proof.
    intros Hfull Hin. unfold aliveb. rewrite (Hfull _ (born_range h Hcf pl Hin)). cbn [andb].
    fold (has_killer (snd pl)). destruct (has_killer (snd pl)) eqn:Ek; cbn [andb negb]; auto.
    rewrite (Hfull _ (killer_range h Hcf pl Hin Ek)). reflexivity.
  Qed.

  Lemma aget_paths p seq : In (p, seq) (h_paths h) -> aget (h_paths h) p = Some seq.
  Proof.
    intros Hin. pose proof (paths_nodup h Hcf) as Hnd.
    induction (h_paths h) as [|[q sq] r IH]; [destruct Hin|]. cbn [aget map fst] in *. inversion Hnd; subst.
    destruct Hin as [E|Hin].
    - injection E as -> ->. rewrite Z.eqb_refl. reflexivity.
    - destruct (Z.eqb_spec q p) as [->|Hne]; [|apply IH; auto].
      exfalso. apply H1. change p with (fst (p, seq)). apply in_map. exact Hin.
  Qed.

  Theorem ownership_head plan w b lb l0 p seq f :
    single_head h = true -> plan_okb h plan = true -> run_hist cf h aidx plan = Ok w ->
    aget (w_branches w) b = Some lb -> lb_last lb = Some l0 ->
    (forall c, 0 <= c < ncommits h -> ancb A l0 c = true) ->
    In (p, seq) (h_paths h) -> aget (b_files (lb_state lb)) p = Some f ->
    forall i, aget_d 0 (ownership cf (f_vals f) []) i =
              count (fun pl => keep_path p pl && (lkey cf aidx (snd pl) =? i)) (head_lines h).
  Proof.
    intros Hsh Hok Er Eb El Hfull Hin Ef i. unfold plan_okb in Hok.
    destruct (prun h A (length (h_parents h)) [] plan pstate0) as [ps|] eqn:Ep; [|discriminate].
    unfold run_hist, run in Er.
    pose proof (DagProofs.run_W h cf aidx Hcf Hmark Haidx0 plan [] pstate0 world0 ps w (DagProofs.W_init h cf aidx) Ep Er)
      as (W1 & W2 & W3 & W4 & W5 & W6 & W7 & W8 & W9).
    destruct (ps_pend ps) as [[m0 bs0]|] eqn:Epend; [discriminate|].
    pose proof (W3 b) as Hb. rewrite Eb in Hb. destruct (aget (ps_live ps) b) as [pb|]; [|destruct Hb].
    unfold DagProofs.entry_ok in Hb. rewrite Epend in Hb. destruct Hb as (P1 & P2 & P3 & P4).
    rewrite El in P1. rewrite <- P1 in P2.
    specialize (P2 (p, seq) Hin). cbn [fst snd] in P2. unfold pgood in P2. rewrite Ef in P2.
    assert (Ev : f_vals f = map (val h cf aidx) (filter (aliveb A l0) seq)).
    { destruct (old_exists A (Some l0) seq); [|discriminate]. destruct P2 as [hd P2]. injection P2 as ->. reflexivity. }
    rewrite ownership_spec, Ev. change (aget_d 0 [] i) with 0. rewrite Z.add_0_l, count_map, count_filter.
    (* the right-hand side, path by path *)
    unfold head_lines. rewrite count_filter.
    rewrite (count_all_lines h).
    pose (Wf := fun (_ : Z) (sq : list line) => count (fun l => aliveb A l0 l && (okey cf (val h cf aidx l) =? i)) sq).
    transitivity (sum_z (map (fun pl : Z * list line => if fst pl =? p then Wf (fst pl) (snd pl) else 0) (h_paths h))).
    { rewrite (sum2_single Wf p (h_paths h) (paths_nodup h Hcf)), (aget_paths p seq Hin). reflexivity. }
    unfold Wf.
    f_equal. apply map_ext_in. intros [q sq] Hq. cbn [fst snd]. unfold keep_path. cbn [fst snd].
    destruct (Z.eqb_spec q p) as [->|Hne].
    - apply count_ext_in. intros l Hl. rewrite (okey_val p sq l Hq Hl).
      assert (Hal : In (p, l) (all_lines h)) by (eapply in_all_lines; eauto).
      pose proof (full_alive l0 (p, l) Hfull Hal) as F1. pose proof (head_alive h Hcf Hsh (p, l) Hal) as F2.
      cbn [snd] in F1, F2. rewrite F1, F2. reflexivity.
    - symmetry. unfold count. rewrite (filter_ext_in _ (fun _ => false)); [clear; induction sq; cbn; auto|].
      intros l _. rewrite andb_false_r. reflexivity.
  Qed.
End Owner.
Print Assumptions ownership_head.
