(* C14 - each replay step feeds items the matching upstream outputs and correct metadata.
   Only statements closed by [exact] and their assumptions, plus non-vacuity examples.
   The model is coq/theories/Pipeline/RunModel.v ([run] = Pipeline.Run on the plan that
   prepareRunPlan returned); all theorems hold for every item state type [St], every value type [U],
   every behaviour [sm] of the items (Consume / Merge / Hibernate / Boot / Finalize as arbitrary
   functions), every item list and every plan satisfying the stated boolean plan predicates. *)
From Coq Require Import List NArith ZArith Bool Arith.
From Herc Require Import Pipeline.RunModel Pipeline.RunProofs.
Import ListNotations.

(* Every record of a commit step stands at the position of a commit action of the plan and carries
   that action's commit, its branch (Items[0]) and the flag computed by Run's isMerge closure; every
   other record stands at an action that is not a commit.  (Commit steps = commit actions executed.) *)
Theorem C14_steps : forall (St U : Type) (sm : sem St U) (items : list item) (plan : list action) (nc : N)
    (i : nat) (rc : srec U),
  nth_error (ro_recs (run St U sm items plan nc)) i = Some rc ->
  exists a, nth_error plan i = Some a /\
  match rc with
  | RCommit s => exists its, a = ACommit (cs_commit s) its /\ cs_branch s = first_item its /\
                             cs_merge s = is_merge plan i (c_id (cs_commit s))
  | _ => is_commit a = false
  end.
Proof. exact run_steps. Qed.
Print Assumptions C14_steps.

(* At every commit step every item receives, for each entity (required or not, metadata keys included),
   the value that the last earlier item of the SAME step declaring the entity in Provides returned,
   and the step's own metadata (commit, index, merge flag) where no earlier item provides the key. *)
Theorem C14_inputs : forall (St U : Type) (sm : sem St U) (items : list item) (plan : list action) (nc : N)
    (s : cstep U),
  In (RCommit s) (ro_recs (run St U sm items plan nc)) ->
  forall (pre : list (call U)) (c : call U) (post : list (call U)), cs_calls s = pre ++ c :: post ->
  forall e : N, dlookup e (k_deps c) = expected e pre (meta_deps (cs_commit s) (cs_index s) (cs_merge s)).
Proof. exact run_inputs. Qed.
Print Assumptions C14_inputs.

(* On plans whose commits and forks use live branches: the calls of a step are the items in resolved
   order, each once (a prefix when the step is cut short by a failing call; all of them when every
   call returned all its declared outputs). *)
Theorem C14_once_in_order : forall (St U : Type) (sm : sem St U) (items : list item) (plan : list action) (nc : N),
  liveb plan = true ->
  forall s : cstep U, In (RCommit s) (ro_recs (run St U sm items plan nc)) ->
  map (fun c => (k_item c, k_desc c)) (cs_calls s) =
    firstn (length (cs_calls s)) (combine (seq 0 (length items)) items) /\
  (forallb complete (cs_calls s) = true -> length (cs_calls s) = length items).
Proof. exact run_order. Qed.
Print Assumptions C14_once_in_order.

(* The commit index of the i-th commit step is i. *)
Theorem C14_index : forall (St U : Type) (sm : sem St U) (items : list item) (plan : list action) (nc : N)
    (i : nat) (s : cstep U),
  nth_error (csteps (ro_recs (run St U sm items plan nc))) i = Some s -> cs_index s = N.of_nat i.
Proof. exact run_index. Qed.
Print Assumptions C14_index.

(* The isMerge closure on any plan position holding a commit action. *)
Theorem C14_is_merge_scan : forall (plan pre : list action) (c : commit) (its : list N) (post : list action),
  plan = pre ++ ACommit c its :: post ->
  head_emergeb plan = true -> contigb plan = true -> distinctb plan = true ->
  (is_merge plan (length pre) (c_id c) = true <-> 2 <= length (replay_branches plan (c_id c))).
Proof. exact is_merge_spec. Qed.
Print Assumptions C14_is_merge_scan.

(* The merge flag an item sees is true exactly when the commit is replayed on more than one branch. *)
Theorem C14_is_merge : forall (St U : Type) (sm : sem St U) (items : list item) (plan : list action) (nc : N),
  head_emergeb plan = true -> contigb plan = true -> distinctb plan = true ->
  forall (i : nat) (s : cstep U), nth_error (ro_recs (run St U sm items plan nc)) i = Some (RCommit s) ->
  (cs_merge s = true <-> 2 <= length (replay_branches plan (c_id (cs_commit s)))).
Proof. exact run_is_merge. Qed.
Print Assumptions C14_is_merge.

(* A call that returns an error or leaves out a declared output is the last call of the last record
   and the run returns exactly that call's error (an [outcome] that is [Failed] carries no result). *)
Theorem C14_errors_abort : forall (St U : Type) (sm : sem St U) (items : list item) (plan : list action) (nc : N)
    (i : nat) (s : cstep U),
  nth_error (ro_recs (run St U sm items plan nc)) i = Some (RCommit s) ->
  forall (pre : list (call U)) (c : call U) (post : list (call U)),
  cs_calls s = pre ++ c :: post -> complete c = false ->
  post = [] /\ S i = length (ro_recs (run St U sm items plan nc)) /\
  exists e, call_error c = Some e /\ ro_out (run St U sm items plan nc) = Failed e.
Proof. exact run_errors. Qed.
Print Assumptions C14_errors_abort.

(* A run that returns a result executed the whole plan, saw only complete calls, and reports the
   committer time of plan[0]'s commit, the newest committer time of the commit steps (not below 0:
   Run starts from int64 zero) and the number of input commits. *)
Theorem C14_done : forall (St U : Type) (sm : sem St U) (items : list item) (plan : list action) (nc : N)
    (fins : list (fincall U)) (sm' : summary),
  ro_out (run St U sm items plan nc) = Done fins sm' ->
  length (ro_recs (run St U sm items plan nc)) = length plan /\
  (forall s, In (RCommit s) (ro_recs (run St U sm items plan nc)) -> forallb complete (cs_calls s) = true) /\
  sm_commits sm' = nc /\
  sm_end sm' = fold_right Z.max 0%Z (commit_times plan) /\
  exists a r c, plan = a :: r /\ a_commit a = Some c /\ sm_begin sm' = c_time c.
Proof. exact run_done. Qed.
Print Assumptions C14_done.

(* With plan[0] = the emerge of the first planned commit: BeginTime = time of the first planned commit,
   EndTime = newest committer time, CommitsNumber = number of input commits. *)
Theorem C14_summary : forall (St U : Type) (sm : sem St U) (items : list item) (plan : list action) (nc : N)
    (fins : list (fincall U)) (sm' : summary),
  ro_out (run St U sm items plan nc) = Done fins sm' -> head_firstb plan = true ->
  summary_ok plan nc sm' = true.
Proof. exact run_summary. Qed.
Print Assumptions C14_summary.

(* The oracle [log_ok] with which the check judges the implementation's Consume log accepts the log of
   every run of the model on a plan satisfying the predicates, whatever the items do: a log it rejects
   cannot be produced by the interpreter the theorems above are about.  [early] must be set when the run
   was stopped between two commit steps (Hibernate/Boot error, panic). *)
Theorem C14_oracle_accepts_model : forall (St U : Type) (ueqb : U -> U -> bool) (sm : sem St U)
    (items : list item) (plan : list action) (nc : N),
  (forall u, ueqb u u = true) ->
  head_emergeb plan = true -> contigb plan = true -> distinctb plan = true -> liveb plan = true ->
  forall early : bool,
  (early = true \/ match ro_out (run St U sm items plan nc) with
                   | Done _ _ => True
                   | Failed (EConsume _ _) => True
                   | Failed (EMissing _ _) => True
                   | _ => False
                   end) ->
  log_ok U ueqb early plan items plan 0 (consume_log (ro_recs (run St U sm items plan nc))) = true.
Proof. exact run_log_ok. Qed.
Print Assumptions C14_oracle_accepts_model.

(* ------------------------------------------------------------------------------------------ *)
(* Non-vacuity: a real plan (history: two roots 0 and 1 merged by commit 2, hibernation distance 1,
   case 57 of the quick trace) in which the two replays of the merge commit are separated by a boot
   action, run with the diamond pipeline of recording items. *)

Definition ex_c0 := mkC 0 1500001000.
Definition ex_c1 := mkC 1 1500000010.
Definition ex_c2 := mkC 2 1500000020.
Definition ex_plan : list action :=
  [AOther KEmerge (Some ex_c0) [1%N]; ACommit ex_c0 [1%N]; AOther KHibernate (Some ex_c0) [1%N];
   AOther KEmerge (Some ex_c1) [2%N]; ACommit ex_c1 [2%N]; ACommit ex_c2 [2%N];
   AOther KBoot (Some ex_c2) [1%N]; ACommit ex_c2 [1%N]; AOther KMerge None [2%N; 1%N]].
Definition ex_items : list item :=
  [mkItem 0 [3%N] [] false false false; mkItem 1 [4%N] [3%N] true true false;
   mkItem 2 [5%N] [3%N] true false false; mkItem 3 [6%N] [4%N; 5%N] true true true].

Example C14_ex_plan_ok : plan_okb ex_plan = true.
Proof. vm_compute. reflexivity. Qed.

(* five commit steps with indices 0..4; the merge commit's two replays carry the flag, the others do not *)
Example C14_ex_flags :
  map (fun s => (c_id (cs_commit s), cs_branch s, cs_index s, cs_merge s, N.of_nat (length (cs_calls s))))
      (csteps (ro_recs (rec_run ex_items INone ex_plan 3))) =
  [(0, 1, 0, false, 4); (1, 2, 1, false, 4); (2, 2, 2, true, 4); (2, 1, 3, true, 4)]%N.
Proof. vm_compute. reflexivity. Qed.

Example C14_ex_done :
  match ro_out (rec_run ex_items INone ex_plan 3) with
  | Done fins s => s = mkSum 1500001000 1500001000 3 /\ length fins = 1
  | _ => False
  end.
Proof. vm_compute. auto. Qed.

(* an error of item 2 at commit index 2 and a missing output of item 1 at index 3 abort the run *)
Example C14_ex_error : ro_out (rec_run ex_items (IErr 2 2) ex_plan 3) = Failed (EConsume 2 1).
Proof. vm_compute. reflexivity. Qed.
Example C14_ex_missing : ro_out (rec_run ex_items (IMiss 1 3 4) ex_plan 3) = Failed (EMissing 1 4).
Proof. vm_compute. reflexivity. Qed.

(* the oracle that judges the implementation's log accepts the model's log of this run *)
Example C14_ex_oracle :
  log_ok N N.eqb false ex_plan ex_items ex_plan 0 (consume_log (ro_recs (rec_run ex_items INone ex_plan 3))) = true.
Proof. vm_compute. reflexivity. Qed.

(* ==== composition ==== *)
(* The plan predicates assumed above are discharged by the plan validators of C02/C04
   (coq/theories/Compose/PlanRun.v).  [back_plan q] reads a C14 plan in the plan syntax of coq/theories/Plan
   (hash -> commit number, branch id -> Go int, committer time forgotten); [c04_ok g p] =
   lifecycleb init p && nothing hibernated at the end && plan_ok g (erase_hb p) is what ./check C04 evaluates on
   every full plan of the real planner ([plan_ok] alone is C02's validator).  What neither validator inspects is
   the Commit field of plan[0]: it stays a hypothesis ([head_carriesb]: plan[0].Commit is not nil;
   [head_firstb]: it is the commit of the first commit action). *)
From Herc Require Import Compose.PlanRun.
From Herc Require Plan.Syntax Plan.Graph Plan.Checker Plan.Spec Plan.Lifecycle.

Theorem C14_plan_predicates_composed : forall (g : list (list nat)) (q : list action),
  Plan.Lifecycle.c04_ok g (back_plan q) = true ->
  liveb q = true /\ contigb q = true /\ distinctb q = true /\
  exists oc its r, q = AOther KEmerge oc its :: r.
Proof. exact validators_imply_predicates. Qed.
Print Assumptions C14_plan_predicates_composed.

Theorem C14_plan_okb_composed : forall (g : list (list nat)) (q : list action),
  Plan.Lifecycle.c04_ok g (back_plan q) = true -> head_firstb q = true -> plan_okb q = true.
Proof. exact plan_okb_composed. Qed.
Print Assumptions C14_plan_okb_composed.

(* C14_is_merge on validated plans, and what the flag means in terms of the commit graph: the flag an item sees
   is true exactly when the commit has at least two non-redundant parents (C02's [merge_commit]) *)
Theorem C14_is_merge_composed : forall (St U : Type) (sm : sem St U) (items : list item)
    (g : list (list nat)) (q : list action) (nc : N),
  Plan.Lifecycle.c04_ok g (back_plan q) = true -> head_carriesb q = true ->
  forall (i : nat) (s : cstep U), nth_error (ro_recs (run St U sm items q nc)) i = Some (RCommit s) ->
  (cs_merge s = true <-> 2 <= length (replay_branches q (c_id (cs_commit s)))) /\
  (cs_merge s = true <->
   exists q1 q2, q1 <> q2 /\ Plan.Graph.nonredundant g (N.to_nat (c_id (cs_commit s))) q1 /\
                 Plan.Graph.nonredundant g (N.to_nat (c_id (cs_commit s))) q2).
Proof. exact run_is_merge_composed. Qed.
Print Assumptions C14_is_merge_composed.

Theorem C14_once_in_order_composed : forall (St U : Type) (sm : sem St U) (items : list item)
    (g : list (list nat)) (q : list action) (nc : N),
  Plan.Lifecycle.c04_ok g (back_plan q) = true ->
  forall s : cstep U, In (RCommit s) (ro_recs (run St U sm items q nc)) ->
  map (fun c => (k_item c, k_desc c)) (cs_calls s) =
    firstn (length (cs_calls s)) (combine (seq 0 (length items)) items) /\
  (forallb complete (cs_calls s) = true -> length (cs_calls s) = length items).
Proof. exact run_order_composed. Qed.
Print Assumptions C14_once_in_order_composed.

(* C14_summary needs nothing but [head_firstb]: it stays as it is. *)

Theorem C14_oracle_accepts_model_composed : forall (St U : Type) (sm : sem St U) (items : list item)
    (g : list (list nat)) (q : list action) (nc : N),
  Plan.Lifecycle.c04_ok g (back_plan q) = true ->
  forall ueqb : U -> U -> bool, (forall u, ueqb u u = true) -> head_carriesb q = true ->
  forall early : bool,
  (early = true \/ match ro_out (run St U sm items q nc) with
                   | Done _ _ => True
                   | Failed (EConsume _ _) => True
                   | Failed (EMissing _ _) => True
                   | _ => False
                   end) ->
  log_ok U ueqb early q items q 0 (consume_log (ro_recs (run St U sm items q nc))) = true.
Proof. exact run_log_ok_composed. Qed.
Print Assumptions C14_oracle_accepts_model_composed.

(* non-vacuity: the real plan [ex_plan] above (two roots 0 and 1 merged by commit 2, hibernation distance 1) is
   accepted by the validator of C04 for its commit graph; and the validator is not trivially true *)
Example C14_ex_validated :
  Plan.Lifecycle.c04_ok [[]; []; [0; 1]] (back_plan ex_plan) = true /\
  head_firstb ex_plan = true /\ head_carriesb ex_plan = true /\
  Plan.Lifecycle.c04_ok [[]; []; [0; 1]] (back_plan (removelast ex_plan)) = false.
Proof. vm_compute. repeat split. Qed.
