module verifharness

go 1.23

require (
	github.com/gogo/protobuf v1.3.0
	github.com/sergi/go-diff v1.0.0
	github.com/src-d/enry/v2 v2.1.0
	gopkg.in/src-d/go-git.v4 v4.10.0
	gopkg.in/src-d/hercules.v10 v10.0.0
)

require (
	github.com/BurntSushi/toml v0.3.1 // indirect
	github.com/Jeffail/tunny v0.0.0-20180304204616-59cfa8fcb19f // indirect
	github.com/antchfx/xpath v0.0.0-20180922041825-3de91f3991a1 // indirect
	github.com/emirpasic/gods v1.9.0 // indirect
	github.com/golang/protobuf v1.2.0 // indirect
	github.com/grpc-ecosystem/grpc-opentracing v0.0.0-20180507213350-8e809c8a8645 // indirect
	github.com/jbenet/go-context v0.0.0-20150711004518-d14ea06fba99 // indirect
	github.com/kevinburke/ssh_config v0.0.0-20180830205328-81db2a75821e // indirect
	github.com/mcuadros/go-lookup v0.0.0-20171110082742-5650f26be767 // indirect
	github.com/minio/highwayhash v0.0.0-20180501080913-85fc8a2dacad // indirect
	github.com/mitchellh/go-homedir v1.0.0 // indirect
	github.com/opentracing/opentracing-go v1.0.2 // indirect
	github.com/pelletier/go-buffruneio v0.2.0 // indirect
	github.com/pkg/errors v0.8.0 // indirect
	github.com/smacker/go-tree-sitter v0.0.0-20191127230340-5368dabef05e // indirect
	github.com/spf13/cobra v0.0.3 // indirect
	github.com/spf13/pflag v1.0.3 // indirect
	github.com/src-d/gcfg v1.4.0 // indirect
	github.com/src-d/imports v0.0.0-20191128152346-bf22b73550b0 // indirect
	github.com/toqueteos/trie v1.0.0 // indirect
	github.com/xanzy/ssh-agent v0.2.0 // indirect
	golang.org/x/crypto v0.0.0-20180904163835-0709b304e793 // indirect
	golang.org/x/net v0.0.0-20180906233101-161cd47e91fd // indirect
	golang.org/x/sys v0.0.0-20190222072716-a9d3bda3a223 // indirect
	golang.org/x/text v0.3.0 // indirect
	google.golang.org/genproto v0.0.0-20180817151627-c66870c02cf8 // indirect
	google.golang.org/grpc v1.16.0 // indirect
	gopkg.in/bblfsh/client-go.v3 v3.2.0 // indirect
	gopkg.in/bblfsh/sdk.v1 v1.17.0 // indirect
	gopkg.in/bblfsh/sdk.v2 v2.14.1 // indirect
	gopkg.in/src-d/go-billy.v4 v4.2.1 // indirect
	gopkg.in/src-d/go-errors.v1 v1.0.0 // indirect
	gopkg.in/toqueteos/substring.v1 v1.0.2 // indirect
	gopkg.in/warnings.v0 v0.1.2 // indirect
)

replace gopkg.in/src-d/hercules.v10 => /repo

replace github.com/smacker/go-tree-sitter => github.com/dennwc/go-tree-sitter v0.0.0-20191127160809-cea124db9399
