Require Extraction.
Require Import ExtrOcamlBasic.
From Herc Require Import Base.Conv Combine.Model Combine.Spec Combine.FastOracles Plumbing.IdStr Plumbing.IdentityMerge.
Extraction "c18_model.ml" conv_anchor literal_merge common_merge tick_offsets devs_merge couples_merge bd_merge
  dv_conserve_b cp_sum_b sel_exact_b literal_b wf_table_b pm_rows_b code code_merge expected_code common_b
  members selected name_eqb bd_merge_repaired
  cp_sum_fast_b dv_conserve_fast_b
  merge_domb mtotal_okb mpointers_okb mcomponents_okb munion_okb.
