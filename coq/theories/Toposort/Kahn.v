From Coq Require Import List ZArith Lia Bool Permutation Sorting.Sorted.
Import ListNotations.
Open Scope Z_scope.

(* graph: association list node -> children in rank order; nodes are the keys, in any order *)
Notation graph := (list (Z * list Z)) (only parsing).

Fixpoint children (g : graph) (n : Z) : list Z :=
  match g with
  | [] => []
  | (m, cs) :: g' => if m =? n then cs else children g' n
  end.

Definition nodes (g : graph) : list Z := map fst g.

(* in-degree table as a function, computed once (Go: maintained by AddEdge) *)
Definition indeg (g : graph) (n : Z) : Z :=
  fold_right (fun '(_, cs) acc => acc + Z.of_nat (count_occ Z.eq_dec cs n)) 0 g.

(* one round of Kahn: ins is the current in-degree table *)
Definition dec (ins : Z -> Z) (m : Z) : Z -> Z := fun x => if x =? m then ins x - 1 else ins x.

(* process the children of the popped node in rank order *)
Fixpoint relax (ins : Z -> Z) (S : list Z) (ms : list Z) : (Z -> Z) * list Z :=
  match ms with
  | [] => (ins, S)
  | m :: ms' =>
      let ins' := dec ins m in
      if ins' m =? 0 then relax ins' (S ++ [m]) ms' else relax ins' S ms'
  end.

Fixpoint kahn (fuel : nat) (g : graph) (ins : Z -> Z) (S L : list Z) : (Z -> Z) * list Z :=
  match fuel with
  | O => (ins, L)
  | Datatypes.S fuel' =>
      match S with
      | [] => (ins, L)
      | n :: S' =>
          let '(ins', S'') := relax ins S' (children g n) in
          kahn fuel' g ins' S'' (L ++ [n])
      end
  end.

(* insertion sort of the seed set (Go: sort.Strings) *)
Fixpoint insert_sorted (x : Z) (l : list Z) : list Z :=
  match l with [] => [x] | y :: r => if x <=? y then x :: l else y :: insert_sorted x r end.
Definition sortZ (l : list Z) : list Z := fold_right insert_sorted [] l.

Definition toposort (g : graph) : list Z * bool :=
  let ins0 := indeg g in
  let S0 := sortZ (filter (fun n => ins0 n =? 0) (nodes g)) in
  let '(ins, L) := kahn (Datatypes.S (length g)) g ins0 S0 [] in
  (L, forallb (fun n => ins n =? 0) (nodes g)).

(* sanity: the Wikipedia example and a cycle *)
Example wiki : toposort [(2,[]); (3,[8;10]); (5,[11]); (7,[11;8]); (8,[9]); (9,[]); (10,[]); (11,[2;9;10])]
  = ([3; 5; 7; 11; 8; 2; 10; 9], true).
Proof. vm_compute. reflexivity. Qed.
Example cyc : snd (toposort [(1,[2]); (2,[3]); (3,[1])]) = false.
Proof. vm_compute. reflexivity. Qed.
