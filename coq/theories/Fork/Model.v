(* C08 - forked branches are isolated until they are merged.

   Definitions only (no proofs): this file is what is extracted and replayed against the Go code.

   Heap aliasing does not exist in Gallina.  The state of every pipeline item is therefore split
   EXPLICITLY into
     - a private part  P  (one value per branch copy) and
     - a shared part   S  (one value per pipeline, seen by every copy),
   and [fork] copies exactly the private part.  Which Go fields go where is decided by reading the
   [Fork] method of each item (docs/C08.md has the table); that the Go [Fork] really copies what is
   called private here is NOT provable in this setting - it is carried by the correspondence check
   (harness/cmd/c08: mutate one copy, snapshot EVERY copy after every step, compare each with its own
   model state).

   Instances (one per way of forking found in /repo):
     bd  BurndownAnalysis       leaves/burndown.go          hand-written Fork (allocator clone + shallow file clones)
     rb  Allocator + RBTrees    internal/rbtree/rbtree.go   Allocator.Clone / RBTree.CloneShallow / CloneDeep
     td  TreeDiff               plumbing/tree_diff.go       core.ForkCopyPipelineItem (value copy)
     bc  BlobCache              plumbing/blob_cache.go      hand-written Fork (map copy)
     tk  TicksSinceStart        plumbing/ticks.go           core.ForkCopyPipelineItem; tick0 and registry stay shared
     sm  items forked by core.ForkSamePipelineItem          everything shared, nothing private *)
From Coq Require Import ZArith List Bool.
Import ListNotations.
Open Scope Z_scope.

(* ------------------------------------------------------------------------------------------ *)
(* Generic branch machinery: P private, S shared, O operations (one Consume), R outputs.        *)

Section Generic.
  Variables (Pv Sh Op Rs : Type).
  Variable step : Op -> Pv -> Sh -> Pv * Sh * Rs.

  Record bstate : Type := BS { privs : list Pv; shd : Sh }.

  Fixpoint upd (i : nat) (x : Pv) (l : list Pv) : list Pv :=
    match l with
    | [] => []
    | h :: t => match i with O => x :: t | Datatypes.S i' => h :: upd i' x t end
    end.

  (* Consume on branch copy i.  A copy that does not exist: nothing happens. *)
  Definition step_on (i : nat) (o : Op) (bs : bstate) : bstate * option Rs :=
    match nth_error (privs bs) i with
    | None => (bs, None)
    | Some p => let '(p', s', r) := step o p (shd bs) in (BS (upd i p' (privs bs)) s', Some r)
    end.

  (* Fork(n) of copy i: n new copies, appended; each starts with the private state of the origin;
     the origin stays; the shared part is not touched (core/pipeline.go runActionFork, forks.go cloneItems). *)
  Definition fork (i n : nat) (bs : bstate) : bstate :=
    match nth_error (privs bs) i with
    | None => bs
    | Some p => BS (privs bs ++ repeat p n) (shd bs)
    end.

  Inductive act : Type := AStep (i : nat) (o : Op) | AFork (i n : nat).

  Definition do_act (a : act) (bs : bstate) : bstate * option Rs :=
    match a with
    | AStep i o => step_on i o bs
    | AFork i n => (fork i n bs, None)
    end.

  Fixpoint run (acts : list act) (bs : bstate) : bstate * list (option Rs) :=
    match acts with
    | [] => (bs, [])
    | a :: r => let (bs1, o1) := do_act a bs in
                let (bs2, os) := run r bs1 in (bs2, o1 :: os)
    end.

  (* does the action consume a commit on copy j? *)
  Definition steps_on (j : nat) (a : act) : bool :=
    match a with AStep i _ => Nat.eqb i j | AFork _ _ => false end.

  (* the operations / outputs of copy j inside an interleaved run *)
  Fixpoint ops_of (j : nat) (acts : list act) : list Op :=
    match acts with
    | [] => []
    | AStep i o :: r => if Nat.eqb i j then o :: ops_of j r else ops_of j r
    | AFork _ _ :: r => ops_of j r
    end.

  Fixpoint outs_of (j : nat) (acts : list act) (outs : list (option Rs)) : list Rs :=
    match acts, outs with
    | AStep i _ :: r, Some x :: os => if Nat.eqb i j then x :: outs_of j r os else outs_of j r os
    | _ :: r, _ :: os => outs_of j r os
    | _, _ => []
    end.

  (* a private, never forked instance consuming a sequence on its own *)
  Fixpoint solo (ops : list Op) (p : Pv) (s : Sh) : Pv * Sh * list Rs :=
    match ops with
    | [] => (p, s, [])
    | o :: r => let '(p1, s1, x) := step o p s in
                let '(p2, s2, xs) := solo r p1 s1 in (p2, s2, x :: xs)
    end.
End Generic.

Arguments BS {Pv Sh} _ _.
Arguments privs {Pv Sh} _.
Arguments shd {Pv Sh} _.
Arguments AStep {Op} _ _.
Arguments AFork {Op} _ _.

(* The same thing packaged as a record, so that theorems can quantify over "every item". *)
Record Item : Type := MkItem {
  it_priv : Type; it_shared : Type; it_op : Type; it_out : Type;
  it_step : it_op -> it_priv -> it_shared -> it_priv * it_shared * it_out
}.

(* ------------------------------------------------------------------------------------------ *)
(* Small finite maps: association lists with Z keys, kept sorted by key (canonical).           *)

Fixpoint mget {A} (k : Z) (m : list (Z * A)) : option A :=
  match m with
  | [] => None
  | (k', v) :: t => if k =? k' then Some v else mget k t
  end.

Fixpoint mset {A} (k : Z) (v : A) (m : list (Z * A)) : list (Z * A) :=
  match m with
  | [] => [(k, v)]
  | (k', v') :: t => if k =? k' then (k, v) :: t
                     else if k <? k' then (k, v) :: (k', v') :: t
                     else (k', v') :: mset k v t
  end.

Fixpoint mdel {A} (k : Z) (m : list (Z * A)) : list (Z * A) :=
  match m with
  | [] => []
  | (k', v') :: t => if k =? k' then t else (k', v') :: mdel k t
  end.

Definition mmem {A} (k : Z) (m : list (Z * A)) : bool :=
  match mget k m with Some _ => true | None => false end.

(* sets of Z as sorted lists *)
Fixpoint sadd (k : Z) (s : list Z) : list Z :=
  match s with
  | [] => [k]
  | h :: t => if k =? h then s else if k <? h then k :: s else h :: sadd k t
  end.
Fixpoint sdel (k : Z) (s : list Z) : list Z :=
  match s with [] => [] | h :: t => if k =? h then t else h :: sdel k t end.
Fixpoint smem (k : Z) (s : list Z) : bool :=
  match s with [] => false | h :: t => if k =? h then true else smem k t end.

(* accumulators: (key tuple) -> sum; order of first appearance (the driver sorts before comparing) *)
Fixpoint zs_eqb (a b : list Z) : bool :=
  match a, b with
  | [], [] => true
  | x :: a', y :: b' => (x =? y) && zs_eqb a' b'
  | _, _ => false
  end.

Fixpoint acc_add (k : list Z) (d : Z) (m : list (list Z * Z)) : list (list Z * Z) :=
  match m with
  | [] => [(k, d)]
  | (k', v) :: t => if zs_eqb k k' then (k', v + d) :: t else (k', v) :: acc_add k d t
  end.

(* ------------------------------------------------------------------------------------------ *)
(* bd: BurndownAnalysis (leaves/burndown.go).

   Fork (burndown.go:404):  clone := *analyser            every field copied by value, i.e.
                                                          scalars become private, maps/slices stay shared
                            clone.files = new map         private
                            clone.fileAllocator = Clone() private
                            files[k] = CloneShallow(...)  private (the updaters slice of a File is shared and
                                                          bound to the ORIGIN analyser, whose accumulators
                                                          are the shared ones anyway)
   private: files (path -> line values; a File is modelled by its flattened array), tick, previousTick,
            mergedAuthor, mergedFiles (the map pointer is copied; Consume REPLACES the map on every merge
            commit before writing to it and never writes to it otherwise, so its content behaves as
            private - checked by the harness),
   shared:  globalHistory, peopleHistories, matrix (accumulators), deletions, renames (bookkeeping),
            fileHistories (TrackFiles on; only which paths have a history is modelled: that is what
            handleRename reads). *)

Definition MARK : Z := 16383.                 (* burndown.TreeMergeMark *)
Definition MAXU32 : Z := 4294967295.
Definition AUTHOR_MISSING : Z := 262142.      (* identity.AuthorMissing = (1<<18)-2 *)
Definition AUTHOR_SELF : Z := 262141.         (* authorSelf = AuthorMissing-1 *)

Record bd_priv : Type := BP {
  bp_files : list (Z * list Z);
  bp_tick : Z; bp_prev_tick : Z; bp_merged_author : Z;
  bp_merged_files : list (Z * bool)
}.

Record bd_shared : Type := BSh {
  bs_global : list (list Z * Z);      (* (curTick, prevTick) -> delta *)
  bs_people : list (list Z * Z);      (* (author, curTick, prevTick) -> delta *)
  bs_matrix : list (list Z * Z);      (* (oldAuthor, newAuthor) -> delta *)
  bs_deletions : list Z;
  bs_renames : list (Z * Z);          (* from -> to; 0 stands for "" (paths are >= 1) *)
  bs_filehist : list Z                (* keys of fileHistories (TrackFiles on); the histories themselves,
                                         one object per tracked file, are not modelled *)
}.

Inductive dkind : Type := DEq | DIns | DDel.

Inductive change : Type :=
| CIns (name lines : Z) (bin : bool)
| CDel (name lines : Z) (bin : bool)
| CMod (from to_ : Z) (flines : Z) (fbin : bool) (tlines : Z) (tbin : bool)
       (oldl newl : Z) (diffs : list (dkind * Z)).

Inductive bd_op : Type := BCommit (author tick : Z) (is_merge : bool) (chs : list change).

Inductive bd_out : Type := BOk | BErr | BPanic.

Inductive res (A : Type) : Type := ROk (a : A) | RErr | RPanic.
Arguments ROk {A} _.
Arguments RErr {A}.
Arguments RPanic {A}.

Section Burndown.
  Variable people : bool.      (* PeopleNumber > 0 *)
  Variable track : bool.       (* TrackFiles *)

  (* packPersonWithTick / unpackPersonWithTick *)
  Definition pack (author tick : Z) : Z :=
    if people then Z.lor (Z.land tick MARK) (Z.shiftl author 14) else tick.
  Definition unpack_tick (v : Z) : Z := if people then Z.land v MARK else v.
  Definition unpack_author (v : Z) : Z := if people then Z.shiftr v 14 else AUTHOR_MISSING.

  (* File.updateTime followed by the updaters updateGlobal / updateAuthor / updateMatrix.
     None = panic("previousTime cannot be TreeMergeMark"). *)
  Definition report (cur prev delta : Z) (s : bd_shared) : option bd_shared :=
    if Z.land prev MARK =? MARK then (if cur =? prev then Some s else None)
    else if Z.land cur MARK =? MARK then Some s
    else
      let ct := unpack_tick cur in let pt := unpack_tick prev in
      let g := acc_add [ct; pt] delta (bs_global s) in
      if people then
        let pa := unpack_author prev in
        if pa =? AUTHOR_MISSING then Some (BSh g (bs_people s) (bs_matrix s) (bs_deletions s) (bs_renames s) (bs_filehist s))
        else
          let na := unpack_author cur in
          let na' := if (na =? pa) && (0 <? delta) then AUTHOR_SELF else na in
          Some (BSh g (acc_add [pa; ct; pt] delta (bs_people s)) (acc_add [pa; na'] delta (bs_matrix s))
                    (bs_deletions s) (bs_renames s) (bs_filehist s))
      else Some (BSh g (bs_people s) (bs_matrix s) (bs_deletions s) (bs_renames s) (bs_filehist s)).

  Fixpoint report_deleted (t : Z) (dl : list Z) (s : bd_shared) : option bd_shared :=
    match dl with
    | [] => Some s
    | v :: r => match report t v (-1) s with None => None | Some s1 => report_deleted t r s1 end
    end.

  Definition zlen (l : list Z) : Z := Z.of_nat (length l).
  Definition ztake (n : Z) (l : list Z) : list Z := firstn (Z.to_nat n) l.
  Definition zdrop (n : Z) (l : list Z) : list Z := skipn (Z.to_nat n) l.
  Definition zrep (v n : Z) : list Z := repeat v (Z.to_nat n).

  (* File.Update seen on the flattened array (that the tracker refines the array is C03). *)
  Definition arr_update (t pos ins del : Z) (a : list Z) (s : bd_shared) : res (list Z * bd_shared) :=
    if (t <? 0) || (MAXU32 <=? t) || (pos <? 0) || (MAXU32 <? pos) || (ins <? 0) || (del <? 0)
       || (MAXU32 <? ins) || (MAXU32 <? del) then RPanic
    else if (ins =? 0) && (del =? 0) then ROk (a, s)
    else if zlen a <? pos then RPanic
    else
      match (if 0 <? ins then report t t ins s else Some s) with
      | None => RPanic
      | Some s1 =>
        if del =? 0 then ROk (ztake pos a ++ zrep t ins ++ zdrop pos a, s1)
        else if zlen a <? pos + del then RPanic
        else match report_deleted t (ztake del (zdrop pos a)) s1 with
             | None => RPanic
             | Some s2 => ROk (ztake pos a ++ zrep t ins ++ zdrop (pos + del) a, s2)
             end
      end.

  Definition set_files (p : bd_priv) (f : list (Z * list Z)) : bd_priv :=
    BP f (bp_tick p) (bp_prev_tick p) (bp_merged_author p) (bp_merged_files p).
  Definition set_merged (p : bd_priv) (m : list (Z * bool)) : bd_priv :=
    BP (bp_files p) (bp_tick p) (bp_prev_tick p) (bp_merged_author p) m.
  Definition set_deletions (s : bd_shared) (d : list Z) : bd_shared :=
    BSh (bs_global s) (bs_people s) (bs_matrix s) d (bs_renames s) (bs_filehist s).
  Definition set_renames (s : bd_shared) (r : list (Z * Z)) : bd_shared :=
    BSh (bs_global s) (bs_people s) (bs_matrix s) (bs_deletions s) r (bs_filehist s).
  Definition set_filehist (s : bd_shared) (f : list Z) : bd_shared :=
    BSh (bs_global s) (bs_people s) (bs_matrix s) (bs_deletions s) (bs_renames s) f.

  (* handleInsertion: the To blob has [lines] lines or is binary *)
  Definition handle_insertion (author name lines : Z) (bin : bool) (p : bd_priv) (s : bd_shared)
    : res (bd_priv * bd_shared) :=
    if bin then ROk (p, s)
    else if mmem name (bp_files p) then RErr
    else
      let v := pack author (bp_tick p) in
      (* NewFile: updateTime(v, v, lines), then the range guards *)
      match report v v lines s with
      | None => RPanic
      | Some s1 =>
        if (v <? 0) || (MAXU32 <? v) || (MAXU32 <? lines) then RPanic
        else
          let p1 := set_files p (mset name (zrep v lines) (bp_files p)) in
          let s1' := if track then set_filehist s1 (sadd name (bs_filehist s1)) else s1 in   (* newFile *)
          let s2 := set_deletions s1' (sdel name (bs_deletions s1')) in
          let p2 := if bp_tick p =? MARK then set_merged p1 (mset name true (bp_merged_files p1)) else p1 in
          ROk (p2, s2)
      end.

  (* the stack walk of handleDeletion over the shared renames map: every key that reaches [name]
     through a chain of renames is reset to "" (0).  Fuel = number of entries + 1 rounds. *)
  Fixpoint renames_mark (heads : list Z) (m : list (Z * Z)) : list (Z * Z) * list Z :=
    match m with
    | [] => ([], [])
    | (k, v) :: t =>
      let (t', more) := renames_mark heads t in
      if smem v heads && negb (v =? 0) then ((k, 0) :: t', k :: more) else ((k, v) :: t', more)
    end.
  Fixpoint renames_walk (fuel : nat) (heads : list Z) (m : list (Z * Z)) : list (Z * Z) :=
    match fuel with
    | O => m
    | Datatypes.S f =>
      let (m', more) := renames_mark heads m in
      match more with [] => m' | _ => renames_walk f more m' end
    end.

  (* handleDeletion for the path [name]; the From blob has [lines] lines or is binary *)
  Definition handle_deletion (author name lines : Z) (bin : bool) (p : bd_priv) (s : bd_shared)
    : res (bd_priv * bd_shared) :=
    match mget name (bp_files p) with
    | None => ROk (p, s)
    | Some a =>
      if bin then RErr
      else
        let tick := if (bp_tick p =? MARK) && negb (smem name (bs_deletions s)) then 0 else bp_tick p in
        let s1 := set_deletions s (sadd name (bs_deletions s)) in
        match arr_update (pack author tick) 0 0 lines a s1 with
        | RPanic => RPanic
        | RErr => RErr
        | ROk (_, s2) =>
          let p1 := set_files p (mdel name (bp_files p)) in
          let s2' := set_filehist s2 (sdel name (bs_filehist s2)) in
          let rn := mset name 0 (bs_renames s2') in
          let s3 := set_renames s2' (renames_walk (Datatypes.S (length rn)) [name] rn) in
          let p2 := if bp_tick p =? MARK then set_merged p1 (mset name false (bp_merged_files p1)) else p1 in
          ROk (p2, s3)
        end
    end.

  (* the walk of handleRename along the shared renames map when the renamed file has no history of its
     own (a future branch already renamed or deleted it): Some r = the chain ends at r (0 = ""), None = a
     cycle (then any known path with a history is taken, or a fresh history) *)
  Fixpoint rename_chain (fuel : nat) (known : list Z) (fr : Z) (nr : option Z) (m : list (Z * Z)) : option Z :=
    match fuel with
    | O => Some fr
    | Datatypes.S f =>
      match nr with
      | None => Some fr
      | Some n =>
        let nr' := mget n m in
        let nrv := match nr' with Some x => x | None => 0 end in
        if existsb (fun k => k =? nrv) known then None
        else rename_chain f (n :: known) n nr' m
      end
    end.

  (* handleRename; [from] is known to exist in files *)
  Definition handle_rename (from to_ : Z) (a : list Z) (p : bd_priv) (s : bd_shared) : res (bd_priv * bd_shared) :=
    if from =? to_ then ROk (p, s)
    else
      let p1 := set_files p (mset to_ a (mdel from (bp_files p))) in
      let s1 := set_deletions s (sdel to_ (bs_deletions s)) in
      let p2 := if bp_tick p =? MARK then set_merged p1 (mset from false (bp_merged_files p1)) else p1 in
      let fin (s2 : bd_shared) := ROk (p2, set_renames s2 (mset from to_ (bs_renames s2))) in
      if track then
        let moved := set_filehist s1 (sadd to_ (sdel from (bs_filehist s1))) in
        if smem from (bs_filehist s1) then fin moved
        else if mmem 0 (bs_renames s1) then RPanic                 (* "burndown renames tracking corruption" *)
        else match rename_chain (Datatypes.S (Datatypes.S (length (bs_renames s1)))) [from] 0
                                (mget from (bs_renames s1)) (bs_renames s1) with
             | None => fin moved
             | Some r => if (r =? 0) || smem r (bs_filehist s1) then fin moved else RErr
             end
      else fin s1.

  (* the edit loop of handleModification; pending = a non-empty pending edit *)
  Fixpoint apply_diffs (v : Z) (ds : list (dkind * Z)) (pos : Z) (pending : option (dkind * Z))
           (a : list Z) (s : bd_shared) : res (list Z * bd_shared) :=
    let apply (e : dkind * Z) (k : Z -> list Z -> bd_shared -> res (list Z * bd_shared)) :=
      match e with
      | (DIns, len) => match arr_update v pos len 0 a s with
                       | ROk (a1, s1) => k (pos + len) a1 s1 | RErr => RErr | RPanic => RPanic end
      | (_, len) => match arr_update v pos 0 len a s with
                    | ROk (a1, s1) => k pos a1 s1 | RErr => RErr | RPanic => RPanic end
      end in
    match ds with
    | [] => match pending with
            | Some e => apply e (fun _ a1 s1 => ROk (a1, s1))
            | None => ROk (a, s)
            end
    | (DEq, len) :: r =>
      match pending with
      | Some e => apply e (fun pos1 a1 s1 => apply_diffs v r (pos1 + len) None a1 s1)
      | None => apply_diffs v r (pos + len) None a s
      end
    | (DIns, len) :: r =>
      match pending with
      | Some (DIns, _) => RErr
      | Some (_, plen) =>
        match arr_update v pos len plen a s with
        | ROk (a1, s1) => apply_diffs v r (pos + len) None a1 s1 | RErr => RErr | RPanic => RPanic
        end
      | None => apply_diffs v r pos (if 0 <? len then Some (DIns, len) else None) a s
      end
    | (DDel, len) :: r =>
      match pending with
      | Some _ => RErr
      | None => apply_diffs v r pos (if 0 <? len then Some (DDel, len) else None) a s
      end
    end.

  Definition handle_modification (author : Z) (c : change) (p : bd_priv) (s : bd_shared)
    : res (bd_priv * bd_shared) :=
    match c with
    | CMod from to_ flines fbin tlines tbin oldl newl diffs =>
      let p0 := if bp_tick p =? MARK then set_merged p (mset to_ true (bp_merged_files p)) else p in
      match mget from (bp_files p0) with
      | None => handle_insertion author to_ tlines tbin p0 s
      | Some a =>
        match handle_rename from to_ a p0 s with
        | RErr => RErr
        | RPanic => RPanic
        | ROk (p1, s1) =>
        if negb (Bool.eqb fbin tbin) then
          if fbin then handle_insertion author to_ tlines tbin p1 s1
          else handle_deletion author to_ flines fbin p1 s1
        else if fbin then ROk (p1, s1)
        else if negb (zlen a =? oldl) then RErr
        else
          match apply_diffs (pack author (bp_tick p1)) diffs 0 None a s1 with
          | RErr => RErr
          | RPanic => RPanic
          | ROk (a2, s2) =>
            let p2 := set_files p1 (mset to_ a2 (bp_files p1)) in
            if negb (zlen a2 =? newl) then RErr else ROk (p2, s2)
          end
        end
      end
    | _ => RErr
    end.

  Fixpoint handle_changes (author : Z) (chs : list change) (p : bd_priv) (s : bd_shared)
    : res (bd_priv * bd_shared) :=
    match chs with
    | [] => ROk (p, s)
    | c :: r =>
      let one := match c with
                 | CIns name lines bin => handle_insertion author name lines bin p s
                 | CDel name lines bin => handle_deletion author name lines bin p s
                 | CMod _ _ _ _ _ _ _ _ _ => handle_modification author c p s
                 end in
      match one with
      | ROk (p1, s1) => handle_changes author r p1 s1
      | RErr => RErr
      | RPanic => RPanic
      end
    end.

  (* BurndownAnalysis.Consume.  On an error or a panic the Go object is left half-updated; the model
     returns the state before the call and the harness stops using that copy (the run ends). *)
  Definition bd_step (o : bd_op) (p : bd_priv) (s : bd_shared) : bd_priv * bd_shared * bd_out :=
    match o with
    | BCommit author tick is_merge chs =>
      let p0 := if is_merge
                then BP (bp_files p) MARK (bp_prev_tick p) author []
                else BP (bp_files p) tick (if bp_prev_tick p <? tick then tick else bp_prev_tick p)
                        AUTHOR_MISSING (bp_merged_files p) in
      match handle_changes author chs p0 s with
      | ROk (p1, s1) =>
        (BP (bp_files p1) tick (bp_prev_tick p1) (bp_merged_author p1) (bp_merged_files p1), s1, BOk)
      | RErr => (p, s, BErr)
      | RPanic => (p, s, BPanic)
      end
    end.

  Definition bd_init_priv : bd_priv := BP [] 0 0 AUTHOR_MISSING [].
  Definition bd_init_shared : bd_shared := BSh [] [] [] [] [] [].
  Definition bd_init : bstate bd_priv bd_shared := BS [bd_init_priv] bd_init_shared.
  Definition bd_do (a : act bd_op) (bs : bstate bd_priv bd_shared) := do_act _ _ _ _ bd_step a bs.
End Burndown.

Definition bd_item (people track : bool) : Item := MkItem bd_priv bd_shared bd_op bd_out (bd_step people track).

(* ------------------------------------------------------------------------------------------ *)
(* rb: one Allocator with its trees (internal/rbtree/rbtree.go).  Allocator.Clone copies storage and
   gaps; RBTree.CloneShallow copies the header and points it to the cloned allocator.
   private: everything (the arena and every tree header).  shared: nothing.
   A tree is modelled by its in-order item list (that the arena tree is that list is C05). *)

Notation tree := (list (Z * Z)) (only parsing).

Record rb_priv : Type := RP { rp_touched : bool; rp_trees : list (list (Z * Z)) }.

Inductive rb_op : Type :=
| RNew                                  (* NewRBTree on this allocator *)
| RInsert (t : nat) (k v : Z)           (* Insert: a no-op when the key exists *)
| RDelete (t : nat) (k : Z)             (* DeleteWithKey *)
| RErase (t : nat)                      (* Erase *)
| RDeep (t : nat).                      (* CloneDeep into the same allocator, appended as a new tree *)

Fixpoint updt (i : nat) (x : list (Z * Z)) (l : list (list (Z * Z))) : list (list (Z * Z)) :=
  match l with
  | [] => []
  | h :: t => match i with O => x :: t | Datatypes.S i' => h :: updt i' x t end
  end.

Definition tree_insert (k v : Z) (t : list (Z * Z)) : list (Z * Z) :=
  if mmem k t then t else mset k v t.

Definition rb_step (o : rb_op) (p : rb_priv) (s : unit) : rb_priv * unit * bool :=
  match o with
  | RNew => (RP (rp_touched p) (rp_trees p ++ [[]]), s, true)
  | RInsert t k v =>
    match nth_error (rp_trees p) t with
    | None => (p, s, false)
    | Some tr => (RP (rp_touched p || negb (mmem k tr)) (updt t (tree_insert k v tr) (rp_trees p)), s, negb (mmem k tr))
    end
  | RDelete t k =>
    match nth_error (rp_trees p) t with
    | None => (p, s, false)
    | Some tr => (RP (rp_touched p) (updt t (mdel k tr) (rp_trees p)), s, mmem k tr)
    end
  | RErase t =>
    match nth_error (rp_trees p) t with
    | None => (p, s, false)
    | Some tr => (RP (rp_touched p) (updt t [] (rp_trees p)), s, true)
    end
  | RDeep t =>
    match nth_error (rp_trees p) t with
    | None => (p, s, false)
    | Some tr => (RP (rp_touched p || negb (Nat.eqb (length tr) 0)) (rp_trees p ++ [tr]), s, true)
    end
  end.

(* Allocator.Used(): the reserved cell 0 exists once anything was ever allocated *)
Definition rb_used (p : rb_priv) : Z :=
  (if rp_touched p then 1 else 0) + Z.of_nat (length (concat (rp_trees p))).

Definition rb_init : bstate rb_priv unit := BS [RP false []] tt.
Definition rb_do (a : act rb_op) (bs : bstate rb_priv unit) := do_act _ _ _ _ rb_step a bs.
Definition rb_item : Item := MkItem rb_priv unit rb_op bool rb_step.

(* ------------------------------------------------------------------------------------------ *)
(* Commits of a synthetic repository, as the plumbing items see them. *)

Record commit : Type := Commit {
  c_id : Z;                       (* >= 1; 0 stands for plumbing.ZeroHash *)
  c_parents : list Z;
  c_time : Z;                     (* committer time, seconds *)
  c_tree : list (Z * Z)           (* path id -> blob id, sorted by path id *)
}.

(* td: TreeDiff (plumbing/tree_diff.go), no filters.  Fork = ForkCopyPipelineItem.
   private: previousTree (pointer to an immutable tree; Consume replaces it), previousCommit.
   shared:  configuration only (SkipFiles, NameFilter, Languages, repository): never written by Consume. *)

Record td_priv : Type := TP { tp_tree : option (list (Z * Z)); tp_commit : Z }.

Inductive tchange : Type :=
| TIns (path blob : Z) | TDel (path blob : Z) | TMod (path from to_ : Z).

(* both trees sorted by path: a merge walk, fuel = total length *)
Fixpoint diff_trees (fuel : nat) (a b : list (Z * Z)) : list tchange :=
  match fuel with
  | O => []
  | Datatypes.S f =>
    match a, b with
    | [], [] => []
    | (p, x) :: a', [] => TDel p x :: diff_trees f a' []
    | [], (q, y) :: b' => TIns q y :: diff_trees f [] b'
    | (p, x) :: a', (q, y) :: b' =>
      if p =? q then (if x =? y then diff_trees f a' b' else TMod p x y :: diff_trees f a' b')
      else if p <? q then TDel p x :: diff_trees f a' b
      else TIns q y :: diff_trees f a b'
    end
  end.

Definition td_step (c : commit) (p : td_priv) (s : unit) : td_priv * unit * option (list tchange) :=
  if negb (existsb (fun h => h =? tp_commit p) (c_parents c)) && negb (tp_commit p =? 0)
  then (p, s, None)                                   (* "<previous> > <commit>" error *)
  else
    let diffs := match tp_tree p with
                 | Some prev => diff_trees (length prev + length (c_tree c)) prev (c_tree c)
                 | None => map (fun e => TIns (fst e) (snd e)) (c_tree c)
                 end in
    (TP (Some (c_tree c)) (c_id c), s, Some diffs).

Definition td_item : Item := MkItem td_priv unit commit (option (list tchange)) td_step.

(* bc: BlobCache (plumbing/blob_cache.go).  Fork builds a new BlobCache with a copy of the cache map.
   private: cache (set of blob hashes; the blobs themselves are immutable and shared by pointer).
   shared:  repository, FailOnMissingSubmodules (configuration). *)

Definition bc_step (chs : list tchange) (cache : list Z) (s : unit) : list Z * unit * list Z :=
  let out := fold_left (fun acc ch => match ch with
                                      | TIns _ b => sadd b acc
                                      | TDel _ b => sadd b acc
                                      | TMod _ f t => sadd f (sadd t acc)
                                      end) chs [] in
  let new := fold_left (fun acc ch => match ch with
                                      | TIns _ b => sadd b acc
                                      | TDel _ _ => acc
                                      | TMod _ _ t => sadd t acc
                                      end) chs [] in
  (new, s, out).

Definition bc_item : Item := MkItem (list Z) unit (list tchange) (list Z) bc_step.

(* tk: TicksSinceStart (plumbing/ticks.go).  Fork = ForkCopyPipelineItem.
   private: previousTick (an int, copied by value).
   shared:  tick0 (a *time.Time: the pointer is copied), commits (the tick -> hashes registry, a map). *)

Record tk_shared : Type := TS { ts_tick0 : Z; ts_commits : list (Z * list Z) }.

(* FloorTime rounds down to a multiple of the tick size counted from Go's zero time (1 Jan of year 1, UTC) *)
Definition GO_ZERO_UNIX : Z := -62135596800.

Definition tk_step (size : Z) (o : commit * Z) (prev : Z) (s : tk_shared) : Z * tk_shared * Z :=
  let (c, index) := o in
  let t0 := if index =? 0 then c_time c - (c_time c - GO_ZERO_UNIX) mod size else ts_tick0 s in
  let tick0 := Z.quot (c_time c - t0) size in
  let tick := if tick0 <? prev then prev else tick0 in
  let tc := match mget tick (ts_commits s) with Some l => l | None => [] end in
  let exists_ := match c_parents c with [] => false | _ => existsb (fun h => h =? c_id c) tc end in
  let reg := if exists_ then ts_commits s else mset tick (tc ++ [c_id c]) (ts_commits s) in
  (tick, TS t0 reg, tick).

Definition tk_item (size : Z) : Item := MkItem Z tk_shared (commit * Z) Z (tk_step size).

(* the three plumbing items of one branch, chained as in the pipeline:
   TreeDiff -> BlobCache (consumes the changes) and TicksSinceStart *)
Record pl_priv : Type := PP { pp_td : td_priv; pp_bc : list Z; pp_tk : Z }.
Record pl_out : Type := PO { po_changes : option (list tchange); po_cache : list Z; po_tick : Z }.

Definition pl_step (size : Z) (o : commit * Z) (p : pl_priv) (s : tk_shared) : pl_priv * tk_shared * pl_out :=
  let '(td', _, chs) := td_step (fst o) (pp_td p) tt in
  match chs with
  | None => (p, s, PO None [] 0)                      (* the pipeline stops at the first error *)
  | Some l =>
    let '(bc', _, cache) := bc_step l (pp_bc p) tt in
    let '(tk', s', tick) := tk_step size o (pp_tk p) s in
    (PP td' bc' tk', s', PO (Some l) cache tick)
  end.

Definition pl_init : bstate pl_priv tk_shared := BS [PP (TP None 0) [] 0] (TS 0 []).
Definition pl_do (size : Z) (a : act (commit * Z)) (bs : bstate pl_priv tk_shared) :=
  do_act _ _ _ _ (pl_step size) a bs.
Definition pl_item (size : Z) : Item := MkItem pl_priv tk_shared (commit * Z) pl_out (pl_step size).

(* sm: an item forked with core.ForkSamePipelineItem: every copy IS the origin.  Nothing is private;
   whatever the item remembers between two Consume calls is shared by all branches.  (docs/C08.md lists
   the built-in items of this kind and what each of them keeps.) *)
Section Same.
  Variables (St Op Rs : Type) (consume : Op -> St -> St * Rs).
  Definition sm_step (o : Op) (p : unit) (s : St) : unit * St * Rs :=
    let (s', r) := consume o s in (tt, s', r).
  Definition sm_item : Item := MkItem unit St Op Rs sm_step.
End Same.
