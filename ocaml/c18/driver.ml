let () = ()
