// Harness for C15: drives the real internal/toposort.Graph with generated operation sequences and
// records everything it returns.
package main

import (
	"fmt"
	"sort"
	"strconv"

	"gopkg.in/src-d/hercules.v10/verifapi"
	. "verifharness/lib"
)

func name(i int) string { return fmt.Sprintf("n%05d", i) }

func unname(s string) int {
	if s == "" {
		return -1
	}
	i, err := strconv.Atoi(s[1:])
	if err != nil {
		panic(err)
	}
	return i
}

func unnames(l []string) []int {
	r := make([]int, len(l))
	for i, s := range l {
		r[i] = unname(s)
	}
	return r
}

type op struct {
	kind string
	a, b int
}

func (o op) sx() Sx {
	switch o.kind {
	case "addedge", "rmedge":
		return T(o.kind, I(o.a), I(o.b))
	case "sort":
		return T(o.kind)
	default:
		return T(o.kind, I(o.a))
	}
}

func parseOp(s Sx) op {
	o := op{kind: s.Tag()}
	args := s.Args()
	if len(args) > 0 {
		o.a = args[0].Int()
	}
	if len(args) > 1 {
		o.b = args[1].Int()
	}
	return o
}

// sortOnCopy runs Toposort on a fresh copy (Toposort consumes the graph).
func sortOnCopy(g *verifapi.Graph) Sx {
	var l []string
	var ok bool
	msg, p := Catch(func() { l, ok = g.Copy().Toposort() })
	if p {
		_ = msg
		return T("panic")
	}
	return T("sorted", B(ok), Ints(unnames(l)))
}

// apply one mutating operation; ok=false for queries
func apply(g *verifapi.Graph, o op) (Sx, bool) {
	switch o.kind {
	case "addnode":
		return T("b", B(g.AddNode(name(o.a)))), true
	case "addedge":
		return T("i", I(g.AddEdge(name(o.a), name(o.b)))), true
	case "rmedge":
		return T("b", B(g.RemoveEdge(name(o.a), name(o.b)))), true
	case "reindex":
		g.ReindexNode(name(o.a))
		return T("u"), true
	}
	return Sx{}, false
}

func runCase(ops []op) (obs []Sx) {
	g := verifapi.NewGraph()
	var prefix []op // the mutating operations so far
	for _, o := range ops {
		if r, ok := apply(g, o); ok {
			obs = append(obs, r)
			prefix = append(prefix, o)
			continue
		}
		switch o.kind {
		case "sort":
			// several runs on independent copies: Go randomises map iteration per range loop, so a
			// dependence on map order shows up as differing answers
			first := sortOnCopy(g)
			res := first
			for k := 0; k < 4; k++ {
				again := sortOnCopy(g)
				if again.String() != first.String() {
					res = T("nondet", first, again)
					break
				}
			}
			// "equal inputs give equal orders": rebuild the graph from the same operation sequence
			// (AddEdge / ReindexNode iterate maps too) and sort again
			for k := 0; k < 3 && res.Tag() != "nondet"; k++ {
				g2 := verifapi.NewGraph()
				for _, p := range prefix {
					apply(g2, p)
				}
				again := sortOnCopy(g2)
				if again.String() != first.String() {
					res = T("nondet", first, again)
				}
			}
			obs = append(obs, res)
		case "children":
			obs = append(obs, T("l", Ints(unnames(g.FindChildren(name(o.a))))))
		case "parents":
			ps := unnames(g.FindParents(name(o.a)))
			sort.Ints(ps)
			obs = append(obs, T("l", Ints(ps)))
		case "cycle":
			obs = append(obs, T("cycle", Ints(unnames(g.FindCycle(name(o.a))))))
		default:
			panic("unknown op " + o.kind)
		}
	}
	return
}

func emit(c *Config, kind string, ops []op) {
	obs := runCase(ops)
	sops := make([]Sx, len(ops))
	nodes, edges := 0, 0
	for i, o := range ops {
		sops[i] = o.sx()
		if o.kind == "addnode" {
			nodes++
		}
		if o.kind == "addedge" {
			edges++
		}
	}
	c.Emit(T("kind", A(kind)), T("nt", B(nodes >= 2 && edges >= 1)), T("ops", sops...), T("obs", obs...))
}

// queries appended after a graph has been built
func queries(n int, all bool, c *Config) []op {
	var ops []op
	ops = append(ops, op{kind: "sort"})
	for i := 0; i < n; i++ {
		if all || c.Rng.Intn(3) == 0 {
			ops = append(ops, op{kind: "cycle", a: i})
		}
		if all || c.Rng.Intn(4) == 0 {
			ops = append(ops, op{kind: "children", a: i}, op{kind: "parents", a: i})
		}
	}
	return ops
}

func exhaustive(c *Config, n int, selfLoops bool) {
	var pairs [][2]int
	for a := 0; a < n; a++ {
		for b := 0; b < n; b++ {
			if a != b || selfLoops {
				pairs = append(pairs, [2]int{a, b})
			}
		}
	}
	for mask := 0; mask < 1<<uint(len(pairs)); mask++ {
		for order := 0; order < 2; order++ {
			var ops []op
			for i := 0; i < n; i++ {
				k := i
				if order == 1 {
					k = n - 1 - i
				}
				ops = append(ops, op{kind: "addnode", a: k})
			}
			var es [][2]int
			for i, p := range pairs {
				if mask&(1<<uint(i)) != 0 {
					es = append(es, p)
				}
			}
			if order == 1 {
				for i, j := 0, len(es)-1; i < j; i, j = i+1, j-1 {
					es[i], es[j] = es[j], es[i]
				}
			}
			for _, e := range es {
				ops = append(ops, op{kind: "addedge", a: e[0], b: e[1]})
			}
			ops = append(ops, queries(n, true, c)...)
			emit(c, fmt.Sprintf("ex%d", n), ops)
		}
	}
}

func randomGraph(c *Config, maxNodes int, acyclicBias bool) []op {
	r := c.Rng
	n := 1 + r.Intn(maxNodes)
	perm := r.Perm(n)
	var ops []op
	added := map[int]bool{}
	type e struct{ a, b int }
	have := map[e]bool{}
	ne := r.Intn(2*n + 1)
	if r.Intn(4) == 0 {
		ne = r.Intn(n*n/2 + 1)
	}
	// interleave node and edge insertions; an edge needs both ends
	ni := 0
	for ni < n || ne > 0 {
		if ni < n && (ne == 0 || ni < 2 || r.Intn(2) == 0) {
			ops = append(ops, op{kind: "addnode", a: perm[ni]})
			added[perm[ni]] = true
			ni++
			continue
		}
		a, b := perm[r.Intn(ni)], perm[r.Intn(ni)]
		if acyclicBias && a > b {
			a, b = b, a
		}
		if acyclicBias && a == b {
			ne--
			continue
		}
		if !have[e{a, b}] {
			have[e{a, b}] = true
			ops = append(ops, op{kind: "addedge", a: a, b: b})
		}
		ne--
	}
	ops = append(ops, queries(n, false, c)...)
	// removals followed by re-indexing, as Pipeline.resolve does, then more edges and queries
	rounds := r.Intn(3)
	for k := 0; k < rounds && len(have) > 0; k++ {
		touched := map[int]bool{}
		cnt := 1 + r.Intn(3)
		for ; cnt > 0 && len(have) > 0; cnt-- {
			var keys []e
			for x := range have {
				keys = append(keys, x)
			}
			sort.Slice(keys, func(i, j int) bool {
				if keys[i].a != keys[j].a {
					return keys[i].a < keys[j].a
				}
				return keys[i].b < keys[j].b
			})
			x := keys[r.Intn(len(keys))]
			delete(have, x)
			ops = append(ops, op{kind: "rmedge", a: x.a, b: x.b})
			touched[x.a] = true
		}
		var ts []int
		for t := range touched {
			ts = append(ts, t)
		}
		sort.Ints(ts)
		// half of the rounds add edges to the nodes that lost one BEFORE they are re-indexed
		// (Pipeline.resolve does RemoveEdge, AddEdge, RemoveEdge, ReindexNode): the new edge takes
		// rank len+1, which may collide with a surviving rank until ReindexNode repairs it
		if r.Intn(2) == 0 {
			for j := 1 + r.Intn(3); j > 0; j-- {
				a, b := ts[r.Intn(len(ts))], r.Intn(n)
				if !have[e{a, b}] {
					have[e{a, b}] = true
					ops = append(ops, op{kind: "addedge", a: a, b: b})
				}
			}
		}
		for _, t := range ts {
			ops = append(ops, op{kind: "reindex", a: t})
		}
		for j := r.Intn(3); j > 0; j-- {
			a, b := r.Intn(n), r.Intn(n)
			if !have[e{a, b}] {
				have[e{a, b}] = true
				ops = append(ops, op{kind: "addedge", a: a, b: b})
			}
		}
		ops = append(ops, queries(n, false, c)...)
	}
	return ops
}

// malformed: duplicate nodes and edges, unknown endpoints, removals of absent edges,
// sorting without re-indexing
func malformed(c *Config) []op {
	r := c.Rng
	n := 2 + r.Intn(5)
	var ops []op
	for k := 3 + r.Intn(25); k > 0; k-- {
		a, b := r.Intn(n+1), r.Intn(n+1)
		switch r.Intn(8) {
		case 0, 1:
			ops = append(ops, op{kind: "addnode", a: a})
		case 2, 3, 4:
			ops = append(ops, op{kind: "addedge", a: a, b: b})
		case 5:
			ops = append(ops, op{kind: "rmedge", a: a, b: b})
		case 6:
			ops = append(ops, op{kind: "reindex", a: a})
		case 7:
			ops = append(ops, op{kind: "sort"}, op{kind: "children", a: a}, op{kind: "parents", a: b}, op{kind: "cycle", a: b})
		}
	}
	ops = append(ops, op{kind: "sort"})
	return ops
}

func main() {
	c := Setup()
	defer c.Close()
	if c.Replay != "" {
		for _, cs := range c.ReplayCases() {
			f, _ := cs.Field("ops")
			var ops []op
			for _, o := range f.Args() {
				ops = append(ops, parseOp(o))
			}
			emit(c, "replay", ops)
		}
		return
	}
	exhaustive(c, 1, true)
	exhaustive(c, 2, true)
	exhaustive(c, 3, true)
	if c.Thorough() {
		exhaustive(c, 4, true)
	} else {
		exhaustive(c, 4, false)
	}
	for i := c.Count(3000, 100000); i > 0; i-- {
		emit(c, "rnd", randomGraph(c, 30, false))
	}
	for i := c.Count(2000, 100000); i > 0; i-- {
		emit(c, "dag", randomGraph(c, 30, true))
	}
	for i := c.Count(1500, 50000); i > 0; i-- {
		emit(c, "malformed", malformed(c))
	}
}
