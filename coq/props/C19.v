(* C19 - ticks are the floored elapsed time and never decrease along a branch.
   Only statements closed by [exact] and their assumptions, plus non-vacuity examples.

   Model: Herc.Plumbing.Ticks (ticks.go and the part of package time it uses).  Times are Z
   nanoseconds since Go's zero time (year 1); [run] executes Consume / Fork / Merge on any number of
   branches that share tick0 and the registry; [lineages ops outs [[]]] is, per branch, the list of
   (commit, tick) consumed along it (a fork copies the history of its origin) and [consumed ops outs]
   the list of all consumed (commit, tick) in order. *)
From Coq Require Import List ZArith Sorted Znumtheory Bool.
From Herc Require Import Plumbing.Ticks Plumbing.TicksArith Plumbing.TicksProofs.
Import ListNotations.
Open Scope Z_scope.

(* ---------------------------------------------------------------- FloorTime *)

(* floor_time t d is the greatest multiple of d (counted from the zero time) that is not after t *)
Theorem C19_floor : forall t d, 0 < d ->
  (d | floor_time t d) /\ floor_time t d <= t < floor_time t d + d /\
  (forall m, (d | m) -> m <= t -> m <= floor_time t d).
Proof. exact floor_time_spec. Qed.
Print Assumptions C19_floor.

Theorem C19_floor_value : forall t d, 0 < d -> floor_time t d = d * (t / d).
Proof. exact floor_time_eq. Qed.
Print Assumptions C19_floor_value.

(* a tick size <= 0 (reachable only through a negative configuration value) floors nothing *)
Theorem C19_floor_nonpositive : forall t d, d <= 0 -> floor_time t d = t.
Proof. exact floor_time_nonpos. Qed.
Print Assumptions C19_floor_nonpositive.

(* the oracle the replay applies to the real FloorTime is this specification *)
Theorem C19_floor_oracle : forall t d r, 0 < d -> floor_ok t d r = true <-> r = d * (t / d).
Proof. exact floor_ok_iff. Qed.
Print Assumptions C19_floor_oracle.

(* ---------------------------------------------------------------- one Consume *)

(* For a positive tick size d, with t the committer time and t0 the shared start after the call
   (the floored committer time when index = 0, otherwise unchanged):
   - the tick is max(previous, (t - t0) quot d) with the subtraction saturated to +-2^63 ns;
   - where Time.Sub does not saturate (|t - t0| within ~292 years) and previous >= 0 (true in every
     reachable state, C19_previous_tick) it is max(previous, floor((t - t0) / d));
   - beyond +292 years it is max(previous, (2^63-1) quot d): the elapsed time is cut off;
   - a commit that is not after t0 (another root that is older than the first analysed commit)
     gets the previous tick of its branch. *)
Theorem C19_tick : forall s b index c s' b' k,
  consume_branch s b index c = (s', b', k) ->
  let d := tick_size b in
  let t := c_when c in
  let t0 := tick0 s' in
  0 < d ->
  t0 = (if index =? 0 then floor_time t d else tick0 s) /\
  k = Z.max (previous_tick b) (Z.quot (time_sub t t0) d) /\
  (in_range t0 t = true -> k = Z.max (previous_tick b) (Z.quot (t - t0) d)) /\
  (in_range t0 t = true -> 0 <= previous_tick b -> k = Z.max (previous_tick b) ((t - t0) / d)) /\
  (max_duration < t - t0 -> k = Z.max (previous_tick b) (Z.quot max_duration d)) /\
  (t <= t0 -> 0 <= previous_tick b -> k = previous_tick b).
Proof. exact consume_tick_formula. Qed.
Print Assumptions C19_tick.

(* The formula clause of the property is FALSE beyond the range of time.Duration (finding F17): with
   more than 2^63-1 ns (about 292.47 years) between the start of tick 0 and a commit the tick is
   not the number of elapsed periods.  First commit 1970-01-01, second 2300-01-01 (committer times
   monotone), 24 h ticks: 120530 periods have elapsed, the tick is 106751. *)
Theorem C19_tick_refuted_beyond_292_years :
  exists cfg c0 c1 s' k,
    let d := initialize (configure cfg) in
    let t0 := spec_t0 (c_when c0) d in
    0 < d /\ c_when c0 <= c_when c1 /\
    run (init_sys cfg) [OConsume 0 0 c0; OConsume 0 1 c1] = (s', [RTick 0; RTick k]) /\
    k = 106751 /\ Z.max 0 ((c_when c1 - t0) / d) = 120530 /\
    in_range t0 (c_when c1) = false.
Proof. exact tick_refuted_beyond_292_years. Qed.
Print Assumptions C19_tick_refuted_beyond_292_years.

(* whole periods between the start of the first commit's period and t = difference of period numbers *)
Theorem C19_periods : forall t first d, 0 < d -> (t - spec_t0 first d) / d = t / d - first / d.
Proof. exact periods_between. Qed.
Print Assumptions C19_periods.

(* the numbering is translation invariant exactly along the period grid of the zero time: moving
   both the first commit and a commit by k whole periods keeps every tick, a commit k periods later
   is k ticks further, the start of tick 0 moves along; a shift that is not a whole number of periods
   can renumber (which is why counting periods from another epoch is a different function) *)
Theorem C19_periods_shift : forall t first d k, 0 < d ->
  (t + k * d - spec_t0 (first + k * d) d) / d = (t - spec_t0 first d) / d.
Proof. exact periods_shift_invariant. Qed.
Print Assumptions C19_periods_shift.

Theorem C19_periods_additive : forall t first d k, 0 < d ->
  (t + k * d - spec_t0 first d) / d = (t - spec_t0 first d) / d + k.
Proof. exact periods_additive. Qed.
Print Assumptions C19_periods_additive.

Theorem C19_start_shift : forall first d k, 0 < d -> spec_t0 (first + k * d) d = spec_t0 first d + k * d.
Proof. exact spec_t0_shift. Qed.
Print Assumptions C19_start_shift.

Theorem C19_periods_shift_off_grid_refuted :
  exists t first d e, 0 < d /\ (t + e - spec_t0 (first + e) d) / d <> (t - spec_t0 first d) / d.
Proof. exact periods_shift_not_invariant. Qed.
Print Assumptions C19_periods_shift_off_grid_refuted.

(* ---------------------------------------------------------------- all runs, all inputs *)

(* ticks never decrease along the history of any branch: every configuration (also tick sizes <= 0),
   every sequence of operations, every committer time (saturation included) *)
Theorem C19_monotone : forall cfg ops s' outs, run (init_sys cfg) ops = (s', outs) ->
  forall l, In l (lineages ops outs [[]]) -> Sorted Z.le (0 :: ticks l).
Proof. exact ticks_monotone. Qed.
Print Assumptions C19_monotone.

(* the branch-local previousTick is the last tick given along the branch (0 before the first) *)
Theorem C19_previous_tick : forall cfg ops s' outs, run (init_sys cfg) ops = (s', outs) ->
  Forall2 (fun br l => previous_tick br = last (ticks l) 0 /\ 0 <= previous_tick br)
          (brs s') (lineages ops outs [[]]).
Proof. exact previous_tick_last. Qed.
Print Assumptions C19_previous_tick.

(* every consumed commit is listed in the registry under the tick it was given *)
Theorem C19_registry_listed : forall cfg ops s' outs, run (init_sys cfg) ops = (s', outs) ->
  forall c k, In (c, k) (consumed ops outs) -> In (c_hash c) (reg_get (commits (sh s')) k).
Proof. exact registry_lists_all. Qed.
Print Assumptions C19_registry_listed.

(* what the reverse duplicate scan achieves for all inputs: a commit that has parents whenever it is
   consumed (a replayed merge commit) is never listed twice under the same tick.  It may be listed
   under two different ticks (C19_example_replay_under_two_ticks) and a commit without parents is
   not scanned for at all (C19_example_root_replayed). *)
Theorem C19_registry_scan : forall cfg ops s' outs h, run (init_sys cfg) ops = (s', outs) ->
  (forall c k, In (c, k) (consumed ops outs) -> c_hash c = h -> (0 < c_parents c)%nat) ->
  forall k, (count_occ Z.eq_dec (reg_get (commits (sh s')) k) h <= 1)%nat.
Proof. exact registry_scan. Qed.
Print Assumptions C19_registry_scan.

(* ---------------------------------------------------------------- runs as the pipeline makes them:
   forks only (the pristine root clone), then the first commit with index 0 on an existing branch,
   then any operations whose commits carry an index other than 0; positive tick size *)

(* the shared start of tick 0 is the start of the first analysed commit's period *)
Theorem C19_start : forall cfg pre b0 c0 rest s' outs,
  0 < initialize (configure cfg) ->
  Forall no_consume pre ->
  Forall (fun o => index_nonzero o = true) rest ->
  run (init_sys cfg) (pre ++ OConsume b0 0 c0 :: rest) = (s', outs) ->
  nth_error outs (length pre) <> Some RBad ->
  let d := initialize (configure cfg) in
  let t0 := spec_t0 (c_when c0) d in
  tick0 (sh s') = t0 /\ (d | t0) /\ t0 <= c_when c0 < t0 + d.
Proof. exact start_is_floor. Qed.
Print Assumptions C19_start.

(* along the history of every branch each tick is max(previous tick, elapsed periods since t0),
   starting from 0; [tick_chain] is unfolded by C19_tick_chain_unfold *)
Theorem C19_tick_history : forall cfg pre b0 c0 rest s' outs,
  0 < initialize (configure cfg) ->
  Forall no_consume pre ->
  Forall (fun o => index_nonzero o = true) rest ->
  run (init_sys cfg) (pre ++ OConsume b0 0 c0 :: rest) = (s', outs) ->
  nth_error outs (length pre) <> Some RBad ->
  let d := initialize (configure cfg) in
  forall l, In l (lineages (pre ++ OConsume b0 0 c0 :: rest) outs [[]]) ->
    tick_chain (spec_t0 (c_when c0) d) d 0 l = true.
Proof. exact history_tick_chain. Qed.
Print Assumptions C19_tick_history.

Theorem C19_tick_chain_unfold : forall t0 d p c k l,
  tick_chain t0 d p ((c, k) :: l) = true <->
  k = (if in_range t0 (c_when c) then Z.max p ((c_when c - t0) / d)
       else Z.max p (Z.quot (time_sub (c_when c) t0) d)) /\
  tick_chain t0 d k l = true.
Proof. exact tick_chain_cons. Qed.
Print Assumptions C19_tick_chain_unfold.

(* the replay judges every tick against the exact formula max(prev, floor((t - t0)/d)) computed with
   unbounded integers ([chain_verdicts]); inside the range of time.Duration the model passes it *)
Theorem C19_tick_history_exact : forall t0 d l p, tick_chain t0 d p l = true ->
  Forall (fun v => snd v = true -> fst v = true) (chain_verdicts t0 d p l).
Proof. exact chain_verdicts_in_range. Qed.
Print Assumptions C19_tick_history_exact.

(* committer times that never decrease along the history of a branch and are not before the first
   analysed commit: nothing is raised, the tick is a function of the commit alone *)
Theorem C19_commit_alone : forall cfg pre b0 c0 rest s' outs,
  0 < initialize (configure cfg) ->
  Forall no_consume pre ->
  Forall (fun o => index_nonzero o = true) rest ->
  run (init_sys cfg) (pre ++ OConsume b0 0 c0 :: rest) = (s', outs) ->
  nth_error outs (length pre) <> Some RBad ->
  let d := initialize (configure cfg) in
  let t0 := spec_t0 (c_when c0) d in
  forall l, In l (lineages (pre ++ OConsume b0 0 c0 :: rest) outs [[]]) ->
    Sorted Z.le (c_when c0 :: times l) ->
    forall c k, In (c, k) l ->
      k = Z.quot (time_sub (c_when c) t0) d /\
      (in_range t0 (c_when c) = true -> k = (c_when c - t0) / d).
Proof. exact history_commit_alone. Qed.
Print Assumptions C19_commit_alone.

(* ... and every consumed commit is listed exactly once in the whole registry, provided a commit
   that is consumed again (a merge commit replayed on another branch) has parents and is the same
   commit (same committer time): [replays_ok] *)
Theorem C19_registry_exactly_once : forall cfg pre b0 c0 rest s' outs,
  0 < initialize (configure cfg) ->
  Forall no_consume pre ->
  Forall (fun o => index_nonzero o = true) rest ->
  run (init_sys cfg) (pre ++ OConsume b0 0 c0 :: rest) = (s', outs) ->
  nth_error outs (length pre) <> Some RBad ->
  (forall l, In l (lineages (pre ++ OConsume b0 0 c0 :: rest) outs [[]]) -> Sorted Z.le (c_when c0 :: times l)) ->
  replays_ok (consumed (pre ++ OConsume b0 0 c0 :: rest) outs) = true ->
  forall c k, In (c, k) (consumed (pre ++ OConsume b0 0 c0 :: rest) outs) ->
    reg_count (commits (sh s')) (c_hash c) = 1%nat.
Proof. exact registry_exactly_once. Qed.
Print Assumptions C19_registry_exactly_once.

(* the boolean domain test of the replay driver implies the shape assumed by the four theorems above *)
Theorem C19_shape_sound : forall ops outs c0, shape ops outs = Some c0 ->
  exists pre b0 rest, ops = pre ++ OConsume b0 0 c0 :: rest /\ Forall no_consume pre /\
    Forall (fun o => index_nonzero o = true) rest /\ nth_error outs (length pre) <> Some RBad.
Proof. exact shape_sound. Qed.
Print Assumptions C19_shape_sound.

(* ---------------------------------------------------------------- non-vacuity and boundary examples *)

Definition mk (h sec : Z) (p : nat) : commit := {| c_hash := h; c_when := time_of_unix sec 0; c_parents := p |}.
Definition day : Z := 86400.
Definition jan2020 : Z := 1577872800. (* 2020-01-01 10:00 UTC *)

(* a pristine clone, the first commit, a fork, two different suffixes, the merge commit replayed on
   both branches, Merge, a second root emerging from the pristine clone *)
Definition ex_ops : list op :=
  [OFork 0 1; OConsume 0 0 (mk 1 jan2020 0); OFork 0 1; OConsume 0 1 (mk 2 (jan2020 + day) 1);
   OConsume 2 2 (mk 3 (jan2020 + 2 * day + 50000) 1);
   OConsume 0 3 (mk 4 (jan2020 + 3 * day) 2); OConsume 2 4 (mk 4 (jan2020 + 3 * day) 2); OMerge [0%nat; 2%nat];
   OFork 1 1; OConsume 3 5 (mk 5 (jan2020 + 3 * day) 0)].

Example C19_example_run :
  let '(s', outs) := run (init_sys (CHours 24)) ex_ops in
  outs = [RFork 1; RTick 0; RFork 2; RTick 1; RTick 2; RTick 3; RTick 3; RUnit; RFork 3; RTick 3] /\
  commits (sh s') = [(0, [1]); (1, [2]); (2, [3]); (3, [4; 5])] /\
  tick0 (sh s') = time_of_unix 1577836800 0 /\
  shape ex_ops outs = Some (mk 1 jan2020 0) /\
  forallb (mono_times (time_of_unix jan2020 0)) (lineages ex_ops outs [[]]) = true /\
  replays_ok (consumed ex_ops outs) = true /\
  map (reg_count (commits (sh s'))) [1; 2; 3; 4; 5] = [1; 1; 1; 1; 1]%nat.
Proof. vm_compute. repeat split; reflexivity. Qed.

(* committer times that go back on one branch: the merge commit 3 is raised to tick 10 on branch 0,
   gets tick 5 on branch 1, and is listed under both ticks (the scan looks at one tick only) *)
Example C19_example_replay_under_two_ticks :
  let ops := [OConsume 0 0 (mk 1 jan2020 0); OFork 0 1; OConsume 0 1 (mk 2 (jan2020 + 10 * day) 1);
              OConsume 0 2 (mk 3 (jan2020 + 5 * day) 2); OConsume 1 3 (mk 3 (jan2020 + 5 * day) 2); OMerge [0%nat; 1%nat]] in
  let '(s', outs) := run (init_sys (CHours 24)) ops in
  outs = [RTick 0; RFork 1; RTick 10; RTick 10; RTick 5; RUnit] /\
  commits (sh s') = [(0, [1]); (10, [2; 3]); (5, [3])] /\ reg_count (commits (sh s')) 3 = 2%nat.
Proof. vm_compute. repeat split; reflexivity. Qed.

(* a commit without parents that is consumed twice is listed twice under one tick *)
Example C19_example_root_replayed :
  let ops := [OConsume 0 0 (mk 1 jan2020 0); OFork 0 1; OConsume 0 1 (mk 2 (jan2020 + day) 0); OConsume 1 2 (mk 2 (jan2020 + day) 0)] in
  commits (sh (fst (run (init_sys (CHours 24)) ops))) = [(0, [1]); (1, [2; 2])].
Proof. vm_compute. reflexivity. Qed.

(* beyond the range of time.Duration: first commit 1970-01-01, second 2300-01-01, 24 h ticks:
   120530 days have passed, the tick is (2^63-1) ns quot 24 h = 106751 *)
Example C19_example_saturation :
  snd (run (init_sys (CHours 24)) [OConsume 0 0 (mk 1 0 0); OConsume 0 1 (mk 2 10413792000 1)]) = [RTick 0; RTick 106751] /\
  (time_of_unix 10413792000 0 - time_of_unix 0 0) / (24 * hour) = 120530 /\
  in_range (time_of_unix 0 0) (time_of_unix 10413792000 0) = false.
Proof. vm_compute. repeat split; reflexivity. Qed.

(* a second root that is 400 days older than the first analysed commit: elapsed time negative,
   truncated division and the clamp give tick 0 *)
Example C19_example_before_start :
  snd (run (init_sys (CHours 24))
         [OFork 0 1; OConsume 0 0 (mk 1 jan2020 0); OFork 1 1; OConsume 2 1 (mk 2 (jan2020 - 400 * day) 0);
          OConsume 2 2 (mk 3 (jan2020 + 2 * day) 1)])
  = [RFork 1; RTick 0; RFork 2; RTick 0; RTick 2].
Proof. vm_compute. reflexivity. Qed.

(* flooring at period boundaries, also before 1970 and before year 1 *)
Example C19_example_floor :
  floor_time (time_of_unix 86399 999999999) (24 * hour) = time_of_unix 0 0 /\
  floor_time (time_of_unix 86400 0) (24 * hour) = time_of_unix 86400 0 /\
  floor_time (time_of_unix (-1) 0) (24 * hour) = time_of_unix (-86400) 0 /\
  floor_time (-1) (24 * hour) = - (24 * hour) /\
  floor_time (time_of_unix 45000 0) (24 * hour) = time_of_unix 0 0.
Proof. vm_compute. repeat split; reflexivity. Qed.

(* ---------------------------------------------------------------- the registry of ONE analysis
   (strengthening round: lifecycle Configure -> Initialize -> Consume* -> Initialize again -> ...)

   Initialize is modelled as the return to [init_sys cfg]: a new zero tick0, previousTick 0 and every
   key of the registry deleted in place, so that the map Configure published in
   facts[FactCommitsByTick] stays the registry.  Every analysis of the lifecycle is therefore a [run]
   from [init_sys cfg], and besides C19_registry_listed (every commit of the analysis is listed) the
   registry lists nothing else: whatever is listed under tick k is a commit this analysis consumed
   with tick k - no commit of an earlier analysis survives Initialize. *)
From Herc Require Import Plumbing.TicksLife.

Theorem C19_registry_only_consumed : forall cfg ops s' outs, run (init_sys cfg) ops = (s', outs) ->
  forall k h, In h (reg_get (commits (sh s')) k) -> exists c, In (c, k) (consumed ops outs) /\ c_hash c = h.
Proof. exact registry_only_consumed. Qed.
Print Assumptions C19_registry_only_consumed.

(* the boolean oracle the replay applies to the registry the implementation PUBLISHED (the map
   captured from facts[FactCommitsByTick] at Configure time) means exactly that, and the model passes it *)
Theorem C19_only_consumed_oracle : forall r evs,
  only_consumed r evs = true <->
  (forall k, In k (map fst r) -> forall h, In h (reg_get r k) -> exists c, In (c, k) evs /\ c_hash c = h).
Proof. exact only_consumed_spec. Qed.
Print Assumptions C19_only_consumed_oracle.

Theorem C19_registry_only_consumed_model : forall cfg ops s' outs, run (init_sys cfg) ops = (s', outs) ->
  only_consumed (commits (sh s')) (consumed ops outs) = true.
Proof. exact registry_only_consumed_oracle. Qed.
Print Assumptions C19_registry_only_consumed_model.

(* non-vacuity: a registry that still lists commit 9 of a previous analysis under tick 0 fails the
   oracle, the registry of the analysis itself passes *)
Example C19_example_stale_registry :
  let ops := [OConsume 0 0 (mk 1 jan2020 0); OConsume 0 1 (mk 2 (jan2020 + day) 1)] in
  let evs := consumed ops (snd (run (init_sys (CHours 24)) ops)) in
  only_consumed [(0, [9; 1]); (1, [2])] evs = false /\
  only_consumed (commits (sh (fst (run (init_sys (CHours 24)) ops)))) evs = true /\
  commits (sh (fst (run (init_sys (CHours 24)) ops))) = [(0, [1]); (1, [2])].
Proof. vm_compute. repeat split; reflexivity. Qed.

(* what the replay of LARGE cases relies on (strengthening round).  The registry entry of one tick
   with thousands of hashes is scanned without Coq's quadratic [rev]: the same function. *)
Theorem C19_consume_fast : forall s b index c, consume_branch_fast s b index c = consume_branch s b index c.
Proof. exact consume_branch_fast_eq. Qed.
Print Assumptions C19_consume_fast.

(* a branch history is judged in segments (shared prefixes of forked branches once): the per-history
   oracles compose over concatenation *)
Theorem C19_history_in_segments : forall t0 d first l1 l2 p,
  nondecreasing p (ticks (l1 ++ l2)) = nondecreasing p (ticks l1) && nondecreasing (last (ticks l1) p) (ticks l2) /\
  chain_verdicts t0 d p (l1 ++ l2) = chain_verdicts t0 d p l1 ++ chain_verdicts t0 d (last (ticks l1) p) l2 /\
  alone t0 d (l1 ++ l2) = alone t0 d l1 && alone t0 d l2 /\
  mono_times first (l1 ++ l2) = mono_times first l1 && nondecreasing (last (times l1) first) (times l2).
Proof. exact history_in_segments. Qed.
Print Assumptions C19_history_in_segments.
