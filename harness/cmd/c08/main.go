// Harness for C08 (forked branches are isolated until they are merged).
//
// Three streams, all driving the REAL code of /repo:
//
//	bd  leaves.BurndownAnalysis: a populated analysis is forked (Fork(n), n = 1..3, repeatedly, up to 6 live
//	    copies), then real Consume calls with fabricated dependencies run on random copies.  After EVERY
//	    step the private state of EVERY copy (flattened files, allocator use, tick, previousTick,
//	    mergedAuthor, mergedFiles) and the shared accumulators are recorded.
//	rb  rbtree.Allocator.Clone + RBTree.CloneShallow / CloneDeep: mutate one side, snapshot all sides.
//	pl  plumbing.TreeDiff, BlobCache, TicksSinceStart forked on synthetic repositories; different children
//	    are consumed on different copies in interleaved order; every output is recorded next to the output
//	    of a fresh UNFORKED instance that consumed the same branch-local sequence (the private twin).
//
// A copy snapshot that is textually identical to the previous snapshot of the same copy is written "=".
package main

import (
	"fmt"
	"hash/crc32"
	"math/rand"
	"os"
	"reflect"
	"runtime"
	"runtime/debug"
	"runtime/pprof"
	"sort"
	"strings"
	"sync/atomic"
	"time"

	"gopkg.in/src-d/go-git.v4/plumbing"
	"gopkg.in/src-d/go-git.v4/plumbing/filemode"
	"gopkg.in/src-d/go-git.v4/plumbing/object"
	"gopkg.in/src-d/go-git.v4/utils/merkletrie"
	"gopkg.in/src-d/hercules.v10/leaves"
	"gopkg.in/src-d/hercules.v10/verifapi/c08"
	. "verifharness/lib"
	"verifharness/synth"
)

const maxCopies = 6

// hangTimeout bounds one operation or one snapshot: code that shares an arena between copies can loop forever.
var hangTimeout = 10 * time.Second // raised while the large cases run

// memExceeded is closed when the heap grows beyond memLimit (an endless loop that keeps appending).
var memLimit uint64 = 300 << 20 // raised while the large cases run

var memExceeded = make(chan struct{})

func init() {
	go func() {
		var ms runtime.MemStats
		for {
			time.Sleep(10 * time.Millisecond)
			runtime.ReadMemStats(&ms)
			if ms.HeapAlloc > atomic.LoadUint64(&memLimit) {
				close(memExceeded)
				return
			}
		}
	}()
}

// guarded runs f in a goroutine; false = it did not return in time (the goroutine is abandoned and the
// harness stops after writing the current case).
func guarded(f func()) bool {
	done := make(chan struct{})
	go func() {
		defer close(done)
		f()
	}()
	t := time.NewTimer(hangTimeout)
	defer t.Stop()
	select {
	case <-done:
		return true
	case <-t.C:
		return false
	case <-memExceeded:
		return false
	}
}

// hung is set when an operation or a snapshot did not terminate; the current case is written and the run ends.
var hung bool

func stopIfHung(c *Config) {
	if hung {
		removeHibDir()
		c.Close()
		os.Exit(0)
	}
}

func boolInt(b bool) int {
	if b {
		return 1
	}
	return 0
}

// =====================================================================================================
// bd: BurndownAnalysis

type bdChange struct {
	kind           string // ins | del | mod
	name, to       int
	lines          int
	bin            bool
	flines, tlines int
	fbin, tbin     bool
	oldl, newl     int
	diffs          [][2]int // (0 equal | 1 insert | 2 delete, length)
}

type bdOp struct {
	kind         string // consume | fork | hib | boot
	copy, n      int
	author, tick int
	merge        bool
	chs          []bdChange
}

func (ch bdChange) sx() Sx {
	switch ch.kind {
	case "ins", "del":
		return T(ch.kind, I(ch.name), I(ch.lines), B(ch.bin))
	}
	ds := make([]Sx, len(ch.diffs))
	for i, d := range ch.diffs {
		ds[i] = T([]string{"e", "i", "d"}[d[0]], I(d[1]))
	}
	return T("mod", I(ch.name), I(ch.to), I(ch.flines), B(ch.fbin), I(ch.tlines), B(ch.tbin), I(ch.oldl), I(ch.newl), L(ds...))
}

func (o bdOp) sx() Sx {
	if o.kind == "fork" {
		return T("fork", I(o.copy), I(o.n))
	}
	if o.kind == "hib" || o.kind == "boot" {
		return T(o.kind, I(o.copy))
	}
	xs := []Sx{I(o.copy), I(o.author), I(o.tick), B(o.merge)}
	for _, ch := range o.chs {
		xs = append(xs, ch.sx())
	}
	return T("consume", xs...)
}

func parseBdOp(s Sx) bdOp {
	a := s.Args()
	if s.Tag() == "fork" {
		return bdOp{kind: "fork", copy: a[0].Int(), n: a[1].Int()}
	}
	if s.Tag() == "hib" || s.Tag() == "boot" {
		return bdOp{kind: s.Tag(), copy: a[0].Int()}
	}
	o := bdOp{kind: "consume", copy: a[0].Int(), author: a[1].Int(), tick: a[2].Int(), merge: a[3].Int() != 0}
	for _, c := range a[4:] {
		x := c.Args()
		switch c.Tag() {
		case "ins", "del":
			o.chs = append(o.chs, bdChange{kind: c.Tag(), name: x[0].Int(), lines: x[1].Int(), bin: x[2].Int() != 0})
		case "mod":
			ch := bdChange{kind: "mod", name: x[0].Int(), to: x[1].Int(), flines: x[2].Int(), fbin: x[3].Int() != 0,
				tlines: x[4].Int(), tbin: x[5].Int() != 0, oldl: x[6].Int(), newl: x[7].Int()}
			for _, d := range x[8].List {
				k := map[string]int{"e": 0, "i": 1, "d": 2}[d.Tag()]
				ch.diffs = append(ch.diffs, [2]int{k, d.Args()[0].Int()})
			}
			o.chs = append(o.chs, ch)
		}
	}
	return o
}

// fname: the name of file number i.  Round 4 (R4-1): the small numbers - the ones every generator uses - are names that
// differ only in bytes a normalisation would collapse (case, white space, invalid UTF-8 next to a REAL U+FFFD, BOM, CR, NUL,
// directory case) or that share prefixes / decimal widths; the mapping stays a bijection, the model sees numbers only.
var nastyFiles = []string{"", "f1", "F1", "f1 ", "f\xff", "f\xef\xbf\xbd", "\xef\xbb\xbff1", "f\t1", "f1\r\n", "d/f1", "D/f1", "f\x001",
	"f\xc3", "f\u00a01", "f1\u2028", " f1", "f\u30001", "f10", "f11", "f\xc0\xaf1", "f\xed\xa0\x801", "d/F1", "f1\r", "f", "ff1"}
var nastyFileNo = func() map[string]int {
	m := map[string]int{}
	for i, n := range nastyFiles {
		if _, dup := m[n]; dup {
			panic("nastyFiles: duplicate " + n)
		}
		m[n] = i
	}
	return m
}()

func fname(i int) string {
	if i > 0 && i < len(nastyFiles) {
		return nastyFiles[i]
	}
	return fmt.Sprintf("f%d", i)
}
func unfname(s string) int {
	var i int
	if s == "" {
		return 0
	}
	if k, ok := nastyFileNo[s]; ok {
		return k
	}
	fmt.Sscanf(s, "f%d", &i)
	return i
}

func blobFor(lines int, bin bool, salt string) *c08.CachedBlob {
	var data []byte
	if bin {
		data = []byte("\x00binary " + salt)
	} else {
		data = []byte(strings.Repeat("x\n", lines))
	}
	h := plumbing.ComputeHash(plumbing.BlobObject, data)
	return &c08.CachedBlob{Blob: object.Blob{Hash: h, Size: int64(len(data))}, Data: data}
}

func entry(name string, b *c08.CachedBlob) object.ChangeEntry {
	return object.ChangeEntry{Name: name, TreeEntry: object.TreeEntry{Name: name, Mode: filemode.Regular, Hash: b.Hash}}
}

// deps fabricates what TreeDiff, BlobCache, FileDiff, IdentityDetector and TicksSinceStart would hand over.
func (o bdOp) deps() map[string]interface{} {
	cache := map[plumbing.Hash]*c08.CachedBlob{}
	var changes object.Changes
	fd := map[string]c08.FileDiffData{}
	for _, ch := range o.chs {
		switch ch.kind {
		case "ins":
			b := blobFor(ch.lines, ch.bin, "i")
			cache[b.Hash] = b
			changes = append(changes, &object.Change{To: entry(fname(ch.name), b)})
		case "del":
			b := blobFor(ch.lines, ch.bin, "d")
			cache[b.Hash] = b
			changes = append(changes, &object.Change{From: entry(fname(ch.name), b)})
		case "mod":
			fb, tb := blobFor(ch.flines, ch.fbin, "f"), blobFor(ch.tlines, ch.tbin, "t")
			cache[fb.Hash], cache[tb.Hash] = fb, tb
			changes = append(changes, &object.Change{From: entry(fname(ch.name), fb), To: entry(fname(ch.to), tb)})
			var ds []c08.Diff
			for _, d := range ch.diffs {
				ty := c08.DiffEqual
				if d[0] == 1 {
					ty = c08.DiffInsert
				} else if d[0] == 2 {
					ty = c08.DiffDelete
				}
				ds = append(ds, c08.Diff{Type: ty, Text: strings.Repeat("y", d[1])})
			}
			fd[fname(ch.to)] = c08.FileDiffData{OldLinesOfCode: ch.oldl, NewLinesOfCode: ch.newl, Diffs: ds}
		}
	}
	return map[string]interface{}{
		c08.DependencyAuthor: o.author, c08.DependencyTick: o.tick, c08.DependencyIsMerge: o.merge,
		c08.DependencyBlobCache: cache, c08.DependencyTreeChanges: changes, c08.DependencyFileDiff: fd,
	}
}

// bdCfg is the configuration of one bd case: people tracking, TrackFiles, the hibernation threshold and
// whether hibernated arenas go to disk (kinds bdh*, bds*), and whether tracked files are recorded run-length
// encoded (the large cases).
type bdCfg struct {
	people, track bool
	hth           int
	hdisk         bool
	rle           bool
	nomodel       bool // too large for the extracted model: implementation-only oracles
}

func newAnalysis(cfg bdCfg) *leaves.BurndownAnalysis {
	people, track := cfg.people, cfg.track
	a := &leaves.BurndownAnalysis{Granularity: 30, Sampling: 30, TickSize: 24 * time.Hour, TrackFiles: track,
		HibernationThreshold: cfg.hth, HibernationToDisk: cfg.hdisk}
	if cfg.hdisk {
		a.HibernationDirectory = hibDir()
	}
	if people {
		a.PeopleNumber = 3
	}
	if err := a.Initialize(nil); err != nil {
		panic(err)
	}
	return a
}

func cells(tag string, cs []leaves.VerifC08Cell) Sx {
	var xs []Sx
	for _, c := range cs {
		if c.Delta == 0 {
			continue
		}
		var k []Sx
		for _, v := range c.Key {
			k = append(k, I(v))
		}
		xs = append(xs, L(append(k, I64(c.Delta))...))
	}
	return T(tag, xs...)
}

// snapLens: the lengths of the tracked files of the copy bdCopySx read last (for the generators)
var snapLens map[int]int

// digestFiles: record the tracked files as a checksum (set while a case without model runs)
var digestFiles bool

func bdCopySx(a *leaves.BurndownAnalysis, rle bool) (res Sx) {
	snapLens = map[int]int{}
	defer func() {
		if r := recover(); r != nil {
			res = T("c", A("broken"))
		}
	}()
	if bdAsleep(a) {
		return bdHibImage(a)
	}
	tick, prev, ma := a.VerifC08Scalars()
	mf := a.VerifC08MergedFiles()
	var mfk []int
	for k := range mf {
		mfk = append(mfk, unfname(k))
	}
	sort.Ints(mfk)
	var mfs []Sx
	for _, k := range mfk {
		mfs = append(mfs, L(I(k), B(mf[fname(k)])))
	}
	var ids []int
	for _, n := range a.VerifC08FileNames() {
		ids = append(ids, unfname(n))
	}
	sort.Ints(ids)
	var fs []Sx
	for _, id := range ids {
		arr, _ := a.VerifC08Flatten(fname(id))
		snapLens[id] = len(arr)
		if rle {
			fs = append(fs, rleSx(id, arr))
		} else {
			fs = append(fs, L(append([]Sx{I(id)}, Ints(arr).List...)...))
		}
	}
	if digestFiles {
		// the largest cases (no model): the tracked files as (fd <crc32 of the listing> <number of files>)
		fs = []Sx{T("fd", U64(uint64(crc32.ChecksumIEEE([]byte(L(fs...).String())))), I(len(ids)))}
	}
	return T("c", I(a.VerifC08Used()), I(tick), I(prev), I(ma), T("mf", mfs...), T("files", fs...))
}

func bdSharedSx(a *leaves.BurndownAnalysis) Sx {
	var dels []int
	for _, n := range a.VerifC08Deletions() {
		dels = append(dels, unfname(n))
	}
	sort.Ints(dels)
	rn := a.VerifC08Renames()
	var rk []int
	for k := range rn {
		rk = append(rk, unfname(k))
	}
	sort.Ints(rk)
	var rs []Sx
	for _, k := range rk {
		rs = append(rs, L(I(k), I(unfname(rn[fname(k)]))))
	}
	var fh []int
	for _, n := range a.VerifC08FileHistoryNames() {
		fh = append(fh, unfname(n))
	}
	sort.Ints(fh)
	return T("sh", cells("g", a.VerifC08GlobalHistory()), cells("ph", a.VerifC08PeopleHistories()),
		cells("mx", a.VerifC08Matrix()), T("dels", Ints(dels).List...), T("ren", rs...), T("fh", Ints(fh).List...))
}

type bdRunner struct {
	cfg    bdCfg
	copies []*leaves.BurndownAnalysis
	last   []string
	lens   []map[int]int // tracked file lengths per copy, refreshed by every snapshot (for the generator)
	asleep []bool        // the copy is hibernated (refreshed by every snapshot)
	obs    []Sx
	failed bool
}

func newBdRunner(cfg bdCfg) *bdRunner {
	return &bdRunner{cfg: cfg, copies: []*leaves.BurndownAnalysis{newAnalysis(cfg)}, last: []string{""}}
}

// observe snapshots every copy; target = the copy the operation ran on (-1: none); a copy that existed
// before and is not the target must not change: if it does the case stops here (its trees may be corrupt).
func (r *bdRunner) observe(result string, target int, existing int) {
	var cs []Sx
	oldLens := r.lens
	r.lens = make([]map[int]int, len(r.copies))
	r.asleep = make([]bool, len(r.copies))
	digestFiles = r.cfg.nomodel
	for i, a := range r.copies {
		s := bdCopySx(a, r.cfg.rle)
		str := s.String()
		if s.Tag() == "hib" {
			// a hibernated copy cannot be read: the generator keeps what it knew
			r.asleep[i] = true
			if i < len(oldLens) {
				r.lens[i] = oldLens[i]
			}
		}
		if str == r.last[i] {
			cs = append(cs, A("="))
		} else {
			cs = append(cs, s)
			if i != target && i < existing {
				r.failed = true
			}
			r.last[i] = str
		}
		if r.asleep[i] {
			continue
		}
		r.lens[i] = snapLens
	}
	sh := bdSharedSx(r.copies[0])
	shs := sh.String()
	var same []Sx
	for i, a := range r.copies {
		if r.cfg.rle && len(r.copies) > 16 && i != target && i < existing {
			// large cases with many copies: only the copy operated on and the new copies are asked
			same = append(same, B(true))
			continue
		}
		same = append(same, B(bdSharedSx(a).String() == shs))
	}
	r.obs = append(r.obs, T("o", T("r", A(result)), T("copies", cs...), sh, T("shsame", same...)))
}

func (r *bdRunner) exec(o bdOp) {
	if r.failed || hung {
		return
	}
	result, target, existing := "", -1, len(r.copies)
	if !guarded(func() { result, target = r.apply(o) }) {
		hung = true
		r.obs = append(r.obs, T("o", T("r", A("hang"))))
		return
	}
	if !guarded(func() { r.observe(result, target, existing) }) {
		hung = true
		r.obs = append(r.obs, T("o", T("r", A(result)), T("hang")))
	}
}

func (r *bdRunner) apply(o bdOp) (string, int) {
	if o.copy < 0 || o.copy >= len(r.copies) {
		return "skip", -1
	}
	if o.kind == "fork" {
		limit := 3 * maxCopies
		if r.cfg.rle {
			limit = 1 << 16 // the large cases keep many branches alive
		}
		if o.n < 0 || len(r.copies)+o.n > limit {
			return "skip", -1
		}
		var clones []c08.PipelineItem
		if _, panicked := Catch(func() { clones = r.copies[o.copy].Fork(o.n) }); panicked {
			// forking a hibernated copy (only a shrunk or hand-written operation list does that)
			r.failed = true
			return "panic", -1
		}
		for _, it := range clones {
			r.copies = append(r.copies, it.(*leaves.BurndownAnalysis))
			r.last = append(r.last, "")
		}
		return "fork", -1
	}
	if o.kind == "hib" || o.kind == "boot" {
		var err error
		_, panicked := Catch(func() {
			if o.kind == "hib" {
				err = r.copies[o.copy].Hibernate()
			} else {
				err = r.copies[o.copy].Boot()
			}
		})
		switch {
		case panicked:
			r.failed = true
			return "panic", o.copy
		case err != nil:
			r.failed = true
			return "err", o.copy
		}
		return "ok", o.copy
	}
	var err error
	msg, panicked := Catch(func() { _, err = r.copies[o.copy].Consume(o.deps()) })
	if os.Getenv("C08_DEBUG") != "" && (panicked || err != nil) {
		fmt.Println("DEBUG", o.sx().String(), msg, err)
	}
	switch {
	case panicked:
		r.failed = true
		return "panic", o.copy
	case err != nil:
		r.failed = true
		return "err", o.copy
	}
	return "ok", o.copy
}

func (r *bdRunner) lensOf(i int) map[int]int {
	if i < 0 || i >= len(r.lens) {
		return nil
	}
	return r.lens[i]
}

func keysOf(m map[int]int) []int {
	var ks []int
	for k := range m {
		ks = append(ks, k)
	}
	sort.Ints(ks)
	return ks
}

// genDiffs draws an edit script for a file of oldl lines; returns the script and the new length.
func genDiffs(rng *rand.Rand, oldl int) ([][2]int, int) {
	var ds [][2]int
	remaining, newl := oldl, oldl
	free := true
	for steps := 0; steps < 12; steps++ {
		if remaining == 0 {
			if free && rng.Intn(100) < 40 {
				m := 1 + rng.Intn(4)
				ds = append(ds, [2]int{1, m})
				newl += m
			}
			break
		}
		if free && rng.Intn(100) < 60 {
			switch rng.Intn(3) {
			case 0:
				k := 1 + rng.Intn(remaining)
				if rng.Intn(3) > 0 && k > 3 {
					k = 1 + rng.Intn(3)
				}
				ds = append(ds, [2]int{2, k})
				remaining -= k
				newl -= k
			case 1:
				k := 1 + rng.Intn(remaining)
				if k > 3 {
					k = 1 + rng.Intn(3)
				}
				m := 1 + rng.Intn(4)
				ds = append(ds, [2]int{2, k}, [2]int{1, m})
				remaining -= k
				newl += m - k
			case 2:
				m := 1 + rng.Intn(4)
				ds = append(ds, [2]int{1, m})
				newl += m
			}
			free = false
		} else {
			k := 1 + rng.Intn(remaining)
			ds = append(ds, [2]int{0, k})
			remaining -= k
			free = true
		}
		if rng.Intn(100) < 15 {
			break
		}
	}
	return ds, newl
}

func genBdChanges(rng *rand.Rand, lens map[int]int, merge bool, clean bool) []bdChange {
	// bad(p): with probability p percent, and never in a clean case, take an irregular variant
	bad := func(p int) bool { return !clean && rng.Intn(100) < p }
	var chs []bdChange
	shadow := map[int]int{}
	for k, v := range lens {
		shadow[k] = v
	}
	// a commit never carries two changes for one path: every path is used at most once
	touched := map[int]bool{}
	freeName := func() int {
		for tries := 0; tries < 40; tries++ {
			n := 1 + rng.Intn(8)
			if _, ok := shadow[n]; !ok && !touched[n] {
				touched[n] = true
				return n
			}
		}
		return 0
	}
	for k := 1 + rng.Intn(3); k > 0; k-- {
		var names []int
		for _, n := range keysOf(shadow) {
			if !touched[n] {
				names = append(names, n)
			}
		}
		r := rng.Intn(100)
		switch {
		case len(names) == 0 || r < 25:
			// insertion; rarely of an existing name (error) or of a binary blob
			n := freeName()
			if len(names) > 0 && bad(2) {
				n = names[rng.Intn(len(names))]
			}
			if n == 0 {
				continue
			}
			touched[n] = true
			ch := bdChange{kind: "ins", name: n, lines: rng.Intn(13), bin: rng.Intn(100) < 5}
			if merge && (clean || rng.Intn(100) < 70) {
				ch.lines = 0
			}
			chs = append(chs, ch)
			if !ch.bin {
				if _, ok := shadow[n]; !ok {
					shadow[n] = ch.lines
				}
			}
		case r < 40:
			n := names[rng.Intn(len(names))]
			touched[n] = true
			ch := bdChange{kind: "del", name: n, lines: shadow[n], bin: bad(2)}
			if bad(3) {
				ch.lines += rng.Intn(3) - 1
				if ch.lines < 0 {
					ch.lines = 0
				}
			}
			if rng.Intn(100) < 3 {
				if f := freeName(); f != 0 {
					ch.name = f // deletion of an untracked path: ignored
				}
			}
			chs = append(chs, ch)
			delete(shadow, n)
		default:
			n := names[rng.Intn(len(names))]
			touched[n] = true
			oldl := shadow[n]
			ch := bdChange{kind: "mod", name: n, to: n, flines: oldl, oldl: oldl}
			if rng.Intn(100) < 18 {
				if f := freeName(); f != 0 {
					ch.to = f
				}
				if bad(10) {
					ch.to = names[rng.Intn(len(names))] // renamed over a tracked file
					touched[ch.to] = true
				}
			}
			if bad(2) {
				if f := freeName(); f != 0 {
					ch.name = f // modification of an untracked path: becomes an insertion
				}
			}
			if merge && (clean || rng.Intn(100) < 75) {
				// merge commits mostly delete (inserted lines carry the merge mark)
				var ds [][2]int
				newl := oldl
				if oldl > 0 {
					k := 1 + rng.Intn(oldl)
					e := rng.Intn(oldl - k + 1)
					if e > 0 {
						ds = append(ds, [2]int{0, e})
					}
					ds = append(ds, [2]int{2, k})
					newl -= k
				}
				ch.diffs, ch.newl = ds, newl
			} else {
				ch.diffs, ch.newl = genDiffs(rng, oldl)
			}
			ch.tlines = ch.newl
			irregular := 100
			if bad(4) {
				irregular = rng.Intn(7)
			}
			switch irregular {
			case 0:
				ch.oldl++
			case 1:
				ch.newl++
			case 2:
				ch.diffs = append(ch.diffs, [2]int{1, 1}, [2]int{1, 2})
			case 3:
				ch.diffs = append(ch.diffs, [2]int{0, oldl + 3}, [2]int{2, 2})
			case 4:
				ch.tbin = true
			case 5:
				ch.fbin = true
			case 6:
				ch.fbin, ch.tbin = true, true
			}
			chs = append(chs, ch)
			delete(shadow, n)
			if !ch.tbin {
				shadow[ch.to] = ch.newl
			}
		}
	}
	return chs
}

func emitBd(c *Config, kind string, cfg bdCfg, ops []bdOp, r *bdRunner) {
	var os_ []Sx
	forks, after := 0, 0
	for _, o := range ops {
		os_ = append(os_, o.sx())
		if o.kind == "fork" {
			forks++
		} else if forks > 0 {
			after++
		}
	}
	fs := []Sx{T("kind", A(kind)), T("nt", B(forks > 0 && after > 0)), T("people", B(cfg.people)), T("track", B(cfg.track))}
	if strings.HasPrefix(kind, "bdh") || strings.HasPrefix(kind, "bds") {
		fs = append(fs, T("hth", I(cfg.hth)), T("hdisk", B(cfg.hdisk)))
	}
	if cfg.rle {
		fs = append(fs, T("rle", B(true)))
	}
	if cfg.nomodel {
		fs = append(fs, T("nomodel", B(true)))
	}
	c.Emit(append(fs, T("ops", os_...), T("obs", r.obs...))...)
	cleanHibDir()
	stopIfHung(c)
}

func randomBd(c *Config) {
	rng := c.Rng
	people := rng.Intn(2) == 0
	track := rng.Intn(2) == 0
	clean := rng.Intn(100) < 70 // no irregular input at all in 70 % of the cases
	r := newBdRunner(bdCfg{people: people, track: track})
	var ops []bdOp
	tick := 0
	do := func(o bdOp) {
		ops = append(ops, o)
		r.exec(o)
	}
	author := func() int {
		if !people {
			return c08.AuthorMissing
		}
		if rng.Intn(100) < 8 {
			return c08.AuthorMissing
		}
		return rng.Intn(3)
	}
	// populate the origin
	for k := 1 + rng.Intn(4); k > 0 && !r.failed; k-- {
		tick += rng.Intn(3)
		do(bdOp{kind: "consume", copy: 0, author: author(), tick: tick, chs: genBdChanges(rng, r.lensOf(0), false, clean)})
	}
	steps := 4 + rng.Intn(22)
	for s := 0; s < steps && !r.failed; s++ {
		if (len(r.copies) == 1 && rng.Intn(100) < 70) || (len(r.copies) < maxCopies && rng.Intn(100) < 12) {
			n := 1 + rng.Intn(3)
			if len(r.copies)+n > maxCopies {
				n = maxCopies - len(r.copies)
			}
			do(bdOp{kind: "fork", copy: rng.Intn(len(r.copies)), n: n})
			continue
		}
		i := rng.Intn(len(r.copies))
		if rng.Intn(100) < 2 {
			i = len(r.copies) + rng.Intn(2) // a copy that does not exist: skipped
		}
		tick += rng.Intn(3)
		t := tick
		if rng.Intn(100) < 10 {
			t = rng.Intn(tick + 1) // time going backwards on a branch
		}
		merge := rng.Intn(100) < 12
		lens := r.lensOf(i)
		do(bdOp{kind: "consume", copy: i, author: author(), tick: t, merge: merge, chs: genBdChanges(rng, lens, merge, clean)})
	}
	emitBd(c, "bd", r.cfg, ops, r)
}

// exhaustive small scope: one file of 3 lines, three copies, every sequence of two commits out of a
// 3 copies x 9 changes alphabet
func exhaustiveBd(c *Config, people, track bool) {
	author := c08.AuthorMissing
	if people {
		author = 1
	}
	prefix := []bdOp{
		{kind: "consume", copy: 0, author: author, tick: 0, chs: []bdChange{{kind: "ins", name: 1, lines: 3}}},
		{kind: "fork", copy: 0, n: 2},
	}
	mod := func(ds [][2]int, newl int) []bdChange {
		return []bdChange{{kind: "mod", name: 1, to: 1, flines: 3, tlines: newl, oldl: 3, newl: newl, diffs: ds}}
	}
	alphabet := [][]bdChange{
		mod([][2]int{{1, 1}}, 4),
		mod([][2]int{{0, 1}, {1, 2}}, 5),
		mod([][2]int{{0, 3}, {1, 1}}, 4),
		mod([][2]int{{2, 1}}, 2),
		mod([][2]int{{0, 2}, {2, 1}}, 2),
		mod([][2]int{{0, 1}, {2, 1}, {1, 1}}, 3),
		{{kind: "del", name: 1, lines: 3}},
		{{kind: "ins", name: 2, lines: 2}},
		{{kind: "mod", name: 1, to: 2, flines: 3, tlines: 3, oldl: 3, newl: 3, diffs: [][2]int{{0, 3}}}},
	}
	n := len(alphabet) * 3
	for x := 0; x < n; x++ {
		for y := 0; y < n; y++ {
			ops := append([]bdOp{}, prefix...)
			for k, z := range []int{x, y} {
				a := author
				if people {
					a = k % 3
				}
				ops = append(ops, bdOp{kind: "consume", copy: z / len(alphabet), author: a, tick: 1 + k, chs: alphabet[z%len(alphabet)]})
			}
			r := newBdRunner(bdCfg{people: people, track: track})
			for _, o := range ops {
				r.exec(o)
			}
			emitBd(c, "bdex", r.cfg, ops, r)
		}
	}
}

func replayBd(c *Config, cs Sx) {
	kind := "bd"
	if k, ok := cs.Field("kind"); ok {
		kind = k.Args()[0].Atom
	}
	pf, _ := cs.Field("people")
	people := pf.Args()[0].Int() != 0
	track := false
	if tf, ok := cs.Field("track"); ok {
		track = tf.Args()[0].Int() != 0
	}
	cfg := bdCfg{people: people, track: track}
	if hf, ok := cs.Field("hth"); ok {
		cfg.hth = hf.Args()[0].Int()
	}
	if hf, ok := cs.Field("hdisk"); ok {
		cfg.hdisk = hf.Args()[0].Int() != 0
	}
	if hf, ok := cs.Field("rle"); ok {
		cfg.rle = hf.Args()[0].Int() != 0
	}
	if hf, ok := cs.Field("nomodel"); ok {
		cfg.nomodel = hf.Args()[0].Int() != 0
	}
	f, _ := cs.Field("ops")
	var ops []bdOp
	r := newBdRunner(cfg)
	for _, o := range f.Args() {
		op := parseBdOp(o)
		ops = append(ops, op)
		r.exec(op)
	}
	emitBd(c, kind, cfg, ops, r)
}

// =====================================================================================================
// rb: Allocator.Clone + RBTree.CloneShallow / CloneDeep

type rbOp struct {
	kind    string // new | ins | del | erase | deep | fork
	side, t int
	k, v    int
	n       int
}

func (o rbOp) sx() Sx {
	switch o.kind {
	case "new":
		return T("new", I(o.side))
	case "ins":
		return T("ins", I(o.side), I(o.t), I(o.k), I(o.v))
	case "del":
		return T("del", I(o.side), I(o.t), I(o.k))
	case "fork":
		return T("fork", I(o.side), I(o.n))
	}
	return T(o.kind, I(o.side), I(o.t))
}

func parseRbOp(s Sx) rbOp {
	a := s.Args()
	o := rbOp{kind: s.Tag(), side: a[0].Int()}
	switch o.kind {
	case "ins":
		o.t, o.k, o.v = a[1].Int(), a[2].Int(), a[3].Int()
	case "del":
		o.t, o.k = a[1].Int(), a[2].Int()
	case "erase", "deep":
		o.t = a[1].Int()
	case "fork":
		o.n = a[1].Int()
	}
	return o
}

type rbSide struct {
	al    *c08.Allocator
	trees []*c08.RBTree
	snap  interface{}
	last  string
}

type rbRunner struct {
	sides  []*rbSide
	obs    []Sx
	failed bool
}

func newRbRunner() *rbRunner {
	al := c08.NewAllocator()
	return &rbRunner{sides: []*rbSide{{al: al, snap: al.VerifSnapshot()}}}
}

func rbSideSx(s *rbSide) (res Sx) {
	defer func() {
		if r := recover(); r != nil {
			res = T("s", A("broken"))
		}
	}()
	xs := []Sx{I(s.al.Used())}
	for _, t := range s.trees {
		var items []Sx
		n := 0
		for it := t.Min(); !it.Limit(); it = it.Next() {
			items = append(items, L(I(int(it.Item().Key)), I(int(it.Item().Value))))
			n++
			if n > 100000 {
				panic("endless iteration")
			}
		}
		items = append(items, T("len", I(t.Len())))
		xs = append(xs, T("t", items...))
	}
	return T("s", xs...)
}

func (r *rbRunner) observe(result string, target int, existing int) {
	var ss, arena []Sx
	for i, s := range r.sides {
		sx := rbSideSx(s)
		str := sx.String()
		if str == s.last {
			ss = append(ss, A("="))
		} else {
			ss = append(ss, sx)
			if i != target && i < existing {
				r.failed = true
			}
			s.last = str
		}
		var snap interface{} = s.al.VerifSnapshot()
		arena = append(arena, B(reflect.DeepEqual(snap, s.snap)))
		s.snap = snap
	}
	r.obs = append(r.obs, T("o", T("r", A(result)), T("sides", ss...), T("arena", arena...)))
}

func (r *rbRunner) exec(o rbOp) {
	if r.failed || hung {
		return
	}
	result, target, existing := "", -1, len(r.sides)
	if !guarded(func() { result, target = r.apply(o) }) {
		hung = true
		r.obs = append(r.obs, T("o", T("r", A("hang"))))
		return
	}
	if !guarded(func() { r.observe(result, target, existing) }) {
		hung = true
		r.obs = append(r.obs, T("o", T("r", A(result)), T("hang")))
	}
}

func (r *rbRunner) apply(o rbOp) (string, int) {
	if o.side < 0 || o.side >= len(r.sides) {
		return "skip", -1
	}
	s := r.sides[o.side]
	if o.kind == "fork" {
		if o.n < 0 || len(r.sides)+o.n > 3*maxCopies {
			return "skip", -1
		}
		for k := 0; k < o.n; k++ {
			al := s.al.Clone()
			ns := &rbSide{al: al, snap: al.VerifSnapshot(), last: "?"}
			for _, t := range s.trees {
				ns.trees = append(ns.trees, t.CloneShallow(al))
			}
			r.sides = append(r.sides, ns)
		}
		return "fork", -1
	}
	if o.kind != "new" && (o.t < 0 || o.t >= len(s.trees)) {
		return "0", o.side
	}
	res := true
	_, panicked := Catch(func() {
		switch o.kind {
		case "new":
			s.trees = append(s.trees, c08.NewRBTree(s.al))
		case "ins":
			res, _ = s.trees[o.t].Insert(c08.Item{Key: uint32(o.k), Value: uint32(o.v)})
		case "del":
			res = s.trees[o.t].DeleteWithKey(uint32(o.k))
		case "erase":
			s.trees[o.t].Erase()
		case "deep":
			s.trees = append(s.trees, s.trees[o.t].CloneDeep(s.al))
		}
	})
	if panicked {
		r.failed = true
		return "panic", o.side
	}
	return fmt.Sprint(boolInt(res)), o.side
}

func emitRb(c *Config, kind string, ops []rbOp, r *rbRunner) {
	var os_ []Sx
	forks, after := 0, 0
	for _, o := range ops {
		os_ = append(os_, o.sx())
		if o.kind == "fork" {
			forks++
		} else if forks > 0 && (o.kind == "ins" || o.kind == "del" || o.kind == "erase") {
			after++
		}
	}
	c.Emit(T("kind", A(kind)), T("nt", B(forks > 0 && after > 0)), T("ops", os_...), T("obs", r.obs...))
	stopIfHung(c)
}

func runRb(c *Config, kind string, ops []rbOp) {
	r := newRbRunner()
	for _, o := range ops {
		r.exec(o)
	}
	emitRb(c, kind, ops, r)
}

func randomRb(c *Config) {
	rng := c.Rng
	var ops []rbOp
	sides, trees := 1, []int{0}
	add := func(o rbOp) { ops = append(ops, o) }
	add(rbOp{kind: "new", side: 0})
	trees[0] = 1
	for k := rng.Intn(12); k > 0; k-- {
		add(rbOp{kind: "ins", side: 0, t: 0, k: rng.Intn(16), v: rng.Intn(100)})
	}
	for steps := 5 + rng.Intn(40); steps > 0; steps-- {
		s := rng.Intn(sides)
		r := rng.Intn(100)
		t := 0
		if trees[s] > 0 {
			t = rng.Intn(trees[s])
		}
		switch {
		case (sides == 1 && r < 40) || (sides < maxCopies && r < 8):
			n := 1 + rng.Intn(2)
			add(rbOp{kind: "fork", side: s, n: n})
			for i := 0; i < n; i++ {
				trees = append(trees, trees[s])
			}
			sides += n
		case r < 12 && trees[s] < 4:
			add(rbOp{kind: "new", side: s})
			trees[s]++
		case r < 16 && trees[s] < 4 && trees[s] > 0:
			add(rbOp{kind: "deep", side: s, t: t})
			trees[s]++
		case r < 20:
			add(rbOp{kind: "erase", side: s, t: t})
		case r < 55:
			add(rbOp{kind: "del", side: s, t: t, k: rng.Intn(16)})
		default:
			add(rbOp{kind: "ins", side: s, t: t, k: rng.Intn(16), v: rng.Intn(100)})
		}
	}
	runRb(c, "rb", ops)
}

// exhaustive small scope: a tree {1,2,3}, two sides, every sequence of three operations out of
// 2 sides x {ins 0, ins 2, ins 4, del 1, del 2, erase, deep}
func exhaustiveRb(c *Config) {
	prefix := []rbOp{{kind: "new", side: 0}, {kind: "ins", side: 0, k: 1, v: 10}, {kind: "ins", side: 0, k: 2, v: 20},
		{kind: "ins", side: 0, k: 3, v: 30}, {kind: "fork", side: 0, n: 1}}
	var alphabet []rbOp
	for s := 0; s < 2; s++ {
		alphabet = append(alphabet,
			rbOp{kind: "ins", side: s, k: 0, v: 5}, rbOp{kind: "ins", side: s, k: 2, v: 6}, rbOp{kind: "ins", side: s, k: 4, v: 7},
			rbOp{kind: "del", side: s, k: 1}, rbOp{kind: "del", side: s, k: 2}, rbOp{kind: "erase", side: s}, rbOp{kind: "deep", side: s})
	}
	n := len(alphabet)
	for x := 0; x < n; x++ {
		for y := 0; y < n; y++ {
			for z := 0; z < n; z++ {
				ops := append([]rbOp{}, prefix...)
				ops = append(ops, alphabet[x], alphabet[y], alphabet[z])
				runRb(c, "rbex", ops)
			}
		}
	}
}

func replayRb(c *Config, cs Sx) {
	kind := "rb"
	if k, ok := cs.Field("kind"); ok {
		kind = k.Args()[0].Atom
	}
	f, _ := cs.Field("ops")
	var ops []rbOp
	for _, o := range f.Args() {
		ops = append(ops, parseRbOp(o))
	}
	runRb(c, kind, ops)
}

// =====================================================================================================
// pl: TreeDiff, BlobCache, TicksSinceStart on synthetic repositories

type plCommit struct {
	id      int
	parents []int
	time    int64
	tree    [][2]int // (path id, blob id), sorted by path id
}

type plOp struct {
	kind   string // consume | fork
	copy   int
	commit int
	index  int
	n      int
}

func (cm plCommit) sx() Sx {
	var es []Sx
	for _, e := range cm.tree {
		es = append(es, L(I(e[0]), I(e[1])))
	}
	return T("c", I(cm.id), Ints(cm.parents), I64(cm.time), L(es...))
}

func parsePlCommit(s Sx) plCommit {
	a := s.Args()
	cm := plCommit{id: a[0].Int()}
	for _, p := range a[1].List {
		cm.parents = append(cm.parents, p.Int())
	}
	fmt.Sscan(a[2].Atom, &cm.time)
	for _, e := range a[3].List {
		cm.tree = append(cm.tree, [2]int{e.List[0].Int(), e.List[1].Int()})
	}
	return cm
}

func (o plOp) sx() Sx {
	if o.kind == "fork" {
		return T("fork", I(o.copy), I(o.n))
	}
	return T("consume", I(o.copy), I(o.commit), I(o.index))
}

func parsePlOp(s Sx) plOp {
	a := s.Args()
	if s.Tag() == "fork" {
		return plOp{kind: "fork", copy: a[0].Int(), n: a[1].Int()}
	}
	return plOp{kind: "consume", copy: a[0].Int(), commit: a[1].Int(), index: a[2].Int()}
}

// pathName: the path of file number pid.  Round 4 (R4-1, R4-2, R4-5): the numbers from 10 on are names that differ only in
// bytes a normalisation would collapse, share prefixes, or sit at the decimal widths 9/10/11, 99/100/101, 999/1000/1001; the
// mapping stays a bijection (the model sees numbers only).  No name is "d1..", "d2.." (the directories) and none contains NUL.
var nastyPaths = map[int]string{10: "P1", 11: "p1 ", 12: "p\xff", 13: "p\xef\xbf\xbd", 14: "\xef\xbb\xbfp1", 15: "p\t1", 16: "p1\r", 17: "d1/P3",
	18: "D1/p3", 19: "p\xc3", 20: "p\u00a01", 21: "p1\u2028", 22: " p1", 23: "p\u30001", 24: "p10", 25: "p11", 26: "p99", 27: "p100", 28: "p101",
	29: "p999", 30: "p1000", 31: "p1001", 32: "p\xc0\xaf1", 33: "p\xed\xa0\x801", 34: "d2/S/p2", 35: "d2/s/P2", 36: "p", 37: "pp1", 38: "p1\r\n",
	39: "d2/s/p2 ", 40: "p1.lnk"}
var nastyPathNo = func() map[string]int {
	m := map[string]int{}
	for i, n := range nastyPaths {
		m[n] = i
	}
	for i := 0; i < 10; i++ {
		if _, dup := m[pathName(i)]; dup || len(m) != len(nastyPaths) {
			panic("nastyPaths: duplicate")
		}
	}
	return m
}()

func pathName(pid int) string {
	if n, ok := nastyPaths[pid]; ok {
		return n
	}
	switch pid % 3 {
	case 0:
		return fmt.Sprintf("d1/p%d", pid)
	case 1:
		return fmt.Sprintf("p%d", pid)
	}
	return fmt.Sprintf("d2/s/p%d", pid)
}

func unpathName(s string) int {
	if k, ok := nastyPathNo[s]; ok {
		return k
	}
	i := strings.LastIndex(s, "p")
	var pid int
	fmt.Sscanf(s[i:], "p%d", &pid)
	return pid
}

// blobData: the content of blob number bid.  Round 4 (R4-1, R4-4): some blobs are empty, consist of a BOM / of white space only,
// are invalid UTF-8 next to a real U+FFFD, carry CR / CRLF / NUL; every content belongs to one number only.
var nastyBlobs = map[int]string{3: "", 6: "\xef\xbb\xbf", 9: " \n\t \n", 12: "\xff\xfe\n", 15: "a\r\nb\rc\n", 18: "\x00\x01\x00", 21: "\xef\xbf\xbd\n",
	24: "\xff\n", 27: "\xef\xbb\xbfblob 27\n", 30: "\xc3", 33: "BLOB 34\n", 36: "\u00a0\u2028\u3000", 39: "blob 39", 42: "blob 39\n"}

func blobData(bid int) []byte {
	if d, ok := nastyBlobs[bid]; ok {
		return []byte(d)
	}
	return []byte(fmt.Sprintf("blob %d\n%s", bid, strings.Repeat("line\n", bid%5)))
}

// blobMode: the entry kind is a function of the blob number (R4-4): a new version of a file may turn it into an executable or
// a symbolic link and back (the model's path-wise diff sees a modification in exactly those cases: the blob changed).
func blobMode(bid int) filemode.FileMode {
	switch bid % 7 {
	case 2:
		return filemode.Executable
	case 4:
		return filemode.Symlink
	}
	return filemode.Regular
}

// commitWhen: author and committer time of a commit differ (the items read the committer's) and carry non-zero zone offsets,
// as a function of the commit number (R4-3).
var plZones = []int{0, 19800, -28800, 50400, -43200, 20700, 3600}

func commitWhen(id int, t int64) (author, committer time.Time) {
	skew := []int64{0, 3 * 86400, -400 * 86400, 3600, -1}[id%5]
	author = time.Unix(t+skew, 0).In(time.FixedZone("", plZones[id%len(plZones)]))
	committer = time.Unix(t, 0).In(time.FixedZone("", plZones[(id/2+3)%len(plZones)]))
	return
}

const plBase = int64(1262304000) // 2010-01-01 00:00:00 UTC

type plBranch struct {
	td   *c08.TreeDiff
	bc   *c08.BlobCache
	tk   *c08.TicksSinceStart
	hist []plOp // the successfully consumed commits of this copy's lineage
	last string
}

type plRunner struct {
	commits  []plCommit
	byID     map[int]int
	objs     []*object.Commit
	repoInit func() (*c08.TreeDiff, *c08.BlobCache, *c08.TicksSinceStart)
	blobID   map[plumbing.Hash]int
	commitID map[plumbing.Hash]int
	treeID   map[plumbing.Hash]int
	copies   []*plBranch
	obs      []Sx
}

func newPlRunner(commits []plCommit, sizeSec int) *plRunner {
	r := &plRunner{commits: commits, byID: map[int]int{}, blobID: map[plumbing.Hash]int{}, commitID: map[plumbing.Hash]int{}, treeID: map[plumbing.Hash]int{}}
	specs := make([]synth.CommitSpec, len(commits))
	for i, cm := range commits {
		r.byID[cm.id] = i
		aw, cw := commitWhen(cm.id, cm.time)
		sp := synth.CommitSpec{AuthorName: "a", AuthorEmail: "a@x", AuthorWhen: aw, CommitterWhen: cw}
		for _, p := range cm.parents {
			if j, ok := r.byID[p]; ok && j < i {
				sp.Parents = append(sp.Parents, j)
			}
		}
		for _, e := range cm.tree {
			data := blobData(e[1])
			sp.Files = append(sp.Files, synth.FileSpec{Path: pathName(e[0]), Data: data, Mode: blobMode(e[1])})
			if old, dup := r.blobID[plumbing.ComputeHash(plumbing.BlobObject, data)]; dup && old != e[1] {
				panic("two blob numbers with one content")
			}
			r.blobID[plumbing.ComputeHash(plumbing.BlobObject, data)] = e[1]
		}
		specs[i] = sp
	}
	repo, objs := synth.BuildRepo(specs)
	r.objs = objs
	for i, o := range objs {
		// go-git writes a negative time stamp as 0 (Signature.encodeTimeAndTimeZone); real repositories do carry dates before
		// 1970 and the decoder reads them: the decoded commit object is given the intended times
		if aw, cw := commitWhen(commits[i].id, commits[i].time); aw.Unix() < 0 || cw.Unix() < 0 {
			o.Author.When, o.Committer.When = aw, cw
		}
		r.commitID[o.Hash] = commits[i].id
		if _, ok := r.treeID[o.TreeHash]; !ok {
			r.treeID[o.TreeHash] = commits[i].id
		}
	}
	r.repoInit = func() (*c08.TreeDiff, *c08.BlobCache, *c08.TicksSinceStart) {
		td, bc, tk := &c08.TreeDiff{}, &c08.BlobCache{}, &c08.TicksSinceStart{}
		td.Configure(map[string]interface{}{})
		bc.Configure(map[string]interface{}{})
		tk.Configure(map[string]interface{}{})
		tk.TickSize = time.Duration(sizeSec) * time.Second
		if td.Initialize(repo) != nil || bc.Initialize(repo) != nil || tk.Initialize(repo) != nil {
			panic("initialize")
		}
		return td, bc, tk
	}
	td, bc, tk := r.repoInit()
	r.copies = []*plBranch{{td: td, bc: bc, tk: tk}}
	return r
}

// consumeOn runs the three items on one commit, as the pipeline would; returns the observation.
func (r *plRunner) consumeOn(td *c08.TreeDiff, bc *c08.BlobCache, tk *c08.TicksSinceStart, o plOp) (Sx, bool) {
	cm := r.objs[r.byID[o.commit]]
	var res Sx
	ok := false
	_, panicked := Catch(func() {
		out, err := td.Consume(map[string]interface{}{c08.DependencyCommit: cm})
		if err != nil {
			res = T("err", A("td"))
			return
		}
		changes := out[c08.DependencyTreeChanges].(object.Changes)
		type chg struct {
			kind          string
			pid, from, to int
		}
		var cl []chg
		for _, ch := range changes {
			act, _ := ch.Action()
			switch act {
			case merkletrie.Insert:
				cl = append(cl, chg{"ins", unpathName(ch.To.Name), 0, r.blobID[ch.To.TreeEntry.Hash]})
			case merkletrie.Delete:
				cl = append(cl, chg{"del", unpathName(ch.From.Name), r.blobID[ch.From.TreeEntry.Hash], 0})
			default:
				cl = append(cl, chg{"mod", unpathName(ch.To.Name), r.blobID[ch.From.TreeEntry.Hash], r.blobID[ch.To.TreeEntry.Hash]})
			}
		}
		sort.Slice(cl, func(i, j int) bool { return cl[i].pid < cl[j].pid })
		var cs []Sx
		for _, x := range cl {
			cs = append(cs, T(x.kind, I(x.pid), I(x.from), I(x.to)))
		}
		out2, err := bc.Consume(map[string]interface{}{c08.DependencyCommit: cm, c08.DependencyTreeChanges: changes})
		if err != nil {
			res = T("err", A("bc"))
			return
		}
		cache := out2[c08.DependencyBlobCache].(map[plumbing.Hash]*c08.CachedBlob)
		type kv struct{ id, size int }
		var keys []kv
		for h, b := range cache {
			keys = append(keys, kv{r.blobID[h], len(b.Data)})
		}
		sort.Slice(keys, func(i, j int) bool { return keys[i].id < keys[j].id })
		var ks []Sx
		for _, k := range keys {
			ks = append(ks, L(I(k.id), I(k.size)))
		}
		out3, err := tk.Consume(map[string]interface{}{c08.DependencyCommit: cm, c08.DependencyIndex: o.index})
		if err != nil {
			res = T("err", A("tk"))
			return
		}
		res = T("ok", T("changes", cs...), T("cache", ks...), T("tick", I(out3[c08.DependencyTick].(int))))
		ok = true
	})
	if panicked {
		return T("panic"), false
	}
	return res, ok
}

func (r *plRunner) privSx(b *plBranch) Sx {
	th, has, ch := b.td.VerifC08Previous()
	pt := -1
	if has {
		pt = r.treeID[th]
	}
	pc := 0
	if ch != plumbing.ZeroHash {
		pc = r.commitID[ch]
	}
	var ks []int
	for _, h := range b.bc.VerifC08CacheKeys() {
		ks = append(ks, r.blobID[h])
	}
	sort.Ints(ks)
	return T("p", I(pt), I(pc), Ints(ks), I(b.tk.VerifC08PreviousTick()))
}

func (r *plRunner) observe(res Sx, twin Sx) {
	var cs []Sx
	for _, b := range r.copies {
		s := r.privSx(b)
		str := s.String()
		if str == b.last {
			cs = append(cs, A("="))
		} else {
			cs = append(cs, s)
			b.last = str
		}
	}
	// shared: tick0 and the registry, read through the origin and checked to be the same through every copy
	shOf := func(b *plBranch) Sx {
		t0, _ := b.tk.VerifC08Tick0()
		reg := b.tk.VerifC08Commits()
		var ticks []int
		for k := range reg {
			ticks = append(ticks, k)
		}
		sort.Ints(ticks)
		var rs []Sx
		for _, k := range ticks {
			var ids []int
			for _, h := range reg[k] {
				ids = append(ids, r.commitID[h])
			}
			rs = append(rs, L(I(k), Ints(ids)))
		}
		return T("sh", I64(t0.Unix()), L(rs...))
	}
	sh := shOf(r.copies[0])
	var same []Sx
	for _, b := range r.copies {
		same = append(same, B(shOf(b).String() == sh.String()))
	}
	r.obs = append(r.obs, T("o", T("r", res), T("twin", twin), T("copies", cs...), sh, T("shsame", same...)))
}

func (r *plRunner) exec(o plOp) {
	if hung {
		return
	}
	if !guarded(func() { r.exec1(o) }) {
		hung = true
		r.obs = append(r.obs, T("o", T("r", T("hang"))))
	}
}

func (r *plRunner) exec1(o plOp) {
	if o.copy < 0 || o.copy >= len(r.copies) {
		r.observe(T("skip"), T("skip"))
		return
	}
	b := r.copies[o.copy]
	if o.kind == "fork" {
		if o.n < 0 || len(r.copies)+o.n > 3*maxCopies {
			r.observe(T("skip"), T("skip"))
			return
		}
		tds, bcs, tks := b.td.Fork(o.n), b.bc.Fork(o.n), b.tk.Fork(o.n)
		for k := 0; k < o.n; k++ {
			r.copies = append(r.copies, &plBranch{td: tds[k].(*c08.TreeDiff), bc: bcs[k].(*c08.BlobCache), tk: tks[k].(*c08.TicksSinceStart),
				hist: append([]plOp{}, b.hist...)})
		}
		r.observe(T("fork"), T("fork"))
		return
	}
	if _, ok := r.byID[o.commit]; !ok {
		r.observe(T("skip"), T("skip"))
		return
	}
	res, ok := r.consumeOn(b.td, b.bc, b.tk, o)
	// the private twin: fresh, never forked instances fed with this copy's own history
	td, bc, tk := r.repoInit()
	for _, h := range b.hist {
		r.consumeOn(td, bc, tk, h)
	}
	twin, _ := r.consumeOn(td, bc, tk, o)
	if ok {
		b.hist = append(b.hist, o)
	}
	r.observe(res, twin)
}

func emitPl(c *Config, kind string, size, ssize int, commits []plCommit, ops []plOp, r *plRunner) {
	var cs, os_ []Sx
	for _, cm := range commits {
		cs = append(cs, cm.sx())
	}
	forks, after := 0, 0
	for _, o := range ops {
		os_ = append(os_, o.sx())
		if o.kind == "fork" {
			forks++
		} else if forks > 0 {
			after++
		}
	}
	fields := []Sx{T("kind", A(kind)), T("nt", B(forks > 0 && after > 1)), T("size", I(size))}
	if ssize > 0 {
		fields = append(fields, T("ssize", I(ssize))) // the tick size in seconds; overrides size (hours)
	}
	c.Emit(append(fields, T("commits", cs...), T("ops", os_...), T("obs", r.obs...))...)
	stopIfHung(c)
}

func runPl(c *Config, kind string, size, ssize int, commits []plCommit, ops []plOp) {
	sec := size * 3600
	if ssize > 0 {
		sec = ssize
	}
	r := newPlRunner(commits, sec)
	for _, o := range ops {
		r.exec(o)
	}
	emitPl(c, kind, size, ssize, commits, ops, r)
}

func mutateTree(rng *rand.Rand, tree [][2]int, nextBlob *int, pidOf func() int) [][2]int {
	m := map[int]int{}
	for _, e := range tree {
		m[e[0]] = e[1]
	}
	for k := 1 + rng.Intn(3); k > 0; k-- {
		pid := pidOf()
		switch r := rng.Intn(100); {
		case r < 30:
			delete(m, pid)
		case r < 45 && len(tree) > 0:
			m[pid] = tree[rng.Intn(len(tree))][1] // an existing blob under another path
		default:
			*nextBlob++
			m[pid] = *nextBlob
		}
	}
	var res [][2]int
	for k, v := range m {
		res = append(res, [2]int{k, v})
	}
	sort.Slice(res, func(i, j int) bool { return res[i][0] < res[j][0] })
	return res
}

// plTimes is the time regime of a case (R4-3).  next(prev, forked) is the committer time of a new commit on a copy whose last
// commit had time prev.
type plTimes struct {
	name string
	base int64
	next func(rng *rand.Rand, prev int64, tick int64, forked bool) int64
}

const (
	sane1990   = int64(631152000)  // the "suspicious timestamp" constant of TicksSinceStart.Consume
	y2038      = int64(2147483647) // 2^31-1
	y2106      = int64(4294967295) // 2^32-1
	y2040      = int64(2208988800)
	y2020      = int64(1583366400) // 2020-03-05
	wallFuture = int64(1830000000) // end of 2027: after the wall clock of every run so far (a constant: the streams are reproducible)
)

func plRegimes(rng *rand.Rand) plTimes {
	step := func(rng *rand.Rand, prev, tick int64, _ bool) int64 {
		dt := rng.Int63n(3 * tick)
		if rng.Intn(100) < 15 {
			dt = -rng.Int63n(2 * tick)
		}
		return prev + dt
	}
	around := func(c int64) int64 { return c + []int64{-86401, -86400, -2, -1, 0, 1, 2, 86399, 86400}[rng.Intn(9)] }
	switch rng.Intn(9) {
	case 0:
		// zero-time (or otherwise bogus, before 1990) commits up to and beyond the first fork, then every copy jumps to its own sane date
		bogus := []int64{0, 0, 0, 1, -1, 86400, sane1990 - 1, -86400 * 365}[rng.Intn(8)]
		target := []int64{y2020, plBase, sane1990, sane1990 + 1, y2040}[rng.Intn(5)]
		return plTimes{"zero", bogus, func(rng *rand.Rand, prev, tick int64, forked bool) int64 {
			if prev < sane1990 {
				if !forked || rng.Intn(100) < 35 {
					return prev + []int64{0, 0, 1, tick, -1}[rng.Intn(5)]
				}
				return target + rng.Int63n(20*tick)
			}
			return step(rng, prev, tick, forked)
		}}
	case 1:
		return plTimes{"pre1970", -86400*365*4 + rng.Int63n(86400*3), step}
	case 2:
		return plTimes{"epoch", around(0) - rng.Int63n(3)*86400, step}
	case 3:
		return plTimes{"1990", around(sane1990), step}
	case 4:
		return plTimes{"2038", around(y2038), step}
	case 5:
		return plTimes{"2106", around(y2106), step}
	case 6:
		return plTimes{"future", wallFuture + []int64{-1, 0, 1, 86400 * 365, 86400 * 3650}[rng.Intn(5)], step}
	case 7:
		// equal times, and steps of +-1 s around the tick boundaries
		return plTimes{"equal", plBase + rng.Int63n(86400*3), func(rng *rand.Rand, prev, tick int64, _ bool) int64 {
			return prev + []int64{0, 0, 0, 1, -1, tick, tick - 1, tick + 1, -tick}[rng.Intn(9)]
		}}
	}
	// decreasing along the history
	return plTimes{"decr", y2020, func(rng *rand.Rand, prev, tick int64, _ bool) int64 {
		if rng.Intn(100) < 80 {
			return prev - rng.Int63n(3*tick)
		}
		return prev + rng.Int63n(2*tick)
	}}
}

func randomPl(c *Config) { randomPlKind(c, "pl") }

// randomPlKind: "pl" = the stream as it was; "plt" = a time regime out of plRegimes x tick sizes other than 1 h / 24 h / 7 d
// (in seconds: 1, 60, 5400, 3601, 86399, 86401, 30 days); "pln" = the files are drawn from the names of nastyPaths.
func randomPlKind(c *Config, kind string) {
	rng := c.Rng
	size := []int{24, 24, 1, 168}[rng.Intn(4)]
	ssize := 0
	var reg *plTimes
	pidOf := func() int { return 1 + rng.Intn(9) }
	if kind == "plt" {
		x := plRegimes(rng)
		reg = &x
		kind = "plt-" + x.name
		switch rng.Intn(3) {
		case 0:
			size = []int{5, 25, 720, 7}[rng.Intn(4)]
		case 1:
			ssize = []int{1, 60, 5400, 3601, 86399, 86401, 30 * 86400, 1000}[rng.Intn(8)]
		}
	}
	if kind == "pln" {
		pool := []int{1, 2, 3}
		for k := 4 + rng.Intn(5); k > 0; k-- {
			pool = append(pool, 10+rng.Intn(31))
		}
		pidOf = func() int { return pool[rng.Intn(len(pool))] }
		if rng.Intn(2) == 0 {
			x := plRegimes(rng)
			reg = &x
		}
	}
	tickSec := int64(size) * 3600
	if ssize > 0 {
		tickSec = int64(ssize)
	}
	var commits []plCommit
	var ops []plOp
	nextBlob := 0
	type cp struct {
		head  int // commit id, 0 = none
		index int
		t     int64
	}
	copies := []cp{{t: plBase + int64(rng.Intn(86400*3))}}
	if reg != nil {
		copies[0].t = reg.base
	}
	first := true
	newCommit := func(i int) int {
		var tree [][2]int
		var parents []int
		if copies[i].head != 0 {
			tree = commits[copies[i].head-1].tree
			parents = []int{copies[i].head}
		}
		if len(commits) > 0 && rng.Intn(100) < 12 {
			parents = append(parents, 1+rng.Intn(len(commits))) // a merge commit
		}
		if len(parents) > 0 && rng.Intn(100) < 4 {
			parents[0] = 1 + rng.Intn(len(commits)) // not a child of the previous commit: refused
		}
		dt := int64(rng.Intn(3 * 3600 * size))
		if rng.Intn(100) < 15 {
			dt = -int64(rng.Intn(2 * 3600 * size)) // time going backwards: the tick is clamped
		}
		t := copies[i].t + dt
		if reg != nil {
			t = copies[i].t
			if !first {
				t = reg.next(rng, copies[i].t, tickSec, len(copies) > 1)
			}
		}
		first = false
		id := len(commits) + 1
		tr := tree
		if rng.Intn(100) < 90 {
			tr = mutateTree(rng, tree, &nextBlob, pidOf)
		}
		commits = append(commits, plCommit{id: id, parents: parents, time: t, tree: tr})
		return id
	}
	steps := 4 + rng.Intn(16)
	for s := 0; s < steps; s++ {
		if len(copies) < maxCopies && ((len(copies) == 1 && s > 0 && rng.Intn(100) < 50) || (len(copies) > 1 && rng.Intn(100) < 10)) {
			i := rng.Intn(len(copies))
			n := 1 + rng.Intn(3)
			if len(copies)+n > maxCopies {
				n = maxCopies - len(copies)
			}
			ops = append(ops, plOp{kind: "fork", copy: i, n: n})
			for k := 0; k < n; k++ {
				copies = append(copies, copies[i])
			}
			continue
		}
		i := rng.Intn(len(copies))
		if s == 0 {
			i = 0
		}
		id := newCommit(i)
		cm := commits[id-1]
		ops = append(ops, plOp{kind: "consume", copy: i, commit: id, index: copies[i].index})
		refused := copies[i].head != 0 && (len(cm.parents) == 0 || func() bool {
			for _, p := range cm.parents {
				if p == copies[i].head {
					return false
				}
			}
			return true
		}())
		if !refused {
			copies[i].head = id
			copies[i].index++
			copies[i].t = cm.time
		}
		if rng.Intn(100) < 5 {
			// the same commit replayed on another copy (as the planner does for merges)
			j := rng.Intn(len(copies))
			ops = append(ops, plOp{kind: "consume", copy: j, commit: id, index: copies[j].index})
			ok := copies[j].head == 0
			for _, p := range cm.parents {
				if p == copies[j].head {
					ok = true
				}
			}
			if ok {
				copies[j].head = id
				copies[j].index++
			}
		}
	}
	runPl(c, kind, size, ssize, commits, ops)
}

func replayPl(c *Config, cs Sx) {
	kind := "pl"
	if k, ok := cs.Field("kind"); ok {
		kind = k.Args()[0].Atom
	}
	sf, _ := cs.Field("size")
	cf, _ := cs.Field("commits")
	var commits []plCommit
	for _, x := range cf.Args() {
		commits = append(commits, parsePlCommit(x))
	}
	f, _ := cs.Field("ops")
	var ops []plOp
	for _, o := range f.Args() {
		ops = append(ops, parsePlOp(o))
	}
	ssize := 0
	if f, ok := cs.Field("ssize"); ok {
		ssize = f.Args()[0].Int()
	}
	runPl(c, kind, sf.Args()[0].Int(), ssize, commits, ops)
}

// =====================================================================================================

// hibStreams: Hibernate / Boot between the forks (kinds bdhex, bdh).
func hibStreams(c *Config) {
	for _, disk := range []bool{false, true} {
		for _, pre := range []bool{false, true} {
			exhaustiveBdHib(c, disk, 0, pre, 1, 4)
			if c.Thorough() {
				exhaustiveBdHib(c, disk, 0, pre, 1, 5)
				exhaustiveBdHib(c, disk, 0, pre, 2, 4)
			}
		}
	}
	// the threshold at the arena size of the 3-line file (3 nodes) and right above it (the copy stays awake until a
	// Consume has grown its arena)
	exhaustiveBdHib(c, true, 3, true, 1, 3)
	exhaustiveBdHib(c, true, 4, true, 1, 3)
	for i := c.Count(700, 10000); i > 0; i-- {
		randomBdHib(c)
	}
}

// scaleStreams: the large cases (kinds bds-*).
func scaleStreams(c *Config) {
	atomic.StoreUint64(&memLimit, 6<<30)
	hangTimeout = 300 * time.Second
	defer func() {
		runtime.GC()
		atomic.StoreUint64(&memLimit, 300<<20)
		hangTimeout = 10 * time.Second
	}()
	for i, shape := range []string{"rnd", "asc", "desc"} {
		scaleBigFile(c, 1000+7+i, i%2 == 0, shape)
		scaleBigFile(c, 10000+1+i, i%2 == 1, shape)
	}
	scaleManyFiles(c, 1000+3, true)
	scaleManyCopies(c, 100, 5, true)
	scaleManyCopies(c, 64, 2, false)
	if c.Thorough() {
		for i, shape := range []string{"rnd", "asc", "desc"} {
			scaleBigFile(c, 100000+3+i, i%2 == 0, shape)
		}
		scaleBigFile(c, 1000000+5, true, "rnd")
		scaleManyFiles(c, 10000+7, true)
		scaleManyFiles(c, 65536+1, false)
		scaleManyCopies(c, 1000, 5, true)
		scaleManyCopies(c, 500, 3, false)
	}
}

func main() {
	c := Setup()
	defer c.Close()
	// the traces are built from many small short-lived values: collect less often (the live heap is a few MB;
	// the memory watchdog above stays in force)
	debug.SetGCPercent(400)
	if pf := os.Getenv("C08_PROF"); pf != "" {
		f, _ := os.Create(pf)
		pprof.StartCPUProfile(f)
		defer pprof.StopCPUProfile()
	}
	// hercules loggers capture os.Stderr when they are created: keep the trace run quiet
	realStderr := os.Stderr
	if dn, err := os.OpenFile(os.DevNull, os.O_WRONLY, 0); err == nil {
		os.Stderr = dn
	}
	if c.Replay != "" {
		defer removeHibDir()
		for _, cs := range c.ReplayCases() {
			kind := ""
			if k, ok := cs.Field("kind"); ok {
				kind = k.Args()[0].Atom
			}
			switch {
			case strings.HasPrefix(kind, "bd"):
				replayBd(c, cs)
			case strings.HasPrefix(kind, "rb"):
				replayRb(c, cs)
			case strings.HasPrefix(kind, "pl"):
				replayPl(c, cs)
			default:
				fmt.Fprintln(realStderr, "unknown kind", kind)
				os.Exit(2)
			}
		}
		return
	}
	defer removeHibDir()
	if only := os.Getenv("C08_ONLY"); only == "hib" || only == "scale" {
		if only == "hib" {
			hibStreams(c)
		} else {
			scaleStreams(c)
		}
		return
	}
	if os.Getenv("C08_ONLY") == "" {
		hibStreams(c)
		if c.Tier != "search" {
			scaleStreams(c)
		}
		exhaustiveBd(c, false, false)
		exhaustiveBd(c, true, true)
		if c.Thorough() {
			exhaustiveBd(c, false, true)
			exhaustiveBd(c, true, false)
		}
		exhaustiveRb(c)
	}
	for i := c.Count(2500, 40000); i > 0; i-- {
		randomBd(c)
	}
	for i := c.Count(2500, 40000); i > 0; i-- {
		randomRb(c)
	}
	for i := c.Count(1500, 20000); i > 0; i-- {
		randomPl(c)
	}
	// round 4: time regimes x tick sizes, names
	for i := c.Count(900, 12000); i > 0; i-- {
		randomPlKind(c, "plt")
	}
	for i := c.Count(400, 6000); i > 0; i-- {
		randomPlKind(c, "pln")
	}
}
