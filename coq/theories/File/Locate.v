(* Code block "locate": FindLE splits the node list into kept-left / origin / right;
   the partition of the right part by the end of the deleted range. *)
From Coq Require Import List ZArith Lia Bool.
Import ListNotations.
From Herc Require Import File.Model File.Spec File.NodeLists.
Open Scope Z_scope.

Definition first_gt (pos : Z) (R : list node) : Prop :=
  match R with [] => True | (k, _) :: _ => pos < k end.

Lemma find_le_cons2 pos acc n k w r :
  find_le pos acc (n :: (k, w) :: r) =
  if k <=? pos then find_le pos (acc ++ [n]) ((k, w) :: r) else Some (acc, n, (k, w) :: r).
Proof. reflexivity. Qed.

Lemma find_le_spec : forall r n0 acc pos,
  fst n0 <= pos ->
  exists A o R, find_le pos acc (n0 :: r) = Some (acc ++ A, o, R) /\
     n0 :: r = A ++ o :: R /\ fst o <= pos /\ first_gt pos R.
Proof.
  induction r as [|[k w] r IH]; intros n0 acc pos H0.
  - exists [], n0, []. simpl. rewrite app_nil_r. repeat split; auto.
  - rewrite find_le_cons2. destruct (Z.leb_spec k pos).
    + destruct (IH (k, w) (acc ++ [n0]) pos) as (A & o & R & E & Es & Ho & HR); [simpl; lia|].
      exists (n0 :: A), o, R. rewrite E. rewrite <- app_assoc. simpl.
      repeat split; auto. rewrite Es. reflexivity.
    + exists [], n0, ((k, w) :: r). rewrite app_nil_r. simpl. repeat split; auto.
Qed.

Definition sval (s : list node) (i : Z) : Z := vfrom 0 s i.
Definition slen (s : list node) : Z := klast 0 s.

(* partition of the right part by the deletion end Q *)
Fixpoint take_lt (q : Z) (s : list node) : list node :=
  match s with [] => [] | (k, v) :: r => if k <? q then (k, v) :: take_lt q r else [] end.
Fixpoint drop_lt (q : Z) (s : list node) : list node :=
  match s with [] => [] | (k, v) :: r => if k <? q then drop_lt q r else s end.

Lemma take_drop q s : s = take_lt q s ++ drop_lt q s.
Proof. induction s as [|[k v] r IH]; simpl; auto. destruct (k <? q); simpl; congruence. Qed.

Lemma take_lt_lt q s k0 : inc k0 s -> k0 < q -> klast k0 (take_lt q s) < q.
Proof.
  revert k0; induction s as [|[k v] r IH]; simpl; intros k0 H Hk; auto.
  destruct H. destruct (Z.ltb_spec k q); simpl; auto.
Qed.

Lemma drop_lt_ge q s : first_gt (q - 1) (drop_lt q s).
Proof.
  induction s as [|[k v] r IH]; simpl; auto.
  destruct (Z.ltb_spec k q); simpl; auto. lia.
Qed.
