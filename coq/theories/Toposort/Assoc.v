(* Lemmas about the association lists of Toposort/Model.v (aget / aset / adel), the boolean
   NoDup test, insertion sort, and Prop-level views of has_edge / is_node. *)
From Coq Require Import List ZArith Lia Bool Permutation.
From Herc Require Import Toposort.Model.
Import ListNotations.
Open Scope Z_scope.

Section AssocLemmas.
  Context {V : Type}.
  Notation keys := (map (@fst Z V)) (only parsing).

  Lemma aget_In (l : list (Z * V)) k v : aget l k = Some v -> In (k, v) l.
  Proof.
    induction l as [|[k' v'] l IH]; simpl; [discriminate|].
    destruct (Z.eqb_spec k' k) as [->|Hne]; intros H.
    - inversion H; subst. auto.
    - right. auto.
  Qed.

  Lemma aget_Some_key (l : list (Z * V)) k v : aget l k = Some v -> In k (keys l).
  Proof. intros H. apply aget_In in H. apply (in_map fst) in H. exact H. Qed.

  Lemma aget_None (l : list (Z * V)) k : aget l k = None <-> ~ In k (keys l).
  Proof.
    induction l as [|[k' v'] l IH]; simpl; [tauto|].
    destruct (Z.eqb_spec k' k) as [->|Hne].
    - split; [discriminate|tauto].
    - rewrite IH. tauto.
  Qed.

  Lemma aget_key_Some (l : list (Z * V)) k : In k (keys l) -> exists v, aget l k = Some v.
  Proof.
    intros H. destruct (aget l k) eqn:E; [eauto|]. apply aget_None in E. tauto.
  Qed.

  Lemma In_aget (l : list (Z * V)) k v : NoDup (keys l) -> In (k, v) l -> aget l k = Some v.
  Proof.
    induction l as [|[k' v'] l IH]; simpl; [tauto|]. intros Hnd [H|H].
    - inversion H; subst. rewrite Z.eqb_refl. reflexivity.
    - inversion Hnd as [|? ? Hni Hnd']; subst.
      destruct (Z.eqb_spec k' k) as [->|Hne].
      + exfalso. apply Hni. apply (in_map fst) in H. exact H.
      + auto.
  Qed.

  Lemma aget_aset_same (l : list (Z * V)) k v : aget (aset l k v) k = Some v.
  Proof.
    induction l as [|[k' v'] l IH]; simpl.
    - rewrite Z.eqb_refl. reflexivity.
    - destruct (Z.eqb_spec k' k) as [->|Hne]; simpl.
      + rewrite Z.eqb_refl. reflexivity.
      + destruct (Z.eqb_spec k' k); [contradiction|]. exact IH.
  Qed.

  Lemma aget_aset_other (l : list (Z * V)) k k2 v : k2 <> k -> aget (aset l k v) k2 = aget l k2.
  Proof.
    intros Hne. induction l as [|[k' v'] l IH]; simpl.
    - destruct (Z.eqb_spec k k2); [congruence|reflexivity].
    - destruct (Z.eqb_spec k' k) as [->|Hne']; simpl.
      + destruct (Z.eqb_spec k k2); [congruence|reflexivity].
      + destruct (Z.eqb_spec k' k2); [reflexivity|exact IH].
  Qed.

  Lemma keys_aset_in (l : list (Z * V)) k v : In k (keys l) -> keys (aset l k v) = keys l.
  Proof.
    induction l as [|[k' v'] l IH]; simpl; [tauto|]. intros H.
    destruct (Z.eqb_spec k' k) as [->|Hne]; simpl; [reflexivity|].
    f_equal. apply IH. destruct H; [contradiction|assumption].
  Qed.

  Lemma aset_new (l : list (Z * V)) k v : ~ In k (keys l) -> aset l k v = l ++ [(k, v)].
  Proof.
    induction l as [|[k' v'] l IH]; simpl; [reflexivity|]. intros H.
    destruct (Z.eqb_spec k' k) as [->|Hne]; [tauto|]. f_equal. apply IH. tauto.
  Qed.

  Lemma keys_aset_new (l : list (Z * V)) k v : ~ In k (keys l) -> keys (aset l k v) = keys l ++ [k].
  Proof. intros H. rewrite aset_new by exact H. rewrite map_app. reflexivity. Qed.

  Lemma in_keys_aset (l : list (Z * V)) k v x : In x (keys (aset l k v)) <-> x = k \/ In x (keys l).
  Proof.
    destruct (in_dec Z.eq_dec k (keys l)) as [Hin|Hni].
    - rewrite keys_aset_in by exact Hin. split; [auto|]. intros [->|H]; auto.
    - rewrite keys_aset_new by exact Hni. rewrite in_app_iff. simpl. split.
      + intros [H|[H|[]]]; auto.
      + intros [->|H]; auto.
  Qed.

  Lemma NoDup_keys_aset (l : list (Z * V)) k v : NoDup (keys l) -> NoDup (keys (aset l k v)).
  Proof.
    intros Hnd. destruct (in_dec Z.eq_dec k (keys l)) as [Hin|Hni].
    - rewrite keys_aset_in by exact Hin. exact Hnd.
    - rewrite keys_aset_new by exact Hni.
      apply (Permutation_NoDup (l := k :: keys l)).
      + apply Permutation_cons_append.
      + constructor; assumption.
  Qed.

  Lemma length_aset_in (l : list (Z * V)) k v : In k (keys l) -> length (aset l k v) = length l.
  Proof.
    intros H. rewrite <- (map_length fst (aset l k v)), keys_aset_in by exact H. apply map_length.
  Qed.

  Lemma length_aset_new (l : list (Z * V)) k v : ~ In k (keys l) -> length (aset l k v) = S (length l).
  Proof. intros H. rewrite aset_new by exact H. rewrite app_length. simpl. lia. Qed.

  (* what is in the list after a write *)
  Lemma In_aset (l : list (Z * V)) k v x w : NoDup (keys l) ->
    (In (x, w) (aset l k v) <-> (x = k /\ w = v) \/ (x <> k /\ In (x, w) l)).
  Proof.
    intros Hnd. pose proof (NoDup_keys_aset l k v Hnd) as Hnd'. split.
    - intros H. apply (In_aget _ _ _ Hnd') in H. destruct (Z.eq_dec x k) as [->|Hne].
      + rewrite aget_aset_same in H. inversion H. auto.
      + rewrite aget_aset_other in H by exact Hne. right. split; [exact Hne|]. apply aget_In. exact H.
    - intros [[-> ->]|[Hne H]].
      + apply aget_In. apply aget_aset_same.
      + apply aget_In. rewrite aget_aset_other by exact Hne. apply In_aget; assumption.
  Qed.

  Lemma aget_adel_other (l : list (Z * V)) k k2 : k2 <> k -> aget (adel l k) k2 = aget l k2.
  Proof.
    intros Hne. induction l as [|[k' v'] l IH]; simpl; [reflexivity|].
    destruct (Z.eqb_spec k' k) as [->|Hne']; simpl.
    - destruct (Z.eqb_spec k k2); [congruence|reflexivity].
    - destruct (Z.eqb_spec k' k2); [reflexivity|exact IH].
  Qed.

  Lemma in_keys_adel (l : list (Z * V)) k x : NoDup (keys l) ->
    (In x (keys (adel l k)) <-> x <> k /\ In x (keys l)).
  Proof.
    induction l as [|[k' v'] l IH]; simpl; [tauto|]. intros Hnd.
    inversion Hnd as [|? ? Hni Hnd']; subst.
    destruct (Z.eqb_spec k' k) as [->|Hne]; simpl.
    - split.
      + intros H. split; [intros ->; tauto|auto].
      + intros [H1 [H2|H2]]; [congruence|exact H2].
    - rewrite (IH Hnd'). split.
      + intros [H|[H1 H2]]; [subst; split; [congruence|auto]|split; auto].
      + intros [H1 [H2|H2]]; auto.
  Qed.

  Lemma NoDup_keys_adel (l : list (Z * V)) k : NoDup (keys l) -> NoDup (keys (adel l k)).
  Proof.
    induction l as [|[k' v'] l IH]; simpl; [auto|]. intros Hnd.
    inversion Hnd as [|? ? Hni Hnd']; subst.
    destruct (Z.eqb_spec k' k) as [->|Hne]; simpl; [exact Hnd'|].
    constructor; [|auto]. intros H. apply in_keys_adel in H; [|exact Hnd']. tauto.
  Qed.

  Lemma adel_absent (l : list (Z * V)) k : ~ In k (keys l) -> adel l k = l.
  Proof.
    induction l as [|[k' v'] l IH]; simpl; [reflexivity|]. intros H.
    destruct (Z.eqb_spec k' k) as [->|Hne]; [tauto|]. f_equal. apply IH. tauto.
  Qed.

  Lemma length_adel_in (l : list (Z * V)) k : In k (keys l) -> S (length (adel l k)) = length l.
  Proof.
    induction l as [|[k' v'] l IH]; simpl; [tauto|]. intros H.
    destruct (Z.eqb_spec k' k) as [->|Hne]; simpl; [reflexivity|].
    f_equal. apply IH. destruct H; [contradiction|assumption].
  Qed.

  Lemma In_adel (l : list (Z * V)) k x w : NoDup (keys l) ->
    (In (x, w) (adel l k) <-> x <> k /\ In (x, w) l).
  Proof.
    induction l as [|[k' v'] l IH]; simpl; [tauto|]. intros Hnd.
    inversion Hnd as [|? ? Hni Hnd']; subst.
    destruct (Z.eqb_spec k' k) as [->|Hne]; simpl.
    - split.
      + intros H. split; [|auto]. intros ->. apply Hni. apply (in_map fst) in H. exact H.
      + intros [H1 [H2|H2]]; [inversion H2; congruence|exact H2].
    - rewrite (IH Hnd'). split.
      + intros [H|[H1 H2]]; [inversion H; subst; split; [congruence|auto]|split; auto].
      + intros [H1 [H2|H2]]; auto.
  Qed.
End AssocLemmas.

(* ---------- boolean NoDup ---------- *)
Lemma existsb_eqb_In x l : existsb (Z.eqb x) l = true <-> In x l.
Proof.
  rewrite existsb_exists. split.
  - intros (y & Hy & E). apply Z.eqb_eq in E. subst. exact Hy.
  - intros H. exists x. split; [exact H|apply Z.eqb_refl].
Qed.

Lemma nodupb_spec l : nodupb l = true <-> NoDup l.
Proof.
  induction l as [|x l IH]; simpl.
  - split; [constructor|reflexivity].
  - rewrite andb_true_iff, negb_true_iff, IH. split.
    + intros [H1 H2]. constructor; [|exact H2]. intros Hin. apply existsb_eqb_In in Hin. congruence.
    + intros H. inversion H as [|? ? Hni Hnd]; subst. split; [|exact Hnd].
      destruct (existsb (Z.eqb x) l) eqn:E; [|reflexivity]. apply existsb_eqb_In in E. tauto.
Qed.

(* ---------- insertion sort ---------- *)
Lemma insert_sorted_perm x l : Permutation (insert_sorted x l) (x :: l).
Proof.
  induction l as [|y r IH]; simpl; auto. destruct (x <=? y); auto.
  rewrite IH. apply perm_swap.
Qed.

Lemma sortZ_perm l : Permutation (sortZ l) l.
Proof. induction l as [|x l IH]; simpl; auto. rewrite insert_sorted_perm. auto. Qed.

(* ---------- has_edge / is_node ---------- *)
Lemma existsb_fst_In (m : list (Z * Z)) b : existsb (fun cr => fst cr =? b) m = true <-> In b (map fst m).
Proof.
  rewrite existsb_exists, in_map_iff. split.
  - intros ([c r] & Hin & E). apply Z.eqb_eq in E. exists (c, r). auto.
  - intros ([c r] & E & Hin). exists (c, r). split; [exact Hin|]. apply Z.eqb_eq. exact E.
Qed.

Lemma has_edge_spec s a b :
  has_edge s a b = true <-> exists m, aget (outs s) a = Some m /\ In b (map fst m).
Proof.
  unfold has_edge. destruct (aget (outs s) a) as [m|].
  - rewrite existsb_fst_In. split; [eauto|]. intros (m' & E & H). inversion E; subst. exact H.
  - split; [discriminate|]. intros (m' & E & _). discriminate.
Qed.

Lemma is_node_spec s n : is_node s n = true <-> In n (map fst (outs s)).
Proof.
  unfold is_node. destruct (aget (outs s) n) eqn:E.
  - split; [|reflexivity]. intros _. eapply aget_Some_key. exact E.
  - apply aget_None in E. split; [discriminate|tauto].
Qed.

Lemma is_node_false s n : is_node s n = false <-> aget (outs s) n = None.
Proof. unfold is_node. destruct (aget (outs s) n); split; congruence. Qed.

Lemma has_edge_is_node s a b : has_edge s a b = true -> is_node s a = true.
Proof. unfold has_edge, is_node. destruct (aget (outs s) a); [reflexivity|discriminate]. Qed.
