package c11core

import (
	"fmt"
	"math/rand"

	. "verifharness/lib"
)

// ---------------------------------------------------------------- exhaustive small scope

func allStrings(alphabet []byte, maxLen int) [][]byte {
	res := [][]byte{{}}
	level := [][]byte{{}}
	for l := 1; l <= maxLen; l++ {
		var next [][]byte
		for _, s := range level {
			for _, ch := range alphabet {
				t := append(append([]byte{}, s...), ch)
				next = append(next, t)
			}
		}
		res = append(res, next...)
		level = next
	}
	return res
}

func exhaustive(c *Config, kind string, alphabet []byte, maxLen int) {
	ss := allStrings(alphabet, maxLen)
	for _, a := range ss {
		for _, b := range ss {
			for cfg := 0; cfg < 4; cfg++ {
				emit(c, input{kind: kind, a: a, b: b, cleanup: cfg&1 != 0, ws: cfg&2 != 0})
			}
		}
	}
}

// ---------------------------------------------------------------- random texts

// line bodies (without the terminator) that exercise duplicates, CR, invalid UTF-8, multi-byte runes, tabs,
// whitespace-only and empty lines
var bodies = []string{"a", "b", "c", "d", "x y", " x", "y ", "  ", " ", "\t", "\t ", "", "", "\r", "a\r", "\xff\xfe", "\xc3", "é", "\xed\xa0\x80",
	"\xf4\x90\x80\x80", "foo(bar);", "}", "{", "// c", "a a", "aa"}

func randLine(r *rand.Rand, vocab int) string {
	if r.Intn(12) == 0 {
		// a random byte soup without newline; NUL only rarely (makes the blob binary)
		n := r.Intn(6)
		bs := make([]byte, n)
		for i := range bs {
			bs[i] = []byte{' ', 'a', 'b', '\r', '\t', 0xff, 0xc3, 0xa9, 0x80, 0x7f, 1}[r.Intn(11)]
		}
		return string(bs)
	}
	if vocab > len(bodies) {
		return fmt.Sprintf("%s%d", bodies[r.Intn(len(bodies))], r.Intn(vocab))
	}
	return bodies[r.Intn(vocab)]
}

func randLines(r *rand.Rand, maxLines int) []string {
	n := r.Intn(maxLines + 1)
	if r.Intn(3) == 0 {
		n = r.Intn(4)
	}
	vocab := 2 + r.Intn(len(bodies)-1)
	if r.Intn(4) == 0 {
		vocab = 1000
	}
	ls := make([]string, n)
	for i := range ls {
		ls[i] = randLine(r, vocab)
	}
	return ls
}

// join terminates the lines with "\n" or "\r\n"; the final terminator is optional
func join(r *rand.Rand, ls []string) []byte {
	var out []byte
	crlf := r.Intn(5) == 0
	for i, l := range ls {
		out = append(out, l...)
		last := i == len(ls)-1
		if last && r.Intn(3) == 0 {
			break
		}
		if crlf || r.Intn(25) == 0 {
			out = append(out, '\r')
		}
		out = append(out, '\n')
	}
	return out
}

// edit derives a new version: block deletions, insertions, replacements, moves, duplications
func edit(r *rand.Rand, ls []string) []string {
	res := append([]string{}, ls...)
	for k := r.Intn(5); k >= 0; k-- {
		pos := 0
		if len(res) > 0 {
			pos = r.Intn(len(res) + 1)
		}
		n := 1 + r.Intn(3)
		if r.Intn(6) == 0 {
			n = 1 + r.Intn(12)
		}
		switch r.Intn(6) {
		case 0: // delete
			end := pos + n
			if end > len(res) {
				end = len(res)
			}
			res = append(res[:pos:pos], res[end:]...)
		case 1: // insert
			var ins []string
			for i := 0; i < n; i++ {
				ins = append(ins, randLine(r, 2+r.Intn(len(bodies)-1)))
			}
			res = append(res[:pos:pos], append(ins, res[pos:]...)...)
		case 2: // replace
			for i := pos; i < pos+n && i < len(res); i++ {
				res[i] = randLine(r, 2+r.Intn(len(bodies)-1))
			}
		case 3: // move a block to the front or the end
			end := pos + n
			if end > len(res) {
				end = len(res)
			}
			blk := append([]string{}, res[pos:end]...)
			rest := append(res[:pos:pos], res[end:]...)
			if r.Intn(2) == 0 {
				res = append(blk, rest...)
			} else {
				res = append(rest, blk...)
			}
		case 4: // duplicate a block in place
			end := pos + n
			if end > len(res) {
				end = len(res)
			}
			blk := append([]string{}, res[pos:end]...)
			res = append(res[:end:end], append(blk, res[end:]...)...)
		case 5: // whitespace-only change of one line
			if pos < len(res) {
				switch r.Intn(3) {
				case 0:
					res[pos] = " " + res[pos]
				case 1:
					res[pos] = res[pos] + " "
				default:
					res[pos] = res[pos] + "\t"
				}
			}
		}
	}
	return res
}

func randomCfg(r *rand.Rand, in *input) {
	in.cleanup = r.Intn(2) == 0
	in.ws = r.Intn(2) == 0
	// -1 / -2: the option is given as 0 / -1 (warning "invalid timeout value", no deadline)
	in.timeout = []int{0, 0, 1, 2, 10, 100, 1000, -1, -2}[r.Intn(9)]
}

func genLines(c *Config, maxLines int) input {
	r := c.Rng
	la := randLines(r, maxLines)
	var lb []string
	if r.Intn(4) == 0 {
		lb = randLines(r, maxLines)
	} else {
		lb = edit(r, la)
	}
	in := input{kind: "lines", a: join(r, la), b: join(r, lb)}
	randomCfg(r, &in)
	return in
}

func genBytes(c *Config) input {
	r := c.Rng
	alpha := []byte{'\n', '\n', '\n', 'a', 'b', ' ', ' ', '\r', '\t', 0xff, 0xc3, 0xa9}
	mk := func() []byte {
		n := r.Intn(14)
		bs := make([]byte, n)
		for i := range bs {
			bs[i] = alpha[r.Intn(len(alpha))]
		}
		if r.Intn(40) == 0 && n > 0 {
			bs[r.Intn(n)] = 0
		}
		return bs
	}
	in := input{kind: "bytes", a: mk(), b: mk()}
	if r.Intn(3) == 0 {
		in.b = append([]byte{}, in.a...)
		for k := r.Intn(3); k >= 0 && len(in.b) > 0; k-- {
			in.b[r.Intn(len(in.b))] = alpha[r.Intn(len(alpha))]
		}
	}
	randomCfg(r, &in)
	return in
}

// genWsLast aims at the finding F9 domain: whitespace-ignore with blobs that end in a whitespace-only line
// (spaces, tabs, mixed), with and without a final newline
func genWsLast(c *Config) input {
	r := c.Rng
	tail := func() string {
		switch r.Intn(6) {
		case 0:
			return " "
		case 1:
			return "   "
		case 2:
			return "\t"
		case 3:
			return " \t"
		case 4:
			return "  \n"
		default:
			return " x "
		}
	}
	la := randLines(r, 6)
	lb := edit(r, la)
	a := append(join(r, la), tail()...)
	b := join(r, lb)
	if r.Intn(2) == 0 {
		b = append(b, tail()...)
	}
	if r.Intn(3) == 0 {
		a, b = b, a
	}
	in := input{kind: "wstail", a: a, b: b}
	randomCfg(r, &in)
	in.ws = r.Intn(4) != 0
	return in
}

// genNul places NUL bytes around the end of the 8000-byte sniff window of CountLines
func genNul(c *Config, k int) input {
	r := c.Rng
	mk := func(nulAt int, size int) []byte {
		bs := make([]byte, size)
		for i := range bs {
			if r.Intn(7) == 0 {
				bs[i] = '\n'
			} else {
				bs[i] = byte('a' + r.Intn(3))
			}
		}
		if nulAt >= 0 && nulAt < size {
			bs[nulAt] = 0
		}
		return bs
	}
	positions := []int{-1, 0, 1, 7998, 7999, 8000, 8001, 8500, 15999, 16000, 19999}
	sizes := []int{7999, 8000, 8001, 8002, 9000, 16000, 20000}
	pa := positions[k%len(positions)]
	sz := sizes[(k/len(positions))%len(sizes)]
	a := mk(pa, sz)
	b := append([]byte{}, a...)
	// a few line edits far from each other
	for j := 0; j < 3; j++ {
		p := r.Intn(len(b))
		b[p] = byte('x')
	}
	if r.Intn(2) == 0 {
		b = append(b, "tail"...)
	}
	if r.Intn(3) == 0 {
		pb := positions[r.Intn(len(positions))]
		if pb >= 0 && pb < len(b) {
			b[pb] = 0
		}
	}
	in := input{kind: "nul", a: a, b: b}
	randomCfg(r, &in)
	in.timeout = 0
	return in
}

// genHeavy: a few thousand lines with scattered differences and a tiny timeout, so that the bisection gives up
// at the deadline and returns a coarse script, which must still be valid
func genHeavy(c *Config, lines int) input {
	r := c.Rng
	mk := func() []string {
		ls := make([]string, lines)
		for i := range ls {
			ls[i] = fmt.Sprintf("l%d", r.Intn(lines/2+1))
		}
		return ls
	}
	la := mk()
	var lb []string
	if r.Intn(2) == 0 {
		lb = mk()
	} else {
		lb = append([]string{}, la...)
		for k := 0; k < lines/3; k++ {
			lb[r.Intn(len(lb))] = fmt.Sprintf("m%d", r.Intn(lines))
		}
	}
	in := input{kind: "heavy", a: join(r, la), b: join(r, lb)}
	in.cleanup = r.Intn(2) == 0
	in.ws = r.Intn(4) == 0
	in.timeout = []int{1, 1, 2, 5, 1000}[r.Intn(5)]
	return in
}

func generate(c *Config) {
	// corner cases first
	fixed := []struct{ a, b string }{
		{"", ""}, {"", "a"}, {"a", ""}, {"a\n", "a"}, {"a", "a\n"}, {"\n", ""}, {"\n", "\n\n"}, {"a\r\nb\r\n", "a\nb\n"},
		{"a\r\nb", "a\r\nb\r\n"}, {"\xff\n\xfe", "\xff\n"}, {"\xc3\n", "\xc3\xa9\n"}, {"a\nb\nc\n", "c\nb\na\n"},
		{"a\na\na\n", "a\na\n"}, {"x\n", "y\n"}, {"a\nb\n", "a\n"}, {"a\nb", "a\n"},
		{"\xc3\xa9\n  ", "\xc3\xa9\n"}, {"  ", ""}, {" \n ", " \n"},
	}
	for _, f := range fixed {
		for cfg := 0; cfg < 4; cfg++ {
			emit(c, input{kind: "fixed", a: []byte(f.a), b: []byte(f.b), cleanup: cfg&1 != 0, ws: cfg&2 != 0})
		}
	}
	if c.Thorough() {
		exhaustive(c, "exh4", []byte{'a', 'b', '\n', ' '}, 4)
		exhaustive(c, "exh3", []byte{'a', '\n', ' ', '\r', 0xff}, 3)
	} else {
		exhaustive(c, "exh3", []byte{'a', 'b', '\n', ' '}, 3)
		exhaustive(c, "exh4", []byte{'a', '\n'}, 4)
	}
	for i := c.Count(12000, 400000); i > 0; i-- {
		emit(c, genLines(c, 12))
	}
	for i := c.Count(1500, 30000); i > 0; i-- {
		emit(c, genLines(c, 80))
	}
	for i := c.Count(6000, 200000); i > 0; i-- {
		emit(c, genBytes(c))
	}
	for i := c.Count(1500, 40000); i > 0; i-- {
		emit(c, genWsLast(c))
	}
	for i, n := 0, c.Count(77, 770); i < n; i++ {
		emit(c, genNul(c, i))
	}
	for i := c.Count(6, 150); i > 0; i-- {
		emit(c, genHeavy(c, 3000))
	}
	// round 4: content of the values (content.go)
	generateContent(c)
}
