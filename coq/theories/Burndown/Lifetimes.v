(* The declarative side of C01: a commit history given by line lifetimes (DESIGN.md appendix D) and the
   ground-truth burndown matrices computed directly from (birth tick, death tick).  Definitions only;
   the facts are in LifetimesFacts.v.  Everything here is executable and extracted: the functions
   truth_* are the ORACLE the replay driver compares the real matrices with, cell by cell.

   Commits are numbered 0..n-1 in a topological order (parents have smaller numbers).  Every path owns
   one global sequence of lines; a line has an identity, a birth commit and a killer (-1 = never).
   The content of a path at commit c is its sequence filtered by "born in anc*(c), killer not in anc*(c)".  *)
From Coq Require Import List ZArith Lia Bool.
From Herc Require Import Burndown.Base.
Import ListNotations.
Open Scope Z_scope.

Record line := mkLine { l_id : Z; l_born : Z; l_killer : Z }.

Record hist := mkHist {
  h_parents : list (list Z);            (* parents of commit i *)
  h_ticks : list Z;                     (* tick of commit i (days since the first commit's day) *)
  h_authors : list Z;                   (* developer of commit i *)
  h_paths : list (Z * list line)        (* path -> its global line sequence *)
}.

Definition ncommits (h : hist) : Z := Z.of_nat (length (h_parents h)).
Definition parents_of (h : hist) (c : Z) : list Z := znth [] (h_parents h) c.
Definition tick_of (h : hist) (c : Z) : Z := znth 0 (h_ticks h) c.
Definition author_of (h : hist) (c : Z) : Z := znth 0 (h_authors h) c.

(* ---------- ancestor-or-self sets as bit vectors ---------- *)
Fixpoint orvec (a b : list bool) : list bool :=
  match a, b with
  | x :: a', y :: b' => (x || y) :: orvec a' b'
  | _, _ => a
  end.
Fixpoint setbit (i : nat) (v : list bool) : list bool :=
  match v, i with
  | [], _ => []
  | _ :: r, O => true :: r
  | x :: r, S j => x :: setbit j r
  end.
Definition anc_row (n : nat) (acc : list (list bool)) (ps : list Z) : list bool :=
  setbit (length acc)
         (fold_left (fun v p => orvec v (znth (repeat false n) acc p)) ps (repeat false n)).
Fixpoint build_anc (n : nat) (pss : list (list Z)) (acc : list (list bool)) : list (list bool) :=
  match pss with
  | [] => acc
  | ps :: r => build_anc n r (acc ++ [anc_row n acc ps])
  end.
Definition ancs (h : hist) : list (list bool) :=
  build_anc (length (h_parents h)) (h_parents h) [].
(* ancb A c a : a is c or an ancestor of c *)
Definition ancb (A : list (list bool)) (c a : Z) : bool := znth false (znth [] A c) a.

(* ---------- contents ---------- *)
Definition aliveb (A : list (list bool)) (c : Z) (l : line) : bool :=
  ancb A c (l_born l) && negb ((0 <=? l_killer l) && ancb A c (l_killer l)).
Definition content (A : list (list bool)) (c : Z) (seq : list line) : list line :=
  filter (aliveb A c) seq.
Definition path_exists (A : list (list bool)) (c : Z) (seq : list line) : bool :=
  existsb (fun l => ancb A c (l_born l)) seq.

Definition all_lines (h : hist) : list (Z * line) :=
  flat_map (fun pl => map (fun l => (fst pl, l)) (snd pl)) (h_paths h).

(* ---------- the domain of the property ---------- *)
Definition in_range (n c : Z) : bool := (0 <=? c) && (c <? n).

(* commits: same length everywhere, parents are earlier commits, pairwise distinct;
   ticks start at 0 with commit 0, are non-negative and do not decrease along an edge *)
Definition commits_okb (h : hist) : bool :=
  let n := ncommits h in
  (1 <=? n) && (Z.of_nat (length (h_ticks h)) =? n) && (Z.of_nat (length (h_authors h)) =? n) &&
  (tick_of h 0 =? 0) &&
  forallb (fun c => (0 <=? tick_of h c) && (0 <=? author_of h c) && nodup_zb (parents_of h c) &&
                    forallb (fun p => in_range c p && (tick_of h p <=? tick_of h c)) (parents_of h c))
          (zrange n).

(* lines: identities distinct, born at a commit, killed by nobody or by a strict descendant of the birth
   commit; a commit with several parents kills nothing (a merge is the clean union of its parents,
   optionally adding lines).  The last conjunct (the killer's tick is not before the birth tick) follows
   from the tick condition of commits_okb along the ancestry; it is checked directly instead of derived. *)
Definition line_okb (h : hist) (A : list (list bool)) (l : line) : bool :=
  in_range (ncommits h) (l_born l) &&
  ((l_killer l =? -1) ||
   (in_range (ncommits h) (l_killer l) && ancb A (l_killer l) (l_born l) && negb (l_killer l =? l_born l) &&
    (Z.of_nat (length (parents_of h (l_killer l))) <=? 1) &&
    (tick_of h (l_born l) <=? tick_of h (l_killer l)))).

(* ticks do not decrease from an ancestor to a descendant (implied by the parent condition of commits_okb;
   checked on the table instead of derived) *)
Definition anc_ticks_okb (h : hist) (A : list (list bool)) : bool :=
  forallb (fun c => forallb (fun a => negb (ancb A c a) || (tick_of h a <=? tick_of h c)) (zrange (ncommits h)))
          (zrange (ncommits h)).

Definition conflict_free (h : hist) : bool :=
  anc_ticks_okb h (ancs h) &&
  commits_okb h &&
  nodup_zb (map fst (h_paths h)) &&
  nodup_zb (map (fun pl => l_id (snd pl)) (all_lines h)) &&
  forallb (fun pl => line_okb h (ancs h) (snd pl)) (all_lines h).

(* a single head: the last commit descends from every commit *)
Definition single_head (h : hist) : bool :=
  let A := ancs h in
  forallb (fun c => ancb A (ncommits h - 1) c) (zrange (ncommits h)).

(* at least one text line: the matrix is defined (F11 otherwise) *)
Definition has_line (h : hist) : bool := match all_lines h with [] => false | _ => true end.

(* ---------- ground truth ---------- *)
Definition birth_tick (h : hist) (l : line) : Z := tick_of h (l_born l).
Definition has_killer (l : line) : bool := 0 <=? l_killer l.
Definition death_tick (h : hist) (l : line) : Z := tick_of h (l_killer l).

(* the last tick at which a line is born or dies *)
Definition last_event (h : hist) : Z :=
  fold_right (fun pl m =>
      let l := snd pl in
      Z.max (Z.max m (birth_tick h l)) (if has_killer l then death_tick h l else 0))
    0 (all_lines h).

(* alive at the end of tick e *)
Definition alive_at (h : hist) (e : Z) (l : line) : bool :=
  (birth_tick h l <=? e) && negb (has_killer l && (death_tick h l <=? e)).

(* sample s ends at tick (s+1)*S-1; band b holds the births of ticks b*G .. (b+1)*G-1 *)
Definition truth_cell (h : hist) (G S : Z) (keep : Z * line -> bool) (s b : Z) : Z :=
  count (fun pl => keep pl && alive_at h ((s + 1) * S - 1) (snd pl) && (birth_tick h (snd pl) / G =? b))
        (all_lines h).

Definition truth_matrix (h : hist) (G S : Z) (keep : Z * line -> bool) : list (list Z) :=
  let last := last_event h in
  map (fun s => map (fun b => truth_cell h G S keep s b) (zrange (last / G + 1))) (zrange (last / S + 1)).

Definition keep_all (pl : Z * line) : bool := true.
Definition keep_path (p : Z) (pl : Z * line) : bool := fst pl =? p.
Definition keep_dev (h : hist) (d : Z) (pl : Z * line) : bool := author_of h (l_born (snd pl)) =? d.

Definition truth_project (h : hist) (G S : Z) := truth_matrix h G S keep_all.
Definition truth_file (h : hist) (G S : Z) (p : Z) := truth_matrix h G S (keep_path p).
Definition truth_dev (h : hist) (G S : Z) (d : Z) := truth_matrix h G S (keep_dev h d).

(* lines of the HEAD commit (= the last commit; meaningful when single_head) *)
Definition head_lines (h : hist) : list (Z * line) :=
  let A := ancs h in
  filter (fun pl => aliveb A (ncommits h - 1) (snd pl)) (all_lines h).

Definition lines_at_head (h : hist) : Z := Z.of_nat (length (head_lines h)).

(* ownership table of path p at HEAD: developer -> number of lines, developers with no line omitted,
   sorted by developer *)
Definition truth_ownership (h : hist) (p : Z) (devs : list Z) : list (Z * Z) :=
  filter (fun dn => 0 <? snd dn)
    (map (fun d => (d, count (fun pl => keep_path p pl && keep_dev h d pl) (head_lines h))) devs).

(* a path has a per-file matrix iff it has at least one line in the history *)
Definition paths_with_lines (h : hist) : list Z :=
  map fst (filter (fun pl => match snd pl with [] => false | _ => true end) (h_paths h)).
