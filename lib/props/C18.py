CONFIG = dict(
        level='proof',
        streams=[dict(harness='c18', driver='c18')],
        rule='pairs (r1, r2, c1, c2) given to the real MergeResults of DevsAnalysis, CouplesAnalysis, BurndownAnalysis and to '
             'CommonAnalysisResult.Merge. Developer identity lists: all pairs of lists over the parts {ann, bob, a@x.io} (every partial '
             'partition, second list also reversed) plus random pairs in three modes (identical-or-disjoint identities; independent partitions '
             '= sharing only a name / only an e-mail / bridging two identities; sub- and supersets of single identities); file lists partially '
             'overlapping, disjoint, permuted; begin dates up to 40 days apart, tick sizes 1 ns .. 7 d, equal and unequal (error), 0 and negative '
             '(malformed); malformed streams with out-of-range developer/file indices, short line lists, over-long matrices, ragged interaction '
             'matrices, missing people histories (panics, also inside worker goroutines: run in a child process). kind = analysis + identity '
             'class (lit: every identity spelled like its merged identity; idmerge: identities merge, one per result; bridge: two identities '
             'of one result merge). '
             'Scale family (harness/cmd/c18/scale.go, cases carry the field (fam sc-ids | sc-big)): (1) identity GRAPHS - lists of 8..40 '
             'identities per side (burndown: up to 10, one bit per developer history) whose shares-a-part graph is made of random bipartite '
             'trees (chains of 5..24 renames, stars, chains hanging off stars, bushy trees, extra cycle edges, identities with 1-5 parts, twins, '
             'unrelated identities), every part in at most one identity per list, laid out in adversarial orders inside the two lists '
             '(creation order, reversed, rotated by 1..3, reversed and rotated, deepest first, evens then odds, by depth, shuffled; half of the '
             'pairs are the ones that build deep forests in order-sensitive merges), kinds sc-dv-<class>, sc-cp-<class>, bd-<class>; '
             '(2) LARGE results - couples with n files or n developers per side, developer statistics with n ticks, n developers of one tick, '
             'n languages, n in 7..513 (a third of the sizes per axis, rotating with the seed), 1003 + 300, 40 + 1029 and one more pair from '
             '{999, 1000, 1001, 1003, 1023, 1024, 1025, 1029, 2048, 2051} in the quick tier; all of these and 4096, 4099, 10007 in the thorough '
             'tier; partially overlapping name lists with the second list in a strided order, sparse rows, last rows non-empty, kinds '
             'sc-cp-files, sc-cp-people, sc-dv-ticks, sc-dv-people, sc-dv-langs. Scale cases are judged by the fast oracles cp_sum_fast_b / '
             'dv_conserve_fast_b (proved to imply cp_sum_b / dv_conserve_b) and the model is still replayed. Every devs / couples / burndown '
             'case (all streams) also has the identity table of the call judged: same merged index <=> connected by shared names / e-mails, '
             'merged description = union of the parts, by an independent union-find in the driver (every size) and by the extracted oracles '
             'of C16 mtotal_okb / mcomponents_okb / munion_okb (always up to 12 identities, sampled up to 44), inside the domain "every part in '
             'at most one entry of a list". Chained merges (round 3, harness/cmd/c18/chain.go, case field (chain L|R|LR|V), kinds ch-devs-*, ch-couples-*, ch-burndown-*, '
             'ch-burndown-extend-*): three or four results combined as (A+B)+C, A+(B+C), (A+B)+(C+D) and A+B then A+C with the same object A, every intermediate '
             'result kept in memory and handed to the next MergeResults call as it is (summary = c1.Copy() merged with c2, as cmd/hercules/combine.go does); every call '
             'is judged like a single pair against the plain-data pictures of its two operands taken BEFORE the call (all oracles, model replayed per call), and '
             '(inputs a b others) records whether the first argument, the second argument and every other live result (with its summary) still has the same full '
             'serialisation after the call: a MergeResults that changes an argument or an earlier result is a PROPFAIL; literal identities, developer lists that are '
             'subsets of one pool / the previous list permuted / all new, for burndown one bit per developer history (2^(5k+i)) and operands without interaction '
             'matrix only in second-argument positions (the extend branch), ch-burndown-extend-*: operands with matrices, then one without matrix that brings new '
             'developers.  The interaction rows of the extend branch are judged by pm_rows_b as well (r2 without matrix = zeros).  '
             'Non-trivial = both results have developers (and ticks / files), every chained case; distinct = distinct input.',
        exhaustive_note='identity lists: all 15 x 15 pairs of partial partitions of {ann, bob, a@x.io} (second list also reversed), each with '
                        'generated data, for the three analyses',
        assumptions=[
            'the identity table (people: input identity -> {Final, First, Second}, merged list) is taken from the real '
            'identity.MergeReversedDictsIdentities (same arguments, the function is deterministic) and given to the model as data; the '
            'theorems about developer statistics and couples hold for EVERY table; the burndown theorems assume wf_table_b (every input '
            'identity has an entry, Final inside the merged list, First/Second point back at positions holding that very identity, lists '
            'without duplicates, every merged identity has a member), which the driver evaluates on the table of every real call '
            '(counter table_not_wf, 0 in every run so far); the correctness of that table is property C16, but since the strengthening '
            'round the C18 driver judges it too (C18_identity_classes: a table that passes mtotal_okb / mcomponents_okb sends two input '
            'identities to one merged developer exactly when they are connected): a wrong table is a PROPFAIL of the clause "re-indexes by '
            'merged developer identity"',
            'BurndownAnalysis.mergeMatrices (float resampling) is an opaque function of the two selected matrices (Section variable mergeM); '
            'the replay observes WHICH histories were selected by giving every input history the shape [[2^k]] with sampling = granularity '
            '= 1, for which mergeMatrices adds the values into its last row (code_merge)',
            'Go int/int64 sums are unbounded Z in the model (no input comes near 2^63); time.Duration arithmetic is exact in the exercised '
            'range (begin dates between 1970 and 2106, tick sizes below 2^62 ns); FloorTime rounds to multiples of the tick size counted '
            'from Go\'s zero time',
            'Go maps are association lists; iteration order of an input map = order of the list (the harness gives sorted order, the '
            'theorems hold for every order and do not even need distinct keys in the inputs); RunTimePerItem is reduced to its key set '
            '(float values are not compared)',
            'file lists of couples results have no duplicate names (with duplicates in the first list MergeReversedDictsLiteral depends '
            'on map iteration order or panics)'],
        trusted_base=[
            'the union-find over identity parts written in the OCaml driver (second, independent judge of the identity table; the first one '
            'is extracted from C16 and proved sound) and the report-only describers of differing cells',
            'hand-written Gallina model coq/theories/Combine/Model.v of the three MergeResults, CommonAnalysisResult.Merge and '
            'MergeReversedDictsLiteral, tied to the code by the replay of every harness case (zero mismatches)',
            'hook file /repo/leaves/verif_c18.go (constructors/getters for unexported result fields, re-export of the two identity merges)'],
        level_text='Coq proof over ALL pairs of results and ALL identity tables, about the executable model that is replayed against the Go code: '
                   'developer statistics - every figure per aligned tick and merged developer and every total (commits, added/removed/changed, '
                   'per language) is the sum of the inputs, tick offsets are the whole ticks between the floored begin dates; couples - file list '
                   '= duplicate-free union, line counts add up by file name, files/people matrix cells are the sums of the input cells '
                   're-indexed by file name / merged identity, PeopleFiles = sorted union (MergeReversedDictsLiteral is modelled and proved); '
                   'common summary - min begin, max end, sums, panic condition. Burndown: the clause "computed from exactly the input '
                   'developers of that merged identity" is FALSE of the current code (finding F8): proved correct when every input identity is '
                   'spelled like its merged identity (histories: C18_people_selection, interaction rows: C18_interaction_rows), the exact '
                   'failure condition is proved (C18_people_selection_only_if) and refuted by vm_compute on the table of a real call '
                   '(C18_people_selection_refuted), reproduced on the Go code by generator kinds bd-idmerge / bd-bridge. Strengthening round: '
                   'C18_couples_fast_oracle_sound / C18_devs_fast_oracle_sound (the fast oracles used on large results imply the oracles of '
                   'Spec.v), C18_identity_classes / C18_identity_finals_in_range (a table that passes the executable statements of C16 sends two '
                   'input identities to the same merged developer, as the models of C18 read it, exactly when they are connected by shared '
                   'names / e-mails). 18 theorems + 5 examples, all closed under the global context.',
        level_note='Trusted: correspondence Model.v <-> Go (tested, not proved: ~16 k pairs per quick run incl. exhaustive identity-list pairs and '
                   'malformed inputs, every field of the merged results compared after sorting map keys), Coq kernel, extraction, OCaml driver, '
                   'Go harness, the verif hook. Modelled rather than verified: the identity table (argument + checked well-formedness, C16 owns '
                   'its correctness), mergeMatrices (opaque; only the selection of its arguments is observed, through recognisable 1x1 '
                   'histories), Go maps as association lists, unbounded integers, time rounding as integer floor division. Not covered: '
                   'FileHistories/FileOwnership (the code does not merge them), the float values of RunTimePerItem, the people-matrix '
                   '"extend" branch (len(bar2.PeopleMatrix) == 0) has correspondence only, definedness (absence of panics) is proved for devs '
                   'and common only. OPEN FINDING F8: until the coordinator fixes burndown MergeResults or lists it in known_findings.json the '
                   'check reports the PROPFAIL of kinds bd-idmerge/bd-bridge.',
        technique='machine-checked proof in Coq 8.16 (fold invariants over association-list sums, characterisation of the literal table merge, '
                  'selection exactness under an abstract table interface) + model/implementation correspondence replay through the extracted '
                  'OCaml model + extracted specification oracles (filter-and-sum over the inputs) judging the real outputs + exhaustive '
                  'small-scope enumeration of identity-list pairs + scale family (identity graphs in adversarial layouts, results with 10^3..10^4 '
                  'files / developers / ticks) judged by fast oracles proved to imply the specification oracles + the identity table of every '
                  'call judged by the extracted statements of C16 and an independent union-find',
    )
