(* From "the view is the sum of the kept contributions of all commits" to "the dense matrix of the view is the
   ground-truth matrix restricted to the kept lines" (MatrixProofs.v with a filter), and the two instances:
   the history of one file (C01_files) and the history of one developer (C01_people). *)
From Coq Require Import List ZArith Lia Bool Permutation.
From Herc Require Import Burndown.Base Burndown.Dense Burndown.DenseProofs Burndown.Lifetimes Burndown.LifetimesFacts
  Burndown.AncFacts Burndown.Analysis Burndown.SparseFacts Burndown.AnalysisFacts Burndown.Replay
  Burndown.LinearProofs Burndown.CommitProofs Burndown.PlanProofs Burndown.DagProofs Burndown.MatrixProofs
  Burndown.FrameFacts Burndown.ViewFacts Burndown.ViewStep Burndown.ViewMerge Burndown.ViewDag.
Import ListNotations.
Open Scope Z_scope.

(* ---------- the kept contributions regrouped by line ---------- *)
Section KMatrix.
  Variable h : hist.
  Hypothesis Hcf : conflict_free h = true.
  Variable keep : Z * line -> bool.

  Lemma contribK_sum P :
    sum_z (map (contribK h keep P) (zrange (ncommits h))) =
    count (fun pl => keep pl && P (birth_tick h (snd pl)) (birth_tick h (snd pl))) (all_lines h) -
    count (fun pl => keep pl && (has_killer (snd pl) && P (death_tick h (snd pl)) (birth_tick h (snd pl)))) (all_lines h).
  Proof.
    unfold contribK.
    assert (E : forall (f g : Z -> Z) l, sum_z (map (fun c => f c - g c) l) = sum_z (map f l) - sum_z (map g l)).
    { intros f g l. induction l as [|x l IH]; [reflexivity|]. cbn [map]. rewrite !sum_z_cons, IH. lia. }
    rewrite (E (fun c => if P (tick_of h c) (tick_of h c) then count (fun pl => keep pl && (l_born (snd pl) =? c)) (all_lines h) else 0)
               (fun c => count (fun pl => keep pl && ((l_killer (snd pl) =? c) && P (tick_of h c) (birth_tick h (snd pl)))) (all_lines h))).
    f_equal.
    - rewrite <- (sum_bands (fun pl => keep pl && P (birth_tick h (snd pl)) (birth_tick h (snd pl))) (fun pl => l_born (snd pl))
                           (all_lines h) 0 (Z.to_nat (ncommits h))).
      + unfold zrange. f_equal. apply map_ext. intros c.
        destruct (P (tick_of h c) (tick_of h c)) eqn:EP.
        * apply count_ext_in. intros pl _. destruct (Z.eqb_spec (l_born (snd pl)) c) as [<-|]; [|rewrite !andb_false_r; reflexivity].
          unfold birth_tick. rewrite EP. rewrite !andb_true_r. reflexivity.
        * symmetry. unfold count. rewrite (filter_ext_in _ (fun _ => false)).
          { clear. induction (all_lines h); cbn; auto. }
          intros pl _. destruct (Z.eqb_spec (l_born (snd pl)) c) as [<-|]; [|rewrite andb_false_r; reflexivity].
          unfold birth_tick. rewrite EP. rewrite !andb_false_r. reflexivity.
      + intros pl Hin _. pose proof (born_range h Hcf pl Hin). unfold ncommits in *. lia.
    - rewrite <- (sum_bands (fun pl => keep pl && (has_killer (snd pl) && P (death_tick h (snd pl)) (birth_tick h (snd pl))))
                           (fun pl => l_killer (snd pl)) (all_lines h) 0 (Z.to_nat (ncommits h))).
      + unfold zrange. f_equal. apply map_ext_in. intros c Hc. apply zrange_from_in in Hc.
        apply count_ext_in. intros pl _. destruct (Z.eqb_spec (l_killer (snd pl)) c) as [<-|]; [|rewrite !andb_false_r; reflexivity].
        unfold has_killer, death_tick. destruct (Z.leb_spec 0 (l_killer (snd pl))); [|lia]. cbn [andb].
        rewrite andb_true_r. reflexivity.
      + intros pl Hin E0. apply andb_prop in E0. destruct E0 as [_ E0]. apply andb_prop in E0. destruct E0 as [E0 _].
        pose proof (killer_range h Hcf pl Hin E0). unfold ncommits in *. lia.
  Qed.

  Lemma contribK_truth G S s b : 1 <= G -> 1 <= S ->
    sum_z (map (contribK h keep (fun t k => (Z.quot t S <=? s) && (Z.quot k G =? b))) (zrange (ncommits h))) =
    truth_cell h G S keep s b.
  Proof.
    intros HG HS. rewrite contribK_sum. unfold truth_cell. apply count_diff. intros pl Hin.
    pose proof (birth_le_last h Hcf pl Hin) as [Hb0 _].
    rewrite !(quot_le_sample S s _ HS Hb0). rewrite (Z.quot_div_nonneg (birth_tick h (snd pl)) G) by lia.
    unfold alive_at. destruct (keep pl); cbn [andb]; [|reflexivity].
    destruct (has_killer (snd pl)) eqn:Ek; cbn [andb negb].
    - pose proof (killer_tick h Hcf pl Hin Ek) as Hbd.
      rewrite (quot_le_sample S s (death_tick h (snd pl)) HS) by lia.
      destruct (Z.leb_spec (birth_tick h (snd pl)) ((s + 1) * S - 1)),
               (Z.leb_spec (death_tick h (snd pl)) ((s + 1) * S - 1)),
               (birth_tick h (snd pl) / G =? b); cbn [andb negb]; lia.
    - rewrite andb_true_r. destruct (birth_tick h (snd pl) <=? (s + 1) * S - 1), (birth_tick h (snd pl) / G =? b); cbn; lia.
  Qed.
End KMatrix.

Lemma truth_matrix_ext h G S keep1 keep2 : (forall pl, In pl (all_lines h) -> keep1 pl = keep2 pl) ->
  truth_matrix h G S keep1 = truth_matrix h G S keep2.
Proof.
  intros E. unfold truth_matrix. apply map_ext. intros s. apply map_ext. intros b. unfold truth_cell.
  apply count_ext_in. intros pl Hin. rewrite (E pl Hin). reflexivity.
Qed.

(* ---------- the dense matrix of a sub-history, rows up to a given last tick ---------- *)
Lemma view_dense T H Hv G S last : gh_ok T H -> subh Hv H -> (forall t, In t (keys H) -> 0 <= t <= last) -> 0 <= last ->
  Hv <> [] -> 1 <= S -> 1 <= G ->
  exists M, group_sparse_history G S Hv last = Ok (M, last) /\
    length M = Z.to_nat (last / S + 1) /\ (forall row, In row M -> length row = Z.to_nat (last / G + 1)) /\
    (forall s b, 0 <= s <= last / S -> 0 <= b <= last / G ->
       cell M s b = wsum (fun t k => (Z.quot t S <=? s) && (Z.quot k G =? b)) Hv).
Proof.
  intros (G1 & G2 & G3) (S1 & S2 & S3) Hk Hl Hne HS HG.
  assert (Hdl : dense_last Hv last = last) by (unfold dense_last; destruct (Z.leb_spec 0 last); [reflexivity|lia]).
  destruct (C01_dense G S Hv last HS HG Hne) as (M & EM & D1 & D2 & Hcell).
  - apply NoDup_nodup_zb. exact S1.
  - rewrite Hdl. unfold sparse_wfb. apply forallb_forall. intros tr Hin.
    assert (Hkey : In (fst tr) (keys Hv)) by (unfold keys; apply in_map; auto).
    destruct (Hk _ (S2 _ Hkey)). apply andb_true_intro. split; [apply andb_true_intro; split; lia|].
    apply forallb_forall. intros kd Hkd.
    assert (He : In (fst tr, fst kd) (entries Hv)).
    { unfold entries. apply in_flat_map. exists tr. split; auto. apply in_map_iff. exists kd. auto. }
    pose proof (proj1 (inner_le_entries H) G2 _ (S3 _ He)) as Hle. cbn [fst snd] in Hle. lia.
  - rewrite Hdl in *. exists M. split; auto. split; auto. split; auto.
    intros s b Hs Hb. rewrite Hcell by auto. apply spec_cell_wsum.
Qed.

Section VMatrix.
  Variable h : hist.
  Variable cf : cfg.
  Variable aidx : list Z.
  Hypothesis Hcf : conflict_free h = true.
  Hypothesis Hmark : forall c, 0 <= c < ncommits h -> tick_of h c < mark.
  Hypothesis Haidx : forall c, 0 <= znth 0 aidx c.
  Variable vw : view cf.
  Notation V := (v_proj vw).
  Variable keep : Z * line -> bool.
  Hypothesis link2 : forall p seq l, In (p, seq) (h_paths h) -> In l seq -> v_kp vw p (val h cf aidx l) = keep (p, l).
  Hypothesis HV0 : V shared0 = [].

  (* the dense matrix of the view, with the rows of the project matrix, is the ground truth of the kept lines *)
  Theorem view_matrix plan w G S M last Mv lv :
    plan_okb h plan = true -> run_hist cf h aidx plan = Ok w -> 1 <= G -> 1 <= S ->
    group_sparse_history G S (s_gh (w_shared w)) (-1) = Ok (M, last) ->
    group_sparse_history G S (V (w_shared w)) last = Ok (Mv, lv) ->
    Mv = truth_matrix h G S keep /\ lv = last /\ last = last_event h.
  Proof.
    intros Hok Er HG HS Eg Ev.
    destruct (matrix_eq h cf aidx plan w G S M last Hcf Hmark Haidx Hok Er HG HS Eg) as [_ Hlast].
    destruct (global_sparse h cf aidx Hcf Hmark Haidx plan w Hok Er) as (_ & Hgh & _).
    assert (Hne : s_gh (w_shared w) <> []) by (intros E0; rewrite E0 in Eg; discriminate).
    destruct (gh_ok_dense_full mark (s_gh (w_shared w)) G S Hgh Hne HS HG) as (M0 & last0 & E0 & _ & _ & _ & Hk1 & Hk2).
    rewrite Eg in E0. injection E0 as <- <-.
    destruct (view_sparse h cf aidx Hcf Hmark Haidx vw keep link2 HV0 plan w Hok Er) as (Hsum & Hsub & _).
    assert (Hvne : V (w_shared w) <> []) by (intros E0; rewrite E0 in Ev; discriminate).
    assert (Hl0 : 0 <= last) by (destruct (Hk1 _ Hk2); lia).
    destruct (view_dense mark _ _ G S last Hgh Hsub Hk1 Hl0 Hvne HS HG) as (M1 & E1 & D1 & D2 & Hcell).
    rewrite Ev in E1. injection E1 as <- ->. split; [|split; [reflexivity|exact Hlast]].
    assert (H0S : 0 <= last / S) by (apply Z.div_pos; lia).
    assert (H0G : 0 <= last / G) by (apply Z.div_pos; lia).
    rewrite (nested_eq Mv (Z.to_nat (last / S + 1)) (Z.to_nat (last / G + 1)) D1 D2).
    unfold truth_matrix. rewrite <- Hlast. rewrite !Z2Nat.id by lia.
    apply map_ext_in. intros s Hs. apply zrange_in in Hs. apply map_ext_in. intros b Hb. apply zrange_in in Hb.
    rewrite Hcell by lia. rewrite Hsum. apply contribK_truth; auto.
  Qed.

  (* an empty view: no kept line contributes to any cell *)
  Theorem view_empty plan w G S :
    plan_okb h plan = true -> run_hist cf h aidx plan = Ok w -> 1 <= G -> 1 <= S ->
    V (w_shared w) = [] -> forall s b, truth_cell h G S keep s b = 0.
  Proof.
    intros Hok Er HG HS E0 s b.
    destruct (view_sparse h cf aidx Hcf Hmark Haidx vw keep link2 HV0 plan w Hok Er) as (Hsum & _).
    rewrite <- (contribK_truth h Hcf keep G S s b HG HS), <- Hsum, E0. reflexivity.
  Qed.
End VMatrix.

(* ================= instance 1: the history of one file ================= *)
Definition fh_of (p0 : Z) (s : shared) : list (Z * list (Z * Z)) :=
  match aget (s_names s) p0 with Some k => aget_d [] (s_fhs s) k | None => [] end.
Definition flt_file (p0 : Z) (s : shared) (hd : option Z) (v : Z) : bool :=
  match hd, aget (s_names s) p0 with Some a, Some b => a =? b | _, _ => false end.
Definition kp_file (p0 p v : Z) : bool := p =? p0.

Lemma aget_d_aset {X} (d : X) l k v k' : aget_d d (aset l k v) k' = if k =? k' then v else aget_d d l k'.
Proof. unfold aget_d. rewrite aget_aset. destruct (k =? k'); reflexivity. Qed.

(* what one (unmarked) report does to the file and people histories *)
Lemma update_time_hists cf hd s cur prev d s' : update_time cf hd s cur prev d = Ok s' ->
  is_mark prev = false -> is_mark cur = false ->
  s_fhs s' = match hd with
             | Some k => aset (s_fhs s) k (sp_add (aget_d [] (s_fhs s) k) (tp cf cur) (tp cf prev) d)
             | None => s_fhs s
             end /\
  s_phs s' = (if c_people cf =? 0 then s_phs s
              else if fst (unpack cf prev) =? author_missing then s_phs s
              else aset (s_phs s) (fst (unpack cf prev))
                     (sp_add (aget_d [] (s_phs s) (fst (unpack cf prev))) (tp cf cur) (tp cf prev) d)).
Proof.
  unfold update_time. intros E Hp Hc. rewrite Hp, Hc in E.
  set (s1 := update_global cf s cur prev d) in *.
  set (s2 := match hd with Some k => update_file cf k s1 cur prev d | None => s1 end) in *.
  assert (E2 : s_fhs s2 = match hd with
             | Some k => aset (s_fhs s) k (sp_add (aget_d [] (s_fhs s) k) (tp cf cur) (tp cf prev) d)
             | None => s_fhs s end /\ s_phs s2 = s_phs s).
  { unfold s2. destruct hd; split; reflexivity. }
  destruct E2 as [E2 E3].
  destruct (c_people cf =? 0); [injection E as <-; split; [exact E2|exact E3]|].
  unfold update_author, update_matrix, tp in *. destruct (unpack cf prev) as [pa pt]. cbn [fst snd] in *.
  destruct (pa =? author_missing).
  { injection E as <-. split; [exact E2|exact E3]. }
  destruct ((pa <? 0) || (c_people cf <=? pa)); [discriminate|].
  injection E as <-. cbn [s_fhs s_phs with_phs with_mx]. rewrite E3. split; [exact E2|reflexivity].
Qed.

Section FileView.
  Variable cf : cfg.
  Hypothesis Hfiles : c_files cf = true.
  Variable p0 : Z.

  Lemma file_law : view_law cf (fh_of p0) (flt_file p0).
  Proof.
    intros hd s cur prev d s' E. destruct (update_time_names _ _ _ _ _ _ _ E) as [En _]. split; [|split].
    - intros hd' v. unfold flt_file. rewrite En. reflexivity.
    - intros Hm. destruct (update_time_cases _ _ _ _ _ _ _ E) as [(_ & ->)|[(_ & _ & ->)|(E1 & E2 & _)]]; auto.
      destruct Hm; congruence.
    - intros Hp Hc. destruct (update_time_hists _ _ _ _ _ _ _ E Hp Hc) as [Ef _].
      unfold fh_of, flt_file. rewrite En. destruct (aget (s_names s) p0) as [k|]; [|destruct hd; reflexivity].
      rewrite Ef. destruct hd as [a|]; [|reflexivity]. rewrite aget_d_aset.
      destruct (Z.eqb_spec a k) as [->|]; reflexivity.
  Qed.

  Lemma file_create s p : NI s -> c_files cf = true -> aget (s_names s) p = None -> fh_of p0 (create s p) = fh_of p0 s.
  Proof.
    intros [N1 _] _ En. unfold fh_of, create. cbn [s_names s_fhs with_fhs with_names]. rewrite aget_aset.
    destruct (Z.eqb_spec p p0) as [->|Hne].
    - rewrite En, aget_d_aset, Z.eqb_refl. reflexivity.
    - destruct (aget (s_names s) p0) as [k|] eqn:Ek; [|reflexivity]. rewrite aget_d_aset.
      specialize (N1 _ _ Ek). destruct (Z.eqb_spec (s_next s) k); [lia|reflexivity].
  Qed.

  Lemma file_link s p hd v : NI s -> hd = (if c_files cf then aget (s_names s) p else None) ->
    (c_files cf = true -> aget (s_names s) p <> None) -> flt_file p0 s hd v = kp_file p0 p v.
  Proof.
    intros (_ & N2 & _) Eh Hn. rewrite Hfiles in Eh. specialize (Hn Hfiles). unfold flt_file, kp_file. subst hd.
    destruct (aget (s_names s) p) as [a|] eqn:Ea; [|congruence].
    destruct (aget (s_names s) p0) as [b|] eqn:Eb.
    - destruct (Z.eqb_spec a b) as [->|Hne].
      + rewrite (N2 _ _ _ Ea Eb). symmetry. apply Z.eqb_refl.
      + symmetry. apply Z.eqb_neq. intros ->. congruence.
    - symmetry. apply Z.eqb_neq. intros ->. congruence.
  Qed.

  Definition file_view : view cf :=
    mkView cf (fh_of p0) (flt_file p0) (kp_file p0) file_law file_create (fun s x => eq_refl) file_link.
End FileView.

(* C01_files: the dense matrix of the history of path p, rows up to the project's last tick *)
Theorem files_matrix h cf aidx plan w G S M last p k Mp lp :
  conflict_free h = true -> (forall c, 0 <= c < ncommits h -> tick_of h c < mark) -> (forall c, 0 <= znth 0 aidx c) ->
  c_files cf = true -> plan_okb h plan = true -> run_hist cf h aidx plan = Ok w ->
  1 <= G -> 1 <= S -> group_sparse_history G S (s_gh (w_shared w)) (-1) = Ok (M, last) ->
  aget (s_names (w_shared w)) p = Some k ->
  group_sparse_history G S (aget_d [] (s_fhs (w_shared w)) k) last = Ok (Mp, lp) ->
  Mp = truth_file h G S p /\ lp = last.
Proof.
  intros Hcf Hmark Haidx Hfiles Hok Er HG HS Eg En Ev.
  destruct (view_matrix h cf aidx Hcf Hmark Haidx (file_view cf Hfiles p) (keep_path p)
              (fun _ _ _ _ _ => eq_refl) eq_refl plan w G S M last Mp lp Hok Er HG HS Eg) as (R1 & R2 & _).
  - cbn [v_proj file_view]. unfold fh_of. rewrite En. exact Ev.
  - split; [exact R1|exact R2].
Qed.
Print Assumptions files_matrix.

(* ================= instance 2: the history of one developer ================= *)
Definition flt_dev (cf : cfg) (i : Z) (s : shared) (hd : option Z) (v : Z) : bool :=
  negb (c_people cf =? 0) && (fst (unpack cf v) =? i).
Definition kp_dev (cf : cfg) (i : Z) (p v : Z) : bool := negb (c_people cf =? 0) && (fst (unpack cf v) =? i).

Section DevView.
  Variable cf : cfg.
  Variable i : Z.
  Hypothesis Hi : i <> author_missing.

  Lemma dev_law : view_law cf (fun s => aget_d [] (s_phs s) i) (flt_dev cf i).
  Proof.
    intros hd s cur prev d s' E. split; [reflexivity|]. split.
    - intros Hm. destruct (update_time_cases _ _ _ _ _ _ _ E) as [(_ & ->)|[(_ & _ & ->)|(E1 & E2 & _)]]; auto.
      destruct Hm; congruence.
    - intros Hp Hc. destruct (update_time_hists _ _ _ _ _ _ _ E Hp Hc) as [_ Ep]. rewrite Ep. unfold flt_dev.
      destruct (c_people cf =? 0); cbn [negb andb]; [reflexivity|].
      destruct (Z.eqb_spec (fst (unpack cf prev)) author_missing) as [Em|Hnm].
      + rewrite Em. destruct (Z.eqb_spec author_missing i); [congruence|reflexivity].
      + rewrite aget_d_aset. destruct (Z.eqb_spec (fst (unpack cf prev)) i) as [->|]; reflexivity.
  Qed.

  Definition dev_view : view cf :=
    mkView cf (fun s => aget_d [] (s_phs s) i) (flt_dev cf i) (kp_dev cf i) dev_law
           (fun s p _ _ _ => eq_refl) (fun s x => eq_refl) (fun s p hd v _ _ _ => eq_refl).
End DevView.

Lemma dev_link2 h cf aidx i : conflict_free h = true -> (forall c, 0 <= c < ncommits h -> tick_of h c < mark) ->
  (forall c, 0 <= znth 0 aidx c) -> c_people cf <> 0 ->
  forall p seq l, In (p, seq) (h_paths h) -> In l seq ->
    kp_dev cf i p (val h cf aidx l) = (fun pl : Z * line => znth 0 aidx (l_born (snd pl)) =? i) (p, l).
Proof.
  intros Hcf Hmark Haidx Hp p seq l Hin Hl. unfold kp_dev, val. cbn [snd].
  destruct (line_facts h Hcf p seq l Hin Hl) as [Hb _].
  pose proof (tick_nonneg h Hcf _ Hb). pose proof (Hmark _ Hb). unfold mark in *.
  rewrite unpack_pack by (auto; lia). destruct (Z.eqb_spec (c_people cf) 0); [congruence|]. reflexivity.
Qed.

(* C01_people: the dense matrix of developer index i (= developer d of the history), rows up to the project's
   last tick; births are the lines of the commits d authored, deaths are booked against the line's author *)
Theorem people_matrix h cf aidx plan w G S M last i d Mi li :
  conflict_free h = true -> (forall c, 0 <= c < ncommits h -> tick_of h c < mark) -> (forall c, 0 <= znth 0 aidx c) ->
  c_people cf <> 0 -> i <> author_missing ->
  (forall c, 0 <= c < ncommits h -> (znth 0 aidx c =? i) = (author_of h c =? d)) ->
  plan_okb h plan = true -> run_hist cf h aidx plan = Ok w ->
  1 <= G -> 1 <= S -> group_sparse_history G S (s_gh (w_shared w)) (-1) = Ok (M, last) ->
  group_sparse_history G S (aget_d [] (s_phs (w_shared w)) i) last = Ok (Mi, li) ->
  Mi = truth_dev h G S d /\ li = last.
Proof.
  intros Hcf Hmark Haidx Hp Hi Hdev Hok Er HG HS Eg Ev.
  destruct (view_matrix h cf aidx Hcf Hmark Haidx (dev_view cf i Hi) (fun pl => znth 0 aidx (l_born (snd pl)) =? i)
              (dev_link2 h cf aidx i Hcf Hmark Haidx Hp) eq_refl plan w G S M last Mi li Hok Er HG HS Eg Ev) as (R1 & R2 & _).
  split; [|exact R2]. rewrite R1. unfold truth_dev. apply truth_matrix_ext.
  intros pl Hin. unfold keep_dev. apply Hdev. apply (born_range h Hcf pl Hin).
Qed.
Print Assumptions people_matrix.

(* a developer without any booked report has no line at all: the zero matrix is his ground truth *)
Theorem people_empty h cf aidx plan w G S i d :
  conflict_free h = true -> (forall c, 0 <= c < ncommits h -> tick_of h c < mark) -> (forall c, 0 <= znth 0 aidx c) ->
  c_people cf <> 0 -> i <> author_missing ->
  (forall c, 0 <= c < ncommits h -> (znth 0 aidx c =? i) = (author_of h c =? d)) ->
  plan_okb h plan = true -> run_hist cf h aidx plan = Ok w -> 1 <= G -> 1 <= S ->
  aget_d [] (s_phs (w_shared w)) i = [] ->
  forall s b, truth_cell h G S (keep_dev h d) s b = 0.
Proof.
  intros Hcf Hmark Haidx Hp Hi Hdev Hok Er HG HS E0 s b.
  rewrite <- (view_empty h cf aidx Hcf Hmark Haidx (dev_view cf i Hi) (fun pl => znth 0 aidx (l_born (snd pl)) =? i)
              (dev_link2 h cf aidx i Hcf Hmark Haidx Hp) eq_refl plan w G S Hok Er HG HS E0 s b).
  unfold truth_cell. apply count_ext_in. intros pl Hin. unfold keep_dev.
  rewrite (Hdev _ (born_range h Hcf pl Hin)). reflexivity.
Qed.
Print Assumptions people_empty.
