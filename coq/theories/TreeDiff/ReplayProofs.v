(* Replays over several branches: the previous tree held by a branch is always the tree of the commit
   whose hash it holds, so that a commit that is accepted is diffed against the tree of one of its
   parents. *)
From Coq Require Import List NArith Bool Lia.
From Herc Require Import TreeDiff.Model TreeDiff.FilterProofs TreeDiff.CacheProofs.
Import ListNotations.
Open Scope N_scope.

Definition consistent (commits : list commit) (s : td_state) : Prop :=
  match td_tree s with
  | Some t => exists c, In c commits /\ cm_hash c = td_commit s /\ cm_tree c = t
  | None => True
  end.

Lemma consistent_consume : forall commits f s c dt s' cs,
  In c commits -> td_consume f s c dt = Ok (s', cs) -> consistent commits s'.
Proof.
  intros commits f s c dt s' cs HI H. apply td_consume_state in H. destruct H as [-> _].
  unfold consistent. simpl. exists c. auto.
Qed.

Theorem right_tree : forall commits f s c dt s' cs prev,
  (forall x, In x commits -> cm_hash x <> 0) ->
  consistent commits s -> td_tree s = Some prev ->
  td_consume f s c dt = Ok (s', cs) ->
  exists p, In p commits /\ In (cm_hash p) (cm_parents c) /\ cm_tree p = prev.
Proof.
  intros commits f s c dt s' cs prev HNZ HC HT H.
  apply td_consume_state in H. destruct H as [_ HP].
  unfold consistent in HC. rewrite HT in HC. destruct HC as [p [HI [HH HTr]]].
  exists p. repeat split; auto.
  apply parent_ok_spec in HP. destruct HP as [HP|HP].
  - rewrite HH. exact HP.
  - exfalso. apply (HNZ p HI). congruence.
Qed.

Definition op_commits (commits : list commit) (o : op) : Prop :=
  match o with OConsume _ c _ _ => In c commits | _ => True end.

Definition td_inv (commits : list commit) (bs : list branch) : Prop :=
  Forall (fun br => consistent commits (br_td br)) bs.

Lemma td_inv_run_op : forall f commits bs o, op_commits commits o -> td_inv commits bs -> td_inv commits (run_op f bs o).
Proof.
  intros f commits bs o HO HI. unfold td_inv in *. destruct o as [i c dt b|i n|i]; simpl in *.
  - destruct (nth_error bs i) as [br|] eqn:E; auto.
    destruct (td_consume f (br_td br) c dt) as [[s' cs]| |] eqn:TC; auto.
    pose proof (consistent_consume _ _ _ _ _ _ _ HO TC) as HC.
    destruct (bc_consume b (br_bc br) cs) as [[new out]| |]; apply Forall_set_nth; auto.
  - destruct (nth_error bs i) as [br|] eqn:E; auto.
    assert (HB : consistent commits (br_td br)).
    { rewrite Forall_forall in HI. apply HI. eapply nth_error_In; eauto. }
    apply Forall_app. split; auto.
    apply Forall_forall. intros x Hx. apply in_map_iff in Hx. destruct Hx as [[t bc] [Hx1 Hx2]]. subst x. simpl.
    apply in_combine_l in Hx2. unfold td_fork in Hx2. apply repeat_spec in Hx2. subst t. exact HB.
  - destruct (nth_error bs i) as [br|] eqn:E; auto.
    apply Forall_set_nth; [assumption|]. simpl. unfold consistent. simpl. exact I.
Qed.

Theorem td_inv_reachable : forall f commits ops,
  Forall (op_commits commits) ops -> td_inv commits (fold_left (run_op f) ops [br_zero]).
Proof.
  intros f commits ops H.
  assert (G : forall bs, td_inv commits bs -> td_inv commits (fold_left (run_op f) ops bs)).
  { induction ops as [|o r IH]; intros bs HI; simpl.
    - exact HI.
    - inversion H; subst. apply IH; auto. apply td_inv_run_op; auto. }
  apply G. constructor; [|constructor]. simpl. unfold consistent. simpl. exact I.
Qed.

(* every accepted commit of every replay is diffed against the tree of one of its parents *)
Theorem replay_right_tree : forall f commits ops i c dt br prev s' cs,
  (forall x, In x commits -> cm_hash x <> 0) ->
  Forall (op_commits commits) ops ->
  nth_error (fold_left (run_op f) ops [br_zero]) i = Some br ->
  td_tree (br_td br) = Some prev ->
  td_consume f (br_td br) c dt = Ok (s', cs) ->
  exists p, In p commits /\ In (cm_hash p) (cm_parents c) /\ cm_tree p = prev.
Proof.
  intros f commits ops i c dt br prev s' cs HNZ HO HN HT HC.
  pose proof (td_inv_reachable f commits ops HO) as HI. unfold td_inv in HI. rewrite Forall_forall in HI.
  eapply right_tree; eauto. apply HI. eapply nth_error_In; eauto.
Qed.
