// Harness for C04, execution stream: runs the real hercules.NewPipeline(repo) ... Run(commits) on synthetic
// in-memory repositories with hibernation distance 0..4 and one or two recording leaf items that implement
// Hibernate/Boot (core.HibernateablePipelineItem) and Dispose (core.DisposablePipelineItem) and fork by copy
// with a fresh instance id per clone - in every second generated case (field fc) through the public helper
// hercules.ForkCopyPipelineItem, otherwise by constructing the clones themselves.  Every call an instance receives is logged:
//
//	(root it id)          the deployed item (logged by the harness before Run)
//	(fork it src (ids))   src.Fork(n) returned the clones ids
//	(con it id c)         id.Consume(commit number c)
//	(merge it id (ids))   id.Merge(others)
//	(hib it id) (boot it id) (disp it id) (fin it id)
//
// it = the deployed item the instance descends from (0 or 1), c = position of the commit in the case's commit
// list.  The driver judges the log of every item with the oracle extracted from coq/theories/Plan/RunLifecycle.v.
// The plan Run executes is never looked at, only what the items experience.
//
// Every option of Pipeline.Initialize that the planner / interpreter reads varies: the hibernation distance,
// Pipeline.DumpPlan and Pipeline.PrintActions (opts bit 0 / bit 1; their output goes through the package sink of
// internal/core, which the verif hook verifapi/c14.SetPlanPrinter swaps for a no-op: nothing reaches stderr or the
// trace - the only hook used), the commit timestamps (tmode, planlib.TimesFor).  Kinds wide / octowide: forks of more
// than eight branches and octopus merges of more than eight parents.  Kinds scale-*: histories with 10^3 .. 10^5
// branches (planlib.ScaleGraph); their call log is read as a plan over instance ids by the driver and judged by the
// fast lifecycle validator.
package main

import (
	"fmt"
	"io"
	"log"
	"math/rand"
	"os"
	"time"

	git "gopkg.in/src-d/go-git.v4"
	"gopkg.in/src-d/go-git.v4/plumbing/object"
	hercules "gopkg.in/src-d/hercules.v10"
	c14 "gopkg.in/src-d/hercules.v10/verifapi/c14"

	. "verifharness/lib"
	pl "verifharness/planlib"
	"verifharness/synth"
)

// the facts key read by Pipeline.Initialize (core.ConfigPipelineHibernationDistance; not re-exported by the
// root package); what Initialize made of it is read back from the public field Pipeline.HibernationDistance
const configHibernationDistance = "Pipeline.HibernationDistance"

// --dump-plan / --print-actions (core.ConfigPipelineDumpPlan, ConfigPipelinePrintActions)
const (
	configDumpPlan     = "Pipeline.DumpPlan"
	configPrintActions = "Pipeline.PrintActions"
	optDumpPlan        = 1
	optPrintActions    = 2
)

type recorder struct {
	events   []Sx
	nextID   int
	commitID map[string]int
}

// probe is the recording leaf item.
type probe struct {
	rec *recorder
	it  int // which deployed item this instance descends from
	id  int
	// fc: Fork goes through hercules.ForkCopyPipelineItem (the helper TreeDiff, TicksSinceStart, CouplesAnalysis and
	// plugins fork with) instead of building the clones by hand; the ids the log reports are read back from the clones
	// the helper returned, so clones that are one and the same object show as one instance id created twice
	fc bool
}

func (p *probe) Name() string                                             { return fmt.Sprintf("Probe%d", p.it) }
func (p *probe) Provides() []string                                       { return nil }
func (p *probe) Requires() []string                                       { return nil }
func (p *probe) ListConfigurationOptions() []hercules.ConfigurationOption { return nil }
func (p *probe) Configure(facts map[string]interface{}) error             { return nil }
func (p *probe) Initialize(*git.Repository) error                         { return nil }
func (p *probe) Flag() string                                             { return p.Name() }
func (p *probe) Description() string                                      { return "Lifecycle probe." }
func (p *probe) Serialize(interface{}, bool, io.Writer) error             { return nil }

func (p *probe) ev(tag string, more ...Sx) {
	p.rec.events = append(p.rec.events, T(tag, append([]Sx{I(p.it), I(p.id)}, more...)...))
}

func (p *probe) Consume(deps map[string]interface{}) (map[string]interface{}, error) {
	c := -1
	if cm, ok := deps[hercules.DependencyCommit].(*object.Commit); ok {
		if id, ok := p.rec.commitID[cm.Hash.String()]; ok {
			c = id
		}
	}
	p.ev("con", I(c))
	return nil, nil
}

func (p *probe) Fork(n int) []hercules.PipelineItem {
	clones := make([]hercules.PipelineItem, n)
	ids := make([]int, n)
	if p.fc {
		clones = hercules.ForkCopyPipelineItem(p, n)
		for _, cl := range clones {
			cl.(*probe).id = p.rec.nextID
			p.rec.nextID++
		}
		// what the clones ARE, not what was assigned: a helper that hands out one object n times gives n equal ids
		for i, cl := range clones {
			ids[i] = cl.(*probe).id
		}
	} else {
		for i := range clones {
			ids[i] = p.rec.nextID
			p.rec.nextID++
			clones[i] = &probe{rec: p.rec, it: p.it, id: ids[i]}
		}
	}
	p.ev("fork", Ints(ids))
	return clones
}

func (p *probe) Merge(branches []hercules.PipelineItem) {
	ids := make([]int, len(branches))
	for i, b := range branches {
		ids[i] = b.(*probe).id
	}
	p.ev("merge", Ints(ids))
}

func (p *probe) Hibernate() error { p.ev("hib"); return nil }
func (p *probe) Boot() error      { p.ev("boot"); return nil }
func (p *probe) Dispose()         { p.ev("disp") }
func (p *probe) Finalize() interface{} {
	p.ev("fin")
	return p.id
}

// compile-time: the probe is a leaf item; Hibernate/Boot/Dispose are matched structurally by Run's type switches
var _ hercules.LeafPipelineItem = (*probe)(nil)

type quietLogger struct{}

func (quietLogger) Info(...interface{})              {}
func (quietLogger) Infof(string, ...interface{})     {}
func (quietLogger) Warn(...interface{})              {}
func (quietLogger) Warnf(string, ...interface{})     {}
func (quietLogger) Error(...interface{})             {}
func (quietLogger) Errorf(string, ...interface{})    {}
func (quietLogger) Critical(...interface{})          {}
func (quietLogger) Criticalf(string, ...interface{}) {}

// ---------------------------------------------------------------------------------------------
// one case

type commitSpec struct {
	ID      int
	Parents []int // ids; a parent that is not an earlier commit of the list is dropped (shrinking)
}

type caseIn struct {
	Kind   string
	Dist   int
	NItems int
	Opts   int // optDumpPlan | optPrintActions
	// ForkCopy: the probes fork through hercules.ForkCopyPipelineItem (field fc; every second generated case)
	ForkCopy bool
	TMode    int // 0: timestamps grow with the position; else planlib.TimesFor(TMode) seeded by the number of commits
	Commits  []commitSpec
	// large cases: Commits is generated from these, the log is judged as a plan over instance ids
	Scale       string
	Size, HMode int
	GSeed       int64
}

const baseTime = 1500000000

func runCase(in caseIn) (obs []Sx, nt bool, fatal error) {
	specs := make([]synth.CommitSpec, len(in.Commits))
	when := func(i int) int64 { return baseTime + int64(i)*100 }
	if in.TMode > 0 {
		ts := pl.TimesFor(in.TMode, len(in.Commits), rand.New(rand.NewSource(int64(len(in.Commits))*131+int64(in.Dist))))
		when = func(i int) int64 { return pl.TimeBase + int64(ts[i]) }
	}
	index := map[int]int{}
	for i, c := range in.Commits {
		index[c.ID] = i
	}
	for i, c := range in.Commits {
		var ps []int
		seen := map[int]bool{}
		for _, p := range c.Parents {
			if j, ok := index[p]; ok && j < i && !seen[j] {
				seen[j] = true
				ps = append(ps, j)
			}
		}
		specs[i] = synth.CommitSpec{Parents: ps, AuthorName: "u", AuthorEmail: "u@x",
			AuthorWhen: time.Unix(when(i), 0), Message: fmt.Sprintf("commit %d", c.ID),
			Files: []synth.FileSpec{{Path: "f", Data: []byte(fmt.Sprintf("%d\n", c.ID))}}}
	}
	repo, commits := synth.BuildRepo(specs)
	rec := &recorder{commitID: map[string]int{}}
	for i, c := range commits {
		rec.commitID[c.Hash.String()] = i
	}
	pipeline := hercules.NewPipeline(repo)
	leaves := make([]*probe, in.NItems)
	for k := range leaves {
		leaves[k] = &probe{rec: rec, it: k, id: rec.nextID, fc: in.ForkCopy}
		rec.nextID++
		pipeline.AddItem(leaves[k])
		leaves[k].ev("root")
	}
	facts := map[string]interface{}{
		hercules.ConfigPipelineCommits: commits,
		configHibernationDistance:      in.Dist,
		hercules.ConfigLogger:          quietLogger{},
	}
	if in.Opts&optDumpPlan != 0 {
		facts[configDumpPlan] = true
	}
	if in.Opts&optPrintActions != 0 {
		facts[configPrintActions] = true
	}
	if err := pipeline.Initialize(facts); err != nil {
		return nil, false, fmt.Errorf("Initialize failed: %v", err)
	}
	if pipeline.HibernationDistance != in.Dist || pipeline.DumpPlan != (in.Opts&optDumpPlan != 0) ||
		pipeline.PrintActions != (in.Opts&optPrintActions != 0) {
		return nil, false, fmt.Errorf("hibernation distance / DumpPlan / PrintActions not taken from the facts")
	}
	var result map[hercules.LeafPipelineItem]interface{}
	var err error
	_, panicked := Catch(func() { result, err = pipeline.Run(commits) })
	var res Sx
	switch {
	case panicked:
		res = T("res", A("panic"))
	case err != nil:
		res = T("res", A("err"))
	default:
		// what Run returns for each deployed leaf: the value Finalize gave (= the id of the finalized instance)
		fs := make([]Sx, 0, len(leaves))
		for k, l := range leaves {
			v, ok := result[l]
			id, isInt := v.(int)
			if !ok || !isInt {
				id = -1
			}
			fs = append(fs, L(I(k), I(id)))
		}
		res = T("res", A("ok"), I(len(result)), T("fins", fs...))
	}
	hasH, hasM := false, false
	for _, e := range rec.events {
		switch e.Tag() {
		case "hib":
			hasH = true
		case "merge":
			hasM = true
		}
	}
	return []Sx{T("log", rec.events...), res}, hasH && hasM, nil
}

func (in caseIn) fields() []Sx {
	fc := []Sx{}
	if in.ForkCopy {
		fc = append(fc, T("fc", I(1))) // absent = forks built by hand (older corpus lines)
	}
	if in.Scale != "" {
		return append([]Sx{T("shape", A(in.Scale)), T("size", I(in.Size)), T("hmode", I(in.HMode)), T("tmode", I(in.TMode)),
			T("gseed", I(int(in.GSeed))), T("n", I(len(in.Commits))), T("dist", I(in.Dist)), T("nitems", I(in.NItems)), T("opts", I(in.Opts))}, fc...)
	}
	cs := make([]Sx, len(in.Commits))
	for i, c := range in.Commits {
		cs[i] = L(I(c.ID), Ints(c.Parents))
	}
	fs := append([]Sx{T("dist", I(in.Dist)), T("nitems", I(in.NItems)), T("opts", I(in.Opts)), T("tmode", I(in.TMode))}, fc...)
	return append(fs, T("commits", cs...))
}

// scaleCase: a large history of planlib.ScaleGraph (the hashes are real, so their order is whatever they give; the
// commits are handed to Run in the topological order of their numbers)
func scaleCase(shape string, size, tmode int, gseed int64, dist, opts int) caseIn {
	g := pl.ScaleGraph(shape, size, 0, 0, gseed)
	in := caseIn{Kind: "scale-" + shape, Dist: dist, NItems: 1, Opts: opts, TMode: tmode, Scale: shape, Size: size, GSeed: gseed}
	in.Commits = fromShape(g.Parents())
	return in
}

func parseCase(s Sx) caseIn {
	in := caseIn{Kind: "replay", NItems: 1}
	if f, ok := s.Field("kind"); ok {
		in.Kind = f.Args()[0].Atom
	}
	if f, ok := s.Field("dist"); ok {
		in.Dist = f.Args()[0].Int()
	}
	if f, ok := s.Field("nitems"); ok {
		in.NItems = f.Args()[0].Int()
	}
	if f, ok := s.Field("opts"); ok {
		in.Opts = f.Args()[0].Int()
	}
	if f, ok := s.Field("tmode"); ok {
		in.TMode = f.Args()[0].Int()
	}
	if f, ok := s.Field("fc"); ok {
		in.ForkCopy = f.Args()[0].Int() != 0
	}
	if shape, size, _, tmode, gseed, ok := pl.ParseScale(s); ok {
		sc := scaleCase(shape, size, tmode, gseed, in.Dist, in.Opts)
		sc.NItems = in.NItems
		sc.ForkCopy = in.ForkCopy
		return sc
	}
	if f, ok := s.Field("commits"); ok {
		for _, x := range f.Args() {
			c := commitSpec{ID: x.List[0].Int()}
			for _, p := range x.List[1].List {
				c.Parents = append(c.Parents, p.Int())
			}
			in.Commits = append(in.Commits, c)
		}
	}
	return in
}

// generated cases alternate between the two ways of forking (no draw from the PRNG: the histories stay what they were)
var generating bool
var generated int

func emit(c *Config, in caseIn) {
	if len(in.Commits) == 0 {
		return
	}
	if generating {
		in.ForkCopy = generated%2 == 1
		generated++
	}
	obs, nt, fatal := runCase(in)
	if fatal != nil {
		fmt.Fprintln(os.Stderr, "c04run harness:", fatal)
		c.Close()
		os.Exit(3)
	}
	fs := []Sx{T("kind", A(in.Kind)), T("nt", B(nt))}
	fs = append(fs, in.fields()...)
	fs = append(fs, T("obs", obs...))
	c.Emit(fs...)
}

// ---------------------------------------------------------------------------------------------
// generators

func fromShape(parents [][]int) []commitSpec {
	cs := make([]commitSpec, len(parents))
	for i, ps := range parents {
		cs[i] = commitSpec{ID: i, Parents: append([]int{}, ps...)}
	}
	return cs
}

func nitems(c *Config) int {
	if c.Rng.Intn(3) == 0 {
		return 2
	}
	return 1
}

func randomDag(c *Config, maxCommits int) []commitSpec {
	r := c.Rng
	n := 1 + r.Intn(maxCommits)
	cs := make([]commitSpec, n)
	for i := 0; i < n; i++ {
		cs[i] = commitSpec{ID: i}
		if i == 0 {
			continue
		}
		k := 1
		switch x := r.Intn(14); {
		case x < 4 && i >= 2:
			k = 2
		case x == 4 && i >= 3:
			k = 3
		case x == 5 && i >= 4:
			k = 4
		case x == 6:
			k = 0 // another root
		}
		seen := map[int]bool{}
		for len(cs[i].Parents) < k {
			w := i
			if w > 6 {
				w = 6
			}
			p := i - 1 - r.Intn(w)
			if !seen[p] {
				seen[p] = true
				cs[i].Parents = append(cs[i].Parents, p)
			}
		}
	}
	return cs
}

// every parent assignment on n commits (commit i chooses any subset of the earlier ones)
func exhaustive(c *Config, n int, dists []int) {
	bits := n * (n - 1) / 2
	for mask := 0; mask < 1<<uint(bits); mask++ {
		cs := make([]commitSpec, n)
		b := 0
		for i := 0; i < n; i++ {
			cs[i] = commitSpec{ID: i}
			for p := 0; p < i; p++ {
				if mask&(1<<uint(b)) != 0 {
					cs[i].Parents = append(cs[i].Parents, p)
				}
				b++
			}
		}
		for _, d := range dists {
			emit(c, caseIn{Kind: fmt.Sprintf("ex%d", n), Dist: d, NItems: 1, Commits: cs})
		}
	}
}

// the plain octopus of the seeded scenario: root, k parents, the merge, a tail
func plainOctopus(k, arm, tail int) []commitSpec {
	parents := [][]int{{}}
	var tips []int
	for a := 0; a < k; a++ {
		tip := 0
		for j := 0; j <= (a*arm)%(arm+1); j++ {
			parents = append(parents, []int{tip})
			tip = len(parents) - 1
		}
		tips = append(tips, tip)
	}
	parents = append(parents, tips)
	for j := 0; j < tail; j++ {
		parents = append(parents, []int{len(parents) - 1})
	}
	return fromShape(parents)
}

func main() {
	log.SetOutput(io.Discard) // the planner warns about dropped disjoint commits through the standard logger
	c := Setup()
	defer c.Close()
	// what DumpPlan / PrintActions print is discarded
	c14.SetPlanPrinter(func(...interface{}) {})
	if c.Replay != "" {
		for _, s := range c.ReplayCases() {
			emit(c, parseCase(s))
		}
		return
	}
	generating = true
	r := c.Rng
	opts := func() int {
		o := 0
		if r.Intn(3) == 0 {
			o |= optDumpPlan
		}
		if r.Intn(3) == 0 {
			o |= optPrintActions
		}
		return o
	}
	tmode := func() int {
		if r.Intn(2) == 0 {
			return 0
		}
		return 1 + r.Intn(pl.NumTimeModes-1)
	}
	// exhaustive small scopes
	for n := 1; n <= 4; n++ {
		exhaustive(c, n, []int{0, 1, 2})
	}
	if c.Thorough() {
		exhaustive(c, 5, []int{0, 1, 2, 3})
	}
	// plain octopus merges: 3..7 parents (thorough ..9) x arm pattern x tail x distances 1..4
	maxK := 7
	if c.Thorough() {
		maxK = 9
	}
	for k := 3; k <= maxK; k++ {
		for arm := 0; arm <= 2; arm++ {
			for tail := 0; tail <= 2; tail++ {
				for d := 1; d <= 4; d++ {
					emit(c, caseIn{Kind: "octoplain", Dist: d, NItems: 1, Opts: (k + arm + tail + d) % 4, Commits: plainOctopus(k, arm, tail)})
				}
			}
		}
	}
	// octopus merges of 8..14 parents (forks of as many branches) with the plan dump / the action trace on or off,
	// distances 0..4: the width at which printing, fixed-size buffers and small-array fast paths change behaviour
	for k := 8; k <= 14; k++ {
		for o := 0; o < 4; o++ {
			d := (k + o) % 5
			emit(c, caseIn{Kind: "octowide", Dist: d, NItems: 1, Opts: o, TMode: tmode(), Commits: plainOctopus(k, (k+o)%3, o%3)})
		}
	}
	for i := c.Count(250, 8000); i > 0; i-- {
		o := opts()
		if r.Intn(2) == 0 {
			o = 1 + r.Intn(3)
		}
		emit(c, caseIn{Kind: "wide", Dist: r.Intn(5), NItems: nitems(c), Opts: o, TMode: tmode(), Commits: fromShape(pl.WideGraph(r, 16))})
	}
	// wide octopus merges under hibernation: several merges per history, arms idle for different lengths,
	// chains after the merge, 1..3 roots, sometimes a second head or a two-parent merge inside an arm
	for i := c.Count(2200, 60000); i > 0; i-- {
		oo := synth.OctoOpts{Roots: 1 + r.Intn(3), Merges: 1 + r.Intn(3), MinPar: 3, MaxPar: 7, MaxArm: 1 + r.Intn(4),
			MaxTail: 1 + r.Intn(4), ExtraHead: r.Intn(4) == 0, SubMerge: r.Intn(3) == 0}
		if r.Intn(4) == 0 {
			oo.MaxTail = -1
		}
		d := 1 + r.Intn(4)
		if r.Intn(3) == 0 {
			// aim at the boundary: an octopus of k parents has a multi-branch boot iff k >= d+3
			k := 4 + r.Intn(4)
			oo.MinPar, oo.MaxPar = k, k
			d = k - 3 - r.Intn(2)
			if d < 1 {
				d = 1
			}
			if d > 4 {
				d = 4
			}
		}
		if r.Intn(8) == 0 {
			oo.MaxPar = 8 + r.Intn(5)
		}
		emit(c, caseIn{Kind: "octo", Dist: d, NItems: nitems(c), Opts: opts(), TMode: tmode(), Commits: fromShape(synth.GenOctopusShape(r, oo))})
	}
	// linear histories
	for i := c.Count(100, 2000); i > 0; i-- {
		n := 1 + r.Intn(10)
		cs := make([]commitSpec, n)
		for j := range cs {
			cs[j] = commitSpec{ID: j}
			if j > 0 {
				cs[j].Parents = []int{j - 1}
			}
		}
		emit(c, caseIn{Kind: "lin", Dist: r.Intn(5), NItems: nitems(c), Opts: opts(), TMode: tmode(), Commits: cs})
	}
	// random DAGs with 2-4 parent merges and several roots
	for i := c.Count(1500, 40000); i > 0; i-- {
		emit(c, caseIn{Kind: "dag", Dist: r.Intn(5), NItems: nitems(c), Opts: opts(), TMode: tmode(), Commits: randomDag(c, 16)})
	}
	// the conflict-free histories of harness/synth (graph shape only)
	for i := c.Count(800, 20000); i > 0; i-- {
		h := synth.GenHist(r, synth.GenOpts{MaxCommits: 8 + r.Intn(16), SingleHead: r.Intn(2) == 0})
		emit(c, caseIn{Kind: "hist", Dist: r.Intn(5), NItems: nitems(c), Opts: opts(), TMode: tmode(), Commits: fromShape(h.Parents)})
	}
	// large histories: 10^3 branches in every shape (quick), 10^4 and more than 2^16 instances (thorough)
	if c.Tier != "search" {
		mk := func(shape string, size int) {
			emit(c, scaleCase(shape, size, tmode(), int64(r.Intn(1<<30)), r.Intn(4), r.Intn(4)))
		}
		for _, sh := range pl.ScaleShapes {
			mk(sh, 1000+r.Intn(25))
		}
		if c.Thorough() {
			for _, sh := range []string{"comb", "diamonds", "roots", "ladder", "starmerge", "star"} {
				mk(sh, 10000+r.Intn(300))
			}
			mk("bush", 3000)
			mk("star", 65536+1+r.Intn(100))
			mk("diamonds", 65536+1+r.Intn(1000))
		}
	}
}
