(* C13 - rename detection only re-pairs changes and never misses identical content.
   Only statements closed by [exact] and their assumptions; the proofs are in
   theories/Plumbing/RenamesProofs.v and RenamesChan.v. *)
From Coq Require Import List ZArith NArith Permutation.
From Herc Require Import Plumbing.Renames.
Import ListNotations.

(* The comparison before the repair (defect F4, fixed in /repo by "fix: sortableChange.Less was not a
   strict order") was not asymmetric: two hashes each "less" than the other. *)
Theorem C13_old_less_not_total :
  exists a b : list N, length a = 20%nat /\ length b = 20%nat /\ old_less a b = true /\ old_less b a = true.
Proof.
  exists (1 :: 0 :: repeat 0 18)%N, (0 :: 1 :: repeat 0 18)%N. vm_compute. repeat split.
Qed.
Print Assumptions C13_old_less_not_total.
