(* Line-by-line executable model of [collectGarbage] (internal/core/forks.go).  Definitions only.

   Go                                                     model
   lastMentioned map[int]int                              association list branch -> index ([lm_set] keeps one entry per key)
   p.Items[0] on an action without items                  panic = None
   log.Panicf for a commit on a branch < rootBranchIndex  panic = None
   the range over the map + sort.Slice on the index       any index-sorted arrangement of the (index, branch) pairs:
     (not stable: ties in arbitrary order)                [gc_emit] takes the arrangement as an argument, the theorems
                                                          quantify over it; the executable [collect_garbage] sorts by
                                                          (index, branch) and the replay compares the deletes that follow
                                                          one action as a set. *)
From Coq Require Import List ZArith Bool Arith Lia.
From Herc Require Import Plan.Syntax.
Import ListNotations.
Open Scope Z_scope.

Fixpoint lm_set (m : list (Z * nat)) (k : Z) (v : nat) : list (Z * nat) :=
  match m with
  | [] => [(k, v)]
  | (k', v') :: r => if k' =? k then (k, v) :: r else (k', v') :: lm_set r k v
  end.

Fixpoint lm_get (m : list (Z * nat)) (k : Z) : option nat :=
  match m with
  | [] => None
  | (k', v') :: r => if k' =? k then Some v' else lm_get r k
  end.

(* first loop: the index of the last action that mentions each branch *)
Fixpoint last_mentioned (p : plan) (i : nat) (m : list (Z * nat)) : option (list (Z * nat)) :=
  match p with
  | [] => Some m
  | a :: r =>
      match items a with
      | [] => None                                     (* firstItem := p.Items[0] *)
      | first :: _ =>
          match kind a with
          | KCommit => if first <? 1 then None else last_mentioned r (S i) (lm_set m first i)
          | KFork | KEmerge => last_mentioned r (S i) (lm_set m first i)
          | KMerge => last_mentioned r (S i) (fold_left (fun m' it => lm_set m' it i) (items a) m)
          | KDelete | KHibernate | KBoot => last_mentioned r (S i) m
          end
      end
  end.

(* lastMentionedArr before sorting: (index, branch) for every branch not mentioned by the last action *)
Definition gc_arr (m : list (Z * nat)) (len : nat) : list (nat * Z) :=
  flat_map (fun kv => if (snd kv =? len - 1)%nat then [] else [(snd kv, fst kv)]) m.

Definition slice (p : plan) (from to : nat) : plan := firstn (to - from) (skipn from p).

(* the emission loop; [next] = prevpi + 1 *)
Fixpoint gc_loop (p : plan) (next : nat) (arr : list (nat * Z)) : plan :=
  match arr with
  | [] => []
  | (v, k) :: r =>
      slice p next (S v) ++
      (if 0 <=? k then delete k :: gc_loop p (S v) r else gc_loop p next r)
  end.

Definition gc_emit (p : plan) (arr : list (nat * Z)) : plan :=
  match arr with
  | [] => p                                            (* early return - nothing to collect *)
  | _ => gc_loop p 0 (arr ++ [((length p - 1)%nat, -1)])
  end.

(* one admissible outcome of sort.Slice: insertion sort by (index, branch) *)
Definition pair_leb (a b : nat * Z) : bool :=
  (fst a <? fst b)%nat || ((fst a =? fst b)%nat && (snd a <=? snd b)).
Fixpoint ins_pair (x : nat * Z) (l : list (nat * Z)) : list (nat * Z) :=
  match l with
  | [] => [x]
  | y :: r => if pair_leb x y then x :: l else y :: ins_pair x r
  end.
Definition sort_pairs (l : list (nat * Z)) : list (nat * Z) := fold_right ins_pair [] l.

Definition collect_garbage (p : plan) : option plan :=
  match last_mentioned p 0 [] with
  | None => None
  | Some m => Some (gc_emit p (sort_pairs (gc_arr m (length p))))
  end.
