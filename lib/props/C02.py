def _extra(stats, cov):
    # translation validation: every plan the real planner produced in this run was validated by the
    # extracted plan_ok (proved sound: C02_checker_sound); identical (graph, plan pair) outputs of the
    # 6-commit sweep are validated once and counted with their multiplicity in plans_produced
    produced = stats.get('plans_produced', 0)
    validated = stats.get('plans_validated', 0)
    accepted = stats.get('plans_accepted', 0)
    return dict(programs=produced, disagreements_checked=validated,
                plans_produced=produced, distinct_plans_validated=validated, plans_rejected=validated - accepted)


CONFIG = dict(
    level='translation_validation',
    streams=[dict(harness='c02', driver='c02', shrink_field='edges')],
    rule='one case = one commit graph (n commits, parent edges in ParentHashes order incl. duplicate, redundant and dangling '
         'edges) + one assignment of hashes (ranks: byte order of the hashes, drives every tie-break) + one slice order; the real '
         'prepareRunPlan(commits, 0) plans it twice (second time on the reversed slice; Go map order varies) and each plan is '
         'validated by the extracted plan_ok. Generators: every DAG (connected and disconnected) on <=5 commits x every hash '
         'order; thorough: every connected DAG on 6 commits x every 6th hash order (flag -full of the harness: all 720); samples '
         'of 6/7-commit DAGs; random histories up to 14 and up to 40 commits (several roots, octopus merges, criss-cross, '
         'duplicate/redundant edges, disconnected components, parents outside the set). Non-trivial = some commit has two '
         'distinct parents; distinct = distinct (n, ranks, order, edges).',
    exhaustive_note='all DAGs on <=5 topologically numbered commits (connected: 88 299 graph x hash-order cases, disconnected: '
                    '36 170) x all hash orders; thorough adds all connected DAGs on 6 commits x every sixth of the 720 hash orders',
    assumptions=['commits are numbered so that parents have smaller numbers (every finite DAG has such a numbering; the '
                 'validator checks it) and the graph given to the validator is the history restricted to the analysed commit set',
                 'prepareRunPlan reads only Hash and ParentHashes of a commit (fabricated commits are used)',
                 'no Gallina mirror of the planner: C02 is decided per produced plan (translation validation), not by a proof '
                 'about buildDag/mergeDag/collapseFastForwards/generatePlan themselves'],
    trusted_base=['the abstract executor coq/theories/Plan/Exec.v as the meaning of a plan (hand-written from the branch '
                  'bookkeeping of Pipeline.Run; Run itself is not executed by this check)',
                  'the declarative specification coq/theories/Plan/Spec.v + Graph.v (C02_spec) as the reading of the property text'],
    level_text='translation validation: every plan produced by the real planner on the explored graphs is accepted by a '
               'validator extracted from Coq and proved sound against the declarative C02 specification for all graphs and plans',
    level_note='Proved in Coq (no axioms): plan_ok g p = true -> C02_spec g p for every graph and plan. Not proved: that the Go '
               'planner always produces an accepted plan - that is checked per plan (exhaustively for <=5 commits, every 6th '
               'hash order for 6 commits, randomly up to 40 commits). Trusted: Coq kernel, extraction, the OCaml driver, the Go '
               'harness, and Exec.v/Spec.v as the formal reading of Pipeline.Run and of the property.',
    technique='Coq-verified plan validator (translation validation) run on the outputs of the real planner',
    extra_coverage=_extra,
    search_seconds=60,
)
