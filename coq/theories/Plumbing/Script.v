(* C11, part 2: diff scripts, their validator, and the two consumers of FileDiffData.

     script_ok            the executable statement of "valid canonical edit script" (the validator that judges
                          every output of the third-party diff engine: translation validation)
     handle_modification  leaves/burndown.go  BurndownAnalysis.handleModification, from the length check
                          "internal integrity error src" to the end, over an abstract array (C03: a tracked
                          File is a plain array and File.Update deletes a range and then inserts)
     line_stats           internal/plumbing/line_stats.go  LinesStatsCalculator.Consume, case merkletrie.Modify

   A script is the list of runs (operation, rune count) of FileDiffData.Diffs: the consumers never look at the
   text of a run, only at utf8.RuneCountInString(edit.Text).  Definitions only; proofs in ScriptProofs.v. *)
From Coq Require Import List ZArith Bool Arith.
From Herc Require Import Plumbing.LineCount.
Import ListNotations.

Inductive op := Equal | Delete | Insert.
Notation script := (list (op * nat)) (only parsing).

Definition op_eqb (a b : op) : bool :=
  match a, b with Equal, Equal | Delete, Delete | Insert, Insert => true | _, _ => false end.

(* totals *)
Fixpoint old_total (ds : script) : nat :=
  match ds with
  | [] => 0
  | (Insert, _) :: r => old_total r
  | (_, n) :: r => n + old_total r
  end.
Fixpoint new_total (ds : script) : nat :=
  match ds with
  | [] => 0
  | (Delete, _) :: r => new_total r
  | (_, n) :: r => n + new_total r
  end.

(* canonical shape: a deletion only directly after an equal run (or at the start); an insertion never directly
   after an insertion.  Hence between two equal runs: nothing, D, I or D I.  Runs may be empty: DiffCleanupMerge of
   go-diff v1.0.0 does emit empty runs now and then (e.g. "d1 i0"), and the property does not forbid them. *)
Definition follows (p o : op) : bool :=
  match p, o with
  | _, Equal => true
  | Equal, _ => true
  | Delete, Insert => true
  | _, _ => false
  end.

Fixpoint canon (p : op) (ds : script) : bool :=
  match ds with
  | [] => true
  | (o, _) :: r => follows p o && canon o r
  end.
Definition canonical (ds : script) : bool := canon Equal ds.

Section Validator.
  Context {A : Type} (eqb : A -> A -> bool).

  (* the first n elements exist on both sides and are pairwise equal *)
  Fixpoint eq_prefix (n : nat) (old new : list A) : bool :=
    match n with
    | O => true
    | S k => match old, new with
             | x :: o, y :: w => eqb x y && eq_prefix k o w
             | _, _ => false
             end
    end.

  Definition null (l : list A) : bool := match l with [] => true | _ => false end.

  (* one pass, consuming the two line lists *)
  Fixpoint walk (p : op) (old new : list A) (ds : script) : bool :=
    match ds with
    | [] => null old && null new
    | (o, n) :: r =>
        follows p o &&
        match o with
        | Equal => eq_prefix n old new && walk Equal (skipn n old) (skipn n new) r
        | Delete => (n <=? length old) && walk Delete (skipn n old) new r
        | Insert => (n <=? length new) && walk Insert old (skipn n new) r
        end
    end.

  Definition script_ok (old new : list A) (ds : script) : bool := walk Equal old new ds.

  (* applying a script: equal runs are copied from the old version, deleted runs are skipped, inserted runs are
     taken from the new version (the text of an insert run is those lines).  None = a run does not fit. *)
  Fixpoint apply (ds : script) (old new : list A) : option (list A) :=
    match ds with
    | [] => match old with [] => Some [] | _ => None end
    | (Equal, n) :: r =>
        if (n <=? length old) && (n <=? length new)
        then option_map (app (firstn n old)) (apply r (skipn n old) (skipn n new)) else None
    | (Delete, n) :: r =>
        if n <=? length old then apply r (skipn n old) new else None
    | (Insert, n) :: r =>
        if n <=? length new then option_map (app (firstn n new)) (apply r old (skipn n new)) else None
    end.
End Validator.

(* lines are compared byte for byte *)
Definition lines_script_ok (old new : list bytes) (ds : script) : bool := script_ok list_eqb old new ds.

(* What FileDiff.Consume validates against: the lines of the (possibly stripped) blobs *)
Definition file_diff_ok (ws : bool) (a b : bytes) (ds : script) : bool :=
  lines_script_ok (split_lines (strip ws a)) (split_lines (strip ws b)) ds.
Definition file_diff_ok_before_fix (ws : bool) (a b : bytes) (ds : script) : bool :=
  lines_script_ok (split_lines (strip_before_fix ws a)) (split_lines (strip_before_fix ws b)) ds.

(* The property itself, independent of how the implementation strips: the lines are the lines of the blobs as
   CountLines sees them, and with WhitespaceIgnore two lines are "identical" when they are equal after removing
   the spaces.  This is the oracle applied to the implementation's output. *)
Definition unspace (ws : bool) (l : bytes) : bytes := if ws then remove_spaces l else l.
Definition line_eq (ws : bool) (x y : bytes) : bool := list_eqb (unspace ws x) (unspace ws y).
Definition spec_ok (ws : bool) (a b : bytes) (ds : script) : bool :=
  script_ok (line_eq ws) (split_lines a) (split_lines b) ds.

(* ---------------------------------------------------------------- burndown.File as an array *)

(* File.Update(tick, pos, ins, del) on the flattened file: None = panic ("attempt to insert after the end of the
   file" / "attempt to delete after the end of the file"); ins = del = 0 returns before any check. *)
Definition arr_update {V : Type} (v : V) (pos ins del : nat) (arr : list V) : option (list V) :=
  if (ins =? 0) && (del =? 0) then Some arr
  else if length arr <? pos then None
  else if length arr <? pos + del then None
  else Some (firstn pos arr ++ repeat v ins ++ skipn (pos + del) arr).

(* ---------------------------------------------------------------- handleModification *)

Inductive hm_error :=
| IntegritySrc          (* "internal integrity error src %d != %d" *)
| IntegrityDst          (* "internal integrity error dst %d != %d" *)
| InsertAfterInsert     (* "DiffInsert may not appear after DiffInsert" *)
| DeleteAfterPending.   (* "DiffDelete may not appear after DiffInsert/DiffDelete" *)

Inductive hm_result (V : Type) := HmOk (arr : list V) | HmErr (e : hm_error) | HmPanic.
Arguments HmOk {V}. Arguments HmErr {V}. Arguments HmPanic {V}.

Section Consumer.
  Context {V : Type} (v : V).   (* v = packPersonWithTick(author, tick) *)

  (* loop state: file, position, pending (Type, rune count of Text); "pending.Text != """ is pn > 0 *)
  Record hstate := mkH { h_arr : list V; h_pos : nat; h_pop : op; h_pn : nat }.

  (* apply := func(edit) *)
  Definition apply_edit (o : op) (n : nat) (arr : list V) (pos : nat) : option (list V * nat) :=
    match o with
    | Insert => option_map (fun a => (a, pos + n)) (arr_update v pos n 0 arr)
    | _ => option_map (fun a => (a, pos)) (arr_update v pos 0 n arr)
    end.

  Fixpoint hm_loop (ds : script) (s : hstate) : hm_result V :=
    match ds with
    | [] =>
        (* if pending.Text != "" { apply(pending) } *)
        if 0 <? h_pn s then
          match apply_edit (h_pop s) (h_pn s) (h_arr s) (h_pos s) with
          | Some (a, _) => HmOk a
          | None => HmPanic
          end
        else HmOk (h_arr s)
    | (Equal, n) :: r =>
        if 0 <? h_pn s then
          match apply_edit (h_pop s) (h_pn s) (h_arr s) (h_pos s) with
          | Some (a, p) => hm_loop r (mkH a (p + n) (h_pop s) 0)
          | None => HmPanic
          end
        else hm_loop r (mkH (h_arr s) (h_pos s + n) (h_pop s) 0)
    | (Insert, n) :: r =>
        if 0 <? h_pn s then
          match h_pop s with
          | Insert => HmErr InsertAfterInsert
          | _ =>
              match arr_update v (h_pos s) n (h_pn s) (h_arr s) with
              | Some a => hm_loop r (mkH a (h_pos s + n) (h_pop s) 0)
              | None => HmPanic
              end
          end
        else hm_loop r (mkH (h_arr s) (h_pos s) Insert n)
    | (Delete, n) :: r =>
        if 0 <? h_pn s then HmErr DeleteAfterPending
        else hm_loop r (mkH (h_arr s) (h_pos s) Delete n)
    end.

  Definition handle_modification (old_loc new_loc : nat) (arr : list V) (ds : script) : hm_result V :=
    if negb (length arr =? old_loc) then HmErr IntegritySrc
    else
      match hm_loop ds (mkH arr 0 Equal 0) with
      | HmOk a => if negb (length a =? new_loc) then HmErr IntegrityDst else HmOk a
      | x => x
      end.

  (* what the file must look like afterwards: kept lines keep their label, inserted lines get v *)
  Fixpoint relabel (ds : script) (rest : list V) : list V :=
    match ds with
    | [] => rest
    | (Equal, n) :: r => firstn n rest ++ relabel r (skipn n rest)
    | (Delete, n) :: r => relabel r (skipn n rest)
    | (Insert, n) :: r => repeat v n ++ relabel r rest
    end.
End Consumer.

(* ---------------------------------------------------------------- LinesStatsCalculator, case Modify *)

Record lstats := mkL { ls_added : nat; ls_removed : nat; ls_changed : nat; ls_pending : nat }.

Fixpoint ls_loop (ds : script) (s : lstats) : lstats :=
  match ds with
  | [] => mkL (ls_added s) (ls_removed s + ls_pending s) (ls_changed s) 0
  | (Equal, _) :: r => ls_loop r (mkL (ls_added s) (ls_removed s + ls_pending s) (ls_changed s) 0)
  | (Insert, n) :: r =>
      if n <? ls_pending s
      then ls_loop r (mkL (ls_added s) (ls_removed s + (ls_pending s - n)) (ls_changed s + n) 0)
      else ls_loop r (mkL (ls_added s + (n - ls_pending s)) (ls_removed s) (ls_changed s + ls_pending s) 0)
  | (Delete, n) :: r => ls_loop r (mkL (ls_added s) (ls_removed s) (ls_changed s) n)
  end.

Definition line_stats (ds : script) : lstats := ls_loop ds (mkL 0 0 0 0).

(* ---------------------------------------------------------------- entry points for the replay driver *)

(* the consumer as the harness drives it: a fresh file of CountLines(old blob) lines, then the modification *)
Definition burndown_accepts (cl_old : nat) (old_loc new_loc : nat) (ds : script) : hm_result bool :=
  handle_modification true old_loc new_loc (repeat false cl_old) ds.
