// Structured "scale / shape" family of synthetic item sets for resolve(): cascades of doubly
// provided entities in the TreeDiff / RenameAnalysis shape.
//
// Stage i (1..k) has a raw provider of the entity k<i> that consumes the final version of k<i-1>, and
// a refiner that consumes k<i> and provides it again (TreeDiff/RenameAnalysis, FileDiff/
// FileDiffRefiner).  An independent side chain of m items ends in the entity "model", required by the
// refiner of one chosen stage; its length decides how far from the roots of the graph that refiner
// is, i.e. what the breadth-first ranks say about which provider is the end of the chain.
// Variants: refiner reading its entity only through a cache item (RenameAnalysis reads blob_cache),
// a consumer behind every stage, a requirement chain in front of the first raw provider, ascending /
// descending / scrambled numbering (the chaining block walks the keys in string order), item list in
// generation order / reversed / shuffled.
package main

import (
	"fmt"

	. "verifharness/lib"
)

type cascadeParams struct {
	stages  int  // k: number of doubly provided entities, >= 1
	side    int  // m: length of the side chain feeding the refiner of stage `attach` (0 = none)
	attach  int  // 1..k
	cache   bool // Cache<i>{p c<i>; r k<i>} and the refiner requires c<i> as well
	reports bool // a consumer behind every stage instead of only the last one
	pre     int  // length of a requirement chain in front of Raw1
	naming  int  // 0 ascending, 1 descending, 2 scrambled stage numbers
	order   int  // 0 generation order, 1 reversed, 2 shuffled
}

func (q cascadeParams) size() int {
	n := 2*q.stages + q.side + q.pre + 1
	if q.cache {
		n += q.stages
	}
	if q.reports {
		n += q.stages - 1
	}
	return n
}

func cascade(c *Config, q cascadeParams) []spec {
	num := make([]int, q.stages+1) // the number that names stage i
	for i := 1; i <= q.stages; i++ {
		switch q.naming {
		case 0:
			num[i] = i
		case 1:
			num[i] = q.stages + 1 - i
		}
	}
	if q.naming == 2 {
		for i, j := range c.Rng.Perm(q.stages) {
			num[i+1] = j + 1
		}
	}
	key := func(i int) string { return fmt.Sprintf("k%d", num[i]) }
	var items []spec
	for j := 1; j <= q.pre; j++ {
		s := spec{name: fmt.Sprintf("Pre%d", j), prov: []string{fmt.Sprintf("pre%d", j)}}
		if j > 1 {
			s.req = []string{fmt.Sprintf("pre%d", j-1)}
		}
		items = append(items, s)
	}
	for i := 1; i <= q.stages; i++ {
		raw := spec{name: fmt.Sprintf("Raw%d", num[i]), prov: []string{key(i)}}
		if i > 1 {
			raw.req = []string{key(i - 1)}
		} else if q.pre > 0 {
			raw.req = []string{fmt.Sprintf("pre%d", q.pre)}
		}
		ref := spec{name: fmt.Sprintf("Refine%d", num[i]), prov: []string{key(i)}, req: []string{key(i)}}
		if q.cache {
			ck := fmt.Sprintf("c%d", num[i])
			items = append(items, spec{name: fmt.Sprintf("Cache%d", num[i]), prov: []string{ck}, req: []string{key(i)}})
			ref.req = []string{ck, key(i)}
		}
		if i == q.attach && q.side > 0 {
			ref.req = append(ref.req, "model")
		}
		items = append(items, raw, ref)
		if q.reports && i < q.stages {
			items = append(items, spec{name: fmt.Sprintf("Report%d", num[i]), req: []string{key(i)}})
		}
	}
	for j := 1; j <= q.side; j++ {
		s := spec{name: fmt.Sprintf("Side%d", j), prov: []string{fmt.Sprintf("side%d", j)}}
		if j == q.side {
			s.prov = []string{"model"}
		}
		if j > 1 {
			s.req = []string{fmt.Sprintf("side%d", j-1)}
		}
		items = append(items, s)
	}
	items = append(items, spec{name: "Report", req: []string{key(q.stages)}})
	switch q.order {
	case 1:
		for i, j := 0, len(items)-1; i < j; i, j = i+1, j-1 {
			items[i], items[j] = items[j], items[i]
		}
	case 2:
		items = shuffle(c, items)
	}
	return items
}

// cascades enumerates the family.  Quick tier: the whole (stages, side) grid 1..8 x 0..8 in the base
// shape, the diagonal band |side - stages| <= 1 (where the breadth-first ranks of the two providers
// are closest) in every variant; thorough tier: the whole grid in every variant.
func cascades(c *Config) {
	emit := func(q cascadeParams) { emitSynth(c, "cascade", cascade(c, q)) }
	for k := 1; k <= 8; k++ {
		for m := 0; m <= 8; m++ {
			emit(cascadeParams{stages: k, side: m, attach: k})
			band := m == 0 || (m >= k-1 && m <= k+1)
			if !band && !c.Thorough() {
				continue
			}
			for v := 1; v < 16; v++ {
				q := cascadeParams{stages: k, side: m, attach: k, cache: v&1 != 0, reports: v&2 != 0}
				if v&4 != 0 {
					q.naming = 1 + c.Rng.Intn(2)
				}
				if v&8 != 0 {
					q.order = 1 + c.Rng.Intn(2)
				}
				emit(q)
			}
			// the side chain feeds an inner stage
			if k >= 2 && m > 0 {
				for a := 1; a < k; a++ {
					if c.Thorough() || (m >= a-1 && m <= a+1) {
						emit(cascadeParams{stages: k, side: m, attach: a, cache: c.Rng.Intn(2) == 0, naming: c.Rng.Intn(3), order: c.Rng.Intn(3)})
					}
				}
			}
			// a requirement chain in front of the first raw provider shifts every stage
			if c.Thorough() || band {
				for _, pre := range []int{1, 2, 5} {
					emit(cascadeParams{stages: k, side: m, attach: k, pre: pre, cache: c.Rng.Intn(2) == 0, order: c.Rng.Intn(3)})
				}
			}
		}
	}
}

// manySameNamed: k items of ONE name (graph nodes N_1 .. N_k; "N_10" sorts before "N_2"), item i provides
// e<i> and requires e<i-1>, plus a consumer of the last entity; optionally a refiner of the last entity.
// With more than 12 items Go's sort is no longer the stable insertion sort: those sets are judged by the
// property oracles only.
func manySameNamed(c *Config) {
	for k := 2; k <= 14; k++ {
		for variant := 0; variant < 3; variant++ {
			var items []spec
			for i := 1; i <= k; i++ {
				s := spec{name: "N", prov: []string{fmt.Sprintf("e%02d", i)}}
				if i > 1 {
					s.req = []string{fmt.Sprintf("e%02d", i-1)}
				}
				items = append(items, s)
			}
			last := fmt.Sprintf("e%02d", k)
			switch variant {
			case 1:
				items = append(items, spec{name: "N", req: []string{last}})
			case 2:
				items = append(items, spec{name: "N", prov: []string{last}, req: []string{last}}, spec{name: "Report", req: []string{last}})
			}
			emitSynth(c, "samenamemany", items)
			emitSynth(c, "samenamemany", shuffle(c, items))
		}
	}
}

// scale: a handful of LARGE item sets (hundreds to thousands of items; the replay driver judges them by
// the property oracles only).  Shapes: one long requirement chain (ascending / descending / shuffled
// names), layers with fan-in 2, a cascade in which EVERY entity is doubly provided (n/2 stages), a chain
// of same-named items (graph nodes N_1 .. N_n: the name counters), a cyclic chain and a chain with a hole.
func scale(c *Config) {
	sizes := []int{100, 255, 256, 257, 300}
	if c.Thorough() {
		sizes = append(sizes, 1000, 2000)
	}
	for _, n := range sizes {
		chain := func(name func(i int) string) []spec {
			items := make([]spec, n)
			for i := range items {
				items[i] = spec{name: name(i), prov: []string{fmt.Sprintf("e%05d", i)}}
				if i > 0 {
					items[i].req = []string{fmt.Sprintf("e%05d", i-1)}
				}
			}
			return items
		}
		asc := func(i int) string { return fmt.Sprintf("I%05d", i) }
		desc := func(i int) string { return fmt.Sprintf("I%05d", n-i) }
		emitSynth(c, "scale", chain(asc))
		emitSynth(c, "scale", chain(desc))
		emitSynth(c, "scale", shuffle(c, chain(asc)))
		emitSynth(c, "scale", chain(func(int) string { return "N" }))
		// layers of width w, every item requires two entities of the previous layer
		w := 1
		for w*w < n {
			w++
		}
		var layered []spec
		for i := 0; i < n; i++ {
			s := spec{name: asc(i), prov: []string{fmt.Sprintf("e%05d", i)}}
			if l := i / w; l > 0 {
				a, b := (l-1)*w+c.Rng.Intn(w), (l-1)*w+c.Rng.Intn(w)
				s.req = []string{fmt.Sprintf("e%05d", a)}
				if b != a {
					s.req = append(s.req, fmt.Sprintf("e%05d", b))
				}
			}
			layered = append(layered, s)
		}
		emitSynth(c, "scale", shuffle(c, layered))
		// every entity doubly provided: n/2 stages, four-digit numbering so that string order = stage order
		var casc []spec
		for i := 1; i <= n/2; i++ {
			raw := spec{name: fmt.Sprintf("Raw%04d", i), prov: []string{fmt.Sprintf("k%04d", i)}}
			if i > 1 {
				raw.req = []string{fmt.Sprintf("k%04d", i-1)}
			}
			casc = append(casc, raw, spec{name: fmt.Sprintf("Refine%04d", i), prov: []string{fmt.Sprintf("k%04d", i)}, req: []string{fmt.Sprintf("k%04d", i)}})
		}
		casc = append(casc, spec{name: "Report", req: []string{fmt.Sprintf("k%04d", n/2)}})
		emitSynth(c, "scale", casc)
		emitSynth(c, "scale", shuffle(c, casc))
		// the error branches at scale: the chain closed to a ring, the chain with one provider missing
		ring := chain(asc)
		ring[0].req = []string{fmt.Sprintf("e%05d", n-1)}
		emitSynth(c, "scale", ring)
		hole := chain(asc)
		hole[n/2].prov = []string{"other"}
		emitSynth(c, "scale", hole)
	}
}
