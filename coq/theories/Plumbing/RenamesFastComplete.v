(* Completeness of the fast re-pairing oracle of RenamesFast.v: when the output starts with the modifications of the
   input in input order (where Consume puts them), [repairing_fast_b] rejects ONLY outputs that are not re-pairings.
   So a rejection by the fast oracle on a large case is a genuine violation, not an artefact of the sorting.

   The order on entries is a total order (antisymmetric and transitive), hence the sorted permutation of a list is
   unique and two lists are permutations of each other iff their merge sorts are equal. *)
From Coq Require Import List ZArith NArith Bool Lia Permutation Orders Sorting.Mergesort Sorting.Sorted RelationClasses Morphisms.
From Herc Require Import Plumbing.Renames Plumbing.RenamesProofs Plumbing.RenamesFast.
Import ListNotations.

(* ---------- the comparison is a total order ---------- *)
Lemma hash_cmp_eq : forall a b, hash_cmp a b = Eq -> a = b.
Proof.
  induction a as [|x a IH]; intros [|y b] H; cbn [hash_cmp] in H; try discriminate; auto.
  destruct (N.compare_spec x y); try discriminate. subst. f_equal. auto.
Qed.

Lemma hash_cmp_refl : forall a, hash_cmp a a = Eq.
Proof. induction a as [|x a IH]; cbn [hash_cmp]; auto. rewrite N.compare_refl. exact IH. Qed.

Lemma hash_cmp_lt_trans : forall a b c, hash_cmp a b = Lt -> hash_cmp b c = Lt -> hash_cmp a c = Lt.
Proof.
  induction a as [|x a IH]; intros [|y b] [|z c] H1 H2; cbn [hash_cmp] in *; try discriminate; auto.
  destruct (N.compare_spec x y), (N.compare_spec y z), (N.compare_spec x z); try discriminate; try lia; subst; eauto.
Qed.

Lemma entry_cmp_eq : forall x y, entry_cmp x y = Eq -> x = y.
Proof.
  intros [n1 h1 s1] [n2 h2 s2]. unfold entry_cmp. cbn [e_name e_hash e_size]. intros H.
  destruct (N.compare_spec n1 n2); try discriminate. subst.
  destruct (hash_cmp h1 h2) eqn:E; try discriminate. apply hash_cmp_eq in E. subst.
  apply Z.compare_eq in H. subst. reflexivity.
Qed.

Lemma entry_cmp_refl : forall x, entry_cmp x x = Eq.
Proof.
  intros x. unfold entry_cmp. rewrite N.compare_refl, hash_cmp_refl. apply Z.compare_refl.
Qed.

Lemma entry_cmp_lt_trans : forall x y z, entry_cmp x y = Lt -> entry_cmp y z = Lt -> entry_cmp x z = Lt.
Proof.
  intros [n1 h1 s1] [n2 h2 s2] [n3 h3 s3]. unfold entry_cmp. cbn [e_name e_hash e_size]. intros H1 H2.
  destruct (N.compare_spec n1 n2), (N.compare_spec n2 n3), (N.compare_spec n1 n3);
    try discriminate; try lia; subst; auto.
  destruct (hash_cmp h1 h2) eqn:E1; try discriminate;
    destruct (hash_cmp h2 h3) eqn:E2; try discriminate.
  - apply hash_cmp_eq in E1, E2. subst. rewrite hash_cmp_refl.
    destruct (Z.compare_spec s1 s2), (Z.compare_spec s2 s3), (Z.compare_spec s1 s3); try discriminate; try lia; auto.
  - apply hash_cmp_eq in E1. subst. rewrite E2. reflexivity.
  - apply hash_cmp_eq in E2. subst. rewrite E1. reflexivity.
  - rewrite (hash_cmp_lt_trans _ _ _ E1 E2). reflexivity.
Qed.

Lemma entry_leb_antisym : forall x y, entry_leb x y = true -> entry_leb y x = true -> x = y.
Proof.
  intros x y. unfold entry_leb. rewrite (entry_cmp_antisym x y).
  destruct (entry_cmp x y) eqn:E; cbn [CompOpp]; try discriminate.
  intros _ _. apply entry_cmp_eq, E.
Qed.

Lemma entry_leb_trans : forall x y z, entry_leb x y = true -> entry_leb y z = true -> entry_leb x z = true.
Proof.
  intros x y z. unfold entry_leb.
  destruct (entry_cmp x y) eqn:E1; try discriminate; intros _;
    destruct (entry_cmp y z) eqn:E2; try discriminate; intros _.
  - apply entry_cmp_eq in E1, E2. subst. rewrite entry_cmp_refl. reflexivity.
  - apply entry_cmp_eq in E1. subst. rewrite E2. reflexivity.
  - apply entry_cmp_eq in E2. subst. rewrite E1. reflexivity.
  - rewrite (entry_cmp_lt_trans _ _ _ E1 E2). reflexivity.
Qed.

(* ---------- a sorted permutation is unique ---------- *)
Notation le_entry := (fun x y : entry => is_true (entry_leb x y)).

Lemma sorted_perm_unique : forall l m,
  StronglySorted le_entry l -> StronglySorted le_entry m -> Permutation l m -> l = m.
Proof.
  induction l as [|a l IH]; intros m Sl Sm P.
  - apply Permutation_nil in P. subst. reflexivity.
  - destruct m as [|b m]; [apply Permutation_sym, Permutation_nil in P; discriminate|].
    inversion Sl as [|? ? Sl' Fa]; subst. inversion Sm as [|? ? Sm' Fb]; subst.
    assert (a = b) as ->.
    { assert (Ia : In a (b :: m)) by (eapply Permutation_in; [exact P|left; reflexivity]).
      assert (Ib : In b (a :: l)) by (eapply Permutation_in; [apply Permutation_sym, P|left; reflexivity]).
      destruct Ia as [->|Ia]; [reflexivity|]. destruct Ib as [->|Ib]; [reflexivity|].
      rewrite Forall_forall in Fa, Fb. apply entry_leb_antisym; [apply Fa, Ib|apply Fb, Ia]. }
    f_equal. apply IH; auto. eapply Permutation_cons_inv, P.
Qed.

Lemma list_eqb_refl : forall {A} (eqb : A -> A -> bool), (forall x y, reflect (x = y) (eqb x y)) ->
  forall l, list_eqb eqb l l = true.
Proof.
  intros A eqb sp. induction l as [|x l IH]; cbn [list_eqb]; auto.
  destruct (sp x x); [exact IH|congruence].
Qed.

Lemma perm_fast_complete : forall l m, Permutation l m -> perm_fast l m = true.
Proof.
  intros l m P. unfold perm_fast.
  assert (T : Transitive le_entry) by (intros x y z; apply entry_leb_trans).
  rewrite (sorted_perm_unique (ESort.sort l) (ESort.sort m)).
  - apply (list_eqb_refl entry_eqb entry_eqb_spec).
  - apply ESort.StronglySorted_sort, T.
  - apply ESort.StronglySorted_sort, T.
  - rewrite <- (ESort.Permuted_sort l), <- (ESort.Permuted_sort m). exact P.
Qed.

(* ---------- the fast re-pairing oracle is complete on outputs that begin with the modifications ---------- *)
Lemma froms_perm : forall a b, Permutation a b -> Permutation (froms a) (froms b).
Proof. intros a b P. unfold froms. apply Permutation_flat_map, P. Qed.

Lemma tos_perm : forall a b, Permutation a b -> Permutation (tos a) (tos b).
Proof. intros a b P. unfold tos. apply Permutation_flat_map, P. Qed.

Lemma repairing_fast_complete : forall inp out,
  firstn (length (mods inp)) out = mods inp ->
  repairing inp out -> repairing_fast_b inp out = true.
Proof.
  intros inp out Hpre [rest [P [Pf [Pt Fn]]]]. unfold repairing_fast_b.
  set (k := length (mods inp)) in *. set (rest' := skipn k out).
  assert (E : out = mods inp ++ rest') by (rewrite <- Hpre; unfold rest'; symmetry; apply firstn_skipn).
  assert (PR : Permutation rest' rest).
  { apply (Permutation_app_inv_l (mods inp)). rewrite <- E. exact P. }
  rewrite Hpre, (list_eqb_refl change_eqb change_eqb_spec). cbn [andb].
  rewrite (perm_fast_complete (froms rest') (dels inp)) by (rewrite (froms_perm _ _ PR); exact Pf).
  rewrite (perm_fast_complete (tos rest') (adds inp)) by (rewrite (tos_perm _ _ PR); exact Pt).
  cbn [andb]. apply forallb_forall. intros c I.
  rewrite Forall_forall in Fn. apply Fn. eapply Permutation_in; [exact PR|exact I].
Qed.
