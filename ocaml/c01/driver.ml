(* C01: replay the harness trace.
   PROPFAIL  = the matrices the real pipeline returned differ from the ground truth computed by the
               extracted Coq functions of Burndown/Lifetimes.v (every cell), a negative cell, a last row
               that does not sum to the lines at HEAD, wrong per-file / per-developer matrices or
               ownership; for linear arbitrary-edit histories wrong row sums (Burndown/Linear.v).
   MISMATCH  = the abstract analysis model (Burndown/Analysis.v, run along the plan the pipeline used)
               disagrees with the implementation on the sparse histories, the dense result or the final
               files of the root branch. *)
open C01_model
open Conv

let zi = z_of_int
let iz = int_of_z
let ints s = List.map int_of_sx (list_of_sx s)

(* ---------- parsing ---------- *)
let parse_hist (s : sx) : hist * string list =
  let parents = List.map (fun p -> List.map zi (ints p)) (args (field "parents" s)) in
  let ticks = List.map (fun x -> zi (int_of_sx x)) (args (field "ticks" s)) in
  let authors = List.map (fun x -> zi (int_of_sx x)) (args (field "authors" s)) in
  let names = ref [] in
  let paths = List.mapi (fun i p ->
    match p with
    | L (A name :: ls) ->
        names := name :: !names;
        (zi i, List.map (fun l -> match ints l with
            | [id; b; k] -> { l_id = zi id; l_born = zi b; l_killer = zi k }
            | _ -> failwith "line") ls)
    | _ -> failwith "path") (args (field "paths" s)) in
  ({ h_parents = parents; h_ticks = ticks; h_authors = authors; h_paths = paths }, List.rev !names)

let parse_action (s : sx) : action =
  let a = List.map (fun x -> zi (int_of_sx x)) (args s) in
  match tag s, a with
  | "emerge", [b] -> AEmerge b
  | "commit", [c; b] -> ACommit (c, b)
  | "fork", b :: bs -> AFork (b, bs)
  | "merge", bs -> AMerge bs
  | "delete", [b] -> ADelete b
  | "hibernate", bs -> AHibernate bs
  | "boot", bs -> ABoot bs
  | t, _ -> failwith ("action " ^ t)

let matrix_of_sx (rows : sx list) : int list list = List.map ints rows
let show_row r = "[" ^ String.concat " " (List.map string_of_int r) ^ "]"
let show_matrix m = String.concat ";" (List.map show_row m)
let zmatrix (m : z list list) : int list list = List.map (List.map iz) m

(* first differing cell of two matrices *)
let diff_matrix (what : string) (got : int list list) (want : int list list) : string option =
  if List.length got <> List.length want then
    Some (Printf.sprintf "%s: %d rows, ground truth has %d (got %s want %s)" what (List.length got) (List.length want)
            (show_matrix got) (show_matrix want))
  else begin
    let res = ref None in
    List.iteri (fun s (g, w) ->
      if !res = None then begin
        if List.length g <> List.length w then
          res := Some (Printf.sprintf "%s: row %d has %d bands, ground truth has %d" what s (List.length g) (List.length w))
        else
          List.iteri (fun b (x, y) ->
            if !res = None && x <> y then
              res := Some (Printf.sprintf "%s: cell sample=%d band=%d is %d, ground truth %d" what s b x y))
            (List.combine g w)
      end) (List.combine got want);
    !res
  end

(* sparse histories, normalised: sorted by key *)
let norm_inner (l : (int * int) list) = List.sort compare l
let norm_sparse (l : (int * (int * int) list) list) = List.sort compare (List.map (fun (t, r) -> (t, norm_inner r)) l)
let sparse_of_sx (items : sx list) : (int * (int * int) list) list =
  norm_sparse (List.map (fun e -> match e with
    | L (t :: cells) -> (int_of_sx t, List.map (fun c -> match ints c with [a; b] -> (a, b) | _ -> failwith "cell") cells)
    | _ -> failwith "sparse") items)
let sparse_of_model (h : (z * (z * z) list) list) =
  norm_sparse (List.map (fun (t, r) -> (iz t, List.map (fun (a, b) -> (iz a, iz b)) r)) h)
let show_sparse l =
  String.concat " " (List.map (fun (t, r) ->
    Printf.sprintf "%d:{%s}" t (String.concat "," (List.map (fun (a, b) -> Printf.sprintf "%d:%d" a b) r))) l)

let rec index_of x = function [] -> -1 | y :: r -> if x = y then 0 else let i = index_of x r in if i < 0 then -1 else i + 1

let pclass_name = function
  | PEmptyHistory -> "empty-history" | PTicksCorruption -> "ticks" | PIndex -> "index" | PMark -> "mark"
  | PNilFile -> "nil" | PExists -> "exists" | PIntegrity -> "integrity" | PUnmodelled -> "unmodelled" | POther -> "other"

(* ---------- one conflict-free-history case ---------- *)
let hist_case id (c : sx) =
  let g = int_of_sx (List.hd (args (field "g" c))) and s = int_of_sx (List.hd (args (field "s" c))) in
  let files = bool_of_sx (List.hd (args (field "files" c))) in
  let people = bool_of_sx (List.hd (args (field "people" c))) in
  let (h, names) = parse_hist (field "rhist" c) in
  let obs = List.hd (args (field "obs" c)) in
  let cfree = conflict_free h in
  let hasline = has_line h in
  let single = single_head h in
  let n = List.length h.h_parents in
  if not cfree then count "hist_outside_domain" else begin
    count "hist_in_domain";
    if single then count "single_head" else count "multi_head";
    match tag obs with
    | "panic" | "error" ->
        let cls = atom (List.hd (args obs)) in
        if (not hasline) && tag obs = "panic" && cls = "empty-history" then
          propfail id "pipeline panics 'empty history': no text line in any analysed commit"
        else propfail id (Printf.sprintf "pipeline %s (%s) on a conflict-free history" (tag obs) cls)
    | "ok" ->
        let plan = List.map parse_action (args (field "plan" obs)) in
        let planned = List.sort_uniq compare (List.filter_map (function ACommit (cm, _) -> Some (iz cm) | _ -> None) plan) in
        let first_tick0 = (match List.filter_map (function ACommit (cm, _) -> Some cm | _ -> None) plan with
                           | cm :: _ -> iz (tick_of h cm) = 0 | [] -> false) in
        if List.length planned <> n then count "commits_dropped_by_planner"
        else if not first_tick0 then count "first_planned_commit_not_tick0"
        else if not hasline then count "no_line"
        else begin
          count "oracle_applied";
          let gz = zi g and sz = zi s in
          let global = matrix_of_sx (args (field "global" obs)) in
          (* (a) every cell of the project matrix *)
          let want = zmatrix (truth_project h gz sz) in
          (match diff_matrix "project matrix" global want with
           | Some m -> propfail id m
           | None -> ());
          (* (b) no negative cell *)
          if List.exists (List.exists (fun v -> v < 0)) global then propfail id "negative cell in the project matrix";
          (* (c) last row = lines at HEAD *)
          if single && global <> [] then begin
            let lastrow = List.nth global (List.length global - 1) in
            let sum = List.fold_left (+) 0 lastrow in
            if sum <> iz (lines_at_head h) then
              propfail id (Printf.sprintf "last row sums to %d, HEAD has %d lines" sum (iz (lines_at_head h)))
          end;
          let dict = ints (L (args (field "dict" obs))) in
          (* (d) per-file matrices and ownership *)
          if files then begin
            count "files_checked";
            let fh = List.map (fun e -> match e with L (A p :: rows) -> (p, matrix_of_sx rows) | _ -> failwith "fhist") (args (field "fhist" obs)) in
            let wantpaths = List.map (fun p -> List.nth names (iz p)) (paths_with_lines h) in
            List.iter (fun (p, _) -> if not (List.mem p wantpaths) then propfail id ("file matrix for a path without lines: " ^ p)) fh;
            List.iter (fun p ->
              match List.assoc_opt p fh with
              | None -> propfail id ("no file matrix for path " ^ p)
              | Some m ->
                  let w = zmatrix (truth_file h gz sz (zi (index_of p names))) in
                  (match diff_matrix ("file matrix " ^ p) m w with Some t -> propfail id t | None -> ());
                  if List.exists (List.exists (fun v -> v < 0)) m then propfail id ("negative cell in the file matrix " ^ p)) wantpaths;
            if single then begin
              let ow = List.map (fun e -> match e with
                  | L (A p :: cells) -> (p, List.sort compare (List.map (fun cl -> match ints cl with [d; k] -> (d, k) | _ -> failwith "owner") cells))
                  | _ -> failwith "owner") (args (field "owner" obs)) in
              List.iter (fun p ->
                let pi = zi (index_of p names) in
                let want =
                  if people then
                    (* developer d of the history has people index i where dict[i] = d *)
                    List.sort compare (List.filter_map (fun (d, k) ->
                      let i = index_of (iz d) dict in Some (i, iz k))
                      (truth_ownership h pi (List.sort_uniq compare h.h_authors)))
                  else begin
                    let tot = List.fold_left (fun a (_, k) -> a + iz k) 0 (truth_ownership h pi (List.sort_uniq compare h.h_authors)) in
                    if tot > 0 then [(-1, tot)] else []
                  end in
                match List.assoc_opt p ow with
                | None -> propfail id ("no ownership entry for path " ^ p)
                | Some got ->
                    if got <> want then
                      propfail id (Printf.sprintf "ownership of %s: got %s, ground truth %s" p
                        (String.concat "," (List.map (fun (a, b) -> Printf.sprintf "%d:%d" a b) got))
                        (String.concat "," (List.map (fun (a, b) -> Printf.sprintf "%d:%d" a b) want)))) wantpaths
            end
          end;
          (* (e) per-developer matrices *)
          if people then begin
            count "people_checked";
            let ph = List.map (fun e -> match e with L (i :: rows) -> (int_of_sx i, matrix_of_sx rows) | _ -> failwith "phist") (args (field "phist" obs)) in
            List.iteri (fun i d ->
              match List.assoc_opt i ph with
              | None -> propfail id (Printf.sprintf "no matrix for developer index %d" i)
              | Some m ->
                  let w = zmatrix (truth_dev h gz sz (zi d)) in
                  (match diff_matrix (Printf.sprintf "developer matrix %d (dev%d)" i d) m w with Some t -> propfail id t | None -> ());
                  if List.exists (List.exists (fun v -> v < 0)) m then propfail id (Printf.sprintf "negative cell in developer matrix %d" i)) dict
          end;
          (* ---------- fine correspondence with the abstract analysis ---------- *)
          if not (plan_okb h plan) then mismatch id "the run plan is rejected by plan_okb (a commit is not replayed on exactly its ancestry)"
          else begin
            count "plan_ok";
            (* hypotheses of C01_global_sparse / C01_matrix hold for this case *)
            if List.for_all (fun t -> iz t < 16383) h.h_ticks then count "covered_by_C01_global_sparse";
            if merge_freeb plan then count "plans_without_merge";
            if single && not (master_all h plan) then mismatch id "single head but the master branch does not hold every commit";
            let npeople = if people then List.length dict else 0 in
            let cf = { c_people = zi npeople; c_files = files } in
            let aidx = List.map (fun d -> zi (if people then index_of (iz d) dict else 0)) h.h_authors in
            match run_hist cf h aidx plan with
            | Panic cls | Err cls -> mismatch id ("model run fails: " ^ pclass_name cls)
            | Ok w ->
                count "model_run";
                let sp = field "sparse" obs in
                let sh = w.w_shared in
                let cmp what got want =
                  if got <> want then mismatch id (Printf.sprintf "sparse %s: impl %s model %s" what (show_sparse got) (show_sparse want)) in
                cmp "global history" (sparse_of_sx (args (field "gh" sp))) (sparse_of_model sh.s_gh);
                if files then
                  List.iter (fun e -> match e with
                    | L (A p :: items) ->
                        let hd = aget sh.s_names (zi (index_of p names)) in
                        (match hd with
                         | None -> mismatch id ("file history of " ^ p ^ " absent from the model")
                         | Some hd -> cmp ("file history " ^ p) (sparse_of_sx items) (sparse_of_model (aget_d [] sh.s_fhs hd)))
                    | _ -> failwith "fh") (args (field "fh" sp));
                if people then begin
                  List.iter (fun e -> match e with
                    | L (i :: items) -> cmp ("people history " ^ atom i) (sparse_of_sx items) (sparse_of_model (aget_d [] sh.s_phs (zi (int_of_sx i))))
                    | _ -> failwith "ph") (args (field "ph" sp));
                  List.iter (fun e -> match e with
                    | L (i :: cells) ->
                        let got = norm_inner (List.map (fun cl -> match ints cl with [a; b] -> (a, b) | _ -> failwith "mx") cells) in
                        let want = norm_inner (List.map (fun (a, b) -> (iz a, iz b)) (aget_d [] sh.s_mx (zi (int_of_sx i)))) in
                        if got <> want then mismatch id ("interaction matrix row " ^ atom i)
                    | _ -> failwith "mx") (args (field "mx" sp))
                end;
                (* dense result of the model's Finalize on its master branch *)
                (match master w with
                 | None -> mismatch id "model: no live branch"
                 | Some (_, lb) ->
                     (match finalize cf gz sz lb.lb_state sh with
                      | Ok fin ->
                          if zmatrix fin.fin_global <> global then mismatch id "model Finalize: project matrix differs";
                          if people then begin
                            let ph = List.map (fun e -> match e with L (_ :: rows) -> matrix_of_sx rows | _ -> failwith "phist") (args (field "phist" obs)) in
                            if List.map zmatrix fin.fin_people <> ph then mismatch id "model Finalize: developer matrices differ"
                          end
                      | Panic cls | Err cls -> mismatch id ("model Finalize fails: " ^ pclass_name cls)));
                (* final files of the root branch (branch 1) when it is still alive *)
                (match aget w.w_branches (zi 1), field_opt "final" obs with
                 | Some lb, Some fin ->
                     count "final_files_compared";
                     let got = List.sort compare (List.map (fun e -> match e with L (A p :: vs) -> (p, List.map int_of_sx vs) | _ -> failwith "final") (args fin)) in
                     let want = List.sort compare (List.map (fun (p, f) -> (List.nth names (iz p), List.map iz f.f_vals)) lb.lb_state.b_files) in
                     if got <> want then mismatch id "final files of the root branch differ from the model"
                 | _ -> ())
          end
        end
    | t -> failwith ("obs " ^ t)
  end

(* ---------- one linear arbitrary-edit case ---------- *)
let linear_case id (c : sx) =
  let s = int_of_sx (List.hd (args (field "s" c))) in
  let steps = List.map (fun st -> match st with
      | L (_ :: t :: fs) -> (zi (int_of_sx t), List.map (fun f -> match f with L [_; bytes] -> List.map zi (ints bytes) | _ -> failwith "file") fs)
      | _ -> failwith "step") (args (field "rlinear" c)) in
  let obs = List.hd (args (field "obs" c)) in
  count "linear";
  match tag obs with
  | "panic" | "error" ->
      let cls = atom (List.hd (args obs)) in
      if (not (has_text steps)) && cls = "empty-history" then
        propfail id "pipeline panics 'empty history': no text line in any analysed commit"
      else propfail id (Printf.sprintf "pipeline %s (%s) on a linear history" (tag obs) cls)
  | "ok" ->
      let global = matrix_of_sx (args (field "global" obs)) in
      let gm = List.map (List.map zi) global in
      if not (nonneg_matrix gm) then propfail id "negative cell on a linear history";
      if not (linear_rows_ok steps (zi s) gm) then
        propfail id ("row sums differ from the number of text lines alive at the sample: " ^ show_matrix global);
      count "linear_checked"
  | t -> failwith ("obs " ^ t)

let () =
  iter_cases (fun id c ->
    match field_opt "rhist" c with
    | Some _ -> hist_case id c
    | None -> linear_case id c)
