CONFIG = dict(
        level='proof',
        streams=[dict(harness='c03', driver='c03', shrink_field='ops')],
        rule='one case = NewFile(t0, n0) followed by a list of Update(tick, pos, ins, del) on the real burndown.File with one logging Updater; '
             'observed after every call: panic class or Len(), the node list of the tree, the flattened lines, the Updater calls. '
             'Streams: ex = every sequence of <=3 (quick: <=2 for n0 in 3..4) in-range operations on files of 0..4 lines, pos 0..len, del 0..len-pos, ins 0..2, ticks {t0, t0+1}; '
             'exbad = every request with pos, del in -1..len+1 and ins in -1..1 after every valid prefix of <=1 operation; '
             'rnd / rndsmall = random sequences (lengths 0..200 / 0..12, 1..60 / 1..25 operations, deletions spanning several intervals or ending exactly at an interval start, '
             'ticks equal to a neighbouring or deleted interval\'s tick, 25% of the runs with packed authors above bit 14, a third of the runs with 10% merge-mark ticks); '
             'malformed = a valid random prefix followed by one request that is negative, beyond the end, past the end, >= 2^32 (incl. the wrapped values of F12), and bad NewFile arguments; '
             'exbad-emptybeyond / malformed-emptybeyond = the empty request (ins = del = 0) at a position beyond the end (known finding F18), after every valid prefix of <=1 operation on files of 0..4 lines and after random prefixes; '
             'huge = files of 2^32-1-k and 2^31+-k lines with in-range requests (uint32 boundary), judged on the run-length array; '
             'bigval = random sequences whose values sit at the machine limits (16382/16384/16385, 2^15, 2^16, 2^31 each -2/+0/+1, 2^32-2, 2^32-3, marked 2^15-1, 2^16-1, 2^31-1) on files of 0..12 and 250..261 lines; '
             'scale-asc/-desc/-rnd/-evenodd (field script instead of ops) = a file of k*w+1..7 lines cut into k intervals by one-line replacements in ascending / descending / random / even-then-odd order with values periodic '
             'in the block number (periods 2^j-1, 2^j, 2^j+1, optional packed author, optional top bits set), then 4k..20 000 churn operations (replacements stamped with a far-away interval\'s value, insertions, deletions at '
             'interval starts +-1 read from the real tree), mass deletions of a third and of half of the file, a big insertion, a rebuild, emptying the file in three cuts and reusing it; '
             'k = 255, 257, 1000, 1025, 10 000 (4 shapes each), 32 769, 65 537.. (thorough: 100 000 x 4 and 1 000 000); scale-append/-prepend = one line at a time at the end / front with a changing value (500, 3000, 70 000; thorough 10^6); '
             'hugemany = files of 2^31-1, 2^31, 2^31+1, 2^31+4097, 3*10^9, 3*10^9+7, 2^32-1001, 2^32-2 lines with 20..400 intervals stamped around each of the anchors 100, 2^31-1000, 2^31, 2^31+1000, 3*10^9, end-100 and '
             'replacements / insertions / deletions across 2^31 around them; hugebad = the same followed by one request with pos, del <= MaxUint32 and pos+del in 2^32-1..2^32+2^20 (must panic). '
             'Round 4 (content of values, pairs of features): exval = every sequence of <=3 requests (ins 0..1) on a one-line file and of <=2 requests (ins 0..2) on a two-line file over eight alphabets of three values that a normalisation '
             'would make equal (a regular packed value + two merge-mode authors 49151 / 65535; the bare mark 16383 next to a packed one; one tick without / with two authors; one author with two ticks; the mark and the largest regular tick; '
             'values equal in the low 16 / 31 bits; marks equal in the low 31 bits; two merge authors + 2^32-2), t0 ranging over the alphabet; align = random sequences on files of 0..8 lines over such an alphabet (fixed or random: 1..2 ticks incl. the mark x 2..3 authors incl. none) '
             'whose requests start AND end at interval starts (one in three with one end a line off), stamped with the value in front of / behind the range or any value of the alphabet; '
             'scale-* with merge-mode stamps (every 2nd..5th stamp carries the mark with one of 2..4 authors incl. the bare mark; k = 100, 255, 257, 1000 and a 500-line spine, checkpoint every 50 operations; thorough: 1025 x 4 shapes, 10 000), '
             'every scale churn has one request in five whose range starts and ends at interval starts read from the real tree, stamped with the neighbour\'s value or its other-author / other-tick variant; half of the hugemany / hugebad cases carry merge-mode stamps of three authors. '
             'Scale cases are observed lightly after every operation (panic class or Len() and the Updater calls) and fully (node list, File.flatten in run-length form) every 1 000..50 000 operations and at the end; '
             'every step is judged by the property (validity / rejection, Len(), per-step histogram law), the lines at every checkpoint; the model is stepped up to about 1 000 intervals. '
             'Non-trivial = at least one operation that inserts or deletes was executed without a panic; distinct = distinct (t0, n0, operation list).',
        exhaustive_note='initial lengths 0..4 x all sequences of <=3 in-range operations (quick tier: <=2 operations for lengths 3..4) with pos 0..len, del 0..len-pos, ins 0..2, ticks {t0, t0+1}, '
                        'every prefix observed; plus all malformed single requests with pos, del in -1..len+1, ins in -1..1 after every valid prefix of <=1 operation',
        assumptions=[
            'the tracker state is modelled as the in-order (key, value) list of File.tree; that the red-black tree behaves as this ordered map is property C05 (the harness observes the real tree through Min/Next after every call)',
            'Go int is modelled as unbounded Z (requests near 2^63 are outside the model); every uint32(x) conversion of file.go is x mod 2^32',
            'the theorems need the uint32 side condition "Len + ins - del <= 2^32-1" (the code wraps silently beyond it; the harness stays inside it) and, for deletions, '
            '"a deleted line that carries the merge mark carries the operation\'s own tick" (otherwise updateTime panics by design: previousTime cannot be TreeMergeMark)',
            'known finding F18: an empty request (ins = del = 0) at a position beyond the end returns without a panic (C03_update_empty_request, '
            'C03_update_empty_request_beyond_end_refuted); the driver reports it as PROPFAIL [empty-request-beyond-end]; it is generated only by the kinds '
            'exbad-emptybeyond / malformed-emptybeyond / corpus-emptybeyond, every other stream is free of it; C03_update_rejects covers every other out-of-range request',
            'one Updater is registered; the order of calls within one Update is compared with the model (fine), only the per-value sums matter for the property (coarse)',
        ],
        trusted_base=[
            'hand-written Gallina model coq/theories/File/Model.v of internal/burndown/file.go (NewFile, updateTime, Len, Update as of the commits "fix: File.Update kept a wrapped uint32 origin key ..." and "fix: File.Update silently accepted lengths >= 2^32"), tied to the code by the replay of every harness case (node list, Len, Updater calls, panic class after every call)',
            'the property oracle of the driver: extracted arr_update / validb / must_panicb / is_mark plus an OCaml hash table for the running histogram',
            'files of 2^31..2^32-1 lines (and insertions above 10^6 lines): the extracted run-length oracle rle_update / rle_validb / rle_must_panicb / rle_len / rle_slice / rle_flatten of File/Rle.v, '
            'proved equal to arr_update / validb / must_panicb / length / the deleted slice / flatten on the expanded array (C03_rle_update, C03_rle_compare, C03_rle_flatten, C03_rle_domain)',
            'scale cases (10^3..10^6 lines, 10^4..10^5 operations): the plain array is an OCaml int array edited in place (blit + fill) with native integer domain predicates; on every non-scale step of the run '
            '(about 500 000) these native functions and the run-length oracle are compared with the extracted arr_update / validb / must_panicb and the driver stops on a difference',
        ],
        level_text='Coq theorems over the executable list model of File.Update/NewFile/updateTime: for every well-formed tracker state and every in-range request one Update yields exactly the '
                   'plain-array edit (lines, length), keeps the state well formed, reports deltas whose per-value sums equal the change of the array histogram (nothing when the tick carries '
                   'the merge mark), and every out-of-range request (negative, beyond/past the end, >= 2^32) panics except the empty request beyond the end (known finding F18, refuted by witness); lifted by induction to all operation sequences from NewFile '
                   '(C03_sequences, C03_sequences_histogram). All closed under the global context. The model is tied to the Go code by fine correspondence on >100k generated cases per run incl. exhaustive small scopes.',
        level_note='Proved about the Gallina model, not about the Go source (no verified Go semantics): the tie is the per-run replay (node list, Len, Updater calls, panic class after every call; '
                   'flattened lines and running histogram against the extracted array oracle). The red-black tree is abstracted to its in-order item list (C05). '
                   'Side conditions stated explicitly in the theorems: keys are uint32 (Len <= 2^32-1 is part of WF), the new length must fit (Len+ins-del <= 2^32-1; beyond it the code wraps silently, '
                   'not covered), a deleted line carrying the merge mark must carry the operation\'s tick (else updateTime panics by design). Empty requests (ins=del=0) are no-ops at any position, also beyond the end where the property asks for a panic: known finding F18 (refutation theorem + tagged PROPFAIL from dedicated generator kinds). '
                   'NewFile with a negative length builds a one-node tree on which every later Update panics (outside the quantifier "all initial lengths"; followed by the correspondence only). '
                   'C03_update_refuted_before_fix documents the repaired defect F2 on a model of the code before the fix.',
        technique='machine-checked proof in Coq 8.16 over a hand-written executable Gallina model (about 2 000 lines: locate / deletion loop / prepare / finish blocks, pointwise value reasoning, tabulation) '
                  '+ extraction to OCaml + replay of Go harness traces (exhaustive small scope, random, malformed, machine-limit values, uint32-boundary and scale streams up to 10^5..10^6 intervals) with an extracted plain-array oracle '
                  '(run-length form, proved equivalent, for files that cannot be materialised)',
        search_seconds=120,
    )
