(* Validators of LARGE run plans (the [scale] streams of C02 / C04).  Definitions only; proofs in FastPlanSound.v.

   The validators of Checker.v / Lifecycle.v keep the state of the abstract executor as an association
   list that grows with every action and number commits in unary: fine for plans of a few hundred actions,
   quadratic (and worse) beyond.  Here the branch table is a [PositiveMap] (binary trie), commits are
   binary numbers ([N]) and nothing about a branch is kept but what the checks read: its lifecycle state
   and the commit it analysed last.  10^5 .. 10^6 actions are validated in seconds.

   Two oracles, both over the SAME executor as the small validators (proved, FastPlanSound.v):
     [fast_c04 p]      = the branch lifecycle of C04 holds of p (exactly: <->), see [C04_fast_exact];
     [fast_c02 par p]  = necessary conditions of C02 (every replay on a live branch whose last analysed
                         commit is a parent of the commit, or on a fresh branch for a commit without parents;
                         every merge joins distinct live branches that analysed the same commit last):
                         a plan it rejects violates C02, see [C02_fast_necessary].  The ancestry clauses of
                         C02 (exactly Anc(parent), one replay per non-redundant parent) need ancestor sets and
                         stay with [plan_ok] on small and medium graphs. *)
From Coq Require Import List ZArith NArith Bool Arith FMapPositive.
From Herc Require Import Plan.Syntax Plan.Exec Plan.Graph Plan.Checker Plan.Lifecycle.
Import ListNotations.

Module PM := PositiveMap.

(* a run action with the commit as a binary number *)
Record faction := mkFA { fkind : akind; fcommit : option N; fitems : list Z }.

(* the action of Syntax.v it stands for *)
Definition to_action (a : faction) : action :=
  mkA (fkind a) (option_map N.to_nat (fcommit a)) (fitems a).

(* the same action with the commit number forgotten (what the shape tests read); never builds a unary number *)
Definition shape (a : faction) : action :=
  mkA (fkind a) (match fcommit a with Some _ => Some O | None => None end) (fitems a).

(* branch ids are Go ints: an injection of Z into the keys of the trie *)
Definition zkey (b : Z) : positive :=
  match b with Z0 => 1%positive | Zpos p => xO p | Zneg p => xI p end.

Inductive fstat := FLive | FHib | FDisp.

(* branch -> (lifecycle state, commit analysed last); no entry = absent *)
Notation fstate := (PM.t (fstat * option N)) (only parsing).

Definition fget (m : fstate) (b : Z) : option (fstat * option N) := PM.find (zkey b) m.
Definition fput (m : fstate) (b : Z) (o : option (fstat * option N)) : fstate :=
  match o with Some v => PM.add (zkey b) v m | None => PM.remove (zkey b) m end.

Definition fhib1 (m : fstate) (b : Z) : fstate :=
  match fget m b with Some (FLive, l) => fput m b (Some (FHib, l)) | _ => m end.
Definition fboot1 (m : fstate) (b : Z) : fstate :=
  match fget m b with Some (FHib, l) => fput m b (Some (FLive, l)) | _ => m end.

(* [Exec.step] on the abridged state *)
Definition fstep (m : fstate) (a : faction) : fstate :=
  match fkind a, fitems a with
  | KCommit, b :: _ =>
      match fcommit a with
      | Some c =>
          match fget m b with
          | Some (FLive, _) => fput m b (Some (FLive, Some c))
          | Some (FHib, _) => fput m b (Some (FHib, Some c))
          | _ => m
          end
      | None => m
      end
  | KEmerge, b :: _ => fput m b (Some (FLive, None))
  | KFork, b :: ts => let v := fget m b in fold_left (fun m' t => fput m' t v) ts m
  | KMerge, _ => m
  | KDelete, b :: _ => fput m b (Some (FDisp, None))
  | KHibernate, bs => fold_left fhib1 bs m
  | KBoot, bs => fold_left fboot1 bs m
  | _, [] => m
  end.

Definition fawake (m : fstate) (b : Z) : bool := match fget m b with Some (FLive, _) => true | _ => false end.
Definition fhibernated (m : fstate) (b : Z) : bool := match fget m b with Some (FHib, _) => true | _ => false end.
Definition fabsent (m : fstate) (b : Z) : bool := match fget m b with None => true | _ => false end.
Definition flast (m : fstate) (b : Z) : option N :=
  match fget m b with Some (FLive, l) | Some (FHib, l) => l | _ => None end.

(* duplicate freeness through a trie instead of the quadratic [nodupz] *)
Fixpoint fnodup_from (seen : PM.t unit) (l : list Z) : bool :=
  match l with
  | [] => true
  | x :: r => match PM.find (zkey x) seen with
              | Some _ => false
              | None => fnodup_from (PM.add (zkey x) tt seen) r
              end
  end.
Definition fnodup (l : list Z) : bool := fnodup_from (PM.empty unit) l.

(* [Lifecycle.step_okb] *)
Definition fstep_okb (m : fstate) (a : faction) : bool :=
  let a0 := shape a in
  wf_actionb a0 && fnodup (fitems a) &&
  forallb (fawake m) (uses a0) && forallb (fabsent m) (creates a0) && forallb (fhibernated m) (boots a0).

(* every participant of a merge analysed the same commit last *)
Definition fmerge_same (m : fstate) (a : faction) : bool :=
  match fkind a, fitems a with
  | KMerge, b :: bs =>
      match flast m b with
      | Some c => forallb (fun b' => match flast m b' with Some c' => N.eqb c' c | None => false end) bs
      | None => false
      end
  | _, _ => true
  end.

Definition is_nil {A} (l : list A) : bool := match l with [] => true | _ => false end.

(* what C02 needs of the state in which an action is executed, as far as it can be told without ancestor sets;
   [par c] = the parents of commit c inside the analysed set *)
Definition fc02_chk (par : N -> list N) (m : fstate) (a : faction) : bool :=
  match fkind a, fcommit a, fitems a with
  | KCommit, Some c, b :: _ =>
      fawake m b &&
      match flast m b with
      | None => is_nil (par c)
      | Some q => existsb (N.eqb q) (par c)
      end
  | KMerge, _, ms => fnodup ms && forallb (fawake m) ms && fmerge_same m a
  | _, _, _ => true
  end.

Definition fnothing_hibernated (m : fstate) : bool :=
  forallb (fun kv => match snd kv with (FHib, _) => false | _ => true end) (PM.elements m).

(* run a per-action test over the plan; tail recursive *)
Fixpoint fast_gen (chk : fstate -> faction -> bool) (fin : fstate -> bool) (m : fstate) (p : list faction) : bool :=
  match p with
  | [] => fin m
  | a :: r => if chk m a then fast_gen chk fin (fstep m a) r else false
  end.

Definition finit : fstate := PM.empty (fstat * option N).

Definition fast_c04 (p : list faction) : bool :=
  fast_gen (fun m a => fstep_okb m a && fmerge_same m a) fnothing_hibernated finit p.

Definition fast_c02 (par : N -> list N) (p : list faction) : bool :=
  fast_gen (fc02_chk par) (fun _ => true) finit p.

(* ---------- the list-based counterparts over Exec.v (reference; never extracted) ---------- *)

Definition merge_sameb (s : state) (a : action) : bool :=
  match kind a, items a with
  | KMerge, b :: bs =>
      match last_on s b with
      | Some c => forallb (fun b' => opt_eqb (last_on s b') (Some c)) bs
      | None => false
      end
  | _, _ => true
  end.

Definition c02_chkb (g : dag) (s : state) (a : action) : bool :=
  match kind a, commit a, items a with
  | KCommit, Some c, b :: _ =>
      awakeb s b &&
      match last_on s b with
      | None => is_nil (parents g c)
      | Some q => memn q (parents g c)
      end
  | KMerge, _, ms => nodupz ms && forallb (awakeb s) ms && merge_sameb s a
  | _, _, _ => true
  end.

Fixpoint ref_gen (chk : state -> action -> bool) (fin : state -> bool) (s : state) (p : plan) : bool :=
  match p with
  | [] => fin s
  | a :: r => chk s a && ref_gen chk fin (step s a) r
  end.

(* the participants of a merge analysed the same commit last *)
Definition merge_same (s : state) (a : action) : Prop :=
  kind a = KMerge -> exists c, forall b, In b (items a) -> last_on s b = Some c.

(* [par] lists the parents of the graph [g] *)
Definition agrees (par : N -> list N) (g : dag) : Prop :=
  forall c, map N.to_nat (par c) = parents g (N.to_nat c).
