CONFIG = dict(
        level='proof',
        streams=[dict(harness='c19', driver='c19', shrink_field='ops')],
        rule='operation sequences on the real plumbing.TicksSinceStart: Configure (hours / default / TickSize assigned), Initialize, then '
             'Consume of fabricated commits (hash, committer time incl. zone and a different author time, number of parents, index) on '
             'any branch, Fork into 1-3 clones, Merge, plus direct calls of FloorTime. Streams: ex = every sequence of <=4 (1 h) / <=3 '
             '(24 h at 1970 and at year 1, 7 d) commits with times from 7 offsets around period boundaries x 3 branch shapes; lin/linmono = '
             'one branch, <=12 commits; dag/dagmono = pristine root clone, forks, different suffixes, merge commits replayed on 2-3 '
             'branches, Merge, emerging roots (dagmono: committer times monotone along every history); far-sat = times from year 1 to year '
             '3.6e10 (spans beyond +-292 years; the only stream, with corpus-sat/replay-sat, that leaves the range of time.Duration); odd = tick sizes 1 ns .. 2^62 ns with nanosecond times; malformed = tick size 0 / '
             'negative / overflowing, index 0 missing or repeated, replayed root commits, unknown branches; floor = FloorTime alone. '
             'Tick sizes 1 h, 2 h, 5 h, 24 h, 7 d, 30 d. Non-trivial = at least 2 Consume calls; distinct = distinct configuration + '
             'operation list.',
        exhaustive_note='all sequences of up to 4 commits (tick 1 h) and up to 3 commits (24 h at 1970, 24 h at year 1, 7 d) whose times are taken from '
                        '{-d-1, -1, 0, +1, d-1, d, 2d+1} s around a period boundary, on 3 branch shapes (linear; fork after the first commit with '
                        'the last commit replayed on both branches and Merge; second root from a pristine clone); thorough: up to 5 commits',
        assumptions=[
            'times are modelled as unbounded integers of nanoseconds since Go\'s zero time; exact while the int64 second counter of time.Time does '
            'not overflow (the harness stays within |unix seconds| <= 2^60, i.e. year +-3.6e10)',
            'Go int is 64 bit (the tick is int(Duration/Duration))',
            'committer times carry no monotonic clock reading (true of parsed and of fabricated commits)',
            'the formula theorems (C19_start, C19_tick_history, C19_commit_alone, C19_registry_exactly_once) assume the call pattern of Pipeline.Run: '
            'the first consumed commit has index 0 on an existing branch and no other Consume has index 0; tick size > 0',
            'known finding F17: beyond +-2^63 ns (about 292.47 years) between the start of tick 0 and a commit Time.Sub saturates and the tick is '
            'max(prev, (2^63-1) ns quot d), not the number of elapsed periods (C19_tick, C19_tick_refuted_beyond_292_years); the replay judges '
            'every tick against the exact formula and reports such steps as PROPFAIL "[duration-saturation] ..."; only the -sat streams '
            'generate such spans, every other stream is kept inside the range by the generator (spanOK)',
        ],
        trusted_base=[
            'hand-written Gallina model coq/theories/Plumbing/Ticks.v of internal/plumbing/ticks.go (Configure, Initialize, Consume, Fork via '
            'ForkCopyPipelineItem, NoopMerger.Merge, FloorTime) and of time.Time.Round/After/Add/Sub and int64 Duration arithmetic, tied to the '
            'code by the replay of every harness case (tick, previousTick of every branch, tick0, commits[tick] after every step; registry at the end)',
            'Go package time itself is modelled, not verified',
            'read-only accessors internal/plumbing/verif_c19.go and re-exports verifapi/c19/c19.go (build tag verif)',
        ],
        level_text='Coq theorems over all operation sequences of the Gallina model of TicksSinceStart: C19_floor (FloorTime = greatest multiple of d '
                   'from the zero time not after t), C19_tick (tick = max(prev, (t - t0) quot d), = max(prev, floor((t - t0)/d)) inside the '
                   'range of time.Duration, saturated outside, = prev for commits not after t0), C19_monotone (all inputs), C19_previous_tick, '
                   'C19_start / C19_tick_history / C19_commit_alone / C19_registry_exactly_once (runs shaped like Pipeline.Run), '
                   'C19_registry_listed and C19_registry_scan (all inputs), C19_tick_refuted_beyond_292_years (witness of finding F17); all closed under the global context. The model is replayed against '
                   'the real code on every run.',
        level_note='Proved about the model, tied to the Go code by correspondence only. Modelled rather than verified: package time (Round, Sub '
                   'saturation, Add), reflect-based ForkCopyPipelineItem (shallow copy: tick0 pointer and commits map shared, previousTick and '
                   'TickSize copied). Outside the range of time.Duration (more than about 292 years between the first commit\'s period and a '
                   'commit) the tick is NOT the number of elapsed periods: known finding F17, proved as C19_tick_refuted_beyond_292_years, reported by '
                   'the replay as [duration-saturation] from the -sat streams, not repaired. '
                   'With non-monotone committer times a replayed merge commit can be listed under two different ticks '
                   '(C19_example_replay_under_two_ticks); a commit without parents that is consumed twice is listed twice.',
        technique='machine-checked proof in Coq over a Gallina model (invariants over all Consume/Fork/Merge sequences with ghost branch histories) '
                  '+ model/implementation correspondence replay with extracted oracles',
    )
