(* C18 - identity.MergeReversedDictsLiteral (the file-name table of couples): for a duplicate-free first list
   the merged list is the duplicate-free union in order of first appearance, every name's Final index is its
   position in the merged list, First/Second point back to positions that hold that very name. *)
From Coq Require Import List ZArith Bool Lia.
From Herc Require Import Combine.Model Combine.Spec Combine.Facts.
Import ListNotations.
Open Scope Z_scope.

Notation sget := (aget name_eqb).
Notation supd := (aupd name_eqb).

Lemma aget_app {V} (a b : list (name * V)) k :
  sget (a ++ b) k = match sget a k with Some v => Some v | None => sget b k end.
Proof.
  induction a as [|[k0 v] r IH]; simpl; [reflexivity|]. destruct (name_eqb k k0); auto.
Qed.

Lemma aupd_absent {V} (m : list (name * V)) k f : sget m k = None -> supd m k f = m ++ [(k, f None)].
Proof.
  induction m as [|[k0 v] r IH]; simpl; intros H; [reflexivity|].
  destruct (name_eqb k k0); [discriminate|]. rewrite IH by assumption. reflexivity.
Qed.

Lemma aupd_present {V} (m : list (name * V)) k f v :
  sget m k = Some v ->
  exists a b, m = a ++ (k, v) :: b /\ sget a k = None /\ supd m k f = a ++ (k, f (Some v)) :: b.
Proof.
  induction m as [|[k0 v0] r IH]; simpl; intros H; [discriminate|].
  destruct (name_eqb k k0) eqn:E.
  - apply name_eqb_eq in E; subst k0. inversion H; subst. exists [], r. repeat split.
  - destruct (IH H) as (a & b & -> & Ha & Hu). exists ((k0, v0) :: a), b. simpl. rewrite E, Hu. repeat split. assumption.
Qed.

Lemma aget_in {V} (m : list (name * V)) k v : sget m k = Some v -> In (k, v) m.
Proof.
  induction m as [|[k0 v0] r IH]; simpl; intros H; [discriminate|].
  destruct (name_eqb k k0) eqn:E; [|auto]. apply name_eqb_eq in E; subst. inversion H; subst. left; reflexivity.
Qed.

Lemma aget_none_notin {V} (m : list (name * V)) k : sget m k = None <-> ~ In k (map fst m).
Proof.
  induction m as [|[k0 v0] r IH]; simpl; [tauto|].
  destruct (name_eqb k k0) eqn:E.
  - apply name_eqb_eq in E; subst. split; [discriminate|]. intros H. exfalso. apply H. left; reflexivity.
  - apply name_eqb_neq in E. rewrite IH. split; intros H; [intros [?|?]; [congruence|auto]|auto].
Qed.

Lemma aget_some_in {V} (m : list (name * V)) k : (exists v, sget m k = Some v) <-> In k (map fst m).
Proof.
  destruct (sget m k) eqn:E.
  - split; [intros _|eauto]. apply aget_in in E. apply in_map_iff. exists (k, v). split; [reflexivity|assumption].
  - split; [intros [v Hv]; discriminate|]. intros H. apply aget_none_notin in E. contradiction.
Qed.

(* every entry's Final index is its position (counted from off) *)
Definition pos_final (off : nat) (t : table) : Prop :=
  forall n e, nth_error t n = Some e -> Final (snd e) = Z.of_nat (off + n).

Lemma pos_final_app off t e :
  pos_final off t -> Final (snd e) = Z.of_nat (off + length t) -> pos_final off (t ++ [e]).
Proof.
  intros H He n e' Hn. destruct (Nat.lt_ge_cases n (length t)) as [Hlt|Hge].
  - rewrite nth_error_app1 in Hn by assumption. auto.
  - rewrite nth_error_app2 in Hn by assumption.
    destruct (n - length t)%nat eqn:E; simpl in Hn.
    + inversion Hn; subst. rewrite He. f_equal. lia.
    + destruct n0; discriminate.
Qed.

Lemma pos_final_replace off a k v v' b :
  pos_final off (a ++ (k, v) :: b) -> Final v' = Final v -> pos_final off (a ++ (k, v') :: b).
Proof.
  intros H Hf n e Hn. destruct (Nat.lt_ge_cases n (length a)) as [Hlt|Hge].
  - rewrite nth_error_app1 in Hn by assumption. apply H. rewrite nth_error_app1 by assumption. assumption.
  - rewrite nth_error_app2 in Hn by assumption.
    destruct (n - length a)%nat eqn:E; simpl in Hn.
    + inversion Hn; subst. simpl. rewrite Hf.
      apply (H n (k, v)). rewrite nth_error_app2 by assumption. rewrite E. reflexivity.
    + apply H. rewrite nth_error_app2 by assumption. rewrite E. simpl. assumption.
Qed.

(* ---------- the first list ---------- *)
Fixpoint tab1 (i : Z) (l : list name) : table :=
  match l with [] => [] | s :: r => (s, mkMI i i (-1)) :: tab1 (i + 1) r end.

Lemma lit_step1_eq acc i s : lit_step1 acc i s = Ok (supd acc s (fun _ => mkMI (lenZ acc) i (-1))).
Proof. reflexivity. Qed.
Lemma lit_fill_eq mrd e : lit_fill mrd e = list_set mrd (Final (snd e)) (fst e).
Proof. reflexivity. Qed.

Lemma step1_spec l : forall i acc,
  i = lenZ acc -> NoDup l -> (forall s, In s l -> sget acc s = None) ->
  foldMi lit_step1 l i acc = Ok (acc ++ tab1 i l).
Proof.
  induction l as [|s r IH]; intros i acc Hi Hnd Hfresh; cbn [foldMi tab1].
  - rewrite app_nil_r. reflexivity.
  - inversion Hnd; subst. rewrite lit_step1_eq. cbn [bind].
    rewrite aupd_absent by (apply Hfresh; left; reflexivity).
    rewrite (IH (lenZ acc + 1) (acc ++ [(s, mkMI (lenZ acc) (lenZ acc) (-1))])).
    + rewrite <- app_assoc. reflexivity.
    + unfold lenZ. rewrite app_length. simpl. lia.
    + assumption.
    + intros s' Hs'. rewrite aget_app. rewrite Hfresh by (right; assumption). simpl.
      destruct (name_eqb s' s) eqn:E; [|reflexivity]. apply name_eqb_eq in E; subst. contradiction.
Qed.

Lemma tab1_keys i l : map fst (tab1 i l) = l.
Proof. revert i. induction l as [|s r IH]; intros i; simpl; [reflexivity|]. rewrite IH. reflexivity. Qed.

Lemma tab1_nth i l n e :
  nth_error (tab1 i l) n = Some e ->
  nth_error l n = Some (fst e) /\ snd e = mkMI (i + Z.of_nat n) (i + Z.of_nat n) (-1).
Proof.
  revert i n. induction l as [|s r IH]; intros i [|n] H; simpl in *; try discriminate.
  - inversion H; subst. simpl. split; [reflexivity|]. f_equal; lia.
  - destruct (IH _ _ H) as [A B]. split; [assumption|]. rewrite B. f_equal; lia.
Qed.

(* ---------- the invariant of the second pass ---------- *)
Definition first_ok (rd1 : list name) (s : name) (m : MI) : Prop :=
  (First m = -1 /\ ~ In s rd1) \/ (0 <= First m /\ nth_error rd1 (Z.to_nat (First m)) = Some s).
Definition second_ok (pre : list name) (s : name) (m : MI) : Prop :=
  (Second m = -1 /\ ~ In s pre) \/ (0 <= Second m /\ nth_error pre (Z.to_nat (Second m)) = Some s).

Record inv2 (rd1 pre : list name) (t : table) : Prop := {
  i_nodup : keys_nodup name_eqb t = true;
  i_pos : pos_final 0 t;
  i_keys : forall s, In s (map fst t) <-> In s rd1 \/ In s pre;
  i_first : forall s m, sget t s = Some m -> first_ok rd1 s m;
  i_second : forall s m, sget t s = Some m -> second_ok pre s m }.

Lemma keys_nodup_NoDup (t : table) : keys_nodup name_eqb t = true <-> NoDup (map fst t).
Proof.
  induction t as [|[k v] r IH]; simpl.
  - split; [constructor|reflexivity].
  - rewrite andb_true_iff, negb_true_iff, IH. split.
    + intros [H1 H2]. constructor; [|assumption]. intros Hin.
      assert (existsb (fun e => name_eqb k (fst e)) r = true); [|congruence].
      apply existsb_exists. apply in_map_iff in Hin. destruct Hin as (e & He & Hin).
      exists e. split; [assumption|]. apply name_eqb_eq. auto.
    + intros H. inversion H; subst. split; [|assumption].
      destruct (existsb (fun e => name_eqb k (fst e)) r) eqn:E; [|reflexivity].
      apply existsb_exists in E. destruct E as (e & He & Ee). apply name_eqb_eq in Ee. subst.
      exfalso. apply H2. apply in_map. assumption.
Qed.

Lemma inv2_init rd1 : NoDup rd1 -> inv2 rd1 [] (tab1 0 rd1).
Proof.
  intros Hnd. constructor.
  - apply keys_nodup_NoDup. rewrite tab1_keys. assumption.
  - intros n e Hn. apply tab1_nth in Hn. destruct Hn as [_ ->]. simpl. lia.
  - intros s. rewrite tab1_keys. simpl. tauto.
  - intros s m Hg. apply aget_in in Hg. apply In_nth_error in Hg. destruct Hg as (n & Hn).
    apply tab1_nth in Hn. simpl in Hn. destruct Hn as [A ->]. right. simpl. split; [lia|].
    rewrite Nat2Z.id. assumption.
  - intros s m Hg. apply aget_in in Hg. apply In_nth_error in Hg. destruct Hg as (n & Hn).
    apply tab1_nth in Hn. simpl in Hn. destruct Hn as [A ->]. left. simpl. split; [reflexivity|intros []].
Qed.

Lemma second_ok_snoc pre s' s m : second_ok pre s m -> s <> s' -> second_ok (pre ++ [s']) s m.
Proof.
  intros [[A B]|[A B]] Hne.
  - left. split; [assumption|]. rewrite in_app_iff. simpl. intros [?|[?|[]]]; [contradiction|congruence].
  - right. split; [assumption|]. rewrite nth_error_app1; [assumption|]. apply nth_error_Some. congruence.
Qed.

Lemma inv2_step rd1 pre t s :
  inv2 rd1 pre t ->
  exists t', lit_step2 t (lenZ pre) s = Ok t' /\ inv2 rd1 (pre ++ [s]) t'.
Proof.
  intros [Hn Hp Hk Hf Hs]. unfold lit_step2. eexists. split; [reflexivity|].
  destruct (sget t s) as [m|] eqn:Eg.
  - (* known name: only Second changes *)
    destruct (aupd_present t s (fun o => match o with
        | None => mkMI (lenZ t) (-1) (lenZ pre) | Some ptrs => mkMI (Final ptrs) (First ptrs) (lenZ pre) end) m Eg)
      as (a & b & Ht & Ha & Hu).
    rewrite Hu. subst t.
    assert (Hkeys : map fst (a ++ (s, mkMI (Final m) (First m) (lenZ pre)) :: b) = map fst (a ++ (s, m) :: b)).
    { rewrite !map_app. reflexivity. }
    assert (Hget : forall s0, sget (a ++ (s, mkMI (Final m) (First m) (lenZ pre)) :: b) s0 =
                              if name_eqb s0 s then Some (mkMI (Final m) (First m) (lenZ pre))
                              else sget (a ++ (s, m) :: b) s0).
    { intros s0. rewrite !aget_app. simpl. destruct (name_eqb s0 s) eqn:E.
      - apply name_eqb_eq in E; subst s0. rewrite Ha. reflexivity.
      - reflexivity. }
    constructor.
    + apply keys_nodup_NoDup. rewrite Hkeys. apply keys_nodup_NoDup. assumption.
    + eapply pos_final_replace; [exact Hp|reflexivity].
    + intros s0. rewrite Hkeys, Hk, in_app_iff. simpl. split; [tauto|].
      intros [?|[?|[<-|[]]]]; auto. apply Hk. apply aget_some_in. eauto.
    + intros s0 m0. rewrite Hget. destruct (name_eqb s0 s) eqn:E.
      * apply name_eqb_eq in E; subst s0. intros H; inversion H; subst. apply (Hf s m Eg).
      * apply Hf.
    + intros s0 m0. rewrite Hget. destruct (name_eqb s0 s) eqn:E.
      * apply name_eqb_eq in E; subst s0. intros H; inversion H; subst. right. simpl.
        split; [unfold lenZ; lia|]. unfold lenZ. rewrite Nat2Z.id, nth_error_app2 by lia.
        rewrite Nat.sub_diag. reflexivity.
      * intros H. apply second_ok_snoc; [apply Hs; assumption|]. apply name_eqb_neq. assumption.
  - (* new name: appended *)
    rewrite aupd_absent by assumption.
    assert (Hnotin : ~ In s (map fst t)) by (apply aget_none_notin; assumption).
    assert (Hget : forall s0, sget (t ++ [(s, mkMI (lenZ t) (-1) (lenZ pre))]) s0 =
                              match sget t s0 with Some v => Some v | None =>
                                if name_eqb s0 s then Some (mkMI (lenZ t) (-1) (lenZ pre)) else None end).
    { intros s0. rewrite aget_app. reflexivity. }
    constructor.
    + apply keys_nodup_NoDup. rewrite map_app. simpl. apply keys_nodup_NoDup in Hn.
      clear -Hn Hnotin. induction (map fst t) as [|x r IH]; simpl.
      * constructor; [intros []|constructor].
      * inversion Hn; subst. constructor.
        -- rewrite in_app_iff. simpl. intros [?|[<-|[]]]; [contradiction|]. apply Hnotin. left; reflexivity.
        -- apply IH; [assumption|]. intros ?. apply Hnotin. right; assumption.
    + apply pos_final_app; [assumption|]. simpl. unfold lenZ. reflexivity.
    + intros s0. rewrite map_app, !in_app_iff, Hk. simpl. tauto.
    + intros s0 m0. rewrite Hget. destruct (sget t s0) eqn:E0.
      * intros H; inversion H; subst. apply (Hf s0 m0 E0).
      * destruct (name_eqb s0 s) eqn:E; [|discriminate]. apply name_eqb_eq in E; subst s0.
        intros H; inversion H; subst. left. simpl. split; [reflexivity|].
        intros Hin. apply Hnotin, Hk. left; assumption.
    + intros s0 m0. rewrite Hget. destruct (sget t s0) eqn:E0.
      * intros H; inversion H; subst. apply second_ok_snoc; [apply Hs; assumption|].
        intros ->. congruence.
      * destruct (name_eqb s0 s) eqn:E; [|discriminate]. apply name_eqb_eq in E; subst s0.
        intros H; inversion H; subst. right. simpl. split; [unfold lenZ; lia|].
        unfold lenZ. rewrite Nat2Z.id, nth_error_app2 by lia. rewrite Nat.sub_diag. reflexivity.
Qed.

Lemma step2_spec rd1 l : forall pre t,
  inv2 rd1 pre t -> exists t', foldMi lit_step2 l (lenZ pre) t = Ok t' /\ inv2 rd1 (pre ++ l) t'.
Proof.
  induction l as [|s r IH]; intros pre t Hi; cbn [foldMi].
  - exists t. rewrite app_nil_r. split; [reflexivity|assumption].
  - destruct (inv2_step _ _ _ s Hi) as (t1 & E1 & I1). rewrite E1. cbn [bind].
    destruct (IH _ _ I1) as (t2 & E2 & I2).
    replace (lenZ pre + 1) with (lenZ (pre ++ [s])) by (unfold lenZ; rewrite app_length; simpl; lia).
    exists t2. rewrite <- app_assoc in I2. split; assumption.
Qed.

(* ---------- filling the merged list ---------- *)
Lemma fill_spec (t : table) : forall off (done : list name) (rest : list name),
  pos_final off t -> length done = off -> length rest = length t ->
  foldM lit_fill t (done ++ rest) = Ok (done ++ map fst t).
Proof.
  induction t as [|[k m] r IH]; intros off done rest Hp Hd Hr; cbn [foldM map].
  - destruct rest; [reflexivity|discriminate].
  - destruct rest as [|x rest]; [discriminate|].
    assert (Hf : Final m = Z.of_nat off).
    { specialize (Hp 0%nat (k, m) eq_refl). simpl in Hp. rewrite Hp. f_equal. lia. }
    rewrite lit_fill_eq. simpl fst. simpl snd. rewrite Hf.
    assert (Hset : list_set (done ++ x :: rest) (Z.of_nat off) k = Ok ((done ++ [k]) ++ rest)).
    { unfold list_set. destruct (Z.of_nat off <? 0) eqn:E; [lia|]. rewrite Nat2Z.id. subst off.
      clear. induction done as [|d ds IHd]; simpl; [reflexivity|].
      destruct (set_nth (ds ++ x :: rest) (length ds) k) eqn:E; [|discriminate].
      inversion IHd; subst. reflexivity. }
    rewrite Hset. cbn [bind].
    rewrite (IH (S off) (done ++ [k]) rest).
    + rewrite <- app_assoc. reflexivity.
    + intros n e Hn. specialize (Hp (S n) e Hn). rewrite Hp. f_equal. lia.
    + rewrite app_length. simpl. lia.
    + simpl in Hr. lia.
Qed.

(* ---------- the characterisation ---------- *)
Theorem literal_merge_spec rd1 rd2 :
  NoDup rd1 ->
  exists tab mrd,
    literal_merge rd1 rd2 = Ok (tab, mrd) /\
    mrd = map fst tab /\ NoDup mrd /\
    (forall s, In s mrd <-> In s rd1 \/ In s rd2) /\
    (forall s m, lookup tab s = Some m ->
       nth_error mrd (Z.to_nat (Final m)) = Some s /\ 0 <= Final m /\
       first_ok rd1 s m /\ second_ok rd2 s m) /\
    (forall s, In s rd1 \/ In s rd2 -> exists m, lookup tab s = Some m).
Proof.
  intros Hnd. unfold literal_merge.
  rewrite (step1_spec rd1 0 [] eq_refl Hnd) by reflexivity. cbn [bind app].
  destruct (step2_spec rd1 rd2 [] (tab1 0 rd1) (inv2_init rd1 Hnd)) as (t & E & [Hn Hp Hk Hf Hs]).
  change (lenZ []) with 0 in E. rewrite E. cbn [bind].
  pose proof (fill_spec t 0 [] (repeat [] (length t)) Hp eq_refl (repeat_length _ _)) as Hfill.
  cbn [app] in Hfill. rewrite Hfill. cbn [bind].
  exists t, (map fst t). split; [reflexivity|]. split; [reflexivity|].
  split; [apply keys_nodup_NoDup; assumption|]. split; [exact Hk|]. split.
  - intros s m Hl. unfold lookup in Hl. split; [|split; [|split; [eauto|eauto]]].
    + apply aget_in in Hl. apply In_nth_error in Hl. destruct Hl as (n & Hl).
      pose proof (Hp n _ Hl) as Hpn. simpl in Hpn. rewrite Hpn, Nat2Z.id.
      rewrite nth_error_map, Hl. reflexivity.
    + apply aget_in in Hl. apply In_nth_error in Hl. destruct Hl as (n & Hl).
      pose proof (Hp n _ Hl) as Hpn. simpl in Hpn. lia.
  - intros s Hin. apply aget_some_in. apply Hk. assumption.
Qed.

(* position of a name in a duplicate-free list *)
Lemma position_nth s l : forall i n, nth_error l n = Some s -> NoDup l -> position s l i = Some (i + Z.of_nat n).
Proof.
  induction l as [|x r IH]; intros i [|n] H Hnd; simpl in *; try discriminate.
  - inversion H; subst. rewrite name_eqb_refl. f_equal; lia.
  - inversion Hnd; subst. destruct (name_eqb s x) eqn:E.
    + apply name_eqb_eq in E; subst. exfalso. apply H2. eapply nth_error_In; eassumption.
    + rewrite (IH (i + 1) n H H3). f_equal; lia.
Qed.
Lemma position_none s l : forall i, ~ In s l -> position s l i = None.
Proof.
  induction l as [|x r IH]; intros i H; simpl; [reflexivity|].
  destruct (name_eqb s x) eqn:E.
  - apply name_eqb_eq in E; subst. exfalso. apply H. left; reflexivity.
  - apply IH. intros ?. apply H. right; assumption.
Qed.
