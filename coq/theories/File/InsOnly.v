(* Code block "simple case with insertions only": the result is well formed, one interval longer by ins,
   and line by line it is the specified edit. *)
From Coq Require Import List ZArith Lia Bool.
Import ListNotations.
From Herc Require Import File.Model File.Spec File.NodeLists File.Locate File.DelLoop File.Values.
Open Scope Z_scope.

Section InsOnly.
Variables (t P ins : Z).
Hypothesis Hins : 0 < ins.
Hypothesis Ht : t <> TreeEnd.

Theorem ins_only_i_spec L ok ov R :
  WF2 (L ++ (ok, ov) :: R) -> ok <= P -> first_gt P R -> 0 <= P <= slen (L ++ (ok, ov) :: R) ->
  exists s', ins_only_i t P ins L (ok, ov) R = s' /\ WF2 s' /\
     slen s' = slen (L ++ (ok, ov) :: R) + ins /\
     forall i, 0 <= i -> sval s' i = spec_val (L ++ (ok, ov) :: R) t P ins 0 i.
Proof.
  intros (Hinc & Hend & v0 & r & Es) Hok Hgt HP. symmetry in Es.
  unfold ins_only_i. cbn [fst snd].
  destruct (inc_decomp _ _ _ Hinc) as (HL & HLo & HR). cbn [fst] in *.
  assert (HRs : inc (ok + ins) (shift ins R)) by (apply inc_shift; auto).
  assert (Hlen : slen (L ++ (ok, ov) :: R) = klast ok R)
    by (unfold slen; rewrite klast_app; reflexivity).
  assert (HendR : vlast ov R = TreeEnd) by (rewrite vlast_app in Hend; exact Hend).
  destruct (Z.eqb_spec ov t) as [Et|Nt].
  - (* the containing interval already has value t: it grows *)
    rewrite orb_true_r. eexists. split; [reflexivity|].
    assert (RNE : R <> []) by (intros ->; simpl in HendR; congruence).
    assert (Hinc' : inc (-1) (L ++ (ok, ov) :: shift ins R)).
    { apply inc_app. split; auto. simpl. split; auto. eapply inc_weaken; [|exact HRs]. lia. }
    split; [split; [exact Hinc'|split]|split].
    + rewrite vlast_app. simpl. rewrite vlast_shift. exact HendR.
    + destruct L as [|x L']; simpl in *; inversion Es; subst; eauto.
    + unfold slen. rewrite !klast_app. simpl. apply klast_shift_ne; auto.
    + intros i Hi. rewrite sval_L_cons by auto. unfold spec_val. rewrite vfrom_shift.
      destruct (Z.ltb_spec i P).
      * rewrite sval_left by (auto; destruct R as [|[k w] R']; simpl in *; auto; lia).
        zb; auto; try lia. apply (vfrom_first_gt _ _ _ P); auto; lia.
      * destruct (Z.ltb_spec i (P + ins)).
        -- zb; try lia. rewrite (vfrom_first_gt _ _ _ P); auto; lia.
        -- replace (i - ins + 0) with (i - ins) by lia.
           rewrite (sval_right L ok ov [] R) by (simpl; auto; lia). simpl.
           zb; auto; lia.
  - (* a new interval is inserted *)
    rewrite orb_false_r.
    destruct (Z.ltb_spec ok P) as [Hlt|Hge].
    + (* split the containing interval *)
      cbv iota.
      assert (HRs' : inc (P + ins) (shift ins R)).
      { destruct R as [|[k w] R']; simpl in *; auto. split; [lia|]. apply (inc_shift k R' ins). tauto. }
      assert (E1 : insert P t (L ++ (ok, ov) :: shift ins R) = (L ++ [(ok, ov)]) ++ (P, t) :: shift ins R).
      { replace (L ++ (ok, ov) :: shift ins R) with ((L ++ [(ok, ov)]) ++ shift ins R)
          by (rewrite <- app_assoc; reflexivity).
        apply (insert_middle _ _ _ _ (-1)).
        - apply inc_app. simpl. auto.
        - rewrite klast_app. simpl. lia.
        - lia.
        - eapply inc_weaken; [|exact HRs']. lia. }
      rewrite E1.
      assert (E2 : insert (P + ins) ov ((L ++ [(ok, ov)]) ++ (P, t) :: shift ins R) =
                   (L ++ [(ok, ov); (P, t)]) ++ (P + ins, ov) :: shift ins R).
      { replace ((L ++ [(ok, ov)]) ++ (P, t) :: shift ins R) with ((L ++ [(ok, ov); (P, t)]) ++ shift ins R)
          by (rewrite <- !app_assoc; reflexivity).
        apply (insert_middle _ _ _ _ (-1)).
        - apply inc_app. simpl. auto.
        - rewrite klast_app. simpl. lia.
        - lia.
        - exact HRs'. }
      rewrite E2. eexists. split; [reflexivity|].
      replace ((L ++ [(ok, ov); (P, t)]) ++ (P + ins, ov) :: shift ins R)
        with (L ++ (ok, ov) :: (P, t) :: (P + ins, ov) :: shift ins R) by (rewrite <- app_assoc; reflexivity).
      assert (Hinc' : inc (-1) (L ++ (ok, ov) :: (P, t) :: (P + ins, ov) :: shift ins R)).
      { apply inc_app. split; auto. simpl. repeat split; auto; lia. }
      split; [split; [exact Hinc'|split]|split].
      * rewrite vlast_app. simpl. rewrite vlast_shift. exact HendR.
      * destruct L as [|x L']; simpl in *; inversion Es; subst; eauto.
      * unfold slen in *. rewrite !klast_app in *. simpl in *.
        destruct R as [|[k w] R']; simpl in *.
        -- lia.
        -- apply (klast_shift k R' ins).
      * intros i Hi. rewrite sval_L_cons by auto. unfold spec_val. simpl. rewrite vfrom_shift.
        destruct (Z.ltb_spec i P).
        -- rewrite sval_left by (auto; destruct R as [|[k w] R']; simpl in *; auto; lia).
           zb; auto; lia.
        -- destruct (Z.ltb_spec i (P + ins)).
           ++ zb; auto; lia.
           ++ replace (i - ins + 0) with (i - ins) by lia.
              rewrite (sval_right L ok ov [] R) by (simpl; auto; lia). simpl.
              zb; auto; lia.
    + (* pos is exactly at the start of an interval with another value *)
      assert (ok = P) by lia. subst ok. cbv iota.
      assert (E1 : insert P t (L ++ shift ins ((P, ov) :: R)) = L ++ (P, t) :: shift ins ((P, ov) :: R)).
      { apply (insert_middle _ _ _ _ (-1)); auto; try lia.
        simpl. split; [lia|]. exact HRs. }
      rewrite E1. eexists. split; [reflexivity|].
      assert (Hinc' : inc (-1) (L ++ (P, t) :: shift ins ((P, ov) :: R))).
      { apply inc_app. split; auto. simpl. repeat split; auto; lia. }
      split; [split; [exact Hinc'|split]|split].
      * rewrite vlast_app. simpl. rewrite vlast_shift. exact HendR.
      * destruct L as [|x L']; simpl in *; inversion Es; subst; eauto.
      * unfold slen. rewrite !klast_app. simpl. apply klast_shift.
      * intros i Hi. rewrite sval_L_cons by auto. unfold spec_val. simpl. rewrite vfrom_shift.
        destruct (Z.ltb_spec i P).
        -- rewrite sval_left by (auto; destruct R as [|[k w] R']; simpl in *; auto; lia).
           zb; auto; lia.
        -- destruct (Z.ltb_spec i (P + ins)).
           ++ zb; auto; lia.
           ++ replace (i - ins + 0) with (i - ins) by lia.
              rewrite (sval_right L P ov [] R) by (simpl; auto; lia). simpl.
              zb; auto; lia.
Qed.
End InsOnly.
