(* Executable model of internal/burndown/file.go: NewFile, updateTime, Len, Update
   (the code AFTER the two repairs "fix: File.Update kept a wrapped uint32 origin key ..." (F2) and
   "fix: File.Update silently accepted lengths >= 2^32" (F12)).

   State: the in-order list of the (key, value) items that File.tree holds (C05 is the property that says
   the red-black tree is that list).  Iterators are positions in that list: the part of the list before the
   iterator (kept-left nodes), the node under the iterator and the part after it.
   Every uint32(x) conversion of the Go code is written [u32 x] = x mod 2^32; Go int is unbounded.
   A Go panic is [Panic class].  Definitions only - no proofs in this file. *)
From Coq Require Import List ZArith Bool.
Import ListNotations.
Open Scope Z_scope.

Notation node := (Z * Z)%type (only parsing).            (* rbtree.Item: Key, Value *)
Notation delta_rec := (Z * Z * Z)%type (only parsing).   (* one Updater call: currentTime, previousTime, delta *)

Definition MaxU32 : Z := 4294967295.
Definition u32 (x : Z) : Z := x mod 4294967296.
Definition TreeEnd : Z := MaxU32.
Definition TreeMergeMark : Z := 16383.                   (* (1 << 14) - 1 *)
Definition is_mark (v : Z) : bool := Z.land v TreeMergeMark =? TreeMergeMark.

Inductive pclass :=
| PTimeNeg | PTimeBig | PPosNeg | PPosBig | PLenNeg | PLenBig   (* argument guards of Update *)
| PInvalidTree | PAfterEnd | PDelAfterEnd                        (* state-dependent guards of Update *)
| PMark                                                          (* updateTime: previousTime carries the mark *)
| PNil                                                           (* nil dereference (unreachable on well-formed trees) *)
| PNewTime | PNewLen.                                            (* guards of NewFile *)

Inductive result (A : Type) := Ok (a : A) | Panic (c : pclass).
Arguments Ok {A} a.
Arguments Panic {A} c.

(* func (file *File) updateTime(currentTime, previousTime, delta int): the list of Updater calls *)
Definition update_time (cur prev delta : Z) : result (list delta_rec) :=
  if is_mark prev then
    (if cur =? prev then Ok [] else Panic PMark)
  else if is_mark cur then Ok []
  else Ok [(cur, prev, delta)].

(* ---------- the ordered map ---------- *)

(* RBTree.Insert: sorted insert, nothing happens when the key exists *)
Fixpoint insert (k v : Z) (s : list node) : list node :=
  match s with
  | [] => [(k, v)]
  | (k', v') :: rest =>
      if k <? k' then (k, v) :: s
      else if k =? k' then s
      else (k', v') :: insert k v rest
  end.

(* Max().Item().Key with a default for the empty list *)
Fixpoint klast (k : Z) (s : list node) : Z :=
  match s with [] => k | (k', _) :: r => klast k' r end.

(* iter.Item().Key = uint32(int(iter.Item().Key) + d) for every node of s *)
Definition shift32 (d : Z) (s : list node) : list node := map (fun n => (u32 (fst n + d), snd n)) s.

(* FindLE on a list whose first key is <= pos: s = L ++ origin :: rest, origin the last node with key <= pos *)
Fixpoint find_le (pos : Z) (acc : list node) (s : list node) : option (list node * node * list node) :=
  match s with
  | [] => None
  | n :: rest =>
      match rest with
      | (k', _) :: _ => if k' <=? pos then find_le pos (acc ++ [n]) rest else Some (acc, n, rest)
      | [] => Some (acc, n, rest)
      end
  end.

Definition last_opt (l : list node) : option node :=
  match rev l with [] => None | x :: _ => Some x end.

(* ---------- NewFile ---------- *)
Definition new_file (t len : Z) : result (list node * list delta_rec) :=
  match update_time t t len with
  | Panic c => Panic c
  | Ok reps =>
    if (t <? 0) || (t >? MaxU32) then Panic PNewTime else
    if len >? MaxU32 then Panic PNewLen else
    let s0 := if len >? 0 then insert 0 (u32 t) [] else [] in
    Ok (insert (u32 len) TreeEnd s0, reps)
  end.

(* File.Len *)
Definition len (s : list node) : Z := klast 0 s.

(* ---------- Update: the "delete nodes" loop ----------
   origin / prevOrigin are the Go locals; lefts = nodes before the iterator that stay in the tree,
   cur = iter.Item(), rest = the nodes after it; reps = Updater calls made so far.
   Result: (origin, lefts, nodes from the iterator on, reps). *)
Fixpoint del_loop (t pos ins del : Z) (origin prevOrigin : node)
         (lefts : list node) (cur : node) (rest : list node) (reps : list delta_rec)
  : result (node * list node * list node * list delta_rec) :=
  match rest with
  | [] =>                                   (* nextIter.Limit() *)
      if pos + del >? fst cur then Panic PDelAfterEnd else Ok (origin, lefts, [cur], reps)
  | nxt :: rest' =>
    let delta := Z.min (fst nxt) (pos + del) - Z.max (fst cur) pos in
    if (delta =? 0) && (ins =? 0) && (fst origin =? u32 pos) && (snd prevOrigin =? snd cur) then
      (* origin = *node; DeleteWithIterator(iter); iter = nextIter; then delta <= 0: break *)
      Ok (cur, lefts, nxt :: rest', reps)
    else if delta <=? 0 then Ok (origin, lefts, cur :: rest, reps)
    else
      match update_time t (snd cur) (- delta) with
      | Panic c => Panic c
      | Ok r =>
        let reps' := reps ++ r in
        if fst cur >=? u32 pos
        then del_loop t pos ins del cur prevOrigin lefts nxt rest' reps'       (* origin = *node; delete *)
        else del_loop t pos ins del origin prevOrigin (lefts ++ [cur]) nxt rest' reps'
      end
  end.

(* ---------- Update, block by block ---------- *)

(* "prepare for the keys update": insert our new interval, or roll the iterator one position back.
   origin1 / L1 / r :: right_rest are what the deletion loop left (r = iter.Item()).
   Result: (nodes up to and including the iterator, nodes after it, origin). *)
Definition prepare (t pos ins del : Z) (origin1 : node) (L1 : list node) (r : node) (right_rest : list node)
  : list node * list node * node :=
  if (ins >? 0) && (negb (snd origin1 =? u32 t) || (fst origin1 >=? u32 pos)) then
    if (snd r =? u32 t) && (fst r - del =? pos) then
      match last_opt L1 with
      | Some p =>
        if negb (snd p =? u32 t)
        then (L1 ++ [(u32 pos, snd r)], right_rest, (fst origin1, u32 t)) (* iter.Item().Key = uint32(pos) *)
        else (L1, right_rest, (fst origin1, u32 t))                       (* delete iter; iter = prev *)
      | None => ([(u32 pos, snd r)], right_rest, (fst origin1, u32 t))    (* prev.NegativeLimit() *)
      end
    else (L1 ++ [(u32 pos, u32 t)], r :: right_rest, origin1)             (* _, iter = tree.Insert(pos, time) *)
  else (L1, r :: right_rest, origin1).                                    (* iter = iter.Prev() *)

(* "update the keys of all subsequent nodes" and the final conditional Insert.
   previous = the item under the rolled-back iterator (None: nil, or the other branch was taken). *)
Definition finish (t pos ins del : Z) (prevOrigin : node) (previous : option node)
           (before after : list node) (origin2 : node) : list node :=
  let delta := ins - del in
  let s3 := if delta =? 0 then before ++ after else before ++ shift32 delta after in
  let okey := if negb (delta =? 0) && (fst origin2 >? u32 pos) then fst origin2 + delta else fst origin2 in
  if ins >? 0 then
    if negb (snd origin2 =? u32 t) then insert (u32 (pos + ins)) (snd origin2) s3
    else if pos =? 0 then insert (u32 pos) (u32 t) s3 else s3
  else
    if ((pos >? okey) && (match previous with Some p => negb (snd p =? snd origin2) | None => false end))
       || ((pos =? okey) && negb (snd origin2 =? snd prevOrigin)) || (pos =? 0)
    then insert (u32 pos) (snd origin2) s3 else s3.

(* the "simple case with insertions only" *)
Definition ins_only (t pos ins : Z) (L : list node) (origin : node) (rest : list node) : list node :=
  let adv := (fst origin <? u32 pos)
             || ((snd origin =? u32 t) && ((pos =? 0) || (u32 pos =? fst origin))) in
  let base := if adv then L ++ origin :: shift32 (u32 ins) rest
              else L ++ shift32 (u32 ins) (origin :: rest) in
  if negb (snd origin =? u32 t) then
    let s2 := insert (u32 pos) (u32 t) base in
    if fst origin <? u32 pos then insert (u32 (pos + ins)) (snd origin) s2 else s2
  else base.

(* everything after iter := tree.FindLE(uint32(pos)): the tree is L ++ origin :: rest, iter at origin *)
Definition update_body (t pos ins del : Z) (L : list node) (origin : node) (rest : list node)
  : result (list node * list delta_rec) :=
  let prevOrigin := match last_opt L with Some p => p | None => origin end in
  match (if ins >? 0 then update_time t t ins else Ok []) with
  | Panic c => Panic c
  | Ok reps0 =>
    if del =? 0 then Ok (ins_only t pos ins L origin rest, reps0)
    else
      match del_loop t pos ins del origin prevOrigin L origin rest reps0 with
      | Panic c => Panic c
      | Ok (origin1, L1, right1, reps1) =>
        match right1 with
        | [] => Panic PNil
        | r :: right_rest =>
          let condA := (ins >? 0) && (negb (snd origin1 =? u32 t) || (fst origin1 >=? u32 pos)) in
          let '(before, after, origin2) := prepare t pos ins del origin1 L1 r right_rest in
          let previous := if condA then None else last_opt L1 in
          Ok (finish t pos ins del prevOrigin previous before after origin2, reps1)
        end
      end
  end.

(* the state-dependent guards and FindLE *)
Definition update_core (t pos ins del : Z) (s : list node) : result (list node * list delta_rec) :=
  match s with
  | [] => Panic PNil
  | n0 :: tl =>
  (* tree.Len() < 2 && tree.Min().Item().Key != 0 *)
  if (match tl with [] => true | _ => false end) && negb (fst n0 =? 0) then Panic PInvalidTree else
  if u32 pos >? klast 0 s then Panic PAfterEnd else
  if u32 pos <? fst n0 then Panic PNil (* FindLE gives the negative limit: *iter.Item() *) else
  match find_le (u32 pos) [] s with
  | None => Panic PNil
  | Some (L, origin, rest) => update_body t pos ins del L origin rest
  end
  end.

(* func (file *File) Update(time int, pos int, insLength int, delLength int) *)
Definition update (t pos ins del : Z) (s : list node) : result (list node * list delta_rec) :=
  if t <? 0 then Panic PTimeNeg else
  if t >=? MaxU32 then Panic PTimeBig else
  if pos <? 0 then Panic PPosNeg else
  if pos >? MaxU32 then Panic PPosBig else
  if (ins <? 0) || (del <? 0) then Panic PLenNeg else
  if (ins >? MaxU32) || (del >? MaxU32) then Panic PLenBig else
  if Z.lor ins del =? 0 then Ok (s, []) else
  update_core t pos ins del s.

(* ---------- operation sequences ---------- *)
Notation op := (Z * Z * Z * Z)%type (only parsing).      (* time, pos, insLength, delLength *)

Fixpoint run (ops : list op) (s : list node) (reps : list delta_rec) : result (list node * list delta_rec) :=
  match ops with
  | [] => Ok (s, reps)
  | (t, pos, ins, del) :: ops' =>
      match update t pos ins del s with
      | Panic c => Panic c
      | Ok (s', r) => run ops' s' (reps ++ r)
      end
  end.

(* NewFile followed by the operations *)
Definition run_file (t0 n0 : Z) (ops : list op) : result (list node * list delta_rec) :=
  match new_file t0 n0 with
  | Panic c => Panic c
  | Ok (s, r) => run ops s r
  end.
