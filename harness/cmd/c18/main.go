// Harness for C18: drives the real MergeResults of DevsAnalysis, CouplesAnalysis and BurndownAnalysis
// (package leaves) and CommonAnalysisResult.Merge with generated pairs of results and records the
// inputs, the identity table the merge worked with and the merged result.
package main

import (
	"bufio"
	"bytes"
	"flag"
	"fmt"
	"os"
	"os/exec"
	"runtime"
	"sort"
	"strconv"
	"strings"
	"time"

	"gopkg.in/src-d/hercules.v10"
	"gopkg.in/src-d/hercules.v10/leaves"
	. "verifharness/lib"
)

// ---------------------------------------------------------------------------------------------
// plain-data images of the inputs (what the trace holds)

type Common struct {
	Begin, End int64
	Commits    int
	Runtime    int64
	Items      []string
	ItemsNil   bool
}

type LS struct{ A, R, C int }
type Lang struct {
	Name string
	LS
}
type DevEntry struct {
	Dev, Commits int
	LS
	Langs []Lang
}
type TickEntry struct {
	Tick int
	Devs []DevEntry
}
type Devs struct {
	People   []string
	TickSize int64
	Ticks    []TickEntry
}
type KV struct {
	K int
	V int64
}
type Couples struct {
	People, Files []string
	Lines         []int
	PF            [][]int
	PM, FM        [][]KV
}
type Burndown struct {
	People                []string
	TickSize              int64
	Sampling, Granularity int
	Global                [][]int64
	PH                    [][][]int64
	PM                    [][]int64
}

// ---------------------------------------------------------------------------------------------
// S-expressions

// S writes a string atom.  The trace format splits atoms at white space and parentheses and the Go side re-reads
// its own lines rune by rune (batch file of the burndown child, replay), so every byte outside the printable ASCII
// range and the four structural characters ( ) " \ travel as \xHH (round 4: names with invalid UTF-8, NUL, tabs, CR,
// NBSP ... must arrive byte for byte).  Plain names are written as before.
func S(s string) Sx {
	plain := true
	for i := 0; i < len(s); i++ {
		if c := s[i]; c < 0x21 || c > 0x7e || c == '(' || c == ')' || c == '"' || c == '\\' {
			plain = false
			break
		}
	}
	if plain {
		return A("\"" + s + "\"")
	}
	var sb strings.Builder
	sb.WriteByte('"')
	for i := 0; i < len(s); i++ {
		if c := s[i]; c < 0x21 || c > 0x7e || c == '(' || c == ')' || c == '"' || c == '\\' {
			fmt.Fprintf(&sb, "\\x%02x", c)
		} else {
			sb.WriteByte(c)
		}
	}
	sb.WriteByte('"')
	return A(sb.String())
}
func Strs(tag string, l []string) Sx {
	xs := make([]Sx, len(l))
	for i, s := range l {
		xs[i] = S(s)
	}
	return T(tag, xs...)
}
func unS(x Sx) string {
	a := x.Atom
	if len(a) < 2 || a[0] != '"' || a[len(a)-1] != '"' {
		panic("not a string atom: " + x.String())
	}
	a = a[1 : len(a)-1]
	if !strings.Contains(a, "\\") {
		return a
	}
	var sb strings.Builder
	for i := 0; i < len(a); i++ {
		if a[i] == '\\' && i+3 < len(a) && a[i+1] == 'x' {
			if v, err := strconv.ParseUint(a[i+2:i+4], 16, 8); err == nil {
				sb.WriteByte(byte(v))
				i += 3
				continue
			}
		}
		sb.WriteByte(a[i])
	}
	return sb.String()
}
func unStrs(x Sx) []string {
	res := []string{}
	for _, a := range x.Args() {
		res = append(res, unS(a))
	}
	return res
}
func i64(x Sx) int64 {
	v, err := strconv.ParseInt(x.Atom, 10, 64)
	if err != nil {
		panic("not an int64: " + x.String())
	}
	return v
}
func must(x Sx, tag string) Sx {
	f, ok := x.Field(tag)
	if !ok {
		panic("missing field " + tag + " in " + x.String())
	}
	return f
}

func (c Common) sx(tag string) Sx {
	items := []Sx{B(!c.ItemsNil)}
	for _, s := range c.Items {
		items = append(items, S(s))
	}
	return T(tag, I64(c.Begin), I64(c.End), I(c.Commits), I64(c.Runtime), T("items", items...))
}
func parseCommon(x Sx) Common {
	a := x.Args()
	c := Common{Begin: i64(a[0]), End: i64(a[1]), Commits: a[2].Int(), Runtime: i64(a[3])}
	it := a[4].Args()
	c.ItemsNil = it[0].Atom == "0"
	for _, s := range it[1:] {
		c.Items = append(c.Items, unS(s))
	}
	return c
}
func (c Common) build() *hercules.CommonAnalysisResult {
	r := &hercules.CommonAnalysisResult{BeginTime: c.Begin, EndTime: c.End, CommitsNumber: c.Commits,
		RunTime: time.Duration(c.Runtime)}
	if !c.ItemsNil {
		r.RunTimePerItem = map[string]float64{}
		for _, k := range c.Items {
			r.RunTimePerItem[k] = 1
		}
	}
	return r
}
func commonOut(r *hercules.CommonAnalysisResult) Sx {
	c := Common{Begin: r.BeginTime, End: r.EndTime, Commits: r.CommitsNumber, Runtime: int64(r.RunTime),
		ItemsNil: r.RunTimePerItem == nil}
	for k := range r.RunTimePerItem {
		c.Items = append(c.Items, k)
	}
	sort.Strings(c.Items)
	return c.sx("c")
}

func (d Devs) sx() Sx {
	ticks := make([]Sx, len(d.Ticks))
	for i, t := range d.Ticks {
		devs := []Sx{I(t.Tick)}
		for _, e := range t.Devs {
			de := []Sx{I(e.Dev), I(e.Commits), I(e.A), I(e.R), I(e.C)}
			for _, l := range e.Langs {
				de = append(de, L(S(l.Name), I(l.A), I(l.R), I(l.C)))
			}
			devs = append(devs, L(de...))
		}
		ticks[i] = L(devs...)
	}
	return T("devs", Strs("people", d.People), T("ticksize", I64(d.TickSize)), T("ticks", ticks...))
}
func parseDevs(x Sx) Devs {
	d := Devs{People: unStrs(must(x, "people")), TickSize: i64(must(x, "ticksize").Args()[0])}
	for _, t := range must(x, "ticks").Args() {
		te := TickEntry{Tick: t.List[0].Int()}
		for _, e := range t.List[1:] {
			de := DevEntry{Dev: e.List[0].Int(), Commits: e.List[1].Int(),
				LS: LS{e.List[2].Int(), e.List[3].Int(), e.List[4].Int()}}
			for _, l := range e.List[5:] {
				de.Langs = append(de.Langs, Lang{unS(l.List[0]), LS{l.List[1].Int(), l.List[2].Int(), l.List[3].Int()}})
			}
			te.Devs = append(te.Devs, de)
		}
		d.Ticks = append(d.Ticks, te)
	}
	return d
}
func (d Devs) build() leaves.DevsResult {
	ticks := map[int]map[int]*leaves.DevTick{}
	for _, t := range d.Ticks {
		m := map[int]*leaves.DevTick{}
		for _, e := range t.Devs {
			var langs []leaves.VerifC18Lang
			for _, l := range e.Langs {
				langs = append(langs, leaves.VerifC18Lang{Name: l.Name, Added: l.A, Removed: l.R, Changed: l.C})
			}
			m[e.Dev] = leaves.VerifC18NewDevTick(e.Commits, e.A, e.R, e.C, langs)
		}
		ticks[t.Tick] = m
	}
	return leaves.VerifC18NewDevsResult(ticks, append([]string{}, d.People...), time.Duration(d.TickSize))
}
func devsOut(r leaves.DevsResult) Sx {
	people, ts := leaves.VerifC18DevsResultFields(r)
	d := Devs{People: people, TickSize: int64(ts)}
	var tks []int
	for t := range r.Ticks {
		tks = append(tks, t)
	}
	sort.Ints(tks)
	for _, t := range tks {
		te := TickEntry{Tick: t}
		var dvs []int
		for dv := range r.Ticks[t] {
			dvs = append(dvs, dv)
		}
		sort.Ints(dvs)
		for _, dv := range dvs {
			s := r.Ticks[t][dv]
			de := DevEntry{Dev: dv, Commits: s.Commits, LS: LS{s.Added, s.Removed, s.Changed}}
			var ls []string
			for l := range s.Languages {
				ls = append(ls, l)
			}
			sort.Strings(ls)
			for _, l := range ls {
				v := s.Languages[l]
				de.Langs = append(de.Langs, Lang{l, LS{v.Added, v.Removed, v.Changed}})
			}
			te.Devs = append(te.Devs, de)
		}
		d.Ticks = append(d.Ticks, te)
	}
	return d.sx()
}

func kvRows(tag string, rows [][]KV) Sx {
	xs := make([]Sx, len(rows))
	for i, r := range rows {
		ys := make([]Sx, len(r))
		for j, kv := range r {
			ys[j] = L(I(kv.K), I64(kv.V))
		}
		xs[i] = L(ys...)
	}
	return T(tag, xs...)
}
func parseKVRows(x Sx) [][]KV {
	res := [][]KV{}
	for _, r := range x.Args() {
		row := []KV{}
		for _, kv := range r.List {
			row = append(row, KV{kv.List[0].Int(), i64(kv.List[1])})
		}
		res = append(res, row)
	}
	return res
}
func intRows(tag string, rows [][]int) Sx {
	xs := make([]Sx, len(rows))
	for i, r := range rows {
		xs[i] = Ints(r)
	}
	return T(tag, xs...)
}
func parseInts(x Sx) []int {
	res := []int{}
	for _, a := range x.List {
		res = append(res, a.Int())
	}
	return res
}
func (c Couples) sx() Sx {
	return T("couples", Strs("people", c.People), Strs("files", c.Files), T("lines", Ints(c.Lines).List...),
		intRows("pf", c.PF), kvRows("pm", c.PM), kvRows("fm", c.FM))
}
func parseCouples(x Sx) Couples {
	c := Couples{People: unStrs(must(x, "people")), Files: unStrs(must(x, "files"))}
	c.Lines = parseInts(Sx{List: must(x, "lines").Args(), IsL: true})
	c.PF = [][]int{}
	for _, r := range must(x, "pf").Args() {
		c.PF = append(c.PF, parseInts(r))
	}
	c.PM = parseKVRows(must(x, "pm"))
	c.FM = parseKVRows(must(x, "fm"))
	return c
}
func buildKV(rows [][]KV) []map[int]int64 {
	res := make([]map[int]int64, len(rows))
	for i, r := range rows {
		res[i] = map[int]int64{}
		for _, kv := range r {
			res[i][kv.K] = kv.V
		}
	}
	return res
}
func (c Couples) build() leaves.CouplesResult {
	pf := make([][]int, len(c.PF))
	for i, r := range c.PF {
		pf[i] = append([]int{}, r...)
	}
	return leaves.VerifC18NewCouplesResult(buildKV(c.PM), pf, buildKV(c.FM), append([]int{}, c.Lines...),
		append([]string{}, c.Files...), append([]string{}, c.People...))
}
func kvOut(rows []map[int]int64) [][]KV {
	res := make([][]KV, len(rows))
	for i, m := range rows {
		var ks []int
		for k := range m {
			ks = append(ks, k)
		}
		sort.Ints(ks)
		res[i] = []KV{}
		for _, k := range ks {
			res[i] = append(res[i], KV{k, m[k]})
		}
	}
	return res
}
func couplesOut(r leaves.CouplesResult) Sx {
	c := Couples{People: leaves.VerifC18CouplesResultPeople(r), Files: r.Files, Lines: r.FilesLines,
		PF: r.PeopleFiles, PM: kvOut(r.PeopleMatrix), FM: kvOut(r.FilesMatrix)}
	return c.sx()
}

func matSx(m [][]int64) Sx {
	xs := make([]Sx, len(m))
	for i, r := range m {
		ys := make([]Sx, len(r))
		for j, v := range r {
			ys[j] = I64(v)
		}
		xs[i] = L(ys...)
	}
	return L(xs...)
}
func parseMat(x Sx) [][]int64 {
	res := [][]int64{}
	for _, r := range x.List {
		row := []int64{}
		for _, v := range r.List {
			row = append(row, i64(v))
		}
		res = append(res, row)
	}
	return res
}
func (b Burndown) sx() Sx {
	ph := make([]Sx, len(b.PH))
	for i, m := range b.PH {
		ph[i] = matSx(m)
	}
	return T("burndown", Strs("people", b.People), T("ticksize", I64(b.TickSize)), T("sampling", I(b.Sampling)),
		T("granularity", I(b.Granularity)), T("global", matSx(b.Global)), T("ph", ph...), T("pm", matSx(b.PM)))
}
func parseBurndown(x Sx) Burndown {
	b := Burndown{People: unStrs(must(x, "people")), TickSize: i64(must(x, "ticksize").Args()[0]),
		Sampling: must(x, "sampling").Args()[0].Int(), Granularity: must(x, "granularity").Args()[0].Int()}
	b.Global = parseMat(must(x, "global").Args()[0])
	for _, m := range must(x, "ph").Args() {
		b.PH = append(b.PH, parseMat(m))
	}
	b.PM = parseMat(must(x, "pm").Args()[0])
	return b
}
func copyMat(m [][]int64) leaves.DenseHistory {
	if len(m) == 0 {
		return nil
	}
	res := make(leaves.DenseHistory, len(m))
	for i, r := range m {
		res[i] = make([]int64, len(r)) // cap = len
		copy(res[i], r)
	}
	return res
}
func (b Burndown) build() leaves.BurndownResult {
	var ph []leaves.DenseHistory
	for _, m := range b.PH {
		ph = append(ph, copyMat(m))
	}
	return leaves.VerifC18NewBurndownResult(copyMat(b.Global), map[string]leaves.DenseHistory{}, map[string]map[int]int{},
		ph, copyMat(b.PM), append([]string{}, b.People...), time.Duration(b.TickSize), b.Sampling, b.Granularity)
}

// code of a history: the sum of its last row (see coq/theories/Combine/Spec.v [code])
func code(m leaves.DenseHistory) int64 {
	if len(m) == 0 {
		return 0
	}
	var s int64
	for _, v := range m[len(m)-1] {
		s += v
	}
	return s
}
// alignSx pictures WHERE the values of a merged history sit (round 4, alignment of the two tick grids): the number of
// rows, the length of the last row, and for every non-zero cell of the last row (band, value, first sample in which
// that band is non-zero).  The inputs of the pair streams are [[2^k]] with sampling = granularity = 1: such a value
// must appear in band = sample = (tick 0 of its result - tick 0 of the merged result) and stay there.
func alignSx(m leaves.DenseHistory) Sx {
	if len(m) == 0 {
		return L(I(0), I(0))
	}
	last := m[len(m)-1]
	xs := []Sx{I(len(m)), I(len(last))}
	for j, v := range last {
		if v == 0 {
			continue
		}
		first := len(m) - 1
		for first > 0 && j < len(m[first-1]) && m[first-1][j] != 0 {
			first--
		}
		xs = append(xs, L(I(j), I64(v), I(first)))
	}
	return L(xs...)
}

func burndownOut(r leaves.BurndownResult) Sx {
	people, ts, sampling, granularity := leaves.VerifC18BurndownResultFields(r)
	codes := make([]Sx, len(r.PeopleHistories))
	aligns := make([]Sx, len(r.PeopleHistories))
	for i, m := range r.PeopleHistories {
		codes[i] = I64(code(m))
		aligns[i] = alignSx(m)
	}
	pm := make([][]int64, len(r.PeopleMatrix))
	for i, row := range r.PeopleMatrix {
		pm[i] = row
	}
	return T("bdout", Strs("people", people), T("ticksize", I64(int64(ts))), T("sampling", I(sampling)),
		T("granularity", I(granularity)), T("global", B(len(r.GlobalHistory) > 0), I64(code(r.GlobalHistory))),
		T("phcodes", codes...), T("pm", matSx(pm)), T("files", I(len(r.FileHistories)+len(r.FileOwnership))),
		T("align", append([]Sx{alignSx(r.GlobalHistory)}, aligns...)...))
}

// ---------------------------------------------------------------------------------------------
// observation

func tableSx(tag string, tab []leaves.VerifC18MergedIndex, merged []string) Sx {
	sort.Slice(tab, func(i, j int) bool { return tab[i].Key < tab[j].Key })
	es := make([]Sx, len(tab))
	for i, e := range tab {
		es[i] = L(S(e.Key), I(e.Final), I(e.First), I(e.Second))
	}
	return T(tag, T("entries", es...), Strs("merged", merged))
}

func idTable(rd1, rd2 []string) Sx {
	tab, merged := leaves.VerifC18MergeIdentities(rd1, rd2)
	return tableSx("idtab", tab, merged)
}

type input struct {
	an     string // devs | couples | burndown | common
	fam    string // "" or the scale family (sc-ids, sc-big): tells the driver to use the fast oracles
	stream string // "" or the round-4 stream (r4-time, r4-names): recorded only
	c1, c2 Common
	dv     [2]Devs
	cp     [2]Couples
	bd     [2]Burndown
	// chained merges (chain.go): the shape and the three or four operands with their summaries
	chain string
	cs    []Common
	dvs   []Devs
	cps   []Couples
	bds   []Burndown
}

func (in input) fields() []Sx {
	if in.chain != "" {
		var cs, rs []Sx
		for _, c := range in.cs {
			cs = append(cs, c.sx("c"))
		}
		for _, d := range in.dvs {
			rs = append(rs, d.sx())
		}
		for _, d := range in.cps {
			rs = append(rs, d.sx())
		}
		for _, d := range in.bds {
			rs = append(rs, d.sx())
		}
		return []Sx{T("an", A(in.an)), T("chain", A(in.chain)), T("cs", cs...), T("rs", rs...)}
	}
	fs := []Sx{T("an", A(in.an)), in.c1.sx("c1"), in.c2.sx("c2")}
	if in.fam != "" {
		fs = append(fs, T("fam", A(in.fam)))
	}
	if in.stream != "" {
		fs = append(fs, T("stream", A(in.stream)))
	}
	switch in.an {
	case "devs":
		fs = append(fs, T("r1", in.dv[0].sx()), T("r2", in.dv[1].sx()))
	case "couples":
		fs = append(fs, T("r1", in.cp[0].sx()), T("r2", in.cp[1].sx()))
	case "burndown":
		fs = append(fs, T("r1", in.bd[0].sx()), T("r2", in.bd[1].sx()))
	}
	return fs
}

func parseInput(cs Sx) input {
	in := input{an: must(cs, "an").Args()[0].Atom}
	if f, ok := cs.Field("chain"); ok {
		in.chain = f.Args()[0].Atom
		for _, c := range must(cs, "cs").Args() {
			in.cs = append(in.cs, parseCommon(c))
		}
		for _, r := range must(cs, "rs").Args() {
			switch in.an {
			case "devs":
				in.dvs = append(in.dvs, parseDevs(r))
			case "couples":
				in.cps = append(in.cps, parseCouples(r))
			case "burndown":
				in.bds = append(in.bds, parseBurndown(r))
			}
		}
		return in
	}
	in.c1 = parseCommon(must(cs, "c1"))
	in.c2 = parseCommon(must(cs, "c2"))
	if f, ok := cs.Field("fam"); ok && len(f.Args()) == 1 {
		in.fam = f.Args()[0].Atom
	}
	if f, ok := cs.Field("stream"); ok && len(f.Args()) == 1 {
		in.stream = f.Args()[0].Atom
	}
	switch in.an {
	case "devs":
		in.dv[0] = parseDevs(must(cs, "r1").Args()[0])
		in.dv[1] = parseDevs(must(cs, "r2").Args()[0])
	case "couples":
		in.cp[0] = parseCouples(must(cs, "r1").Args()[0])
		in.cp[1] = parseCouples(must(cs, "r2").Args()[0])
	case "burndown":
		in.bd[0] = parseBurndown(must(cs, "r1").Args()[0])
		in.bd[1] = parseBurndown(must(cs, "r2").Args()[0])
	}
	return in
}

func (in input) people() ([]string, []string) {
	switch in.an {
	case "devs":
		return in.dv[0].People, in.dv[1].People
	case "couples":
		return in.cp[0].People, in.cp[1].People
	case "burndown":
		return in.bd[0].People, in.bd[1].People
	}
	return nil, nil
}

// observe runs the real code on one input (in this process).
func observe(in input) []Sx {
	if in.chain != "" {
		return observeChain(in)
	}
	if in.an == "common" {
		c1, c2 := in.c1.build(), in.c2.build()
		_, p := Catch(func() { c1.Merge(c2) })
		if p {
			return []Sx{T("out", T("panic"))}
		}
		return []Sx{T("out", T("ok", commonOut(c1)))}
	}
	rd1, rd2 := in.people()
	obs := []Sx{idTable(rd1, rd2)}
	var res interface{}
	c1, c2 := in.c1.build(), in.c2.build()
	baseline := runtime.NumGoroutine()
	_, p := Catch(func() {
		switch in.an {
		case "devs":
			res = (&leaves.DevsAnalysis{}).MergeResults(in.dv[0].build(), in.dv[1].build(), c1, c2)
		case "couples":
			res = (&leaves.CouplesAnalysis{}).MergeResults(in.cp[0].build(), in.cp[1].build(), c1, c2)
		case "burndown":
			res = (&leaves.BurndownAnalysis{}).MergeResults(in.bd[0].build(), in.bd[1].build(), c1, c2)
		}
	})
	if p {
		return append(obs, T("out", T("panic")))
	}
	// BurndownAnalysis.MergeResults works in goroutines whose deferred wg.Done() also runs while they are
	// panicking: the call can return although the process is about to die.  A panicking goroutine never
	// finishes, so wait until all workers are gone before the result is trusted.
	for deadline := time.Now().Add(10 * time.Second); runtime.NumGoroutine() > baseline; {
		if time.Now().After(deadline) {
			panic("worker goroutines of MergeResults did not finish")
		}
		time.Sleep(20 * time.Microsecond)
	}
	switch r := res.(type) {
	case error:
		_ = r
		obs = append(obs, T("out", T("tickerr")))
	case leaves.DevsResult:
		obs = append(obs, T("out", T("ok", devsOut(r))))
	case leaves.CouplesResult:
		ftab, fmerged := leaves.VerifC18MergeLiteral(in.cp[0].Files, in.cp[1].Files)
		obs = append(obs, tableSx("filetab", ftab, fmerged), T("out", T("ok", couplesOut(r))))
	case leaves.BurndownResult:
		obs = append(obs, T("out", T("ok", burndownOut(r))))
	default:
		panic(fmt.Sprintf("unexpected result type %T", res))
	}
	return obs
}

var isChild bool
var only string

// Burndown cases are evaluated in a child process: BurndownAnalysis.MergeResults does its work in goroutines,
// and a panic in a goroutine cannot be recovered by the caller - it kills the process.  The child handles a
// batch of cases and prints one result line per case; when it dies, the case it was working on is recorded as
// a panic of the implementation and a new child continues with the rest.
func childMain(path string, from int) {
	f, err := os.Open(path)
	if err != nil {
		fmt.Fprintln(os.Stderr, err)
		os.Exit(2)
	}
	defer f.Close()
	rd := bufio.NewReaderSize(f, 1<<20)
	out := bufio.NewWriter(os.Stdout)
	for i := 0; ; i++ {
		line, err := rd.ReadString('\n')
		if len(line) == 0 && err != nil {
			break
		}
		if i < from {
			continue // handled by an earlier child
		}
		cs, perr := ParseSx(strings.TrimSpace(line))
		if perr != nil {
			fmt.Fprintln(os.Stderr, "bad batch line:", perr)
			os.Exit(2)
		}
		i := i
		// a chained case reports every call before and after it is made: when a call kills the process the parent
		// still knows which call it was and what its operands were
		chainProgress = func(x Sx) {
			fmt.Fprintf(out, "PART %d %s\n", i, x.String())
			out.Flush()
		}
		obs := observe(parseInput(cs))
		fmt.Fprintf(out, "RES %d %s\n", i, T("obs", obs...).String())
		out.Flush()
	}
}

func runBatch(ins []input) [][]Sx {
	res := make([][]Sx, len(ins))
	// the batch is written once; a child that replaces a dead one skips the lines already handled
	tmp, err := os.CreateTemp("", "c18-batch-*.txt")
	if err != nil {
		panic(err)
	}
	w := bufio.NewWriter(tmp)
	for k := range ins {
		l := append([]Sx{A("case"), I(k)}, ins[k].fields()...)
		w.WriteString(Sx{List: l, IsL: true}.String())
		w.WriteByte('\n')
	}
	w.Flush()
	tmp.Close()
	defer os.Remove(tmp.Name())
	start := 0
	for start < len(ins) {
		cmd := exec.Command(os.Args[0], "-child", "-from", strconv.Itoa(start), "-replay", tmp.Name(), "-out", os.DevNull)
		var stderr, stdout bytes.Buffer
		cmd.Stderr = &stderr
		cmd.Stdout = &stdout
		runErr := cmd.Run()
		done := 0
		var parts []Sx // the progress lines of the case the child is working on
		for _, line := range strings.Split(stdout.String(), "\n") {
			if strings.HasPrefix(line, "PART ") {
				ps := strings.SplitN(line, " ", 3)
				if k, err := strconv.Atoi(ps[1]); err == nil && k == start+done && len(ps) == 3 {
					if sx, err := ParseSx(ps[2]); err == nil {
						parts = append(parts, sx)
					}
				}
				continue
			}
			if !strings.HasPrefix(line, "RES ") {
				continue
			}
			parts = nil
			ps := strings.SplitN(line, " ", 3)
			if len(ps) < 3 {
				break
			}
			sx, err := ParseSx(ps[2])
			if err != nil {
				break // a line cut short by the crash
			}
			res[start+done] = sx.Args()
			done++
		}
		if runErr == nil {
			if start+done != len(ins) {
				fmt.Fprintln(os.Stderr, "child returned too few results")
				os.Exit(2)
			}
			break
		}
		msg := stderr.String()
		if !(strings.Contains(msg, "panic:") || strings.Contains(msg, "fatal error:")) || start+done >= len(ins) {
			fmt.Fprintln(os.Stderr, "child failed:", runErr, msg)
			os.Exit(2)
		}
		if ins[start+done].chain != "" {
			res[start+done] = crashedChain(parts)
		} else {
			rd1, rd2 := ins[start+done].people()
			res[start+done] = []Sx{idTable(rd1, rd2), T("out", T("panic"))}
		}
		start += done + 1
	}
	return res
}

type pendingCase struct {
	kind string
	in   input
}

var pending []pendingCase

func flushPending(c *Config) {
	var batch []input
	for _, p := range pending {
		if p.in.an == "burndown" {
			batch = append(batch, p.in)
		}
	}
	var batchRes [][]Sx
	if len(batch) > 0 {
		batchRes = runBatch(batch)
	}
	bi := 0
	for _, p := range pending {
		var obs []Sx
		if p.in.an == "burndown" {
			obs = batchRes[bi]
			bi++
		} else {
			obs = observe(p.in)
		}
		fs := []Sx{T("kind", A(p.kind)), T("nt", B(nonTrivial(p.in)))}
		fs = append(fs, p.in.fields()...)
		fs = append(fs, T("obs", obs...))
		c.Emit(fs...)
	}
	pending = pending[:0]
}

func nonTrivial(in input) bool {
	if in.chain != "" {
		return true
	}
	rd1, rd2 := in.people()
	switch in.an {
	case "common":
		return true
	case "devs":
		return len(rd1) > 0 && len(rd2) > 0 && len(in.dv[0].Ticks) > 0 && len(in.dv[1].Ticks) > 0
	case "couples":
		return len(rd1) > 0 && len(rd2) > 0 && len(in.cp[0].Files) > 0 && len(in.cp[1].Files) > 0
	case "burndown":
		return len(rd1) > 0 && len(rd2) > 0
	}
	return false
}

func emit(c *Config, kind string, in input) {
	pending = append(pending, pendingCase{kind, in})
	if len(pending) >= 4000 {
		flushPending(c)
	}
}

func main() {
	// "-child" must be removed before lib.Setup parses the common flags
	args := []string{os.Args[0]}
	childFrom := 0
	for i := 1; i < len(os.Args); i++ {
		a := os.Args[i]
		if a == "-child" {
			isChild = true
		} else if a == "-from" && i+1 < len(os.Args) {
			childFrom, _ = strconv.Atoi(os.Args[i+1])
			i++
		} else {
			args = append(args, a)
		}
	}
	os.Args = args
	flag.StringVar(&only, "only", "", "restrict the generators to one family (debugging): chain | r4")
	c := Setup()
	defer c.Close()
	if isChild {
		childMain(c.Replay, childFrom)
		return
	}
	if c.Replay != "" {
		for _, cs := range c.ReplayCases() {
			kind := "replay"
			if k, ok := cs.Field("kind"); ok {
				kind = k.Args()[0].Atom
			}
			emit(c, kind, parseInput(cs))
		}
		flushPending(c)
		return
	}
	generate(c)
	flushPending(c)
}
