// Round-4 streams of the C09 harness (content of values, two features at once).
//
//   - picked (R4-6: hibernation distance x octopus merge x one change present on several parents).  View histories with an
//     octopus merge of k = 3..5 arms in which the SAME change - the deletion of the same lines, the deletion of a whole
//     file, the insertion of the very same lines (vLine.also: a cherry-pick) - is made independently on a subset of the
//     arms: on one arm, on all arms but one, on some, on all.  When the merge commit is replayed on each parent, a file
//     then differs from the merge result on SOME parents only - for "all but one" on exactly one parent -, and with a
//     hibernation distance <= k-2 the planner puts the branches replayed first to sleep between their replay of the merge
//     commit and the merge action.  The tail after the merge edits every file again.
//   - oddir (R4-1: byte content of a configured string): Burndown.HibernationDirectory names a directory that exists, is
//     empty and writable, and whose name ends / begins with ASCII or Unicode white space, carries a BOM, invalid UTF-8,
//     upper case, a trailing slash, shell and glob characters ...; with twin the directories that a normalisation of the
//     name (TrimSpace, ToLower, ToValidUTF8, Clean, NFC-like) would lead to exist next to it and must stay empty.
package main

import (
	"fmt"
	"io/ioutil"
	"math/rand"
	"os"
	"path/filepath"
	"strconv"
	"strings"

	. "verifharness/lib"
	"verifharness/synth"
)

// ---------------------------------------------------------------------------------------------
// picked

func (g *viewGen) newCommit(ps []int, dtick int) int {
	v := g.v
	c := v.n()
	v.parents = append(v.parents, append([]int{}, ps...))
	v.anc = nil
	g.tick += dtick
	v.tick = append(v.tick, g.tick)
	v.author = append(v.author, g.rng.Intn(4))
	g.wiped = append(g.wiped, false)
	return c
}

// insertAt puts a run of fresh lines, born in every commit of borns, at a random position of path.
func (g *viewGen) insertAt(path string, borns []int, run int) {
	v := g.v
	pos := g.rng.Intn(len(v.seqs[path]) + 1)
	var ins []*vLine
	for j := 0; j < run; j++ {
		ins = append(ins, &vLine{id: g.nextID, born: borns[0], also: append([]int{}, borns[1:]...)})
		g.nextID++
	}
	s := append([]*vLine{}, v.seqs[path][:pos]...)
	s = append(s, ins...)
	s = append(s, v.seqs[path][pos:]...)
	v.seqs[path] = s
}

func genPicked(rng *rand.Rand) *vHist {
	v := &vHist{seqs: map[string][]*vLine{}, emptyGone: rng.Intn(3) > 0}
	g := &viewGen{rng: rng, v: v}
	m := 2 + rng.Intn(3)
	var base []string
	for i := 1; i <= m; i++ {
		base = append(base, fmt.Sprintf("f%d", i))
	}
	v.paths = append(v.paths, base...)
	root := g.newCommit(nil, 0)
	for _, f := range base {
		g.insertAt(f, []int{root}, 2+rng.Intn(4))
	}
	tip := root
	if rng.Intn(2) == 0 {
		tip = g.newCommit([]int{tip}, rng.Intn(3))
		for _, f := range base {
			if rng.Intn(2) == 0 {
				g.insertAt(f, []int{tip}, 1+rng.Intn(2))
			}
		}
	}
	k := 3 + rng.Intn(3)
	v.note += fmt.Sprintf(" k%d", k)
	// the commits of the arms
	arms := make([][]int, k)
	t0 := g.tick
	maxTick := t0
	for j := range arms {
		g.tick = t0 + rng.Intn(4)
		p := tip
		for n := 1 + rng.Intn(2); n > 0; n-- {
			p = g.newCommit([]int{p}, rng.Intn(3))
			arms[j] = append(arms[j], p)
		}
		if g.tick > maxTick {
			maxTick = g.tick
		}
	}
	// every arm works on a file of its own
	for j, cs := range arms {
		f := fmt.Sprintf("x%d", j+1)
		v.paths = append(v.paths, f)
		for _, c := range cs {
			if rng.Intn(3) > 0 {
				g.insertAt(f, []int{c}, 1+rng.Intn(3))
			}
		}
	}
	// the shared changes: one per base file, made on a subset of the arms
	for _, f := range base {
		var size int
		switch rng.Intn(6) {
		case 0:
			size = 1
		case 1:
			size = k
		case 2:
			size = 2 + rng.Intn(k-2)
		default:
			size = k - 1
		}
		perm := rng.Perm(k)[:size]
		var at []int
		for _, j := range perm {
			at = append(at, arms[j][rng.Intn(len(arms[j]))])
		}
		what := rng.Intn(5) // 0 kill some, 1 insert, 2 both, 3 kill every line (the file goes when emptyGone), 4 replace all
		v.note += fmt.Sprintf(" %s:%d/%d:w%d", f, size, k, what)
		if what == 0 || what == 2 || what == 3 || what == 4 {
			n := 0
			for _, l := range v.seqs[f] {
				if what >= 3 || rng.Intn(2) == 0 || n == 0 {
					l.killers = append(l.killers, at...)
					n++
				}
			}
		}
		if what == 1 || what == 2 || what == 4 {
			g.insertAt(f, at, 1+rng.Intn(3))
		}
	}
	var tips []int
	for _, cs := range arms {
		tips = append(tips, cs[len(cs)-1])
	}
	rng.Shuffle(len(tips), func(i, j int) { tips[i], tips[j] = tips[j], tips[i] })
	g.tick = maxTick
	mc := g.newCommit(tips, rng.Intn(2))
	if rng.Intn(3) == 0 {
		g.insertAt(v.paths[rng.Intn(len(v.paths))], []int{mc}, 1+rng.Intn(2))
	}
	tip = mc
	// the tail edits every file again (a line that kept the pseudo tick of the merge replay is touched)
	for n := 1 + rng.Intn(2); n > 0; n-- {
		tip = g.newCommit([]int{tip}, 1+rng.Intn(2))
		for _, p := range v.paths {
			for _, l := range v.seqs[p] {
				if l.born != tip && v.alive(tip, l) && rng.Intn(2) == 0 {
					l.killers = append(l.killers, tip)
				}
			}
			if rng.Intn(3) > 0 {
				g.insertAt(p, []int{tip}, 1+rng.Intn(2))
			}
		}
	}
	return v
}

func pickedCases(c *Config) {
	np := c.Count(12, 200)
	for i := 0; i < np; i++ {
		var h *synth.Hist
		G := 1 + c.Rng.Intn(2)
		S := 1 + c.Rng.Intn(G)
		tickH := []int{0, 0, 0, 1, 5, 7, 24 * 7, 24 * 30}[c.Rng.Intn(8)]
		for try := 0; ; try++ {
			h = mkView(genPicked(c.Rng))
			if stableT(h, G, S, 30, tickH) || try > 20 {
				break
			}
			delete(viewOf, h)
		}
		for dist := 1; dist <= 3; dist++ {
			for _, thr := range []int{0, 1} {
				for _, disk := range []bool{false, true} {
					emitCase(c, caseIn{"picked", h, G, S, runCfg{dist: dist, thr: thr, disk: disk, fault: "none", wrap: c.Rng.Intn(4) != 0,
						tickHours: tickH}})
				}
			}
		}
	}
}

func stableT(h *synth.Hist, G, S, n, tickH int) bool {
	first := ""
	for i := 0; i < n; i++ {
		ro := doRun(h, G, S, runCfg{tickHours: tickH})
		d := ro.out.kind + ":" + ro.out.digest
		if i > 0 && d != first {
			return false
		}
		first = d
	}
	return true
}

// ---------------------------------------------------------------------------------------------
// oddir

var oddDirNames = []string{
	"scratch ", " scratch", "scratch\t", "scratch\n", "scratch\r\n", "scratch\r", "\tscratch", " ",
	"cache\u00a0", "\u00a0cache", "\u30ad\u30e3\u30c3\u30b7\u30e5\u3000", "line\u2028", "para\u2029", "nel\u0085", "thin\u2009", "nnbsp\u202f",
	"\ufeffbom", "bom\ufeff", "\ufeff",
	"inv\xff", "\xc3", "over\xc0\xaf", "sur\xed\xa0\x80", "real\ufffd", "inv\xff\ufffd",
	"caf\u00e9", "cafe\u0301", "Mixed Case", "UPPER", "\u0130stanbul", "stra\u00dfe",
	"my cache", "two  blanks", "dot.", "...", "-dash", "--", "a\\b", "~", "$HOME", "%20", "%s", "a;b", "a'b", "q\"q", "#x", "a&b",
	"plain/", "plain/.", "plain//", "deep/er/", "sub/../plain",
	strings.Repeat("n", 200),
}

func shownName(n string) string {
	q := strconv.QuoteToASCII(n)
	q = q[1 : len(q)-1]
	r := strings.NewReplacer(" ", `\x20`, "(", `\x28`, ")", `\x29`, `\"`, `\x22`, ";", `\x3b`)
	return r.Replace(q)
}

// twinNames: what a well-meant normalisation would turn the name into.
func twinNames(n string) []string {
	seen := map[string]bool{n: true, "": true}
	var res []string
	add := func(t string) {
		if !seen[t] && !strings.ContainsRune(t, 0) {
			seen[t] = true
			res = append(res, t)
		}
	}
	add(strings.TrimSpace(n))
	add(strings.TrimRight(n, " \t\r\n"))
	add(strings.TrimLeft(n, " \t\r\n"))
	add(strings.Trim(n, "\ufeff"))
	add(strings.ToLower(n))
	add(strings.ToUpper(n))
	add(strings.ToValidUTF8(n, "\ufffd"))
	add(strings.ToValidUTF8(n, ""))
	add(strings.ToValidUTF8(n, "?"))
	add(strings.Join(strings.Fields(n), " "))
	add(strings.Join(strings.Fields(n), ""))
	add(strings.Join(strings.Fields(n), "_"))
	add(strings.Replace(n, "e\u0301", "\u00e9", -1))
	add(strings.Replace(n, "\u00e9", "e\u0301", -1))
	add(strings.Replace(n, "\u00e9", "e", -1))
	add(strings.Replace(n, "\ufffd", "", -1))
	add(strings.TrimRight(n, "."))
	add(strings.TrimLeft(n, "-"))
	add(strings.Replace(n, "\\", "/", -1))
	if strings.HasPrefix(n, "~") || strings.HasPrefix(n, "$") {
		add(n[1:])
	}
	return res
}

func sameDir(a, b string) bool {
	sa, e1 := os.Stat(a)
	sb, e2 := os.Stat(b)
	return e1 == nil && e2 == nil && os.SameFile(sa, sb)
}

// strayFiles counts the regular files directly in the given directories.
func strayFiles(dirs []string) int {
	n := 0
	for _, d := range dirs {
		ents, err := ioutil.ReadDir(d)
		if err != nil {
			continue
		}
		for _, e := range ents {
			if !e.IsDir() {
				n++
			}
		}
	}
	return n
}

func oddDirCases(c *Config) {
	nh := c.Count(2, 30)
	for i := 0; i < nh; i++ {
		var h *synth.Hist
		var G, S int
		// a history in which some branch really reaches the disk at distance 1 and 2
		for try := 0; try < 40; try++ {
			h, G, S = genHist(c, 6+c.Rng.Intn(6))
			if len(sizesSeen(h, G, S, 2)) > 0 {
				break
			}
		}
		for j, name := range oddDirNames {
			dist := 1 + c.Rng.Intn(2)
			twin := (i+j)%2 == 0
			// (every fifth case: the odd directory is the default temp directory - TMPDIR - and no directory is configured)
			emitCase(c, caseIn{"oddir", h, G, S, runCfg{dist: dist, thr: c.Rng.Intn(2), disk: true, fault: "none", wrap: c.Rng.Intn(4) != 0,
				dirName: name, twin: twin, defDir: c.Rng.Intn(5) == 0}})
		}
	}
}

var _ = filepath.Join
