(* C08: the private twin of a copy that was itself created by forks (of forks ...).

   The lineage of copy j is the sequence of operations consumed by its chain of ancestors up to each fork
   and by j itself afterwards.  For a view-determined item every copy is, at every moment, in exactly the
   state of a fresh, never forked instance that started from the root ancestor's state and consumed the
   lineage; and the next Consume on it answers what that instance would answer.  This is literally the
   oracle of the pl stream of harness/cmd/c08 (a fresh TreeDiff/BlobCache/TicksSinceStart replays the
   branch-local history before every comparison). *)
From Coq Require Import ZArith List Bool Lia Arith.
From Herc Require Import Fork.Model Fork.Proofs.
Import ListNotations.
Local Open Scope nat_scope.

Section Lineage.
  Variables (Pv Sh Op Rs : Type).
  Variable step : Op -> Pv -> Sh -> Pv * Sh * Rs.
  Variable V : Type.
  Variable view : Sh -> V.
  Variable okop : Op -> bool.
  Hypothesis det : forall o p s1 s2, view s1 = view s2 ->
    fst (fst (step o p s1)) = fst (fst (step o p s2)) /\ snd (step o p s1) = snd (step o p s2).
  Hypothesis stab : forall o p s, okop o = true -> view (snd (fst (step o p s))) = view s.

  Notation bstate := (bstate Pv Sh).
  Notation step_on := (step_on Pv Sh Op Rs step).
  Notation do_act := (do_act Pv Sh Op Rs step).
  Notation run := (run Pv Sh Op Rs step).
  Notation solo := (solo Pv Sh Op Rs step).

  (* per copy: the index of its root ancestor in the initial state, and its lineage (oldest first) *)
  Definition lstate : Type := list (nat * list Op).

  Fixpoint lupd (i : nat) (o : Op) (l : lstate) : lstate :=
    match l with
    | [] => []
    | (r, ops) :: t => match i with O => (r, ops ++ [o]) :: t | S i' => (r, ops) :: lupd i' o t end
    end.

  Definition lin_act (a : act Op) (l : lstate) : lstate :=
    match a with
    | AStep i o => lupd i o l
    | AFork i n => match nth_error l i with None => l | Some x => l ++ repeat x n end
    end.

  Definition lin_run (acts : list (act Op)) (l : lstate) : lstate := fold_left (fun l a => lin_act a l) acts l.
  Definition lin_init (k : nat) : lstate := map (fun r => (r, [])) (seq 0 k).

  Definition solo_priv (ops : list Op) (p : Pv) (s : Sh) : Pv := fst (fst (solo ops p s)).
  Definition solo_sh (ops : list Op) (p : Pv) (s : Sh) : Sh := snd (fst (solo ops p s)).
  Definition act_ok' (a : act Op) : bool := match a with AStep _ o => okop o | AFork _ _ => true end.

  Lemma solo_nil : forall p s, solo [] p s = (p, s, []).
  Proof. reflexivity. Qed.

  Lemma solo_snoc_priv : forall ops o p s,
    solo_priv (ops ++ [o]) p s = fst (fst (step o (solo_priv ops p s) (solo_sh ops p s))) /\
    solo_sh (ops ++ [o]) p s = snd (fst (step o (solo_priv ops p s) (solo_sh ops p s))).
  Proof.
    unfold solo_priv, solo_sh.
    induction ops as [|x r IH]; intros o p s.
    - cbn. destruct (step o p s) as [[p1 s1] y]. split; reflexivity.
    - cbn [app]. cbn [Model.solo]. destruct (step x p s) as [[p1 s1] y].
      specialize (IH o p1 s1).
      destruct (solo (r ++ [o]) p1 s1) as [[p2 s2] ys]. destruct (solo r p1 s1) as [[p3 s3] zs].
      cbn [fst snd] in *. exact IH.
  Qed.

  Lemma solo_view : forall ops p s, forallb okop ops = true -> view (solo_sh ops p s) = view s.
  Proof.
    unfold solo_sh. induction ops as [|x r IH]; intros p s H; [reflexivity|].
    cbn [forallb] in H. apply andb_true_iff in H as [Hx Hr].
    cbn [Model.solo]. pose proof (stab x p s Hx) as St.
    destruct (step x p s) as [[p1 s1] y]. specialize (IH p1 s1 Hr).
    destruct (solo r p1 s1) as [[p2 s2] ys]. cbn [fst snd] in *. congruence.
  Qed.

  Lemma lupd_length : forall i o l, length (lupd i o l) = length l.
  Proof.
    intros i o l; revert i; induction l as [|[r ops] t IH]; intros [|i]; cbn; try reflexivity. now rewrite IH.
  Qed.

  Lemma lupd_other : forall i j o l, i <> j -> nth_error (lupd i o l) j = nth_error l j.
  Proof.
    intros i j o l; revert i j; induction l as [|[r ops] t IH]; intros [|i] [|j] Hij; cbn; try reflexivity; [congruence|].
    apply IH; congruence.
  Qed.

  Lemma lupd_same : forall i o l r ops, nth_error l i = Some (r, ops) -> nth_error (lupd i o l) i = Some (r, ops ++ [o]).
  Proof.
    intros i o l; revert i; induction l as [|[r0 ops0] t IH]; intros [|i] r ops H; cbn in *; try discriminate.
    - now inversion H.
    - now apply IH.
  Qed.

  Lemma lupd_none : forall i o l, nth_error l i = None -> lupd i o l = l.
  Proof.
    intros i o l; revert i; induction l as [|[r0 ops0] t IH]; intros [|i] H; cbn in *; try reflexivity; try discriminate.
    now rewrite IH.
  Qed.

  (* the invariant that ties the real branches to the lineages *)
  Definition Inv (bs0 : bstate) (s0 : Sh) (cur : bstate) (L : lstate) : Prop :=
    view (shd cur) = view s0 /\
    length L = length (privs cur) /\
    forall j r ops, nth_error L j = Some (r, ops) ->
      forallb okop ops = true /\
      exists p0, nth_error (privs bs0) r = Some p0 /\ nth_error (privs cur) j = Some (solo_priv ops p0 s0).

  Lemma nth_error_lin_init : forall k j x, nth_error (lin_init k) j = Some x -> x = (j, []) /\ j < k.
  Proof.
    intros k j x H. unfold lin_init in H. rewrite nth_error_map in H.
    destruct (nth_error (seq 0 k) j) as [r|] eqn:E; [|discriminate]. cbn in H. inversion H. subst x.
    assert (Hj : j < k). { rewrite <- (seq_length k 0). apply nth_error_Some. congruence. }
    rewrite (nth_error_nth' _ 0) in E by now rewrite seq_length.
    rewrite seq_nth in E by exact Hj. cbn in E. injection E as E1. subst r. split; [reflexivity|exact Hj].
  Qed.

  Lemma inv_init : forall bs s0, view s0 = view (shd bs) -> Inv bs s0 bs (lin_init (length (privs bs))).
  Proof.
    intros bs s0 Hv. split; [now symmetry|]. split.
    - unfold lin_init. now rewrite map_length, seq_length.
    - intros j r ops H. apply nth_error_lin_init in H as [E Hj]. inversion E. subst r ops.
      split; [reflexivity|].
      destruct (nth_error (privs bs) j) as [p|] eqn:Ep.
      + exists p. split; [reflexivity|]. reflexivity.
      + exfalso. apply nth_error_None in Ep. lia.
  Qed.

  Lemma inv_step : forall bs0 s0 cur L a, Inv bs0 s0 cur L -> act_ok' a = true ->
    Inv bs0 s0 (fst (do_act a cur)) (lin_act a L).
  Proof.
    intros bs0 s0 cur L a (Hv & Hl & Hj) Hok. destruct a as [i o|i n]; cbn [Model.do_act lin_act act_ok' fst] in *.
    - destruct (nth_error (privs cur) i) as [p|] eqn:Ei.
      + destruct (step_on_self _ _ _ _ step i o cur p Ei) as (Sp & Ss & _).
        assert (Hli : exists r ops, nth_error L i = Some (r, ops)).
        { destruct (nth_error L i) as [[r ops]|] eqn:E; [eauto|]. apply nth_error_None in E.
          assert (i < length (privs cur)) by (apply nth_error_Some; congruence). lia. }
        destruct Hli as (r & ops & Eli).
        destruct (Hj i r ops Eli) as (Oops & p0 & Hp0 & Hpi).
        assert (Ep : p = solo_priv ops p0 s0) by congruence.
        split; [rewrite Ss, (stab o p (shd cur) Hok); exact Hv|].
        split; [rewrite lupd_length, (step_on_length _ _ _ _ step); exact Hl|].
        intros j r' ops' H'.
        destruct (Nat.eq_dec i j) as [E|N].
        * subst j. rewrite (lupd_same i o L r ops Eli) in H'. inversion H'. subst r' ops'.
          split; [rewrite forallb_app; cbn; now rewrite Oops, Hok|].
          exists p0. split; [exact Hp0|]. rewrite Sp. f_equal.
          destruct (solo_snoc_priv ops o p0 s0) as [Q _]. rewrite Q. rewrite <- Ep.
          apply (det o p (shd cur) (solo_sh ops p0 s0)).
          rewrite Hv. symmetry. now apply solo_view.
        * rewrite (lupd_other i j o L N) in H'. destruct (Hj j r' ops' H') as (O' & p0' & A & B).
          split; [exact O'|]. exists p0'. split; [exact A|].
          now rewrite (step_on_frame _ _ _ _ step i j o cur N).
      + rewrite (step_on_missing _ _ _ _ step i o cur Ei). cbn [fst].
        assert (nth_error L i = None). { apply nth_error_None. apply nth_error_None in Ei. lia. }
        rewrite (lupd_none i o L H). split; [exact Hv|]. split; [exact Hl|exact Hj].
    - unfold Model.fork. destruct (nth_error (privs cur) i) as [p|] eqn:Ei.
      + assert (Hli : exists r ops, nth_error L i = Some (r, ops)).
        { destruct (nth_error L i) as [[r ops]|] eqn:E; [eauto|]. apply nth_error_None in E.
          assert (i < length (privs cur)) by (apply nth_error_Some; congruence). lia. }
        destruct Hli as (r & ops & Eli). rewrite Eli. unfold Inv. cbn [shd privs].
        split; [exact Hv|]. split; [rewrite !app_length, !repeat_length; lia|].
        intros j r' ops' H'.
        destruct (lt_dec j (length L)) as [Lt|Ge].
        * rewrite nth_error_app1 in H' by exact Lt. destruct (Hj j r' ops' H') as (O' & p0' & A & B).
          split; [exact O'|]. exists p0'. split; [exact A|]. rewrite nth_error_app1 by lia. exact B.
        * rewrite nth_error_app2 in H' by lia.
          assert (E' : (r', ops') = (r, ops)).
          { apply nth_error_In in H'. now apply repeat_spec in H'. }
          inversion E'. subst r' ops'.
          destruct (Hj i r ops Eli) as (O' & p0 & A & B).
          split; [exact O'|]. exists p0. split; [exact A|].
          rewrite nth_error_app2 by lia.
          assert (Hk : j - length (privs cur) < n).
          { assert (j - length L < length (repeat (r, ops) n)) by (apply nth_error_Some; congruence).
            rewrite repeat_length in H. lia. }
          assert (Rp : forall (x : Pv) m k, k < m -> nth_error (repeat x m) k = Some x).
          { intros x m; induction m as [|m IH]; intros [|k] Hk'; cbn; try lia; [reflexivity|]. apply IH. lia. }
          rewrite (Rp p n _ Hk). congruence.
      + assert (nth_error L i = None). { apply nth_error_None. apply nth_error_None in Ei. lia. }
        rewrite H. split; [exact Hv|]. split; [exact Hl|exact Hj].
  Qed.

  Lemma run_fst_cons : forall a r bs, fst (run (a :: r) bs) = fst (run r (fst (do_act a bs))).
  Proof. intros. rewrite (run_cons _ _ _ _ step). reflexivity. Qed.

  Lemma inv_run : forall acts bs0 s0 cur L, Inv bs0 s0 cur L -> forallb act_ok' acts = true ->
    Inv bs0 s0 (fst (run acts cur)) (lin_run acts L).
  Proof.
    induction acts as [|a r IH]; intros bs0 s0 cur L HI Hok; [exact HI|].
    cbn [forallb] in Hok. apply andb_true_iff in Hok as [Ha Hr].
    rewrite run_fst_cons. unfold lin_run. cbn [fold_left]. apply IH; [|exact Hr].
    now apply inv_step.
  Qed.

  (* every copy, however it was forked, is in the state of a private instance that consumed its lineage,
     and its next Consume answers what that instance would answer *)
  Theorem lineage_twin : forall acts bs s0 j r ops,
    view s0 = view (shd bs) ->
    forallb act_ok' acts = true ->
    nth_error (lin_run acts (lin_init (length (privs bs)))) j = Some (r, ops) ->
    exists p0, nth_error (privs bs) r = Some p0 /\
      nth_error (privs (fst (run acts bs))) j = Some (solo_priv ops p0 s0) /\
      forall o, snd (step_on j o (fst (run acts bs))) = Some (snd (step o (solo_priv ops p0 s0) (solo_sh ops p0 s0))).
  Proof.
    intros acts bs s0 j r ops Hv Hok HL.
    destruct (inv_run acts bs s0 bs _ (inv_init bs s0 Hv) Hok) as (Iv & Il & Ij).
    destruct (Ij j r ops HL) as (Oops & p0 & A & B).
    exists p0. split; [exact A|]. split; [exact B|].
    intros o. destruct (step_on_self _ _ _ _ step j o _ _ B) as (_ & _ & So). rewrite So. f_equal.
    apply (det o (solo_priv ops p0 s0) (shd (fst (run acts bs))) (solo_sh ops p0 s0)).
    rewrite Iv. symmetry. now apply solo_view.
  Qed.
End Lineage.
