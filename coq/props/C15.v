(* C15 - topological sort (internal/toposort/toposort.go).
   Only statements, each closed by [exact], their assumptions, and non-vacuity examples.
   All theorems are about Herc.Toposort.Model - the executable model that ./check replays the Go
   implementation against.  Vocabulary (Herc.Toposort.Paths / Reach):
     has_edge s a b = true      a -> b is an edge of the state (Model.v)
     node_list s                the nodes, in insertion order
     spath s a b                non-empty path a ->+ b;   acyclic s := forall n, ~ spath s n n
     is_walk s l                consecutive elements of l are edges
     before a b L               L = L1 ++ a :: L2 ++ b :: L3
     wfb s                      the executable domain predicate (Model.v), also evaluated by the driver
     valid_ops s ops            every operation meets its precondition: AddNode n with n not [nobody]
                                (true of every name: names are ranks >= 0), AddEdge a b with b a node and a->b not yet an edge, RemoveEdge a b
                                of an existing edge; everything else unrestricted
     dirty D ops                nodes that lost an edge and were not re-indexed since
     nobody                     -1: FindCycle's "no parent" mark (the root flag of the Go code since fix F26), the rank of no name *)
From Coq Require Import List ZArith Permutation Bool.
From Herc Require Import Toposort.Model Toposort.Paths Toposort.Refine Toposort.Reach Toposort.Cycle Toposort.Main.
From Herc Require Toposort.Kahn Toposort.KahnProofs.
Import ListNotations.
Open Scope Z_scope.

(* ---- 1. Toposort on every state of the domain: never panics / runs out of fuel, and computes exactly
        the abstract Kahn algorithm on the abstraction (children in rank order) ---- *)
Theorem C15_refines_kahn : forall s, wfb s = true ->
  snd (toposort s) = SortOk (fst (Kahn.toposort (abs s))) (snd (Kahn.toposort (abs s))).
Proof. exact toposort_refines. Qed.
Print Assumptions C15_refines_kahn.

Theorem C15_sound : forall s, wfb s = true -> forall L, snd (toposort s) = SortOk L true ->
  Permutation L (map fst (outs s)) /\ (forall a b, has_edge s a b = true -> before a b L).
Proof. exact state_sort_sound. Qed.
Print Assumptions C15_sound.

Theorem C15_complete : forall s, wfb s = true -> acyclic s -> exists L, snd (toposort s) = SortOk L true.
Proof. exact state_sort_complete. Qed.
Print Assumptions C15_complete.

Theorem C15_cyclic : forall s, wfb s = true -> ~ acyclic s -> exists L, snd (toposort s) = SortOk L false.
Proof. exact state_sort_cyclic. Qed.
Print Assumptions C15_cyclic.

Theorem C15_success_iff_acyclic : forall s, wfb s = true ->
  ((exists L, snd (toposort s) = SortOk L true) <-> acyclic s).
Proof. exact sort_success_iff_acyclic. Qed.
Print Assumptions C15_success_iff_acyclic.

(* ---- 2. the domain is exactly what valid operation sequences reach ---- *)
Theorem C15_domain_step : forall D s o, WFd D s -> op_ok s o = true -> WFd (dirty_step D o) (fst (step s o)).
Proof. exact step_inv. Qed.
Print Assumptions C15_domain_step.

Theorem C15_domain_wfb : forall s, wfb s = true <-> WFd [] s.
Proof. exact wfb_spec. Qed.
Print Assumptions C15_domain_wfb.

Theorem C15_domain_reached : forall ops,
  valid_ops empty ops = true -> dirty [] ops = [] -> wfb (fst (run empty ops)) = true.
Proof. exact reach_wfb. Qed.
Print Assumptions C15_domain_reached.

Theorem C15_domain_at_sort : forall ops1 ops2,
  valid_ops empty (ops1 ++ OSort :: ops2) = true -> dirty [] ops1 = [] -> wfb (fst (run empty ops1)) = true.
Proof. exact reach_wfb_at_sort. Qed.
Print Assumptions C15_domain_at_sort.

Theorem C15_remove_then_reindex : forall s a b, wfb s = true -> has_edge s a b = true ->
  wfb (reindex (fst (remove_edge s a b)) a) = true.
Proof. exact wfb_remove_reindex. Qed.
Print Assumptions C15_remove_then_reindex.

(* ---- the property over all valid operation sequences (the observation the harness records) ---- *)
Theorem C15_run_sort : forall ops, valid_ops empty ops = true -> dirty [] ops = [] ->
  forall s, s = fst (run empty ops) ->
  exists L ok, snd (step s OSort) = RSort (SortOk L ok) /\
    (ok = true <-> acyclic s) /\
    (ok = true -> Permutation L (node_list s) /\ forall a b, has_edge s a b = true -> before a b L).
Proof. exact run_sort_correct. Qed.
Print Assumptions C15_run_sort.

(* ---- 3. FindCycle, for every iteration order [ord] of Go's maps ---- *)
Theorem C15_cycle_real : forall (ord : Z -> list Z -> list Z), (forall n l, Permutation (ord n l) l) ->
  forall s seed, is_node s nobody = false ->
  find_cycle ord s seed <> [] -> cycle_ok s seed (find_cycle ord s seed) = true.
Proof. exact find_cycle_real_perm. Qed.
Print Assumptions C15_cycle_real.

Theorem C15_cycle_ok_spec : forall s seed c,
  cycle_ok s seed c = true <-> exists r, c = seed :: r /\ is_walk s (seed :: r ++ [seed]).
Proof. exact cycle_ok_spec. Qed.
Print Assumptions C15_cycle_ok_spec.

Theorem C15_cycle_found : forall ord, (forall n l, Permutation (ord n l) l) ->
  forall s seed, is_node s nobody = false -> spath s seed seed -> find_cycle ord s seed <> [].
Proof. exact find_cycle_found. Qed.
Print Assumptions C15_cycle_found.

Theorem C15_cycle_emptiness_any_order : forall ord, (forall n l, Permutation (ord n l) l) ->
  forall s seed, is_node s nobody = false ->
  (find_cycle ord s seed = [] <-> find_cycle id_ord s seed = []).
Proof. exact cycle_emptiness_any_order. Qed.
Print Assumptions C15_cycle_emptiness_any_order.

Theorem C15_run_cycle : forall ops, valid_ops empty ops = true ->
  forall s, s = fst (run empty ops) ->
  forall ord, (forall n l, Permutation (ord n l) l) -> forall seed,
    (find_cycle ord s seed <> [] <-> spath s seed seed) /\
    (find_cycle ord s seed <> [] ->
       cycle_ok s seed (find_cycle ord s seed) = true /\
       exists r, find_cycle ord s seed = seed :: r /\ is_walk s (seed :: r ++ [seed])).
Proof. exact run_cycle_correct. Qed.
Print Assumptions C15_run_cycle.

Theorem C15_cyclic_reported_and_found : forall s, wfb s = true -> is_node s nobody = false ->
  forall seed, spath s seed seed ->
  (exists L, snd (toposort s) = SortOk L false) /\
  forall ord, (forall n l, Permutation (ord n l) l) ->
    exists r, find_cycle ord s seed = seed :: r /\ is_walk s (seed :: r ++ [seed]).
Proof. exact cyclic_reported_and_found. Qed.
Print Assumptions C15_cyclic_reported_and_found.

(* ---- 4. determinism: the model is a function of the operation sequence, and the order returned by a
        sort is a function of the abstract graph (node insertion order + children in rank order) alone.
        That the Go code - which iterates over maps - computes this function is what the correspondence
        check tests (5 runs on fresh copies per Sort must all give the model's answer). ---- *)
Theorem C15_deterministic : forall ops1 ops2, ops1 = ops2 -> run empty ops1 = run empty ops2.
Proof. exact run_deterministic. Qed.
Print Assumptions C15_deterministic.

Theorem C15_sort_depends_on_abs : forall s1 s2, wfb s1 = true -> wfb s2 = true -> abs s1 = abs s2 ->
  snd (toposort s1) = snd (toposort s2).
Proof. exact sort_depends_on_abs. Qed.
Print Assumptions C15_sort_depends_on_abs.

(* ---- non-vacuity: the hypotheses hold on concrete non-trivial operation sequences ---- *)
(* a DAG with a removal followed by re-indexing: 1->2 (removed), 1->3, 3->2, 1->4, then 4->2 *)
Definition ex_dag : list op :=
  [OAddNode 2; OAddNode 1; OAddNode 3; OAddNode 4; OAddEdge 1 2; OAddEdge 1 3; OAddEdge 3 2; OAddEdge 1 4;
   ORemoveEdge 1 2; OReindex 1; OAddEdge 4 2].
(* a cycle 1->2->3->1 with a tail 3->4 *)
Definition ex_cyc : list op :=
  [OAddNode 1; OAddNode 2; OAddNode 3; OAddNode 4; OAddEdge 1 2; OAddEdge 2 3; OAddEdge 3 1; OAddEdge 3 4].

Example ex_dag_in_domain :
  valid_ops empty ex_dag = true /\ dirty [] ex_dag = [] /\ wfb (fst (run empty ex_dag)) = true /\
  snd (toposort (fst (run empty ex_dag))) = SortOk [1; 3; 4; 2] true.
Proof. vm_compute. repeat split. Qed.

Example ex_dag_acyclic : acyclic (fst (run empty ex_dag)).
Proof.
  apply (C15_success_iff_acyclic (fst (run empty ex_dag))); [vm_compute; reflexivity|].
  exists [1; 3; 4; 2]. vm_compute. reflexivity.
Qed.

Example ex_dirty_outside_domain :
  valid_ops empty (firstn 9 ex_dag) = true /\ dirty [] (firstn 9 ex_dag) = [1] /\
  wfb (fst (run empty (firstn 9 ex_dag))) = false.
Proof. vm_compute. repeat split. Qed.

Example ex_cyc_in_domain :
  valid_ops empty ex_cyc = true /\ dirty [] ex_cyc = [] /\ wfb (fst (run empty ex_cyc)) = true /\
  is_node (fst (run empty ex_cyc)) nobody = false /\
  snd (toposort (fst (run empty ex_cyc))) = SortOk [] false /\
  find_cycle id_ord (fst (run empty ex_cyc)) 2 = [2; 3; 1] /\
  find_cycle (fun _ l => rev l) (fst (run empty ex_cyc)) 2 = [2; 3; 1] /\
  find_cycle id_ord (fst (run empty ex_cyc)) 4 = [].
Proof. vm_compute. repeat split. Qed.

Example ex_cyc_cyclic : ~ acyclic (fst (run empty ex_cyc)).
Proof.
  intros H. apply (H 1). apply (spath_cons _ 1 2 1); [reflexivity|].
  apply (spath_cons _ 2 3 1); [reflexivity|]. apply spath_one. reflexivity.
Qed.

(* ==== all byte-string names (after fix F26) ====
   The harness gives the Go code arbitrary distinct byte strings, the empty one included, and the model runs
   on the rank of each name (>= 0); FindCycle's "no parent" mark is -1 in the model, the [root] flag in the Go
   code.  For operation sequences that name nodes by ranks the hypothesis "the mark is not a node" of the
   FindCycle theorems above is PROVED, so nothing is assumed about names any more (Toposort/Names.v). *)
From Herc Require Toposort.Names.

Theorem C15_all_names_mark_never_a_node : forall ops,
  Names.ranked ops = true -> Names.valid_graph_ops empty ops = true ->
  is_node (fst (run empty ops)) nobody = false.
Proof. exact Names.ranked_nobody. Qed.
Print Assumptions C15_all_names_mark_never_a_node.

Theorem C15_all_names_cycle : forall ops,
  Names.ranked ops = true -> Names.valid_graph_ops empty ops = true ->
  forall s, s = fst (run empty ops) ->
  forall ord, (forall n l, Permutation (ord n l) l) -> forall seed,
    (find_cycle ord s seed <> [] <-> spath s seed seed) /\
    (find_cycle ord s seed <> [] ->
       cycle_ok s seed (find_cycle ord s seed) = true /\
       exists r, find_cycle ord s seed = seed :: r /\ is_walk s (seed :: r ++ [seed])).
Proof. exact Names.ranked_cycle_correct. Qed.
Print Assumptions C15_all_names_cycle.

Theorem C15_all_names_sort : forall ops,
  Names.ranked ops = true -> Names.valid_graph_ops empty ops = true -> dirty [] ops = [] ->
  forall s, s = fst (run empty ops) ->
  exists L ok, snd (step s OSort) = RSort (SortOk L ok) /\
    (ok = true <-> acyclic s) /\
    (ok = true -> Permutation L (node_list s) /\ forall a b, has_edge s a b = true -> before a b L).
Proof. exact Names.ranked_sort_correct. Qed.
Print Assumptions C15_all_names_sort.

(* non-vacuity: the witness of finding F26 (rank 0 = the empty name, rank 1 = "s"; s -> "" -> s) *)
Example ex_f26_witness :
  Names.ranked Names.f26_witness = true /\ Names.valid_graph_ops empty Names.f26_witness = true /\
  find_cycle id_ord (fst (run empty Names.f26_witness)) 1 = [1; 0] /\
  find_cycle id_ord (fst (run empty Names.f26_witness)) 0 = [0; 1].
Proof. exact Names.f26_witness_in_domain. Qed.
