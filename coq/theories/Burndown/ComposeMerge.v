(* Composition of C01 with C07: the merge rule that Burndown/Analysis.v assumes of File.Merge
   ([merge_lines] / [merge_others] / [resolve_marks] on arrays) is realised by the C07 model of
   internal/burndown/file.go File.Merge (FileMerge/Model.v: [merge_one], [stamp_pass], [rebuild] on node lists).

   [tr_file_merge] is File.Merge on REAL tracker states (node lists) with the Updater calls fed to the
   updaters of BurndownAnalysis; [tr_file_merge_agree] says it agrees with [Analysis.file_merge] on the
   flattened copies: same lines, the same shared histories, failure on one side iff failure on the other, and
   the rebuilt tree is a well-formed C03 tracker state again.  Side conditions: every value and the merge tick
   are uint32 values, the file has fewer than 2^32 lines (both are part of [tf_ok] / the C03 invariant).

   The notions defined twice are proved equal: the two [flatten]s (C03's and C07's) on well-formed states, the
   mark test, the per-line loop body, the stamping pass.  [file_merge_is_C07_rule] restates C01's merge on
   arrays with C07's declarative per-line rule ([spec_lines]: the first copy with the minimal real tick). *)
From Coq Require Import List ZArith Lia Bool.
From Herc Require Import Burndown.Base Burndown.Dense Burndown.Analysis Burndown.ComposeFile.
From Herc Require FileMerge.Model FileMerge.LineProofs FileMerge.RebuildProofs.
Import ListNotations.
Open Scope Z_scope.

Module MM := Herc.FileMerge.Model.
Module ML := Herc.FileMerge.LineProofs.
Module MR := Herc.FileMerge.RebuildProofs.

(* ---------- the same notion defined twice ---------- *)
Lemma mark_eq v : MM.mark v = is_mark v.
Proof. reflexivity. Qed.

Lemma step_eq l ol :
  MM.step l ol = if is_mark ol then l else if is_mark l || (Z.land ol mark <? Z.land l mark) then ol else l.
Proof. unfold MM.step. rewrite Z.gtb_ltb. reflexivity. Qed.

Lemma merge_one_eq : forall myself other, MM.merge_one myself other = merge_lines myself other.
Proof.
  induction myself as [|l m IH]; intros [|ol o]; cbn [MM.merge_one merge_lines]; try reflexivity.
  rewrite step_eq, IH. reflexivity.
Qed.

(* the first loop of File.Merge over all the other copies *)
Lemma merge_others_eq : forall others myself,
  MM.merge_others myself (map Some others) =
  match merge_others myself others with
  | Ok m => MM.Ok m
  | _ => MM.Panic MM.PanicLength
  end.
Proof.
  induction others as [|o r IH]; intros myself; cbn [map MM.merge_others merge_others]; [reflexivity|].
  destruct (Nat.eqb (length myself) (length o)); cbn [negb]; [|reflexivity].
  rewrite merge_one_eq. apply IH.
Qed.

Lemma merge_others_not_err : forall others myself c, merge_others myself others <> Err c.
Proof.
  induction others as [|o r IH]; intros myself c; cbn [merge_others]; [discriminate|].
  destruct (negb (Nat.eqb (length myself) (length o))); [discriminate|apply IH].
Qed.

(* the second loop: the stamped lines and the Updater calls *)
Lemma resolve_marks_stamp cf hd day : forall vals s,
  resolve_marks cf hd day vals s =
  match feed cf hd s (if is_mark day then [] else repeat (day, day, 1) (length (filter is_mark vals))) with
  | Ok s' => Ok (map (ML.stamp day) vals, s')
  | Panic c => Panic c
  | Err c => Err c
  end.
Proof.
  induction vals as [|v r IH]; intros s; cbn [resolve_marks map filter].
  - destruct (is_mark day); reflexivity.
  - unfold ML.stamp at 1. change (MM.mark v) with (is_mark v). destruct (is_mark v) eqn:Ev.
    + rewrite update_time_updaters. destruct (is_mark day) eqn:Ed.
      * rewrite Z.eqb_refl, IH. cbn [feed]. reflexivity.
      * cbn [length repeat feed]. destruct (updaters cf hd s day day 1) as [s1| |]; try reflexivity.
        rewrite IH. destruct (feed cf hd s1 _) as [s2| |]; reflexivity.
    + rewrite IH. destruct (feed cf hd s _) as [s2| |]; reflexivity.
Qed.

(* ---------- the two flattens ---------- *)
Lemma flatten_go_flat : forall r k v lines,
  FS.inc k r -> 0 <= k -> FM.klast k r <= FM.MaxU32 -> Z.of_nat (length lines) = k ->
  MM.flatten_go r lines v = lines ++ FS.flat k v r.
Proof.
  induction r as [|[k' v'] r IH]; intros k v lines Hinc Hk Hl Hlen; cbn [MM.flatten_go FS.flat].
  - rewrite app_nil_r. reflexivity.
  - destruct Hinc as [Hlt Hinc]. cbn [FM.klast] in Hl. pose proof (FN.klast_ge _ _ Hinc) as Hge.
    assert (Hu : MM.u32 (Z.of_nat (length lines)) = k).
    { rewrite Hlen. unfold MM.u32. apply Z.mod_small. unfold FM.MaxU32 in *. lia. }
    rewrite Hu. rewrite (IH k' v'); auto; try lia.
    + rewrite <- app_assoc. reflexivity.
    + rewrite app_length, repeat_length. lia.
Qed.

Theorem flatten_eq ns : FS.WF ns -> MM.flatten ns = FS.flatten ns.
Proof.
  intros (Hinc & Hend & (v & r & ->) & Hlen). unfold MM.flatten, FS.flatten.
  cbn [MM.flatten_go length]. change (MM.u32 (Z.of_nat 0)) with 0. cbn [Z.sub Z.to_nat repeat app].
  destruct Hinc as [_ Hinc]. unfold FM.len in Hlen. cbn [FM.klast] in Hlen.
  change (repeat MM.TreeEnd (Z.to_nat (0 - 0))) with (@nil Z).
  rewrite (flatten_go_flat r 0 v []); auto; lia.
Qed.

(* ---------- the rebuilt tree is a C03 tracker state ---------- *)
Lemma keys_inc_b_inc : forall ns k, MM.keys_inc_b ns = true ->
  match ns with [] => True | (k0, _) :: _ => k < k0 end -> FS.inc k ns.
Proof.
  induction ns as [|[k0 v0] ns IH]; intros k Hb Hh; cbn [FS.inc]; [exact I|].
  split; [exact Hh|]. destruct ns as [|[k1 v1] ns']; [exact I|].
  cbn [MM.keys_inc_b] in Hb. apply andb_prop in Hb. destruct Hb as [Hlt Hb]. apply Z.ltb_lt in Hlt.
  apply IH; [exact Hb|exact Hlt].
Qed.

Theorem rebuild_WF l : vals_ok l -> Z.of_nat (length l) <= FM.MaxU32 ->
  FS.WF (MM.rebuild l) /\ FS.flatten (MM.rebuild l) = l.
Proof.
  intros Hv Hn.
  assert (Hu : Forall MR.in_u32 l).
  { eapply Forall_impl; [|exact Hv]. intros v Hr. unfold MR.in_u32, FM.MaxU32 in *. lia. }
  assert (Hn' : Z.of_nat (length l) < 4294967296) by (unfold FM.MaxU32 in Hn; lia).
  destruct (MR.rebuild_keys l Hu Hn') as ((v & rest & E1) & (front & E2) & K).
  assert (W : FS.WF (MM.rebuild l)).
  { unfold FS.WF. split; [|split; [|split]].
    - apply keys_inc_b_inc; [exact K|]. rewrite E1. lia.
    - rewrite E2, FN.vlast_app. reflexivity.
    - eauto.
    - unfold FM.len. rewrite E2, FN.klast_app. cbn [FM.klast]. exact Hn. }
  split; [exact W|]. rewrite <- (flatten_eq _ W). apply MR.flatten_rebuild; assumption.
Qed.

(* ---------- File.Merge on trackers ---------- *)
Definition tr_file_merge (cf : cfg) (day : Z) (f : tfile) (others : list tfile) (s : shared)
  : result (tfile * shared) :=
  match MM.file_merge day (tf_nodes f) (map (fun o => Some (tf_nodes o)) others) with
  | MM.Panic _ => Panic POther
  | MM.Ok (ns, reps) =>
      match feed cf (tf_hist f) s reps with
      | Ok s' => Ok (mkTFile ns (tf_hist f), s')
      | Panic c => Panic c
      | Err c => Err c
      end
  end.

Lemma vals_ok_merge_lines : forall a o, vals_ok a -> vals_ok o -> vals_ok (merge_lines a o).
Proof.
  unfold vals_ok. induction a as [|l a IH]; intros [|ol o] Ha Ho; cbn [merge_lines]; auto.
  inversion Ha; inversion Ho; subst. constructor; [|apply IH; auto].
  destruct (is_mark ol); auto. destruct (is_mark l || (Z.land ol mark <? Z.land l mark)); auto.
Qed.

Lemma merge_lines_length : forall a o, length (merge_lines a o) = length a.
Proof. induction a as [|l a IH]; intros [|ol o]; cbn [merge_lines length]; auto. Qed.

Lemma merge_others_ok_vals : forall others myself m,
  merge_others myself others = Ok m -> vals_ok myself -> Forall vals_ok others ->
  vals_ok m /\ length m = length myself.
Proof.
  induction others as [|o r IH]; intros myself m E Hm Ho; cbn [merge_others] in E.
  - inversion E; subst. auto.
  - destruct (negb (Nat.eqb (length myself) (length o))); [discriminate|].
    inversion Ho; subst.
    destruct (IH _ _ E) as [V L]; [apply vals_ok_merge_lines; auto|auto|].
    split; [exact V|]. rewrite L. apply merge_lines_length.
Qed.

Theorem tr_file_merge_agree cf day f others sh :
  tf_ok f -> Forall tf_ok others -> 0 <= day <= FM.MaxU32 ->
  rel_res file_rel (tr_file_merge cf day f others sh)
                   (file_merge cf day (flat_file f) (map flat_file others) sh).
Proof.
  intros [HW HV] Ho Hday.
  unfold tr_file_merge, file_merge, MM.file_merge, MM.lines_merge. cbn [flat_file f_vals f_hist].
  rewrite map_map. cbn [option_map].
  replace (map (fun x : tfile => Some (MM.flatten (tf_nodes x))) others)
    with (map Some (map (fun o => FS.flatten (tf_nodes o)) others)).
  2:{ rewrite map_map. apply map_ext_in. intros o Hin. f_equal. symmetry. apply flatten_eq.
      rewrite Forall_forall in Ho. apply (Ho o Hin). }
  rewrite (flatten_eq _ HW), merge_others_eq, map_map. cbn [flat_file f_vals].
  destruct (merge_others (FS.flatten (tf_nodes f)) (map (fun x => FS.flatten (tf_nodes x)) others)) as [m| |] eqn:Em;
    try exact I.
  destruct (merge_others_ok_vals _ _ _ Em HV) as [Vm Lm].
  { rewrite Forall_forall in *. intros l Hl. apply in_map_iff in Hl. destruct Hl as (o & <- & Hin). apply (Ho o Hin). }
  rewrite ML.stamp_pass_spec, resolve_marks_stamp. change (MM.mark day) with (is_mark day).
  replace (filter MM.mark m) with (filter is_mark m) by reflexivity.
  destruct (feed cf (tf_hist f) sh _) as [s'| |]; try exact I.
  cbn [rel_res]. unfold file_rel, tf_ok, flat_file. cbn [fst snd tf_nodes tf_hist].
  assert (Vs : vals_ok (map (ML.stamp day) m)).
  { unfold vals_ok in *. rewrite Forall_forall in *. intros v Hv. apply in_map_iff in Hv.
    destruct Hv as (x & <- & Hx). unfold ML.stamp. destruct (MM.mark x); auto. }
  destruct (rebuild_WF (map (ML.stamp day) m) Vs) as [W F].
  { rewrite map_length, Lm. pose proof (FJ.alen_flatten _ (FV.WF_WF2 _ HW)) as Hal. unfold FS.alen in Hal.
    rewrite Hal. destruct HW as (_ & _ & _ & H0). exact H0. }
  rewrite F. split; [split; [exact W|exact Vs]|split; reflexivity].
Qed.

(* ---------- C01's merge on arrays is C07's declarative per-line rule ---------- *)
(* every line of the merged file is the value of the first copy, among the copies without the merge mark,
   whose tick is minimal; a line marked in every copy gets the merge day *)
Theorem file_merge_is_C07_rule cf day f others s f' s' :
  file_merge cf day f others s = Ok (f', s') ->
  f_vals f' = MM.spec_lines day (f_vals f) (map f_vals others).
Proof.
  unfold file_merge. intros E.
  destruct (merge_others (f_vals f) (map f_vals others)) as [m| |] eqn:Em; try discriminate.
  rewrite resolve_marks_stamp in E.
  destruct (feed cf (f_hist f) s _) as [s2| |]; try discriminate. inversion E; subst. cbn [f_vals].
  destruct (ML.lines_merge_spec day (f_vals f) (map f_vals others) (map (ML.stamp day) m)
              (if MM.mark day then [] else repeat (day, day, 1) (length (filter MM.mark m)))) as [H _]; [|exact H].
  unfold MM.lines_merge. rewrite merge_others_eq, Em. apply ML.stamp_pass_spec.
Qed.
