// Harness for C17: builds result values of the three combinable analyses, runs the REAL
// Serialize(result, true, w) -> Deserialize(bytes) of leaves.BurndownAnalysis / DevsAnalysis /
// CouplesAnalysis, re-reads the bytes as a protobuf message (gogo Unmarshal) and prints the text format
// to recover the token grid of every printed matrix.  Everything observed goes into the trace.
package main

import (
	"bytes"
	"errors"
	"io"
	"fmt"
	"os"
	"regexp"
	"sort"
	"strconv"
	"strings"
	"time"

	"github.com/gogo/protobuf/proto"
	"gopkg.in/src-d/hercules.v10/leaves"
	api "gopkg.in/src-d/hercules.v10/verifapi/c17"
	. "verifharness/lib"
)

// ---------------------------------------------------------------- plain result values

type mat = [][]int64

type kv struct{ k, v int64 }

type namedMat struct {
	name string
	m    mat
}

type namedTable struct {
	name string
	tbl  []kv // sorted by k
}

type bdRes struct {
	global           mat
	files            []namedMat   // sorted by name, distinct
	own              []namedTable // sorted by name, distinct
	people           []mat
	pm               mat
	pmNil            bool
	names            []string
	tick, samp, gran int64
}

type stats struct{ a, r, c int64 }

type langStat struct {
	name string
	s    stats
}

type devTick struct {
	dev     int64
	commits int64
	s       stats
	langs   []langStat // sorted by name
}

type tickDevs struct {
	tick int64
	devs []devTick // sorted by dev
}

type dvRes struct {
	ticks []tickDevs // sorted by tick
	names []string
	tick  int64
}

type cpRes struct {
	pm    [][]kv
	pf    [][]int64
	fm    [][]kv
	fl    []int64
	files []string
	names []string
}

// ---------------------------------------------------------------- S-expressions

func sxName(s string) Sx { return Bytes([]byte(s)) }

func sxNames(l []string) Sx {
	x := make([]Sx, len(l))
	for i, s := range l {
		x[i] = sxName(s)
	}
	return L(x...)
}

func sxI64s(l []int64) Sx {
	x := make([]Sx, len(l))
	for i, v := range l {
		x[i] = I64(v)
	}
	return L(x...)
}

func sxMat(m mat) Sx {
	x := make([]Sx, len(m))
	for i, r := range m {
		x[i] = sxI64s(r)
	}
	return L(x...)
}

func sxKvs(l []kv) Sx {
	x := make([]Sx, len(l))
	for i, e := range l {
		x[i] = L(I64(e.k), I64(e.v))
	}
	return L(x...)
}

func sxKvRows(m [][]kv) Sx {
	x := make([]Sx, len(m))
	for i, r := range m {
		x[i] = sxKvs(r)
	}
	return L(x...)
}

func (r *bdRes) sx() Sx {
	fs := make([]Sx, len(r.files))
	for i, f := range r.files {
		fs[i] = L(sxName(f.name), sxMat(f.m))
	}
	os := make([]Sx, len(r.own))
	for i, o := range r.own {
		os[i] = L(sxName(o.name), sxKvs(o.tbl))
	}
	ps := make([]Sx, len(r.people))
	for i, p := range r.people {
		ps[i] = sxMat(p)
	}
	pm := T("pm", A("none"))
	if !r.pmNil {
		pm = T("pm", A("some"), sxMat(r.pm))
	}
	return T("burndown", T("gran", I64(r.gran)), T("samp", I64(r.samp)), T("tick", I64(r.tick)),
		T("global", sxMat(r.global)), T("files", fs...), T("own", os...), T("people", ps...), pm,
		T("names", sxNames(r.names)))
}

func sxStats(s stats) []Sx { return []Sx{I64(s.a), I64(s.r), I64(s.c)} }

func sxTicks(ticks []tickDevs) Sx {
	ts := make([]Sx, len(ticks))
	for i, t := range ticks {
		ds := make([]Sx, len(t.devs))
		for j, d := range t.devs {
			ls := make([]Sx, len(d.langs))
			for k, l := range d.langs {
				ls[k] = L(append([]Sx{sxName(l.name)}, sxStats(l.s)...)...)
			}
			ds[j] = L(I64(d.dev), L(append([]Sx{I64(d.commits)}, sxStats(d.s)...)...), L(ls...))
		}
		ts[i] = L(I64(t.tick), L(ds...))
	}
	return L(ts...)
}

func (r *dvRes) sx() Sx {
	return T("devs", T("ticks", sxTicks(r.ticks)), T("names", sxNames(r.names)), T("tick", I64(r.tick)))
}

func sxI64Rows(m [][]int64) Sx {
	x := make([]Sx, len(m))
	for i, r := range m {
		x[i] = sxI64s(r)
	}
	return L(x...)
}

func (r *cpRes) sx() Sx {
	return T("couples", T("pm", sxKvRows(r.pm)), T("pf", sxI64Rows(r.pf)), T("fm", sxKvRows(r.fm)),
		T("fl", sxI64s(r.fl)), T("files", sxNames(r.files)), T("names", sxNames(r.names)))
}

// ---- reading (replay)

func i64Of(s Sx) int64 {
	v, err := strconv.ParseInt(s.Atom, 10, 64)
	if err != nil {
		panic("not an int64: " + s.String())
	}
	return v
}

func nameOf(s Sx) string {
	b := make([]byte, len(s.List))
	for i, x := range s.List {
		b[i] = byte(x.Int())
	}
	return string(b)
}

func namesOf(s Sx) []string {
	var r []string
	for _, x := range s.List {
		r = append(r, nameOf(x))
	}
	return r
}

func i64sOf(s Sx) []int64 {
	r := make([]int64, len(s.List))
	for i, x := range s.List {
		r[i] = i64Of(x)
	}
	return r
}

func matOf(s Sx) mat {
	r := make(mat, len(s.List))
	for i, x := range s.List {
		r[i] = i64sOf(x)
	}
	return r
}

func kvsOf(s Sx) []kv {
	var r []kv
	for _, x := range s.List {
		r = append(r, kv{i64Of(x.List[0]), i64Of(x.List[1])})
	}
	return r
}

func kvRowsOf(s Sx) [][]kv {
	r := make([][]kv, len(s.List))
	for i, x := range s.List {
		r[i] = kvsOf(x)
	}
	return r
}

func must(s Sx, tag string) Sx {
	f, ok := s.Field(tag)
	if !ok {
		panic("missing field " + tag)
	}
	return f
}

func bdOf(s Sx) *bdRes {
	r := &bdRes{}
	r.gran = i64Of(must(s, "gran").Args()[0])
	r.samp = i64Of(must(s, "samp").Args()[0])
	r.tick = i64Of(must(s, "tick").Args()[0])
	r.global = matOf(must(s, "global").Args()[0])
	for _, f := range must(s, "files").Args() {
		r.files = append(r.files, namedMat{nameOf(f.List[0]), matOf(f.List[1])})
	}
	for _, o := range must(s, "own").Args() {
		r.own = append(r.own, namedTable{nameOf(o.List[0]), kvsOf(o.List[1])})
	}
	for _, p := range must(s, "people").Args() {
		r.people = append(r.people, matOf(p))
	}
	pm := must(s, "pm").Args()
	if pm[0].Atom == "none" {
		r.pmNil = true
	} else {
		r.pm = matOf(pm[1])
	}
	r.names = namesOf(must(s, "names").Args()[0])
	return r
}

func statsOf(l []Sx) stats { return stats{i64Of(l[0]), i64Of(l[1]), i64Of(l[2])} }

func dvOf(s Sx) *dvRes {
	r := &dvRes{}
	for _, t := range must(s, "ticks").Args()[0].List {
		td := tickDevs{tick: i64Of(t.List[0])}
		for _, d := range t.List[1].List {
			dt := devTick{dev: i64Of(d.List[0]), commits: i64Of(d.List[1].List[0]), s: statsOf(d.List[1].List[1:])}
			for _, l := range d.List[2].List {
				dt.langs = append(dt.langs, langStat{nameOf(l.List[0]), statsOf(l.List[1:])})
			}
			td.devs = append(td.devs, dt)
		}
		r.ticks = append(r.ticks, td)
	}
	r.names = namesOf(must(s, "names").Args()[0])
	r.tick = i64Of(must(s, "tick").Args()[0])
	return r
}

func i64RowsOf(s Sx) [][]int64 {
	r := make([][]int64, len(s.List))
	for i, x := range s.List {
		r[i] = i64sOf(x)
	}
	return r
}

func cpOf(s Sx) *cpRes {
	return &cpRes{
		pm:    kvRowsOf(must(s, "pm").Args()[0]),
		pf:    i64RowsOf(must(s, "pf").Args()[0]),
		fm:    kvRowsOf(must(s, "fm").Args()[0]),
		fl:    i64sOf(must(s, "fl").Args()[0]),
		files: namesOf(must(s, "files").Args()[0]),
		names: namesOf(must(s, "names").Args()[0]),
	}
}

// ---------------------------------------------------------------- to and from the real Go values

func copyMat(m mat) mat {
	if m == nil {
		return nil
	}
	r := make(mat, len(m))
	for i, x := range m {
		r[i] = append([]int64{}, x...)
	}
	return r
}

func (r *bdRes) build() leaves.BurndownResult {
	fh := map[string]leaves.DenseHistory{}
	for _, f := range r.files {
		fh[f.name] = copyMat(f.m)
	}
	fo := map[string]map[int]int{}
	for _, o := range r.own {
		t := map[int]int{}
		for _, e := range o.tbl {
			t[int(e.k)] = int(e.v)
		}
		fo[o.name] = t
	}
	var ph []leaves.DenseHistory
	for _, p := range r.people {
		ph = append(ph, copyMat(p))
	}
	var pm leaves.DenseHistory
	if !r.pmNil {
		pm = copyMat(r.pm)
		if pm == nil {
			pm = leaves.DenseHistory{}
		}
	}
	return leaves.VerifC17NewBurndownResult(copyMat(r.global), fh, fo, ph, pm, append([]string{}, r.names...),
		time.Duration(r.tick), int(r.samp), int(r.gran))
}

func bdFrom(g leaves.BurndownResult) *bdRes {
	r := &bdRes{}
	names, tick, samp, gran := leaves.VerifC17BurndownPrivate(g)
	r.names, r.tick, r.samp, r.gran = names, int64(tick), int64(samp), int64(gran)
	r.global = g.GlobalHistory
	for k, v := range g.FileHistories {
		r.files = append(r.files, namedMat{k, v})
	}
	sort.Slice(r.files, func(i, j int) bool { return r.files[i].name < r.files[j].name })
	for k, v := range g.FileOwnership {
		t := namedTable{name: k}
		for a, b := range v {
			t.tbl = append(t.tbl, kv{int64(a), int64(b)})
		}
		sort.Slice(t.tbl, func(i, j int) bool { return t.tbl[i].k < t.tbl[j].k })
		r.own = append(r.own, t)
	}
	sort.Slice(r.own, func(i, j int) bool { return r.own[i].name < r.own[j].name })
	for _, p := range g.PeopleHistories {
		r.people = append(r.people, p)
	}
	r.pmNil = g.PeopleMatrix == nil
	r.pm = g.PeopleMatrix
	return r
}

func (r *dvRes) build() leaves.DevsResult {
	ticks := map[int]map[int]*leaves.DevTick{}
	for _, t := range r.ticks {
		dd := map[int]*leaves.DevTick{}
		ticks[int(t.tick)] = dd
		for _, d := range t.devs {
			dt := &leaves.DevTick{Commits: int(d.commits), Languages: map[string]api.LineStats{}}
			dt.Added, dt.Removed, dt.Changed = int(d.s.a), int(d.s.r), int(d.s.c)
			for _, l := range d.langs {
				dt.Languages[l.name] = api.LineStats{Added: int(l.s.a), Removed: int(l.s.r), Changed: int(l.s.c)}
			}
			dd[int(d.dev)] = dt
		}
	}
	return leaves.VerifC17NewDevsResult(ticks, append([]string{}, r.names...), time.Duration(r.tick))
}

func dvFrom(g leaves.DevsResult) *dvRes {
	r := &dvRes{}
	names, tick := leaves.VerifC17DevsPrivate(g)
	r.names, r.tick = names, int64(tick)
	for t, dd := range g.Ticks {
		td := tickDevs{tick: int64(t)}
		for d, st := range dd {
			dt := devTick{dev: int64(d), commits: int64(st.Commits), s: stats{int64(st.Added), int64(st.Removed), int64(st.Changed)}}
			for n, l := range st.Languages {
				dt.langs = append(dt.langs, langStat{n, stats{int64(l.Added), int64(l.Removed), int64(l.Changed)}})
			}
			sort.Slice(dt.langs, func(i, j int) bool { return dt.langs[i].name < dt.langs[j].name })
			td.devs = append(td.devs, dt)
		}
		sort.Slice(td.devs, func(i, j int) bool { return td.devs[i].dev < td.devs[j].dev })
		r.ticks = append(r.ticks, td)
	}
	sort.Slice(r.ticks, func(i, j int) bool { return r.ticks[i].tick < r.ticks[j].tick })
	return r
}

func mapsOf(rows [][]kv) []map[int]int64 {
	var r []map[int]int64
	for _, row := range rows {
		m := map[int]int64{}
		for _, e := range row {
			m[int(e.k)] = e.v
		}
		r = append(r, m)
	}
	return r
}

func rowsOfMaps(ms []map[int]int64) [][]kv {
	r := make([][]kv, len(ms))
	for i, m := range ms {
		for k, v := range m {
			r[i] = append(r[i], kv{int64(k), v})
		}
		sort.Slice(r[i], func(a, b int) bool { return r[i][a].k < r[i][b].k })
	}
	return r
}

func (r *cpRes) build() leaves.CouplesResult {
	var pf [][]int
	for _, row := range r.pf {
		x := []int{}
		for _, v := range row {
			x = append(x, int(v))
		}
		pf = append(pf, x)
	}
	var fl []int
	for _, v := range r.fl {
		fl = append(fl, int(v))
	}
	return leaves.VerifC17NewCouplesResult(mapsOf(r.pm), pf, mapsOf(r.fm), fl, append([]string{}, r.files...),
		append([]string{}, r.names...))
}

func cpFrom(g leaves.CouplesResult) *cpRes {
	r := &cpRes{pm: rowsOfMaps(g.PeopleMatrix), fm: rowsOfMaps(g.FilesMatrix), files: g.Files,
		names: leaves.VerifC17CouplesPrivate(g)}
	for _, row := range g.PeopleFiles {
		x := []int64{}
		for _, v := range row {
			x = append(x, int64(v))
		}
		r.pf = append(r.pf, x)
	}
	for _, v := range g.FilesLines {
		r.fl = append(r.fl, int64(v))
	}
	return r
}

// ---------------------------------------------------------------- protobuf messages as S-expressions

func sxU32s(l []uint32) Sx {
	x := make([]Sx, len(l))
	for i, v := range l {
		x[i] = U64(uint64(v))
	}
	return L(x...)
}

func sxI32s(l []int32) Sx {
	x := make([]Sx, len(l))
	for i, v := range l {
		x[i] = I64(int64(v))
	}
	return L(x...)
}

func sxSparse(m *api.BurndownSparseMatrix) Sx {
	rows := make([]Sx, len(m.Rows))
	for i, r := range m.Rows {
		if r == nil {
			rows[i] = A("nil")
		} else {
			rows[i] = sxU32s(r.Columns)
		}
	}
	return L(sxName(m.Name), I64(int64(m.NumberOfRows)), I64(int64(m.NumberOfColumns)), L(rows...))
}

func sxCSR(m *api.CompressedSparseRowMatrix) Sx {
	if m == nil {
		return A("nil")
	}
	return L(I64(int64(m.NumberOfRows)), I64(int64(m.NumberOfColumns)), sxI64s(m.Data), sxI32s(m.Indices), sxI64s(m.Indptr))
}

func sxOpt(isNil bool, f func() Sx) []Sx {
	if isNil {
		return []Sx{A("none")}
	}
	return []Sx{A("some"), f()}
}

func sxBdMsg(m *api.BurndownAnalysisResults) Sx {
	fs := make([]Sx, len(m.Files))
	for i, f := range m.Files {
		fs[i] = sxSparse(f)
	}
	ps := make([]Sx, len(m.People))
	for i, f := range m.People {
		ps[i] = sxSparse(f)
	}
	os := make([]Sx, len(m.FilesOwnership))
	for i, o := range m.FilesOwnership {
		var l []kv
		for k, v := range o.Value {
			l = append(l, kv{int64(k), int64(v)})
		}
		sort.Slice(l, func(a, b int) bool { return l[a].k < l[b].k })
		os[i] = sxKvs(l)
	}
	return T("bmsg", T("gran", I64(int64(m.Granularity))), T("samp", I64(int64(m.Sampling))), T("tick", I64(m.TickSize)),
		T("project", sxOpt(m.Project == nil, func() Sx { return sxSparse(m.Project) })...),
		T("files", fs...), T("people", ps...),
		T("inter", sxOpt(m.PeopleInteraction == nil, func() Sx { return sxCSR(m.PeopleInteraction) })...),
		T("own", os...))
}

func pbStats(s *api.PbLineStats) stats {
	if s == nil {
		return stats{}
	}
	return stats{int64(s.Added), int64(s.Removed), int64(s.Changed)}
}

func sxDvMsg(m *api.DevsAnalysisResults) Sx {
	var ticks []tickDevs
	for t, dd := range m.Ticks {
		td := tickDevs{tick: int64(t)}
		if dd != nil {
			for d, st := range dd.Devs {
				dt := devTick{dev: int64(d)}
				if st != nil {
					dt.commits = int64(st.Commits)
					dt.s = pbStats(st.Stats)
					for n, l := range st.Languages {
						dt.langs = append(dt.langs, langStat{n, pbStats(l)})
					}
				}
				sort.Slice(dt.langs, func(i, j int) bool { return dt.langs[i].name < dt.langs[j].name })
				td.devs = append(td.devs, dt)
			}
		}
		sort.Slice(td.devs, func(i, j int) bool { return td.devs[i].dev < td.devs[j].dev })
		ticks = append(ticks, td)
	}
	sort.Slice(ticks, func(i, j int) bool { return ticks[i].tick < ticks[j].tick })
	return T("dmsg", T("ticks", sxTicks(ticks)), T("index", sxNames(m.DevIndex)), T("tick", I64(m.TickSize)))
}

func sxCpMsg(m *api.CouplesAnalysisResults) Sx {
	var fi, pi []string
	var fmx, pmx *api.CompressedSparseRowMatrix
	if m.FileCouples != nil {
		fi, fmx = m.FileCouples.Index, m.FileCouples.Matrix
	}
	if m.PeopleCouples != nil {
		pi, pmx = m.PeopleCouples.Index, m.PeopleCouples.Matrix
	}
	pf := make([]Sx, len(m.PeopleFiles))
	for i, f := range m.PeopleFiles {
		if f == nil {
			pf[i] = A("nil")
		} else {
			pf[i] = sxI32s(f.Files)
		}
	}
	return T("cmsg", T("findex", sxNames(fi)), T("fmatrix", sxCSR(fmx)), T("pindex", sxNames(pi)), T("pmatrix", sxCSR(pmx)),
		T("pfiles", L(pf...)), T("flines", sxI32s(m.FilesLines)))
}

// ---------------------------------------------------------------- the text format of burndown

var numLine = regexp.MustCompile(`^[ 0-9-]*$`)
var ownLine = regexp.MustCompile(`^    [- ] -?[0-9]+: -?[0-9]+$`)

// parseBurndownText walks the YAML text strictly in the order serializeText writes it and returns the
// token grid of every PrintMatrix block.
func parseBurndownText(text string, r *bdRes) (grids []mat, fail string) {
	pos := 0
	expect := func(s string) bool {
		if strings.HasPrefix(text[pos:], s) {
			pos += len(s)
			return true
		}
		return false
	}
	line := func() (string, bool) {
		if pos >= len(text) {
			return "", false
		}
		i := strings.IndexByte(text[pos:], '\n')
		if i < 0 {
			return "", false
		}
		return text[pos : pos+i], true
	}
	skipKey := func(key string) bool {
		if !expect(key) {
			return false
		}
		l, ok := line()
		if !ok {
			return false
		}
		pos += len(l) + 1
		return true
	}
	leadSpaces := func(l string) int {
		n := 0
		for n < len(l) && l[n] == ' ' {
			n++
		}
		return n
	}
	// rows of a printed matrix: lines made of digits, '-' and blanks with at least minLead leading blanks
	matrix := func(minLead int) (mat, bool) {
		m := mat{}
		for {
			l, ok := line()
			if !ok || !numLine.MatchString(l) || leadSpaces(l) < minLead {
				return m, true
			}
			row := []int64{}
			for _, t := range strings.Fields(l) {
				v, err := strconv.ParseInt(t, 10, 64)
				if err != nil {
					return m, false
				}
				row = append(row, v)
			}
			m = append(m, row)
			pos += len(l) + 1
		}
	}
	// PrintMatrix writes no header for an empty name and then indents two blanks less; two such blocks in a
	// row cannot be told apart in the text
	prevUnnamed := false
	ambiguous := false
	block := func(indent int, name string) bool {
		if name == "" {
			if prevUnnamed {
				ambiguous = true
				return false
			}
			prevUnnamed = true
			m, ok := matrix(indent - 1)
			grids = append(grids, m)
			return ok
		}
		prevUnnamed = false
		if !expect(strings.Repeat(" ", indent) + api.SafeString(name) + ": |-\n") {
			return false
		}
		m, ok := matrix(indent + 1)
		grids = append(grids, m)
		return ok
	}
	fail0 := func(s string) string {
		if ambiguous {
			return "ambiguous"
		}
		return s
	}
	if !skipKey("  granularity: ") || !skipKey("  sampling: ") || !skipKey("  tick_size: ") {
		return grids, "header"
	}
	if !block(2, "project") {
		return grids, "project"
	}
	if len(r.files) > 0 {
		if !expect("  files:\n") {
			return grids, "files"
		}
		for _, f := range r.files {
			if !block(4, f.name) {
				return grids, fail0("file-matrix")
			}
		}
		if !expect("  files_ownership:\n") {
			return grids, "files_ownership"
		}
		for {
			l, ok := line()
			if !ok || !ownLine.MatchString(l) {
				break
			}
			pos += len(l) + 1
		}
	}
	if len(r.people) > 0 {
		if !expect("  people_sequence:\n") {
			return grids, "people_sequence"
		}
		for i := range r.people {
			if !expect("    - " + api.SafeString(r.names[i]) + "\n") {
				return grids, "people_sequence-entry"
			}
		}
		if !expect("  people:\n") {
			return grids, "people"
		}
		for i := range r.people {
			if !block(4, r.names[i]) {
				return grids, fail0("people-matrix")
			}
		}
		if !expect("  people_interaction: |-\n") {
			return grids, "people_interaction"
		}
		m, ok := matrix(3)
		grids = append(grids, m)
		if !ok {
			return grids, "people_interaction-matrix"
		}
	}
	if pos != len(text) {
		return grids, "trailing"
	}
	return grids, ""
}

// ---------------------------------------------------------------- observation

// silent implements core.Logger.
type silent struct{}

func (silent) Info(...interface{})              {}
func (silent) Infof(string, ...interface{})     {}
func (silent) Warn(...interface{})              {}
func (silent) Warnf(string, ...interface{})     {}
func (silent) Error(...interface{})             {}
func (silent) Errorf(string, ...interface{})    {}
func (silent) Critical(...interface{})          {}
func (silent) Criticalf(string, ...interface{}) {}

func status(err error, panicked bool) Sx {
	if panicked {
		return A("panic")
	}
	if err != nil {
		return A("err")
	}
	return A("ok")
}

// failingWriter refuses every write: the fault "the output cannot be written" at the first byte
// (limit = 0) or after limit bytes have been accepted.
type failingWriter struct{ limit int }

func (f *failingWriter) Write(b []byte) (int, error) {
	if len(b) <= f.limit {
		f.limit -= len(b)
		return len(b), nil
	}
	n := f.limit
	f.limit = 0
	return n, errors.New("verif: injected write failure")
}

// preFault runs one serialisation into a writer that fails (round 5b: a failed Serialize must leave
// nothing behind that a later Serialize of the same process can pick up - pooled buffers, package
// state).  Nothing is recorded: the observations that follow are judged by the round-trip oracles, so
// any leftover of the failed attempt shows as a round-trip failure of the case itself.
func preFault(ser func(w io.Writer) error) {
	for _, lim := range []int{0, 3} {
		Catch(func() { _ = ser(&failingWriter{limit: lim}) })
	}
}

func observeBurndown(r *bdRes) []Sx {
	an := &leaves.BurndownAnalysis{}
	var obs []Sx
	buf := &bytes.Buffer{}
	var err error
	preFault(func(w io.Writer) error { return an.Serialize(r.build(), true, w) })
	_, p := Catch(func() { err = an.Serialize(r.build(), true, buf) })
	obs = append(obs, T("ser", status(err, p)))
	if !p && err == nil {
		msg := api.BurndownAnalysisResults{}
		if e := proto.Unmarshal(buf.Bytes(), &msg); e != nil {
			obs = append(obs, T("msg", A("unreadable")))
		} else {
			obs = append(obs, T("msg", sxBdMsg(&msg)))
		}
		var dec interface{}
		_, p2 := Catch(func() { dec, err = an.Deserialize(buf.Bytes()) })
		if p2 || err != nil {
			obs = append(obs, T("dec", status(err, p2)))
		} else {
			obs = append(obs, T("dec", A("ok"), bdFrom(dec.(leaves.BurndownResult)).sx()))
		}
	}
	tbuf := &bytes.Buffer{}
	preFault(func(w io.Writer) error { return an.Serialize(r.build(), false, w) })
	_, p3 := Catch(func() { err = an.Serialize(r.build(), false, tbuf) })
	if p3 || err != nil {
		obs = append(obs, T("text", status(err, p3)))
	} else {
		grids, fail := parseBurndownText(tbuf.String(), r)
		if fail != "" {
			obs = append(obs, T("text", A("parsefail"), A(fail)))
		} else {
			gs := make([]Sx, len(grids))
			for i, g := range grids {
				gs[i] = sxMat(g)
			}
			obs = append(obs, T("text", A("ok"), L(gs...)))
		}
	}
	return obs
}

func observeDevs(r *dvRes) []Sx {
	an := &leaves.DevsAnalysis{}
	var obs []Sx
	buf := &bytes.Buffer{}
	var err error
	preFault(func(w io.Writer) error { return an.Serialize(r.build(), true, w) })
	_, p := Catch(func() { err = an.Serialize(r.build(), true, buf) })
	obs = append(obs, T("ser", status(err, p)))
	if !p && err == nil {
		msg := api.DevsAnalysisResults{}
		if e := proto.Unmarshal(buf.Bytes(), &msg); e != nil {
			obs = append(obs, T("msg", A("unreadable")))
		} else {
			obs = append(obs, T("msg", sxDvMsg(&msg)))
		}
		var dec interface{}
		_, p2 := Catch(func() { dec, err = an.Deserialize(buf.Bytes()) })
		if p2 || err != nil {
			obs = append(obs, T("dec", status(err, p2)))
		} else {
			obs = append(obs, T("dec", A("ok"), dvFrom(dec.(leaves.DevsResult)).sx()))
		}
	}
	// text: one "      <dev>: [...]" line per (tick, developer), one "  - <name>" line per developer name
	tbuf := &bytes.Buffer{}
	preFault(func(w io.Writer) error { return an.Serialize(r.build(), false, w) })
	_, p3 := Catch(func() { err = an.Serialize(r.build(), false, tbuf) })
	obs = append(obs, T("text", status(err, p3)))
	return obs
}

func observeCouples(r *cpRes) []Sx {
	an := &leaves.CouplesAnalysis{}
	_ = an.Configure(map[string]interface{}{"Core.Logger": silent{}}) // Deserialize logs its integrity error
	var obs []Sx
	buf := &bytes.Buffer{}
	var err error
	preFault(func(w io.Writer) error { return an.Serialize(r.build(), true, w) })
	_, p := Catch(func() { err = an.Serialize(r.build(), true, buf) })
	obs = append(obs, T("ser", status(err, p)))
	if !p && err == nil {
		msg := api.CouplesAnalysisResults{}
		if e := proto.Unmarshal(buf.Bytes(), &msg); e != nil {
			obs = append(obs, T("msg", A("unreadable")))
		} else {
			obs = append(obs, T("msg", sxCpMsg(&msg)))
		}
		var dec interface{}
		_, p2 := Catch(func() { dec, err = an.Deserialize(buf.Bytes()) })
		if p2 || err != nil {
			obs = append(obs, T("dec", status(err, p2)))
		} else {
			obs = append(obs, T("dec", A("ok"), cpFrom(dec.(leaves.CouplesResult)).sx()))
		}
	}
	// text: no PrintMatrix block in this format; it is only run
	tbuf := &bytes.Buffer{}
	preFault(func(w io.Writer) error { return an.Serialize(r.build(), false, w) })
	_, p3 := Catch(func() { err = an.Serialize(r.build(), false, tbuf) })
	obs = append(obs, T("text", status(err, p3)))
	return obs
}

// direct calls of the three converters of internal/pb/utils.go and of yaml.PrintMatrix
func observeMatrix(m mat, fixNeg bool) []Sx {
	var obs []Sx
	var sm *api.BurndownSparseMatrix
	if _, p := Catch(func() { sm = api.ToBurndownSparseMatrix(copyMat(m), "m") }); p {
		obs = append(obs, T("sparse", A("panic")))
	} else {
		obs = append(obs, T("sparse", A("ok"), sxSparse(sm)))
	}
	var c *api.CompressedSparseRowMatrix
	if _, p := Catch(func() { c = api.DenseToCompressedSparseRowMatrix(copyMat(m)) }); p {
		obs = append(obs, T("csr", A("panic")))
	} else {
		obs = append(obs, T("csr", A("ok"), sxCSR(c)))
	}
	buf := &bytes.Buffer{}
	if _, p := Catch(func() { api.PrintMatrix(buf, copyMat(m), 2, "", fixNeg) }); p {
		obs = append(obs, T("print", A("panic")))
	} else {
		g := mat{}
		ok := true
		lines := strings.Split(buf.String(), "\n")
		if len(lines) > 0 && lines[len(lines)-1] == "" {
			lines = lines[:len(lines)-1]
		}
		for _, l := range lines {
			row := []int64{}
			for _, t := range strings.Fields(l) {
				v, err := strconv.ParseInt(t, 10, 64)
				if err != nil {
					ok = false
				}
				row = append(row, v)
			}
			g = append(g, row)
		}
		if ok {
			obs = append(obs, T("print", A("ok"), sxMat(g)))
		} else {
			obs = append(obs, T("print", A("parsefail")))
		}
	}
	return obs
}

// ---------------------------------------------------------------- emission

func anyNonZero(m mat) bool {
	for _, r := range m {
		for _, v := range r {
			if v != 0 {
				return true
			}
		}
	}
	return false
}

func emitBd(c *Config, kind string, r *bdRes) {
	nt := anyNonZero(r.global) && (len(r.global) > 1 || (len(r.global) == 1 && len(r.global[0]) > 1) || len(r.files) > 0 || len(r.people) > 0)
	c.Emit(T("kind", A(kind)), T("nt", B(nt)), T("res", r.sx()), T("obs", observeBurndown(r)...))
}

func emitDv(c *Config, kind string, r *dvRes) {
	nt := false
	for _, t := range r.ticks {
		if len(t.devs) > 0 {
			nt = true
		}
	}
	c.Emit(T("kind", A(kind)), T("nt", B(nt)), T("res", r.sx()), T("obs", observeDevs(r)...))
}

func emitCp(c *Config, kind string, r *cpRes) {
	nt := false
	for _, row := range r.fm {
		if len(row) > 0 {
			nt = true
		}
	}
	for _, row := range r.pm {
		if len(row) > 0 {
			nt = true
		}
	}
	c.Emit(T("kind", A(kind)), T("nt", B(nt && len(r.files) > 0)), T("res", r.sx()), T("obs", observeCouples(r)...))
}

func emitMx(c *Config, kind string, m mat, fixNeg bool) {
	c.Emit(T("kind", A(kind)), T("nt", B(anyNonZero(m) && len(m)*len(m[0]) > 1)), T("res", T("matrix", T("fix", B(fixNeg)), T("m", sxMat(m)))),
		T("obs", observeMatrix(m, fixNeg)...))
}

// ---------------------------------------------------------------- generators

type gen struct{ c *Config }

var namePool = []string{
	"", "a", "b", "README.md", "src/main.go", "héllo wörld", "文件/名前.go", "\U0001F680", "with \"quote\"",
	"back\\slash", "new\nline", "tab\tname", ": |-", "project", " leading space", "trailing space ", "a|b@c.d",
	"<unmatched>", "\"", "\\", "- x", "  files:", "    1 2 3", "\u0000nul", "é", "‮RTL", "(paren) (s)",
	// round 4: a few members of the name groups of content.go, so that they also meet the out-of-range, malformed and
	// loaded-dictionary streams (all valid UTF-8)
	"A", "a ", "what\ufffd", "what?", "\ufeffa", "a\r", "a\r\n", "a\u2028b", "a\u00a0b", "a b", "f10.go",
}

func (g *gen) name() string {
	r := g.c.Rng
	switch r.Intn(4) {
	case 0:
		n := r.Intn(6)
		b := make([]rune, n)
		for i := range b {
			switch r.Intn(4) {
			case 0:
				b[i] = rune(32 + r.Intn(95))
			case 1:
				b[i] = rune(0xa0 + r.Intn(0x500))
			case 2:
				b[i] = rune(0x4e00 + r.Intn(0x1000))
			default:
				b[i] = rune(0x1f300 + r.Intn(0x200))
			}
		}
		return string(b)
	case 1:
		return fmt.Sprintf("f%d.go", r.Intn(8))
	default:
		return namePool[r.Intn(len(namePool))]
	}
}

// distinct sorted names
func (g *gen) nameSet(n int) []string {
	seen := map[string]bool{}
	var l []string
	for tries := 0; len(l) < n && tries < 50; tries++ {
		s := g.name()
		if !seen[s] {
			seen[s] = true
			l = append(l, s)
		}
	}
	sort.Strings(l)
	return l
}

func (g *gen) names(n int) []string {
	l := make([]string, n)
	for i := range l {
		l[i] = g.name()
	}
	return l
}

// a history cell: zero-heavy, boundaries of uint32 / int32, negatives; big=true leaves the uint32 range
func (g *gen) cell(big bool) int64 {
	r := g.c.Rng
	switch r.Intn(14) {
	case 0, 1, 2, 3, 4:
		return 0
	case 5, 6, 7:
		return int64(1 + r.Intn(9))
	case 8:
		return int64(1<<31) - 2 + int64(r.Intn(4))
	case 9:
		return int64(1<<32) - 1 - int64(r.Intn(2))
	case 10:
		return -int64(1 + r.Intn(5))
	case 11:
		return []int64{-(1 << 31), -(1 << 40), -(1 << 62)}[r.Intn(3)]
	case 12:
		return r.Int63n(1 << 32)
	default:
		if big {
			return []int64{1 << 32, 1<<32 + 1, 1<<32 + 7, 1 << 40, 1<<63 - 1, 3 << 32}[r.Intn(6)]
		}
		return int64(r.Intn(1000))
	}
}

func (g *gen) dims() (int, int) {
	r := g.c.Rng
	switch r.Intn(8) {
	case 0:
		return 1, 1
	case 1:
		return 1, 1 + r.Intn(6)
	case 2:
		return 1 + r.Intn(6), 1
	case 3:
		return 1 + r.Intn(4), 0
	default:
		return 1 + r.Intn(5), 1 + r.Intn(6)
	}
}

func (g *gen) matrix(rows, cols int, big bool) mat {
	r := g.c.Rng
	m := make(mat, rows)
	for i := range m {
		m[i] = make([]int64, cols)
		style := r.Intn(6)
		if style == 0 {
			continue // all-zero row
		}
		for j := range m[i] {
			m[i][j] = g.cell(big)
		}
		if style == 1 && cols > 0 { // trailing zeros (or trailing negatives, which clamp to zero)
			k := r.Intn(cols + 1)
			for j := k; j < cols; j++ {
				if r.Intn(3) == 0 {
					m[i][j] = -int64(1 + r.Intn(3))
				} else {
					m[i][j] = 0
				}
			}
		}
		if style == 2 && cols > 0 { // sparse row: a single non-zero
			for j := range m[i] {
				m[i][j] = 0
			}
			m[i][r.Intn(cols)] = g.cell(big)
		}
	}
	return m
}

func (g *gen) i32ish(big bool) int64 {
	r := g.c.Rng
	switch r.Intn(8) {
	case 0:
		return 0
	case 1:
		return int64(1<<31) - 1 - int64(r.Intn(2))
	case 2:
		if big {
			return []int64{1 << 31, 1<<31 + 5, 1 << 32, 1<<32 + 3, -(1 << 31) - 1, 1 << 40}[r.Intn(6)]
		}
		return int64(r.Intn(100000))
	default:
		return int64(r.Intn(500))
	}
}

func (g *gen) table(big bool) []kv {
	r := g.c.Rng
	n := r.Intn(5)
	seen := map[int64]bool{}
	wrapped := map[int32]bool{}
	var l []kv
	for i := 0; i < n; i++ {
		k := []int64{-1, 0, 1, 2, 3, 7, int64(api.AuthorMissing), 1<<31 - 1}[r.Intn(8)]
		if big && r.Intn(3) == 0 {
			k = []int64{1 << 31, 1<<32 + 2, -(1 << 31) - 1}[r.Intn(3)]
		}
		if seen[k] || wrapped[int32(k)] {
			continue
		}
		seen[k] = true
		wrapped[int32(k)] = true
		l = append(l, kv{k, g.i32ish(big)})
	}
	sort.Slice(l, func(i, j int) bool { return l[i].k < l[j].k })
	return l
}

func (g *gen) tickSize() int64 {
	r := g.c.Rng
	switch r.Intn(6) {
	case 0:
		return 0
	case 1:
		return int64(time.Hour)
	case 2:
		return r.Int63()
	case 3:
		return -r.Int63n(1 << 40)
	default:
		return int64(24 * time.Hour)
	}
}

// burndown result inside the domain of the property (shape + aligned + in range unless big)
func (g *gen) burndown(big bool) *bdRes {
	r := g.c.Rng
	rows, cols := g.dims()
	res := &bdRes{global: g.matrix(rows, cols, big), pmNil: true, tick: g.tickSize(),
		samp: 1 + int64(r.Intn(30)), gran: 1 + int64(r.Intn(30))}
	if r.Intn(5) == 0 {
		res.samp, res.gran = g.i32ish(big), g.i32ish(big)
		if r.Intn(2) == 0 {
			res.samp = -res.samp
		}
	}
	if r.Intn(3) > 0 {
		for _, n := range g.nameSet(r.Intn(5)) {
			fr, fc := rows, cols
			if r.Intn(4) == 0 {
				fr, fc = g.dims()
			}
			res.files = append(res.files, namedMat{n, g.matrix(fr, fc, big)})
			res.own = append(res.own, namedTable{n, g.table(big)})
		}
	}
	if r.Intn(3) > 0 {
		n := r.Intn(4)
		for i := 0; i < n; i++ {
			pr, pc := rows, cols
			if r.Intn(4) == 0 {
				pr, pc = g.dims()
			}
			res.people = append(res.people, g.matrix(pr, pc, big))
		}
		res.names = g.names(n)
		if n > 0 {
			res.pmNil = false
			res.pm = make(mat, n)
			for i := range res.pm {
				res.pm[i] = make([]int64, n+2)
				for j := range res.pm[i] {
					switch r.Intn(6) {
					case 0:
						res.pm[i][j] = int64(1 + r.Intn(50))
					case 1:
						res.pm[i][j] = -int64(1 + r.Intn(50))
					case 2:
						res.pm[i][j] = []int64{1<<63 - 1, -(1 << 63), 1 << 32, 1<<31 - 1}[r.Intn(4)]
					}
				}
			}
		}
	}
	return res
}

func (g *gen) burndownMalformed() *bdRes {
	r := g.c.Rng
	res := g.burndown(false)
	switch r.Intn(9) {
	case 0: // ragged global matrix
		i := r.Intn(len(res.global))
		res.global[i] = append(res.global[i], 1)
		if r.Intn(2) == 0 {
			res.global = append(res.global, []int64{})
		}
	case 1:
		res.global = nil
	case 2:
		res.people = append(res.people, mat{})
		res.names = append(res.names, "x")
	case 3:
		res.pmNil, res.pm = false, mat{}
	case 4:
		res.people = append(res.people, g.matrix(1, 2, false))
	case 5:
		res.own = append(res.own, namedTable{"\xffzz-not-a-file", g.table(false)})
	case 6:
		res.files = append(res.files, namedMat{"\xffzz-empty", mat{}})
	case 7:
		if len(res.people) > 0 { // ragged people matrix / nil people matrix next to people histories
			if r.Intn(2) == 0 {
				res.pm[len(res.pm)-1] = append(res.pm[len(res.pm)-1], 5)
			} else {
				res.pmNil, res.pm = true, nil
			}
		}
	case 8:
		if len(res.files) > 0 {
			f := &res.files[r.Intn(len(res.files))]
			f.m[0] = append(f.m[0], 3)
			f.m = append(f.m, []int64{1})
		}
	}
	return res
}

func (g *gen) devs(big bool) *dvRes {
	r := g.c.Rng
	res := &dvRes{names: g.names(r.Intn(5)), tick: g.tickSize()}
	nt := r.Intn(5)
	seenT := map[int64]bool{}
	wrappedT := map[int32]bool{}
	for i := 0; i < nt; i++ {
		t := int64(r.Intn(400))
		switch r.Intn(8) {
		case 0:
			t = 1<<31 - 1 - int64(r.Intn(2))
		case 1:
			t = 0
		case 2:
			if big {
				t = []int64{1 << 31, 1<<32 + 1, -5, -(1 << 31) - 1}[r.Intn(4)]
			}
		}
		if seenT[t] || wrappedT[int32(t)] {
			continue
		}
		seenT[t], wrappedT[int32(t)] = true, true
		td := tickDevs{tick: t}
		nd := r.Intn(4)
		seenD := map[int64]bool{}
		wrappedD := map[int32]bool{}
		for j := 0; j < nd; j++ {
			d := int64(r.Intn(6))
			switch r.Intn(8) {
			case 0:
				d = int64(api.AuthorMissing)
			case 1:
				d = 1<<31 - 1
			case 2:
				if big {
					d = []int64{-1, -2, 1 << 31, 1<<32 + 4}[r.Intn(4)]
				}
			}
			w := int32(d)
			if d == int64(api.AuthorMissing) {
				w = -1
			}
			if seenD[d] || wrappedD[w] {
				continue
			}
			seenD[d], wrappedD[w] = true, true
			dt := devTick{dev: d, commits: g.i32ish(big), s: stats{g.i32ish(big), g.i32ish(big), g.i32ish(big)}}
			if r.Intn(6) == 0 {
				dt.s.a = -dt.s.a
			}
			for _, n := range g.nameSet(r.Intn(4)) {
				dt.langs = append(dt.langs, langStat{n, stats{g.i32ish(big), g.i32ish(big), g.i32ish(big)}})
			}
			td.devs = append(td.devs, dt)
		}
		sort.Slice(td.devs, func(a, b int) bool { return td.devs[a].dev < td.devs[b].dev })
		res.ticks = append(res.ticks, td)
	}
	sort.Slice(res.ticks, func(a, b int) bool { return res.ticks[a].tick < res.ticks[b].tick })
	return res
}

func (g *gen) kvRow(ncols int, big bool) []kv {
	r := g.c.Rng
	var l []kv
	seen := map[int64]bool{}
	wrapped := map[int32]bool{}
	n := r.Intn(ncols + 2)
	for i := 0; i < n; i++ {
		k := int64(r.Intn(ncols + 1))
		switch r.Intn(10) {
		case 0:
			k = 1<<31 - 1
		case 1:
			k = -int64(1 + r.Intn(3))
		case 2:
			if big {
				k = []int64{1 << 31, 1<<32 + 1, -(1 << 31) - 2}[r.Intn(3)]
			}
		}
		if seen[k] || wrapped[int32(k)] {
			continue
		}
		seen[k], wrapped[int32(k)] = true, true
		v := int64(1 + r.Intn(40))
		switch r.Intn(8) {
		case 0:
			v = 0
		case 1:
			v = []int64{1<<63 - 1, -(1 << 63), 1 << 32, -7}[r.Intn(4)]
		}
		l = append(l, kv{k, v})
	}
	sort.Slice(l, func(i, j int) bool { return l[i].k < l[j].k })
	return l
}

// loaded=true: reversedPeopleDict also names the pseudo-developer (people dictionary read from a file)
func (g *gen) couples(big bool, loaded bool) *cpRes {
	r := g.c.Rng
	nf := r.Intn(6)
	np := r.Intn(4)
	res := &cpRes{files: g.names(nf), names: g.names(np)}
	if loaded {
		res.names = append(res.names, "<unmatched>")
	}
	for i := 0; i < nf; i++ {
		res.fl = append(res.fl, g.i32ish(big))
		res.fm = append(res.fm, g.kvRow(nf, big))
	}
	if r.Intn(6) == 0 { // the matrix need not have one row per file for the codec
		res.fm = append(res.fm, g.kvRow(nf, big))
	}
	for i := 0; i < np+1; i++ {
		res.pm = append(res.pm, g.kvRow(np+1, big))
		var fs []int64
		for j := 0; j < nf; j++ {
			if r.Intn(2) == 0 {
				fs = append(fs, int64(j))
			}
		}
		if r.Intn(8) == 0 {
			fs = append(fs, g.i32ish(big))
		}
		res.pf = append(res.pf, fs)
	}
	return res
}

func (g *gen) couplesMalformed() *cpRes {
	r := g.c.Rng
	res := g.couples(false, r.Intn(2) == 0)
	switch r.Intn(3) {
	case 0:
		res.fl = append(res.fl, 1)
	case 1:
		res.names = append(res.names, "x", "y")
	case 2:
		if len(res.fl) > 0 {
			res.fl = res.fl[1:]
		}
	}
	return res
}

// all matrices rows x cols over the given cell values
func allMatrices(rows, cols int, vals []int64, f func(mat)) {
	n := rows * cols
	idx := make([]int, n)
	for {
		m := make(mat, rows)
		for i := range m {
			m[i] = make([]int64, cols)
			for j := range m[i] {
				m[i][j] = vals[idx[i*cols+j]]
			}
		}
		f(m)
		k := 0
		for k < n {
			idx[k]++
			if idx[k] < len(vals) {
				break
			}
			idx[k] = 0
			k++
		}
		if k == n {
			return
		}
	}
}

func main() {
	c := Setup()
	defer c.Close()
	if c.Replay != "" {
		for _, cs := range c.ReplayCases() {
			f, _ := cs.Field("res")
			v := f.Args()[0]
			// the generator kind is kept: the two known deviations are recognised in their own streams only
			kind := "replay"
			if k, ok := cs.Field("kind"); ok && len(k.Args()) == 1 {
				kind = k.Args()[0].Atom
			}
			switch v.Tag() {
			case "burndown":
				emitBd(c, kind, bdOf(v))
			case "devs":
				emitDv(c, kind, dvOf(v))
			case "couples":
				emitCp(c, kind, cpOf(v))
			case "matrix":
				emitMx(c, kind, matOf(must(v, "m").Args()[0]), must(v, "fix").Args()[0].Int() != 0)
			}
		}
		return
	}
	g := &gen{c}
	// exhaustive small scopes: the three converters and the printer on every small matrix ...
	cells := []int64{-1, 0, 1, 1<<32 - 1}
	for rows := 1; rows <= 2; rows++ {
		for cols := 0; cols <= 3; cols++ {
			if rows == 2 && cols == 3 && !c.Thorough() {
				continue
			}
			allMatrices(rows, cols, cells, func(m mat) { emitMx(c, "ex-matrix", m, (len(m)+len(m[0]))%2 == 0) })
		}
	}
	// ... and whole burndown results around every small global matrix / people matrix
	for rows := 1; rows <= 2; rows++ {
		for cols := 0; cols <= 2; cols++ {
			allMatrices(rows, cols, cells, func(m mat) {
				emitBd(c, "ex-global", &bdRes{global: m, pmNil: true, tick: int64(24 * time.Hour), samp: 30, gran: 30})
			})
		}
	}
	allMatrices(1, 3, []int64{-1, 0, 1}, func(m mat) {
		emitBd(c, "ex-people", &bdRes{global: mat{{1}}, people: []mat{{{1}}}, names: []string{"dev"}, pm: m, tick: 1, samp: 1, gran: 1})
	})
	if c.Thorough() {
		allMatrices(2, 4, []int64{-1, 0, 1}, func(m mat) {
			emitBd(c, "ex-people", &bdRes{global: mat{{1}}, people: []mat{{{1}}, {{0}}}, names: []string{"dev", ""}, pm: m, tick: 1, samp: 1, gran: 1})
		})
	} else {
		allMatrices(2, 4, []int64{0, 1}, func(m mat) {
			emitBd(c, "ex-people", &bdRes{global: mat{{1}}, people: []mat{{{1}}, {{0}}}, names: []string{"dev", ""}, pm: m, tick: 1, samp: 1, gran: 1})
		})
	}
	scaleFamily(c, g)
	contentFamily(c, g)
	finalized(c, c.Count(150, 3000))
	for i := c.Count(10000, 60000); i > 0; i-- {
		emitBd(c, "bd", g.burndown(false))
	}
	for i := c.Count(1500, 10000); i > 0; i-- {
		emitBd(c, "bd-out", g.burndown(true))
	}
	for i := c.Count(1500, 10000); i > 0; i-- {
		emitBd(c, "bd-malformed", g.burndownMalformed())
	}
	// C17_SKIP_FINDINGS=1 leaves out the two streams below (used while testing mutants, so that the two open
	// findings about the unchanged code do not hide what a mutant breaks)
	skipFindings := os.Getenv("C17_SKIP_FINDINGS") == "1"
	// results as BurndownAnalysis.Finalize makes them with a people dictionary read from a file: the list of
	// names ends with the pseudo-developer "<unmatched>" and is one longer than PeopleHistories
	for i := c.Count(300, 2000); i > 0 && !skipFindings; i-- {
		r := g.burndown(false)
		r.names = append(r.names, "<unmatched>")
		emitBd(c, "bd-loaded-dict", r)
	}
	// ... and hand-made results with a file history that has no ownership table (BurndownAnalysis.Finalize
	// made such results for a file living on another head only, until the repair 909b314)
	for i := c.Count(300, 2000); i > 0 && !skipFindings; i-- {
		r := g.burndown(false)
		if len(r.own) > 0 {
			k := c.Rng.Intn(len(r.own))
			r.own = append(r.own[:k:k], r.own[k+1:]...)
		}
		emitBd(c, "bd-no-ownership", r)
	}
	for i := c.Count(10000, 60000); i > 0; i-- {
		emitDv(c, "dv", g.devs(false))
	}
	for i := c.Count(1500, 10000); i > 0; i-- {
		emitDv(c, "dv-out", g.devs(true))
	}
	for i := c.Count(8000, 50000); i > 0; i-- {
		emitCp(c, "cp", g.couples(false, false))
	}
	for i := c.Count(2000, 10000); i > 0; i-- {
		emitCp(c, "cp-loaded-dict", g.couples(false, true))
	}
	for i := c.Count(1500, 10000); i > 0; i-- {
		emitCp(c, "cp-out", g.couples(true, c.Rng.Intn(2) == 0))
	}
	for i := c.Count(800, 5000); i > 0; i-- {
		emitCp(c, "cp-malformed", g.couplesMalformed())
	}
}
