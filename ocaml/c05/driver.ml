(* C05: replay the harness trace through the extracted Gallina model of rbtree.go.
   Per operation:
   - fine correspondence (MISMATCH): result of the model = result of the implementation, and the arena
     image of every model tree (to_arena: header + every cell incl. the derived parent link) = the
     snapshot of the real arena; all other cells are zero; gaps = the complement of the live indexes;
   - property oracle (PROPFAIL), on the implementation's own outputs: every answer equals the answer of
     the sorted-map specification (Spec.v, driven only by the inputs and the node indexes the
     implementation returned); the snapshot read from each real root is a red-black search tree with
     consistent parent links / min / max / count and holds exactly the specification's entries under
     the same indexes; every live iterator still shows the key and value of its element. *)
open C05_model
open Conv

let nl = 4294967295
let zero_cell = [| 0; 0; 0; 0; 0; 0 |]

type snap = {
  mutable sz : int;
  mutable cells : int array array;
  mutable gaps : int list;
  mutable hdr : int array array;   (* per tree: root min max count *)
}

let cell_at (s : snap) (i : int) : int array =
  if i >= 0 && i < Array.length s.cells then s.cells.(i) else zero_cell

let set_cell (s : snap) (i : int) (c : int array) =
  if i < 0 || i > 10_000_000 then failwith "cell index";
  if i >= Array.length s.cells then begin
    let n = Array.make (max (2 * Array.length s.cells) (i + 1)) zero_cell in
    Array.blit s.cells 0 n 0 (Array.length s.cells);
    s.cells <- n
  end;
  s.cells.(i) <- c

let coq_cell (c : int array) : cell =
  { ckey = z_of_int c.(0); cval = z_of_int c.(1); cparent = z_of_int c.(2); cleft = z_of_int c.(3);
    cright = z_of_int c.(4); cblack = c.(5) <> 0 }

let show_cell (c : int array) =
  Printf.sprintf "{key=%d val=%d parent=%d left=%d right=%d %s}" c.(0) c.(1) c.(2) c.(3) c.(4)
    (if c.(5) <> 0 then "black" else "red")

let ints_of_cell (c : cell) : int array =
  [| int_of_z c.ckey; int_of_z c.cval; int_of_z c.cparent; int_of_z c.cleft; int_of_z c.cright;
     (if c.cblack then 1 else 0) |]

let show_entries l =
  "[" ^ String.concat ";" (List.map (fun ((i, k), v) ->
    Printf.sprintf "%d:%d=%d" (int_of_z i) (int_of_z k) (int_of_z v)) l) ^ "]"

exception Stop

let () =
  iter_cases (fun id c ->
    let ntrees = int_of_sx (List.hd (args (field "ntrees" c))) in
    let ops = args (field "ops" c) and obs = args (field "obs" c) in
    let st = ref (init (nat_of_int ntrees)) in
    let spec = Array.make ntrees [] in
    let sn = { sz = 0; cells = Array.make 64 zero_cell; gaps = []; hdr = Array.init ntrees (fun _ -> [| 0; 0; 0; 0 |]) } in
    let regs = Array.make 8 None in     (* register -> (tree, node) as the driver believes *)
    let all_spec_ids () = List.concat_map (fun l -> List.map (fun ((i, _), _) -> int_of_z i) l) (Array.to_list spec) in
    let nops = List.length ops in
    (* after the first finding of a case the states are out of step: report it and stop the case *)
    let found = ref false in
    let propfail id m = found := true; propfail id m in
    let mismatch id m = found := true; mismatch id m in
    let obs_a = Array.of_list obs in
    (try
      List.iteri (fun i o ->
        if i >= Array.length obs_a then begin
          (* the harness stopped the case early *)
          raise Stop
        end;
        let ob = obs_a.(i) in
        let here = Printf.sprintf "op#%d/%d %s" i nops (string_of_sx o) in
        let r = List.hd (args ob) in
        (match tag r with
         | "panic" ->
             propfail id (here ^ " the operation panicked inside the tree code");
             raise Stop
         | "hang" ->
             propfail id (here ^ " an operation of this case does not terminate");
             raise Stop
         | _ -> ());
        (* ---- update the snapshot ---- *)
        sn.sz <- int_of_sx (List.hd (args (field "sz" ob)));
        List.iter (fun cl ->
          match ints_of_sx cl with
          | [ci; k; v; p; l; rr; col] -> set_cell sn ci [| k; v; p; l; rr; col |]
          | _ -> failwith "cell") (args (field "d" ob));
        (match field_opt "g" ob with Some g -> sn.gaps <- List.map int_of_sx (args g) | None -> ());
        List.iter (fun h -> if tag h = "h" then
          (match List.map int_of_sx (args h) with
           | [t; a; b; cc; d] -> sn.hdr.(t) <- [| a; b; cc; d |]
           | _ -> failwith "hdr")) (args ob);
        let a = args o in
        let ai k = int_of_sx (List.nth a k) in
        let z k = z_of_int (ai k) in
        let skip = tag r = "skip" in
        let rarg k = List.nth (args r) k in
        (* ---- the model operation (node indexes taken from the observation) and the specification ---- *)
        let tn t = nat_of_int t in
        let it_answer what t got expect =
          if got <> int_of_z expect then
            propfail id (Printf.sprintf "%s %s on tree %d answers node %d but the sorted map says %d; map=%s" here what t got (int_of_z expect) (show_entries spec.(t))) in
        let model_op : op option =
          if skip then None else
          match tag o with
          | "ins" ->
              let t = ai 0 in
              let ok = bool_of_sx (rarg 0) and nid = int_of_sx (rarg 1) in
              let expect = not (s_mem (z 1) spec.(t)) in
              if ok <> expect then
                propfail id (Printf.sprintf "%s Insert returns %b but the key is %s; map=%s" here ok (if expect then "absent" else "present") (show_entries spec.(t)))
              else if ok then begin
                if nid = 0 || nid = nl || List.mem nid (all_spec_ids ()) then
                  propfail id (Printf.sprintf "%s Insert returns an iterator to node %d, which is in use or reserved" here nid);
                spec.(t) <- s_insert (z_of_int nid) (z 1) (z 2) spec.(t);
                if ai 3 >= 0 then regs.(ai 3) <- Some (t, nid)
              end else if nid <> 0 then
                propfail id (Printf.sprintf "%s Insert of an existing key returns node %d instead of the empty iterator" here nid);
              Some (OInsert (tn t, z 1, z 2, z_of_int nid))
          | "delk" ->
              let t = ai 0 in
              let ok = bool_of_sx (rarg 0) in
              let expect = s_mem (z 1) spec.(t) in
              if ok <> expect then
                propfail id (Printf.sprintf "%s DeleteWithKey returns %b but the key is %s; map=%s" here ok (if expect then "present" else "absent") (show_entries spec.(t)));
              spec.(t) <- s_delete (z 1) spec.(t);
              Some (ODeleteKey (tn t, z 1))
          | "deli" ->
              let t = int_of_sx (rarg 0) and n = int_of_sx (rarg 1) in
              let panicked = List.length (args r) > 2 in
              if panicked then begin
                if atom (rarg 2) = "nopanic" then
                  propfail id (here ^ " DeleteWithIterator on Limit/NegativeLimit does not fail its assertion")
              end else begin
                match s_item (z_of_int n) spec.(t) with
                | Some (k, _) -> spec.(t) <- s_delete k spec.(t)
                | None -> propfail id (Printf.sprintf "%s the iterator of register %d points at node %d, which is not an element of the map %s" here (ai 0) n (show_entries spec.(t)))
              end;
              Some (ODeleteIt (tn t, z_of_int n))
          | "fge" ->
              let t = ai 0 in let got = int_of_sx (rarg 0) in
              it_answer "FindGE" t got (pos_fwd (s_find_ge (z 1) spec.(t)));
              regs.(ai 2) <- Some (t, got);
              Some (OFindGE (tn t, z 1))
          | "fle" ->
              let t = ai 0 in let got = int_of_sx (rarg 0) in
              it_answer "FindLE" t got (pos_bwd (s_find_le (z 1) spec.(t)));
              regs.(ai 2) <- Some (t, got);
              Some (OFindLE (tn t, z 1))
          | "min" ->
              let t = ai 0 in let got = int_of_sx (rarg 0) in
              it_answer "Min" t got (pos_fwd (s_min spec.(t)));
              regs.(ai 1) <- Some (t, got);
              Some (OMin (tn t))
          | "max" ->
              let t = ai 0 in let got = int_of_sx (rarg 0) in
              it_answer "Max" t got (pos_bwd (s_max spec.(t)));
              regs.(ai 1) <- Some (t, got);
              Some (OMax (tn t))
          | "next" | "prev" ->
              let t = int_of_sx (rarg 0) and before = int_of_sx (rarg 1) in
              (match regs.(ai 0) with
               | Some (t', b') when t' = t && b' = before -> ()
               | _ -> mismatch id (here ^ " the register does not hold the position the previous operations put there"));
              let panicked = (match rarg 2 with A "panic" -> true | _ -> false) in
              let fwd = tag o = "next" in
              let must_panic = if fwd then before = 0 else before = nl in
              if panicked <> must_panic then
                propfail id (Printf.sprintf "%s from position %d: %s" here before (if panicked then "panics" else "the REQUIRES assertion does not fire"))
              else if not panicked then begin
                let got = int_of_sx (rarg 2) in
                let expect =
                  if fwd then (if before = nl then Some (pos_fwd (s_min spec.(t)))
                               else (match s_next (z_of_int before) spec.(t) with Some e -> Some (pos_fwd e) | None -> None))
                  else (if before = 0 then Some (pos_bwd (s_max spec.(t)))
                        else (match s_prev (z_of_int before) spec.(t) with Some e -> Some (pos_bwd e) | None -> None)) in
                (match expect with
                 | Some e -> it_answer (if fwd then "Next" else "Prev") t got e
                 | None -> propfail id (Printf.sprintf "%s the iterator points at node %d, which is not an element of the map %s" here before (show_entries spec.(t))));
                regs.(ai 0) <- Some (t, got)
              end;
              Some (if fwd then ONext (tn t, z_of_int before) else OPrev (tn t, z_of_int before))
          | "get" ->
              let t = ai 0 in
              let got = (match args r with [] -> None | v :: _ -> Some (int_of_sx v)) in
              let expect = (match s_get (z 1) spec.(t) with Some v -> Some (int_of_z v) | None -> None) in
              if got <> expect then propfail id (Printf.sprintf "%s Get differs from the sorted map %s" here (show_entries spec.(t)));
              Some (OGet (tn t, z 1))
          | "len" ->
              let t = ai 0 in
              if int_of_sx (rarg 0) <> List.length spec.(t) then
                propfail id (Printf.sprintf "%s Len=%d but the map has %d entries" here (int_of_sx (rarg 0)) (List.length spec.(t)));
              Some (OLen (tn t))
          | "erase" -> spec.(ai 0) <- []; Some (OErase (tn (ai 0)))
          | "clone" ->
              let s = ai 0 and d = ai 1 in
              let nids = List.map int_of_sx (args r) in
              let used = all_spec_ids () in
              if List.length nids <> List.length spec.(s) then
                propfail id (Printf.sprintf "%s the clone has %d elements, the original %d" here (List.length nids) (List.length spec.(s)))
              else begin
                if List.exists (fun n -> n = 0 || n = nl || List.mem n used) nids || List.length (List.sort_uniq compare nids) <> List.length nids then
                  propfail id (here ^ " the clone uses nodes that are in use");
                spec.(d) <- List.map2 (fun n ((_, k), v) -> ((z_of_int n, k), v)) nids spec.(s)
              end;
              Some (OClone (tn s, tn d, List.map z_of_int nids))
          | t -> failwith ("unknown op " ^ t) in
        (match model_op with
         | None -> count "ops_skipped"
         | Some mo ->
             count ("op_" ^ tag o);
             let (st', res) = step !st mo in
             st := st';
             let bad what = mismatch id (Printf.sprintf "%s result: model %s, implementation %s" here what (string_of_sx r)) in
             (match res, tag r with
              | RIns (ok, n), "ins" -> if ok <> bool_of_sx (rarg 0) || int_of_z n <> int_of_sx (rarg 1) then bad (Printf.sprintf "(ins %b %d)" ok (int_of_z n))
              | RBool b, "b" -> if b <> bool_of_sx (rarg 0) then bad (Printf.sprintf "(b %b)" b)
              | RUnit, ("deli" | "u" | "clone") -> if tag r = "deli" && List.length (args r) > 2 then bad "no panic"
              | RPanic, "deli" -> if List.length (args r) <= 2 || atom (rarg 2) <> "panic" then bad "panic"
              | RPanic, "mv" -> if (match rarg 2 with A "panic" -> false | _ -> true) then bad "panic"
              | RIt n, "it" -> if int_of_z n <> int_of_sx (rarg 0) then bad (Printf.sprintf "(it %d)" (int_of_z n))
              | RIt n, "mv" -> if (match rarg 2 with A "panic" -> true | x -> int_of_z n <> int_of_sx x) then bad (Printf.sprintf "(mv -> %d)" (int_of_z n))
              | RVal v, "val" ->
                  let got = (match args r with [] -> None | v :: _ -> Some (int_of_sx v)) in
                  if got <> (match v with Some v -> Some (int_of_z v) | None -> None) then bad "other value"
              | RLen n, "len" -> if int_of_z n <> int_of_sx (rarg 0) then bad (Printf.sprintf "(len %d)" (int_of_z n))
              | RUnspec, _ -> bad "outside its domain (unspecified)"
              | _ -> bad "of another kind"));
        (* ---- fine correspondence: arena image of the model = snapshot ---- *)
        let total = ref 0 in
        let lv = ref [] in
        for t = 0 to ntrees - 1 do
          let (h, cl) = to_arena (get_tree !st (nat_of_int t)) in
          let mh = [| int_of_z h.hroot; int_of_z h.hmin; int_of_z h.hmax; int_of_z h.hcount |] in
          if mh <> sn.hdr.(t) then
            mismatch id (Printf.sprintf "%s header of tree %d: model root=%d min=%d max=%d count=%d, implementation root=%d min=%d max=%d count=%d"
              here t mh.(0) mh.(1) mh.(2) mh.(3) sn.hdr.(t).(0) sn.hdr.(t).(1) sn.hdr.(t).(2) sn.hdr.(t).(3));
          List.iter (fun (ci, cc) ->
            incr total;
            let ci = int_of_z ci in
            lv := ci :: !lv;
            let m = ints_of_cell cc in
            if m <> cell_at sn ci then
              mismatch id (Printf.sprintf "%s cell %d of tree %d: model %s, implementation %s" here ci t (show_cell m) (show_cell (cell_at sn ci)))) cl
        done;
        if int_of_z !st.asize <> sn.sz then mismatch id (Printf.sprintf "%s len(storage): model %d, implementation %d" here (int_of_z !st.asize) sn.sz);
        let nonzero = ref 0 in
        for ci = 0 to min (Array.length sn.cells) sn.sz - 1 do if sn.cells.(ci) <> zero_cell then incr nonzero done;
        if !nonzero <> !total then mismatch id (Printf.sprintf "%s %d cells of the arena are in use, the model trees have %d nodes" here !nonzero !total);
        let expect_gaps = List.filter (fun ci -> not (List.mem ci !lv)) (List.init (max 0 (sn.sz - 1)) (fun x -> x + 1)) in
        if expect_gaps <> sn.gaps then mismatch id (here ^ " the gaps are not the complement of the live nodes");
        (* ---- property oracle on the snapshot of the implementation ---- *)
        let arena = (fun zi -> coq_cell (cell_at sn (int_of_z zi))) in
        for t = 0 to ntrees - 1 do
          let hd = sn.hdr.(t) in
          let h = { hroot = z_of_int hd.(0); hmin = z_of_int hd.(1); hmax = z_of_int hd.(2); hcount = z_of_int hd.(3) } in
          if hd.(3) < 0 then propfail id (Printf.sprintf "%s count of tree %d is negative" here t)
          else begin
            if not (snapshot_map_okb arena h spec.(t)) then
              propfail id (Printf.sprintf "%s tree %d holds %s (node:key=value in link order) but the sorted map is %s" here t
                (show_entries (elems (arena_tree arena h))) (show_entries spec.(t)))
            else if not (snapshot_rb_okb arena h) then
              propfail id (Printf.sprintf "%s tree %d is not a red-black search tree (black root, no red-red, equal black height, sorted): %s" here t
                (show_entries (elems (arena_tree arena h))))
            else if not (links_okb arena h) then
              propfail id (Printf.sprintf "%s tree %d: parent links or root/minNode/maxNode/count (%d/%d/%d/%d) are not what the left/right links determine" here t hd.(0) hd.(1) hd.(2) hd.(3))
            else if not (height_okb (arena_tree arena h)) then
              propfail id (Printf.sprintf "%s tree %d is deeper than 2*log2(size+1)" here t)
          end
        done;
        (* iterator stability: what the live iterators show through Item() *)
        List.iter (fun x ->
          match ints_of_sx x with
          | [rr; t; n; k; v] ->
              count "iterator_items";
              (match s_item (z_of_int n) spec.(t) with
               | Some (k', v') when int_of_z k' = k && int_of_z v' = v -> ()
               | Some (k', v') -> propfail id (Printf.sprintf "%s the iterator in register %d (node %d) shows %d=%d, its element is %d=%d" here rr n k v (int_of_z k') (int_of_z v'))
               | None -> propfail id (Printf.sprintf "%s the iterator in register %d points at node %d which is no element of tree %d" here rr n t))
          | _ -> failwith "rg") (args (field "rg" ob));
        count "ops";
        if !found then raise Stop) ops
    with Stop -> ());
    count (Printf.sprintf "ntrees_%d" ntrees))
