CONFIG = dict(
        level='proof',
        streams=[dict(harness='c18', driver='c18')],
        rule='TODO',
    )
