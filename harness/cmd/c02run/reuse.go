// Object lifecycle and re-use (kinds reuse-*): ONE hercules.Pipeline object and the SAME two recording item
// instances analyse several commit selections of one repository, one after the other.  Every run is judged by the
// driver exactly like a run of a fresh pipeline: the Consume log of each item against the history restricted to the
// commits handed to THAT run (a parent outside the selection is a dangling edge, as in the plan stream).  What a
// Pipeline (or an item, or a package variable) keeps from an earlier run - a memoised plan, a cached rootClone, a
// table keyed by something coarser than the commit list - shows as a commit of the earlier selection that is consumed
// again, as a commit of the new selection that is never consumed, or as an instance that starts a root with a
// non-empty state.
//
// A case line:  (n N) (salt s) (tmode t) (order ..) (edges ..)            the repository (all N commits)
//
//	(sels (sel mode opts dist c1 c2 ..) ..)                    the runs, in order
//	(obs (ranks ..) (runs (run status (log0 ..) (log1 ..)) ..))
//
// c1 c2 .. = the commit slice handed to Run (numbers of the repository graph, in slice order); mode says how the
// object is prepared for the run:
//
//	0  Pipeline.Initialize(facts) with the new commit list, DumpPlan / PrintActions / distance set explicitly (the
//	   first run of a case is always mode 0)
//	1  no Initialize: the harness resets the state of the two ORIGINAL item instances by hand and calls Run again
//	   (what the tests of internal/core do: Run(commits) several times on one initialised pipeline); options and
//	   distance stay those of the previous run
//	2  as 0, but the new selection is written into the backing array of the previous run's slice when it fits (a
//	   caller that re-uses its []*object.Commit buffer: same slice header, other contents)
//	3  Initialize is called twice in a row, then Run (re-initialisation must be idempotent)
//
// mode + 10: error path - the run is prepared as by mode, and the providing item fails at its ceil(len/2)-th Consume
// call, so that Run aborts half way (fail -> re-use: the aborted run itself is not judged, the runs after it are)
//
// The pipelines of this harness hold recording items only.  The stock item TreeDiff cannot be re-run on one
// Pipeline in the unmodified tree at all (TreeDiff.Initialize does not clear previousCommit, so the first commit of
// the second run fails its parent test): that is outside what these pipelines exercise.
package main

import (
	"fmt"
	"runtime/debug"
	"sort"
	"sync"
	"time"

	"gopkg.in/src-d/go-git.v4/plumbing"
	"gopkg.in/src-d/go-git.v4/plumbing/object"
	hercules "gopkg.in/src-d/hercules.v10"
	. "verifharness/lib"
	pl "verifharness/planlib"
	"verifharness/synth"
)

type selRun struct {
	Mode, Opts, Dist int
	Sel              []int
}

func (r selRun) fails() bool { return r.Mode >= 10 }

type reuseIn struct {
	Kind  string
	G     pl.Graph
	Salt  int
	TMode int
	Runs  []selRun
}

func runReuse(in reuseIn) []Sx {
	g := in.G
	repo, byNum := build(caseIn{G: g, Salt: in.Salt, TMode: in.TMode})
	sh := &shared{id: map[plumbing.Hash]int{}}
	for i, c := range byNum {
		sh.id[c.Hash] = i
	}
	idx := pl.Identity(g.N)
	sort.Slice(idx, func(a, b int) bool { return byNum[idx[a]].Hash.String() < byNum[idx[b]].Hash.String() })
	ranks := make([]int, g.N)
	for r, i := range idx {
		ranks[i] = r
	}
	pipeline := hercules.NewPipeline(repo)
	manual, cp := &recManual{sh: sh}, &recCopy{sh: sh}
	pipeline.AddItem(manual)
	pipeline.AddItem(cp)
	var prev []*object.Commit
	curOpts, curDist := 0, 0
	var runs, sels []Sx
	for k, r := range in.Runs {
		mode := r.Mode % 10
		if k == 0 && mode == 1 {
			mode = 0
		}
		var sel []int
		for _, c := range r.Sel {
			if c >= 0 && c < g.N {
				sel = append(sel, c)
			}
		}
		if len(sel) == 0 {
			continue
		}
		var commits []*object.Commit
		if mode%10 == 2 && prev != nil && cap(prev) >= len(sel) {
			commits = prev[:len(sel)]
		} else {
			commits = make([]*object.Commit, len(sel))
		}
		for i, c := range sel {
			commits[i] = byNum[c]
		}
		prev = commits
		sh.logs = [2][]Sx{}
		sh.calls, sh.failAt = 0, 0
		if r.fails() {
			sh.failAt = (len(sel) + 1) / 2
			mode += 10
		}
		status := "ok"
		var err error
		_, panicked := Catch(func() {
			if mode%10 == 1 {
				manual.st, cp.st = recState{last: -1}, recState{last: -1}
			} else {
				curOpts, curDist = r.Opts, r.Dist
				facts := map[string]interface{}{
					hercules.ConfigPipelineCommits: commits,
					factHibernationDistance:        r.Dist,
					hercules.ConfigLogger:          nopLogger{},
					factDumpPlan:                   r.Opts&optDumpPlan != 0,
					factPrintActions:               r.Opts&optPrintActions != 0,
				}
				if err = pipeline.Initialize(facts); err == nil && mode%10 == 3 {
					err = pipeline.Initialize(facts)
				}
				if err != nil {
					status = "initfail"
					return
				}
				debug.SetGCPercent(400)
				if pipeline.HibernationDistance != r.Dist || pipeline.DumpPlan != (r.Opts&optDumpPlan != 0) ||
					pipeline.PrintActions != (r.Opts&optPrintActions != 0) {
					status = "nodist"
					return
				}
			}
			_, err = pipeline.Run(commits)
		})
		if panicked {
			status = "panic"
		} else if err != nil && status == "ok" {
			status = "err"
		}
		sels = append(sels, T("sel", append([]Sx{I(mode), I(curOpts), I(curDist)}, Ints(sel).List...)...))
		runs = append(runs, T("run", A(status), T("log0", sh.logs[0]...), T("log1", sh.logs[1]...)))
	}
	fs := []Sx{T("kind", A(in.Kind)), T("nt", B(g.NonTrivial())), T("n", I(g.N)), T("salt", I(in.Salt)),
		T("tmode", I(in.TMode)), T("order", Ints(pl.Identity(g.N)).List...)}
	es := make([]Sx, len(g.Edges))
	for i, e := range g.Edges {
		es[i] = L(I(e[0]), I(e[1]))
	}
	fs = append(fs, T("edges", es...), T("sels", sels...))
	return append(fs, T("obs", T("ranks", Ints(ranks).List...), T("runs", runs...)))
}

func parseReuse(cs Sx) (reuseIn, bool) {
	f, ok := cs.Field("sels")
	if !ok {
		return reuseIn{}, false
	}
	in := reuseIn{Kind: "replay", G: pl.ParseGraph(cs)}
	if k, ok := cs.Field("kind"); ok {
		in.Kind = k.Args()[0].Atom
	}
	if x, ok := cs.Field("salt"); ok {
		in.Salt = x.Args()[0].Int()
	}
	if x, ok := cs.Field("tmode"); ok {
		in.TMode = x.Args()[0].Int()
	}
	for _, s := range f.Args() {
		a := s.Args()
		if len(a) < 3 {
			continue
		}
		r := selRun{Mode: a[0].Int(), Opts: a[1].Int(), Dist: a[2].Int()}
		for _, x := range a[3:] {
			r.Sel = append(r.Sel, x.Int())
		}
		in.Runs = append(in.Runs, r)
	}
	return in, in.G.N >= 1 && len(in.Runs) > 0
}

func runAllReuse(c *Config, ins []reuseIn, workers int) {
	out := make([][]Sx, len(ins))
	var wg sync.WaitGroup
	next := make(chan int, len(ins))
	for i := range ins {
		next <- i
	}
	close(next)
	for w := 0; w < workers; w++ {
		wg.Add(1)
		go func() {
			defer wg.Done()
			for i := range next {
				out[i] = runReuse(ins[i])
			}
		}()
	}
	wg.Wait()
	for _, fs := range out {
		c.Emit(fs...)
	}
}

// ---------------------------------------------------------------------------------------------
// generators of run sequences

// inOrder returns the members of set in the slice order of the repository (order = a permutation of 0..n-1).
func inOrder(order []int, set map[int]bool) []int {
	var r []int
	for _, c := range order {
		if set[c] {
			r = append(r, c)
		}
	}
	return r
}

func ancestorsOf(ps [][]int, heads ...int) map[int]bool {
	s := map[int]bool{}
	var walk func(c int)
	walk = func(c int) {
		if s[c] {
			return
		}
		s[c] = true
		for _, p := range ps[c] {
			if p >= 0 {
				walk(p)
			}
		}
	}
	for _, h := range heads {
		walk(h)
	}
	return s
}

func setOf(xs ...int) map[int]bool {
	s := map[int]bool{}
	for _, x := range xs {
		s[x] = true
	}
	return s
}

func allOf(n int) map[int]bool {
	s := map[int]bool{}
	for i := 0; i < n; i++ {
		s[i] = true
	}
	return s
}

// prep draws how the object is prepared for a run: mostly plain re-initialisation with the dump / trace off (a dump
// forces a fresh plan in more than one plausible cache), the distance of the case unless it is re-drawn
func prep(r rnd, k, dist int) (mode, opts, d int) {
	mode = []int{0, 0, 0, 1, 1, 2, 2, 3}[r.Intn(8)]
	if k == 0 && mode == 1 {
		mode = 0
	}
	switch r.Intn(8) {
	case 0:
		opts = optDumpPlan
	case 1:
		opts = optPrintActions
	case 2:
		opts = optDumpPlan | optPrintActions
	}
	d = dist
	if r.Intn(6) == 0 {
		d = r.Intn(4)
	}
	return
}

func mkRuns(r rnd, order []int, sets []map[int]bool, dist int) []selRun {
	var runs []selRun
	for k, s := range sets {
		sel := inOrder(order, s)
		if len(sel) == 0 {
			continue
		}
		m, o, d := prep(r, k, dist)
		// now and then a run that is made to fail half way is put in front of this one
		if r.Intn(10) == 0 {
			runs = append(runs, selRun{Mode: 10 + m, Opts: o, Dist: d, Sel: sel})
			m, o, d = prep(r, k+1, dist)
		}
		runs = append(runs, selRun{Mode: m, Opts: o, Dist: d, Sel: sel})
	}
	return runs
}

// sidesGraph: a trunk of t commits, k arms of equal length between the last trunk commit and a merge commit, a tail.
// Returns the parent lists, the arms and the commits common to every side.
func sidesGraph(r rnd, k, armLen, trunk, tail int) (parents [][]int, arms [][]int, common []int) {
	add := func(ps ...int) int {
		parents = append(parents, append([]int{}, ps...))
		return len(parents) - 1
	}
	c := add()
	common = append(common, c)
	for i := 1; i < trunk; i++ {
		c = add(c)
		common = append(common, c)
	}
	base := c
	var tips []int
	for a := 0; a < k; a++ {
		tip := base
		var arm []int
		for j := 0; j < armLen; j++ {
			// now and then an arm commit also merges the previous commit of the neighbouring arm
			if a > 0 && j > 0 && r.Intn(5) == 0 {
				tip = add(tip, arms[a-1][j-1])
			} else {
				tip = add(tip)
			}
			arm = append(arm, tip)
		}
		arms = append(arms, arm)
		tips = append(tips, tip)
	}
	m := add(tips...)
	common = append(common, m)
	for j := 0; j < tail; j++ {
		m = add(m)
		common = append(common, m)
	}
	return
}

// interleave renumbers the commits along a random topological order (so that the arms are not contiguous number
// ranges) and returns the graph and the old -> new table.
func interleave(r rnd, parents [][]int) (pl.Graph, []int) {
	num := randomTopo(r, parents)
	n := len(parents)
	inv := make([]int, n)
	for old, nw := range num {
		inv[nw] = old
	}
	g := pl.Graph{N: n, Ranks: pl.Identity(n), Order: pl.Identity(n)}
	for nw := 0; nw < n; nw++ {
		for _, p := range parents[inv[nw]] {
			if p >= 0 {
				g.Edges = append(g.Edges, [2]int{nw, num[p]})
			} else {
				g.Edges = append(g.Edges, [2]int{nw, p})
			}
		}
	}
	return g, num
}

func genSides(r rnd) reuseIn {
	k, armLen := 2+r.Intn(2), 1+r.Intn(3)
	parents, arms, common := sidesGraph(r, k, armLen, 1+r.Intn(2), r.Intn(3))
	g, num := interleave(r, parents)
	side := func(as ...int) map[int]bool {
		s := map[int]bool{}
		for _, c := range common {
			s[num[c]] = true
		}
		for _, a := range as {
			for _, c := range arms[a] {
				s[num[c]] = true
			}
		}
		return s
	}
	var sets []map[int]bool
	p := r.Perm(k)
	for _, a := range p {
		sets = append(sets, side(a))
	}
	switch r.Intn(4) {
	case 0:
		sets = append(sets, allOf(g.N), side(p[0]))
	case 1:
		sets = append([]map[int]bool{allOf(g.N)}, sets...)
	case 2:
		sets = append(sets, side(p[0]), side(p[0], p[1]), side(p[k-1], p[0]))
	}
	order := randOrder(r, g.N)
	// the fingerprints that matter compare the ends of the SLICE: keep the first and the last commit of the slice common
	// to every side (the root and the last tail commit) in two thirds of the cases
	if r.Intn(3) != 0 {
		order = pl.Identity(g.N)
	}
	return reuseIn{Kind: "reuse-sides", G: g, Salt: r.Intn(1 << 20), TMode: tm(r), Runs: mkRuns(r, order, sets, r.Intn(4))}
}

// tm draws a timestamp mode (main.go, caseIn.TMode): growing dates in half of the cases, else one of planlib.TimesFor / extraTimes;
// zone offsets, author date != committer date and odd names in a third
func tm(r rnd) int {
	z := 0
	if r.Intn(3) == 0 {
		z = 100
	}
	if r.Intn(2) == 0 {
		return z
	}
	return z + 1 + r.Intn(numTimeModes-1)
}

func baseGraph(r rnd, c *Config) pl.Graph {
	x := r.Intn(10) / 3
	if x == 3 && !c.Thorough() && r.Intn(3) > 0 {
		x = 0 // histories with forks of 7..13 branches have 30..60 commits: one in thirty in the quick tier
	}
	switch x {
	case 0:
		return rootsGraph(r, 1+r.Intn(4))
	case 1:
		return pl.RandomGraph(c.Rng, 14)
	case 2:
		h := synth.GenHist(c.Rng, synth.GenOpts{MaxCommits: 5 + r.Intn(12), SingleHead: r.Intn(2) == 0, SameTick: true, Paths: 1, Authors: 1})
		return pl.FromParents(h.Parents, pl.Identity(h.N))
	}
	ps := pl.WideGraph(c.Rng, 13)
	return pl.FromParents(ps, pl.Identity(len(ps)))
}

// genMid: selections of equal length with the same first and last commit of the slice and different middles (every
// selection drops other commits of the history; the restricted histories have other roots, merges and components)
func genMid(r rnd, c *Config) reuseIn {
	g := baseGraph(r, c)
	g.Order = pl.Identity(g.N)
	order := pl.Identity(g.N)
	if r.Intn(3) == 0 {
		order = randOrder(r, g.N)
	}
	n := g.N
	var sets []map[int]bool
	if n <= 2 {
		sets = []map[int]bool{allOf(n), allOf(n)}
	} else {
		keep := 2 + r.Intn(n-2) // size of every selection, first and last of the slice included
		if r.Intn(2) == 0 {
			keep = n - 1
		}
		for k := 2 + r.Intn(3); k > 0; k-- {
			s := setOf(order[0], order[n-1])
			mid := r.Perm(n - 2)
			for _, j := range mid[:keep-2] {
				s[order[1+j]] = true
			}
			sets = append(sets, s)
		}
		if r.Intn(3) == 0 {
			sets = append(sets, allOf(n), sets[0])
		}
	}
	return reuseIn{Kind: "reuse-mid", G: g, Salt: r.Intn(1 << 20), TMode: tm(r), Runs: mkRuns(r, order, sets, r.Intn(4))}
}

// genSub: sub-histories - the ancestry of one or several heads, the same head at different depths (the oldest
// ancestors cut off), one history and then a larger one that contains it
func genSub(r rnd, c *Config) reuseIn {
	g := baseGraph(r, c)
	g.Order = pl.Identity(g.N)
	order := randOrder(r, g.N)
	ps := g.Parents()
	var sets []map[int]bool
	for k := 2 + r.Intn(3); k > 0; k-- {
		h := r.Intn(g.N)
		s := ancestorsOf(ps, h)
		switch r.Intn(4) {
		case 0: // a second head
			for x := range ancestorsOf(ps, r.Intn(g.N)) {
				s[x] = true
			}
		case 1: // shallow: the oldest commits are cut off (the head stays)
			cut := r.Intn(g.N)
			for x := range s {
				if x < cut && x != h {
					delete(s, x)
				}
			}
		}
		sets = append(sets, s)
	}
	if r.Intn(2) == 0 {
		sets = append(sets, allOf(g.N))
	}
	if r.Intn(2) == 0 {
		sets = append(sets, sets[0])
	}
	return reuseIn{Kind: "reuse-sub", G: g, Salt: r.Intn(1 << 20), TMode: tm(r), Runs: mkRuns(r, order, sets, r.Intn(4))}
}

// genGrow: a history that grows between the runs (the first j commits of the topological numbering, j growing), then
// the whole history, then an earlier prefix again
func genGrow(r rnd, c *Config) reuseIn {
	g := baseGraph(r, c)
	g.Order = pl.Identity(g.N)
	order := pl.Identity(g.N)
	if r.Intn(4) == 0 {
		order = randOrder(r, g.N)
	}
	var sets []map[int]bool
	j := 1 + r.Intn(g.N)
	first := j
	for k := 0; k < 4 && j <= g.N; k++ {
		s := map[int]bool{}
		for x := 0; x < j; x++ {
			s[x] = true
		}
		sets = append(sets, s)
		j += 1 + r.Intn(3)
	}
	sets = append(sets, allOf(g.N))
	if r.Intn(2) == 0 {
		s := map[int]bool{}
		for x := 0; x < first; x++ {
			s[x] = true
		}
		sets = append(sets, s)
	}
	return reuseIn{Kind: "reuse-grow", G: g, Salt: r.Intn(1 << 20), TMode: tm(r), Runs: mkRuns(r, order, sets, r.Intn(4))}
}

// genMedium: a ladder / comb / bush of up to 60 commits run three times with another commit of the middle left out
func genMedium(r rnd, c *Config, size int) reuseIn {
	shape := []string{"ladder", "comb", "bush", "diamonds", "ffchain"}[r.Intn(5)]
	sg := pl.ScaleGraph(shape, size, 0, 0, int64(r.Intn(1<<30)))
	for sg.N > 60 { // size counts branches / rungs, not commits; exec_ok is polynomial of high degree
		size = size * 2 / 3
		sg = pl.ScaleGraph(shape, size, 0, 0, int64(r.Intn(1<<30)))
	}
	g := pl.FromParents(sg.Parents(), pl.Identity(sg.N))
	order := pl.Identity(g.N)
	var sets []map[int]bool
	for k := 0; k < 3; k++ {
		s := allOf(g.N)
		delete(s, 1+r.Intn(g.N-2))
		sets = append(sets, s)
	}
	return reuseIn{Kind: "reuse-medium", G: g, Salt: r.Intn(1 << 20), TMode: tm(r), Runs: mkRuns(r, order, sets, r.Intn(3))}
}

// ---------------------------------------------------------------------------------------------
// large histories on one Pipeline object (kinds reuse-big-<shape>): a history of planlib.ScaleGraph is run several
// times with the light recording item; run k leaves out commit drops[k] (-1: nothing) - a commit whose removal keeps
// the history connected, never the first or the last of the slice, so that consecutive runs have the same length and
// the same ends.  A memo that is only kept for histories above some size ("planning a long history is expensive") is
// in reach of these cases only.

// droppable: removing commit d leaves the rest of the history connected
func droppable(ps [][]int, d int) bool {
	n := len(ps)
	adj := make([][]int, n)
	for c, l := range ps {
		for _, p := range l {
			if p >= 0 && p != d && c != d {
				adj[c] = append(adj[c], p)
				adj[p] = append(adj[p], c)
			}
		}
	}
	start := 0
	if d == 0 {
		start = 1
	}
	seen := make([]bool, n)
	seen[start] = true
	stack := []int{start}
	cnt := 1
	for len(stack) > 0 {
		x := stack[len(stack)-1]
		stack = stack[:len(stack)-1]
		for _, y := range adj[x] {
			if !seen[y] {
				seen[y] = true
				cnt++
				stack = append(stack, y)
			}
		}
	}
	return cnt == n-1
}

type bigIn struct {
	sp    scaleIn
	drops []int
}

func runBigReuse(in bigIn) []Sx {
	sp := in.sp
	g := pl.ScaleGraph(sp.shape, sp.size, sp.hmode, sp.tmode, sp.gseed)
	specs := make([]synth.CommitSpec, g.N)
	files := []synth.FileSpec{{Path: "f", Data: []byte("x\n")}}
	for i := range specs {
		t := int64(i) * 60
		if len(g.Times) == g.N {
			t = int64(g.Times[i])
		}
		specs[i] = synth.CommitSpec{AuthorName: "u", AuthorEmail: "u@x", AuthorWhen: time.Unix(pl.TimeBase+t, 0),
			Message: fmt.Sprintf("g%d c%d", sp.gseed, i), Files: files}
	}
	for _, e := range g.Edges {
		specs[e[0]].Parents = append(specs[e[0]].Parents, e[1])
	}
	repo, byNum := synth.BuildRepo(specs)
	sh := &lightShared{id: make(map[plumbing.Hash]int, g.N), next: 1}
	for i, c := range byNum {
		sh.id[c.Hash] = i
	}
	pipeline := hercules.NewPipeline(repo)
	pipeline.AddItem(&recLight{sh: sh, id: 0})
	var runs []Sx
	var drops []int
	for k, d := range in.drops {
		if d >= g.N {
			continue
		}
		commits := make([]*object.Commit, 0, g.N)
		for _, i := range g.Order {
			if i != d {
				commits = append(commits, byNum[i])
			}
		}
		sh.events = []Sx{T("root", I(0))}
		sh.next = 1
		status := "ok"
		var err error
		_, panicked := Catch(func() {
			if k == 0 || k%2 == 1 { // every second later run without Initialize
				facts := map[string]interface{}{
					hercules.ConfigPipelineCommits: commits,
					factHibernationDistance:        sp.dist,
					hercules.ConfigLogger:          nopLogger{},
					factDumpPlan:                   sp.opts&optDumpPlan != 0,
					factPrintActions:               sp.opts&optPrintActions != 0,
				}
				if err = pipeline.Initialize(facts); err != nil {
					status = "initfail"
					return
				}
				debug.SetGCPercent(400)
			}
			_, err = pipeline.Run(commits)
		})
		if panicked {
			status = "panic"
		} else if err != nil && status == "ok" {
			status = "err"
		}
		drops = append(drops, d)
		runs = append(runs, T("run", A(status), T("log", sh.events...)))
	}
	fs := []Sx{T("kind", A("reuse-big-"+sp.shape)), T("nt", B(true))}
	fs = append(fs, pl.ScaleFields(sp.shape, sp.size, sp.hmode, sp.tmode, sp.gseed, g)...)
	fs = append(fs, T("dist", I(sp.dist)), T("opts", I(sp.opts)), T("drops", Ints(drops).List...))
	return append(fs, T("obs", T("runs", runs...)))
}

func genBig(r rnd, shape string, size int, short bool) bigIn {
	sp := scaleIn{shape: shape, size: size, hmode: 0, tmode: 2, gseed: int64(r.Intn(1 << 30)), dist: r.Intn(3), opts: []int{0, 0, optPrintActions}[r.Intn(3)]}
	if r.Intn(3) == 0 {
		sp.hmode = 1 // hashes descending, the slice reversed
	}
	ps := pl.ScaleGraph(shape, size, sp.hmode, sp.tmode, sp.gseed).Parents()
	n := len(ps)
	var drops []int
	for tries := 0; len(drops) < 3 && tries < 200; tries++ {
		d := 1 + r.Intn(n-2)
		if droppable(ps, d) {
			drops = append(drops, d)
		}
	}
	for len(drops) < 3 { // no droppable commit found (never seen): run the whole history instead
		drops = append(drops, -1)
	}
	if short { // three runs: two different middles, the first again
		return bigIn{sp: sp, drops: []int{drops[0], drops[1], drops[0]}}
	}
	return bigIn{sp: sp, drops: append(drops, -1, drops[0])}
}

func reuseStreams(c *Config, workers int) {
	r := c.Rng
	var ins []reuseIn
	flush := func() {
		runAllReuse(c, ins, workers)
		ins = ins[:0]
	}
	// every DAG on 4 and on 5 commits: the selections that keep the first and the last commit and drop ONE of the others
	// (equal length, equal ends, different middle), then the whole history and the first selection again; re-initialised,
	// re-run without Initialize, or with the caller's slice re-used in place - a function of the graph
	for n := 4; n <= 5; n++ {
		for m := 0; m < pl.NumMasks(n); m++ {
			g := pl.FromParents(pl.DagFromMask(n, m), pl.Identity(n))
			var sets []map[int]bool
			for drop := 1; drop < n-1; drop++ {
				s := allOf(n)
				delete(s, drop)
				sets = append(sets, s)
			}
			sets = append(sets, allOf(n), sets[0])
			var runs []selRun
			for k, s := range sets {
				mode := []int{0, 1, 2, 3}[(m+k)%4]
				if (m/4)%2 == 0 {
					mode = 0
				}
				opts := 0
				if (m+k)%7 == 0 {
					opts = 1 + (m/7)%3
				}
				runs = append(runs, selRun{Mode: mode, Opts: opts, Dist: m % 4, Sel: inOrder(pl.Identity(n), s)})
			}
			ins = append(ins, reuseIn{Kind: fmt.Sprintf("reuse-ex%d", n), G: g, Salt: r.Intn(1 << 20), TMode: (m/4)%numTimeModes + 100*((m/3)%2), Runs: runs})
		}
	}
	flush()
	for i := c.Count(500, 12000); i > 0; i-- {
		ins = append(ins, genSides(r))
	}
	for i := c.Count(500, 16000); i > 0; i-- {
		ins = append(ins, genMid(r, c))
	}
	for i := c.Count(300, 10000); i > 0; i-- {
		ins = append(ins, genSub(r, c))
	}
	for i := c.Count(250, 8000); i > 0; i-- {
		ins = append(ins, genGrow(r, c))
		if len(ins) >= 4096 {
			flush()
		}
	}
	flush()
	for i := c.Count(3, 60); i > 0; i-- {
		ins = append(ins, genMedium(r, c, 30+r.Intn(30)))
	}
	flush()
	if c.Tier != "search" {
		c.Emit(runBigReuse(genBig(r, "comb", 600+r.Intn(30), false))...)
		c.Emit(runBigReuse(genBig(r, "diamonds", 400+r.Intn(10), false))...)
		c.Emit(runBigReuse(genBig(r, "bush", 1000+r.Intn(30), false))...)
		if c.Thorough() {
			// the planner is superlinear in these shapes: three runs each (20 .. 60 s per case)
			for _, sh := range []string{"comb", "ladder"} {
				c.Emit(runBigReuse(genBig(r, sh, 10000+r.Intn(300), true))...)
			}
			for _, sh := range []string{"diamonds", "roots", "bush"} {
				c.Emit(runBigReuse(genBig(r, sh, 3000+r.Intn(100), true))...)
			}
			c.Emit(runBigReuse(genBig(r, "comb", 16385+r.Intn(3), true))...) // 2^15 + 1 commits on the main line
		}
	}
}
