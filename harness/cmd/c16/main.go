// Harness for C16 (first half): drives the real identity.Detector - GeneratePeopleDict on generated
// commit lists (repository without a .mailmap), then Consume for every commit of the list - and
// records PeopleDict (sorted by key), ReversedPeopleDict and the resolved author indices.
package main

import (
	"fmt"
	"sort"
	"strings"
	"time"

	"gopkg.in/src-d/go-git.v4/plumbing"
	"gopkg.in/src-d/go-git.v4/plumbing/object"
	"gopkg.in/src-d/go-git.v4/storage/memory"
	"gopkg.in/src-d/hercules.v10/verifapi/c16"
	. "verifharness/lib"
)

type sig struct{ name, email string }

// carrier is a real commit of an in-memory repository whose tree is empty: GeneratePeopleDict asks
// the LAST commit of the list for the file ".mailmap" (commit.File), which needs an object store.
// The tree has no such file, so the mailmap branch is never entered.
var carrier *object.Commit

func makeCarrier() {
	st := memory.NewStorage()
	o := st.NewEncodedObject()
	if err := (&object.Tree{}).Encode(o); err != nil {
		panic(err)
	}
	th, err := st.SetEncodedObject(o)
	if err != nil {
		panic(err)
	}
	s := object.Signature{Name: "carrier", Email: "carrier@x", When: time.Unix(1500000000, 0)}
	cm := &object.Commit{Author: s, Committer: s, Message: "carrier", TreeHash: th}
	o = st.NewEncodedObject()
	if err := cm.Encode(o); err != nil {
		panic(err)
	}
	h, err := st.SetEncodedObject(o)
	if err != nil {
		panic(err)
	}
	carrier, err = object.GetCommit(st, h)
	if err != nil {
		panic(err)
	}
	if _, err := carrier.File(".mailmap"); err == nil {
		panic("the carrier commit has a .mailmap")
	}
}

func commitsOf(sigs []sig) []*object.Commit {
	res := make([]*object.Commit, len(sigs))
	for i, s := range sigs {
		c := *carrier // keeps the object store of the carrier
		c.Hash = plumbing.NewHash(fmt.Sprintf("%040x", i+1))
		c.Author = object.Signature{Name: s.name, Email: s.email, When: time.Unix(1500000000+int64(i), 0)}
		c.Committer = c.Author
		res[i] = &c
	}
	return res
}

func str(s string) Sx { return Bytes([]byte(s)) }

func unstr(x Sx) string {
	b := make([]byte, len(x.List))
	for i, v := range x.List {
		b[i] = byte(v.Int())
	}
	return string(b)
}

// run observes the implementation on one commit list.
func run(exact bool, sigs []sig) Sx {
	var obs Sx
	msg, p := Catch(func() {
		d := &c16.Detector{ExactSignatures: exact}
		if err := d.Initialize(nil); err != nil {
			panic(err)
		}
		commits := commitsOf(sigs)
		d.GeneratePeopleDict(commits)
		keys := make([]string, 0, len(d.PeopleDict))
		for k := range d.PeopleDict {
			keys = append(keys, k)
		}
		sort.Strings(keys)
		dict := make([]Sx, len(keys))
		for i, k := range keys {
			dict[i] = L(str(k), I(d.PeopleDict[k]))
		}
		rev := make([]Sx, len(d.ReversedPeopleDict))
		for i, s := range d.ReversedPeopleDict {
			rev[i] = str(s)
		}
		authors := make([]int, len(commits))
		for i, c := range commits {
			res, err := d.Consume(map[string]interface{}{c16.DependencyCommit: c})
			if err != nil {
				panic(err)
			}
			authors[i] = res[c16.DependencyAuthor].(int)
		}
		obs = T("obs", T("dict", dict...), T("rev", rev...), T("authors", Ints(authors)))
	})
	if p {
		_ = msg
		return T("obs", T("panic"))
	}
	return obs
}

func emit(c *Config, kind string, exact bool, sigs []sig) {
	cs := make([]Sx, len(sigs))
	seenE := map[string]bool{}
	overlap := false
	for i, s := range sigs {
		cs[i] = L(str(s.name), str(s.email))
		le, ln := strings.ToLower(s.email), strings.ToLower(s.name)
		if seenE[le] || seenE[ln] {
			overlap = true
		}
		seenE[le] = true
		seenE[ln] = true
	}
	c.Emit(T("kind", A(kind)), T("nt", B(len(sigs) >= 2 && overlap)), T("exact", B(exact)), T("commits", cs...), run(exact, sigs))
}

// ---- generators ----

// letters on which strings.ToLower acts as ASCII lower-casing: ASCII, and valid UTF-8 of characters
// that have no upper-case form to be mapped from
var namePool = []string{"a", "b", "ab", "Bob", "bob", "BOB", "al ice", "", "x", "é", "ßa", "中", "a@x", "d <e>", "Zed", "zed", "o'k"}
var mailPool = []string{"a@x", "A@X", "b@y", "B@y", "", "bob@z.org", "Bob@Z.org", "é@x", "a", "bob", "c@中", "noat", "q@q", "Q@q"}

func mixCase(c *Config, s string) string {
	b := []byte(s)
	for i, ch := range b {
		if c.Rng.Intn(3) == 0 {
			if ch >= 'a' && ch <= 'z' {
				b[i] = ch - 32
			} else if ch >= 'A' && ch <= 'Z' {
				b[i] = ch + 32
			}
		}
	}
	return string(b)
}

func randomSigs(c *Config, n, names, mails int, bars bool) []sig {
	res := make([]sig, n)
	for i := range res {
		nm := namePool[c.Rng.Intn(names)]
		em := mailPool[c.Rng.Intn(mails)]
		if bars && c.Rng.Intn(3) == 0 {
			nm = nm + "|" + namePool[c.Rng.Intn(names)]
		}
		if bars && c.Rng.Intn(5) == 0 {
			em = "|" + em
		}
		res[i] = sig{mixCase(c, nm), mixCase(c, em)}
	}
	return res
}

// exhaustive: every commit list of the given length over a small signature alphabet in which a name
// equals an e-mail, case variants exist and fields are empty
func exhaustive(c *Config, maxLen int) {
	names := []string{"a", "A", "b"}
	mails := []string{"a", "E", "e", ""}
	var alpha []sig
	for _, n := range names {
		for _, m := range mails {
			alpha = append(alpha, sig{n, m})
		}
	}
	var rec func(cur []sig, l int)
	rec = func(cur []sig, l int) {
		if len(cur) == l {
			for _, exact := range []bool{false, true} {
				emit(c, fmt.Sprintf("exh%d", l), exact, append([]sig{}, cur...))
			}
			return
		}
		for _, s := range alpha {
			rec(append(cur, s), l)
		}
	}
	for l := 1; l <= maxLen; l++ {
		rec(nil, l)
	}
}

func main() {
	c := Setup()
	defer c.Close()
	makeCarrier()
	if c.Replay != "" {
		for _, cs := range c.ReplayCases() {
			kind, _ := cs.Field("kind")
			ex, _ := cs.Field("exact")
			cm, _ := cs.Field("commits")
			var sigs []sig
			for _, x := range cm.Args() {
				sigs = append(sigs, sig{unstr(x.List[0]), unstr(x.List[1])})
			}
			k := "replay"
			if len(kind.Args()) > 0 {
				k = kind.Args()[0].Atom
			}
			emit(c, k, ex.Args()[0].Int() != 0, sigs)
		}
		return
	}
	if c.Thorough() {
		exhaustive(c, 4)
	} else {
		exhaustive(c, 3)
	}
	// an empty commit list: commits[len(commits)-1] panics (index out of range) in both modes
	emit(c, "empty", false, nil)
	emit(c, "empty", true, nil)
	n := c.Count(3000, 40000)
	for i := 0; i < n; i++ {
		exact := c.Rng.Intn(3) == 0
		switch c.Rng.Intn(5) {
		case 0: // few names, few mails: heavy overlap
			emit(c, "dense", exact, randomSigs(c, 1+c.Rng.Intn(12), 5, 5, false))
		case 1:
			emit(c, "wide", exact, randomSigs(c, 1+c.Rng.Intn(40), len(namePool), len(mailPool), false))
		case 2: // names and e-mails drawn from the same strings
			l := randomSigs(c, 1+c.Rng.Intn(10), 6, 6, false)
			for j := range l {
				if c.Rng.Intn(2) == 0 {
					l[j].email = mixCase(c, namePool[c.Rng.Intn(6)])
				}
			}
			emit(c, "crossed", exact, l)
		case 3:
			emit(c, "bars", exact, randomSigs(c, 1+c.Rng.Intn(10), 6, 6, true))
		default:
			emit(c, "mid", exact, randomSigs(c, 1+c.Rng.Intn(20), 9, 8, false))
		}
	}
}
