(* C10, deployment: the items added by DeployItem are exactly the least set that contains the item and is
   closed under "enabled provider (or namesake) of a requirement, not yet in the pipeline". *)
From Coq Require Import List ZArith Lia Bool Permutation.
From Herc Require Import Toposort.Model Toposort.Assoc Pipeline.Deploy.
Import ListNotations.
Open Scope Z_scope.

Lemma memz_In x l : memz x l = true <-> In x l.
Proof. apply existsb_eqb_In. Qed.

Lemma summon_universe r dep sib : In sib (summon r dep) -> In sib (universe r).
Proof.
  unfold summon, universe. intros H. apply in_app_or in H. apply in_or_app. destruct H as [H|H].
  - left. destruct (aget (provided r) dep) as [l|] eqn:E; [|destruct H].
    apply in_flat_map. exists (dep, l). split; [apply aget_In; exact E|exact H].
  - right. destruct (aget (registered r) dep) as [x|] eqn:E; [|destruct H].
    destruct H as [<-|[]]. apply in_map_iff. exists (dep, x). split; [reflexivity|apply aget_In; exact E].
Qed.

Definition reg_ok (r : registry) : Prop :=
  forall x y, In x (universe r) -> In y (universe r) -> rname x = rname y -> x = y.

Lemma reg_okb_spec r : reg_okb r = true -> reg_ok r.
Proof.
  unfold reg_okb. intros H x y Hx Hy E. rewrite forallb_forall in H. specialize (H x Hx).
  rewrite forallb_forall in H. specialize (H y Hy). rewrite E, Z.eqb_refl in H. cbn [negb orb] in H.
  destruct (rentry_eq_dec x y); [assumption|discriminate].
Qed.

Lemma NoDup_app_intro' {A} (a b : list A) : NoDup a -> NoDup b -> (forall x, In x a -> ~ In x b) -> NoDup (a ++ b).
Proof.
  induction a as [|x a IH]; intros Ha Hb Hd; cbn [app]; [exact Hb|]. inversion Ha; subst. constructor.
  - intros Hin. apply in_app_or in Hin. destruct Hin as [Hin|Hin]; [contradiction|]. apply (Hd x); [left; reflexivity|exact Hin].
  - apply IH; [assumption|assumption|]. intros y Hy. apply Hd. right. exact Hy.
Qed.

Section Loops.
  Variable r : registry.
  Variable feats : list Z.

  Lemma sib_loop_spec : forall sibs d, exists ext,
    sib_loop feats sibs d = mkD (d_added d ++ map rname ext) (d_queue d ++ ext) (d_items d ++ ext) /\
    (forall y, In y ext -> In y sibs /\ enabledb feats y = true /\ ~ In (rname y) (d_added d)) /\
    (forall sib, In sib sibs -> enabledb feats sib = true -> In (rname sib) (d_added d ++ map rname ext)) /\
    NoDup (map rname ext).
  Proof.
    induction sibs as [|sib rest IH]; intros d.
    - exists []. cbn [sib_loop map]. rewrite !app_nil_r. destruct d; cbn. split; [reflexivity|].
      split; [intros y []|]. split; [intros s []|constructor].
    - cbn [sib_loop]. destruct (memz (rname sib) (d_added d)) eqn:Em.
      + destruct (IH d) as (ext & E & H1 & H2 & H3). exists ext. split; [exact E|]. split; [|split; [|exact H3]].
        * intros y Hy. destruct (H1 y Hy) as (A & B & C). split; [right; exact A|auto].
        * intros s [<-|Hs] He; [|auto]. apply in_or_app. left. apply memz_In. exact Em.
      + destruct (enabledb feats sib) eqn:Ee.
        * destruct (IH (mkD (d_added d ++ [rname sib]) (d_queue d ++ [sib]) (d_items d ++ [sib]))) as (ext & E & H1 & H2 & H3).
          cbn [d_added d_queue d_items] in *. exists (sib :: ext). split; [|split; [|split]].
          -- rewrite E. cbn [map]. rewrite <- !app_assoc. reflexivity.
          -- intros y [<-|Hy].
             ++ split; [left; reflexivity|]. split; [exact Ee|]. intros Hin. apply memz_In in Hin. congruence.
             ++ destruct (H1 y Hy) as (A & B & C). split; [right; exact A|]. split; [exact B|].
                intros Hin. apply C. apply in_or_app. left. exact Hin.
          -- intros s Hs He. cbn [map]. destruct Hs as [<-|Hs].
             ++ apply in_or_app. right. left. reflexivity.
             ++ specialize (H2 s Hs He). rewrite <- app_assoc in H2. exact H2.
          -- cbn [map]. constructor; [|exact H3]. intros Hin. apply in_map_iff in Hin. destruct Hin as (y & Ey & Hy).
             destruct (H1 y Hy) as (_ & _ & C). apply C. apply in_or_app. right. left. symmetry. exact Ey.
        * destruct (IH d) as (ext & E & H1 & H2 & H3). exists ext. split; [exact E|]. split; [|split; [|exact H3]].
          -- intros y Hy. destruct (H1 y Hy) as (A & B & C). split; [right; exact A|auto].
          -- intros s [<-|Hs] He; [congruence|auto].
  Qed.

  Lemma dep_loop_spec : forall deps d, exists ext,
    dep_loop r feats deps d = mkD (d_added d ++ map rname ext) (d_queue d ++ ext) (d_items d ++ ext) /\
    (forall y, In y ext -> (exists dep, In dep deps /\ In y (summon r dep)) /\ enabledb feats y = true /\ ~ In (rname y) (d_added d)) /\
    (forall dep sib, In dep deps -> In sib (summon r dep) -> enabledb feats sib = true ->
       In (rname sib) (d_added d ++ map rname ext)) /\
    NoDup (map rname ext).
  Proof.
    induction deps as [|dep rest IH]; intros d.
    - exists []. cbn [dep_loop map]. rewrite !app_nil_r. destruct d; cbn. split; [reflexivity|].
      split; [intros y []|]. split; [intros ? ? []|constructor].
    - cbn [dep_loop]. destruct (sib_loop_spec (summon r dep) d) as (e1 & E1 & A1 & B1 & N1). rewrite E1.
      destruct (IH (mkD (d_added d ++ map rname e1) (d_queue d ++ e1) (d_items d ++ e1))) as (e2 & E2 & A2 & B2 & N2).
      cbn [d_added d_queue d_items] in *. exists (e1 ++ e2). split; [|split; [|split]].
      + rewrite E2, map_app, <- !app_assoc. reflexivity.
      + intros y Hy. apply in_app_or in Hy. destruct Hy as [Hy|Hy].
        * destruct (A1 y Hy) as (A & B & C). split; [exists dep; split; [left; reflexivity|exact A]|auto].
        * destruct (A2 y Hy) as ((dp & Hdp & Hs) & B & C). split; [exists dp; split; [right; exact Hdp|exact Hs]|].
          split; [exact B|]. intros Hin. apply C. apply in_or_app. left. exact Hin.
      + intros dp sib [<-|Hdp] Hs He; rewrite map_app, app_assoc.
        * apply in_or_app. left. apply B1; assumption.
        * rewrite <- app_assoc, <- map_app. specialize (B2 dp sib Hdp Hs He). rewrite map_app. rewrite <- app_assoc in B2. exact B2.
      + rewrite map_app. apply NoDup_app_intro'; [exact N1|exact N2|].
        intros x Hx1 Hx2. apply in_map_iff in Hx2. destruct Hx2 as (y & Ey & Hy).
        destruct (A2 y Hy) as (_ & _ & C). apply C. apply in_or_app. right. rewrite Ey. exact Hx1.
  Qed.
End Loops.

Section Closure.
  Variable r : registry.
  Variable p : pipeline.
  Variable item : rentry.
  Hypothesis Hreg : reg_ok r.

  Definition dfeats : list Z := p_feats p ++ rfeat item.
  Definition pre : list Z := map rname (p_items p) ++ [rname item].

  (* closed under: enabled provider (or namesake) of a requirement whose name is not yet in the pipeline *)
  Definition closed (P : rentry -> Prop) : Prop :=
    forall x dep sib, P x -> In dep (rreq x) -> In sib (summon r dep) -> enabledb dfeats sib = true ->
      ~ In (rname sib) pre -> P sib.

  Inductive reach : rentry -> Prop :=
  | reach_root : reach item
  | reach_step x dep sib : reach x -> In dep (rreq x) -> In sib (summon r dep) -> enabledb dfeats sib = true ->
      ~ In (rname sib) pre -> reach sib.

  Lemma reach_least (P : rentry -> Prop) : P item -> closed P -> forall x, reach x -> P x.
  Proof. intros H0 Hc x Hx. induction Hx; [exact H0|]. eapply Hc; eauto. Qed.

  Record inv (done : list rentry) (d : dstate) : Prop := {
    i_items : d_items d = p_items p ++ done ++ d_queue d;
    i_added : d_added d = map rname (d_items d);
    i_done : forall x dep sib, In x done -> In dep (rreq x) -> In sib (summon r dep) -> enabledb dfeats sib = true ->
               In (rname sib) (d_added d);
    i_reach : forall x, In x (done ++ d_queue d) -> reach x;
    i_orig : forall x, In x (done ++ d_queue d) -> x = item \/ (In x (universe r) /\ ~ In (rname x) pre);
    i_root : In item (done ++ d_queue d)
  }.

  Lemma queue_loop_inv : forall fuel done d d', inv done d -> queue_loop fuel r dfeats d = Some d' ->
    exists done', inv done' d' /\ d_queue d' = [].
  Proof.
    induction fuel as [|f IH]; intros done d d' Hi H; [discriminate|].
    cbn [queue_loop] in H. destruct (d_queue d) as [|head q] eqn:Eq.
    - injection H as <-. exists done. split; [exact Hi|exact Eq].
    - destruct (dep_loop_spec r dfeats (rreq head) (mkD (d_added d) q (d_items d))) as (ext & E & A & B & _).
      cbn [d_added d_queue d_items] in *. rewrite E in H.
      apply (IH (done ++ [head])) in H; [exact H|]. clear IH H.
      destruct Hi as [I1 I2 I3 I4 I5 I6]. rewrite Eq in *. split; cbn [d_added d_queue d_items].
      + rewrite I1, <- !app_assoc. reflexivity.
      + rewrite map_app, I2. reflexivity.
      + intros x dep sib Hx Hdep Hsib He. apply in_app_or in Hx. destruct Hx as [Hx|[<-|[]]].
        * apply in_or_app. left. eapply I3; eauto.
        * eapply B; eauto.
      + intros x Hx. rewrite <- app_assoc in Hx. cbn [app] in Hx.
        assert (Hx' : In x (done ++ head :: q) \/ In x ext).
        { apply in_app_or in Hx. destruct Hx as [Hx|[<-|Hx]].
          - left. apply in_or_app. auto.
          - left. apply in_or_app. right. left. reflexivity.
          - apply in_app_or in Hx. destruct Hx as [Hx|Hx]; [left; apply in_or_app; right; right; exact Hx|right; exact Hx]. }
        destruct Hx' as [Hx'|Hx']; [auto|].
        destruct (A x Hx') as ((dep & Hdep & Hs) & He & Hn).
        eapply (reach_step head dep x); [apply I4; apply in_or_app; right; left; reflexivity|exact Hdep|exact Hs|exact He|].
        intros Hpre. apply Hn. rewrite I2, I1, map_app. unfold pre in Hpre. apply in_app_or in Hpre.
        apply in_or_app. destruct Hpre as [Hpre|[Hpre|[]]]; [left; exact Hpre|]. right.
        rewrite <- Hpre. apply in_map. exact I6.
      + intros x Hx. rewrite <- app_assoc in Hx. cbn [app] in Hx.
        assert (Hx' : In x (done ++ head :: q) \/ In x ext).
        { apply in_app_or in Hx. destruct Hx as [Hx|[<-|Hx]].
          - left. apply in_or_app. auto.
          - left. apply in_or_app. right. left. reflexivity.
          - apply in_app_or in Hx. destruct Hx as [Hx|Hx]; [left; apply in_or_app; right; right; exact Hx|right; exact Hx]. }
        destruct Hx' as [Hx'|Hx']; [auto|]. right.
        destruct (A x Hx') as ((dep & Hdep & Hs) & He & Hn). split; [eapply summon_universe; exact Hs|].
        intros Hpre. apply Hn. rewrite I2, I1, map_app. unfold pre in Hpre. apply in_app_or in Hpre.
        apply in_or_app. destruct Hpre as [Hpre|[Hpre|[]]]; [left; exact Hpre|]. right.
        rewrite <- Hpre. apply in_map. exact I6.
      + rewrite <- app_assoc. cbn [app]. apply in_app_or in I6. apply in_or_app. destruct I6 as [H|[<-|H]].
        * left. exact H.
        * right. left. reflexivity.
        * right. right. apply in_or_app. left. exact H.
  Qed.

  (* DeployItem adds exactly the least closed set that contains the item *)
  Theorem deploy_closure p' : deploy r p item = Some p' ->
    p_feats p' = dfeats /\
    exists new, p_items p' = p_items p ++ new /\
      In item new /\
      closed (fun x => In x new) /\
      (forall P : rentry -> Prop, P item -> closed P -> forall x, In x new -> P x).
  Proof.
    unfold deploy. fold dfeats.
    destruct (queue_loop _ r dfeats _) as [d|] eqn:E; [|discriminate]. intros H. injection H as <-. cbn [p_feats p_items].
    split; [reflexivity|].
    apply (queue_loop_inv _ []) in E.
    - destruct E as (done & [I1 I2 I3 I4 I5 I6] & Eq). rewrite Eq, app_nil_r in *. exists done. split; [exact I1|].
      split; [exact I6|]. split.
      + intros x dep sib Hx Hdep Hs He Hn. pose proof (I3 x dep sib Hx Hdep Hs He) as Hin.
        rewrite I2, I1, map_app in Hin. apply in_app_or in Hin. destruct Hin as [Hin|Hin].
        * exfalso. apply Hn. unfold pre. apply in_or_app. left. exact Hin.
        * apply in_map_iff in Hin. destruct Hin as (y & Ey & Hy). destruct (I5 y Hy) as [->|[Hu Hp]].
          -- exfalso. apply Hn. unfold pre. apply in_or_app. right. left. exact Ey.
          -- rewrite <- (Hreg y sib Hu (summon_universe r dep sib Hs) Ey). exact Hy.
      + intros P H0 Hc x Hx. apply (reach_least P H0 Hc). apply I4. exact Hx.
    - split; cbn [d_added d_queue d_items app].
      + reflexivity.
      + rewrite map_app. reflexivity.
      + intros x dep sib [].
      + intros x [<-|[]]. apply reach_root.
      + intros x [<-|[]]. left. reflexivity.
      + left. reflexivity.
  Qed.
End Closure.

(* ---------- the fuel of the model never runs out ---------- *)
Section Fuel.
  Variable U : list Z.
  Hypothesis HU : NoDup U.
  Definition cnt (A : list Z) : nat := length (filter (fun n => negb (memz n A)) U).

  Lemma memz_snoc n A x : memz n (A ++ [x]) = memz n A || (n =? x).
  Proof. unfold memz. rewrite existsb_app. cbn [existsb]. rewrite orb_false_r. reflexivity. Qed.

  Lemma filter_notin (l : list Z) A x : ~ In x l ->
    filter (fun n => negb (memz n (A ++ [x]))) l = filter (fun n => negb (memz n A)) l.
  Proof.
    induction l as [|u l IH]; intros H; cbn [filter]; [reflexivity|].
    rewrite memz_snoc. assert (u =? x = false) as -> by (apply Z.eqb_neq; intros ->; apply H; left; reflexivity).
    rewrite orb_false_r, IH; [reflexivity|]. intros Hx. apply H. right. exact Hx.
  Qed.

  Lemma cnt_add x A : In x U -> ~ In x A -> S (cnt (A ++ [x])) = cnt A.
  Proof.
    unfold cnt. revert HU. induction U as [|u l IH]; intros Hnd Hx Hn; [destruct Hx|].
    inversion Hnd; subst. cbn [filter]. rewrite memz_snoc. destruct (Z.eq_dec u x) as [->|Hne].
    - rewrite Z.eqb_refl, orb_true_r. cbn [negb].
      assert (memz x A = false) as ->.
      { destruct (memz x A) eqn:E; [|reflexivity]. apply memz_In in E. contradiction. }
      cbn [negb length]. rewrite filter_notin by assumption. reflexivity.
    - assert (u =? x = false) as -> by (apply Z.eqb_neq; exact Hne). rewrite orb_false_r.
      destruct Hx as [Hx|Hx]; [congruence|].
      destruct (negb (memz u A)); cbn [length]; rewrite <- (IH H2 Hx Hn); reflexivity.
  Qed.

  Lemma cnt_add_list : forall N A, NoDup N -> (forall y, In y N -> In y U /\ ~ In y A) ->
    (cnt (A ++ N) + length N = cnt A)%nat.
  Proof.
    induction N as [|x N IH]; intros A Hnd H; [rewrite app_nil_r; cbn; lia|].
    inversion Hnd; subst. replace (A ++ x :: N) with ((A ++ [x]) ++ N) by (rewrite <- app_assoc; reflexivity).
    destruct (H x (or_introl eq_refl)) as [HxU HxA].
    rewrite <- (cnt_add x A HxU HxA). cbn [length].
    rewrite <- (IH (A ++ [x]) H3); [lia|]. intros y Hy. destruct (H y (or_intror Hy)) as [A1 A2]. split; [exact A1|].
    intros Hin. apply in_app_or in Hin. destruct Hin as [Hin|[<-|[]]]; contradiction.
  Qed.
End Fuel.

Section Total.
  Variable r : registry.
  Variable feats : list Z.
  Definition unames : list Z := nodup Z.eq_dec (map rname (universe r)).

  Lemma queue_loop_total : forall fuel d,
    (length (d_queue d) + cnt unames (d_added d) < fuel)%nat -> exists d', queue_loop fuel r feats d = Some d'.
  Proof.
    induction fuel as [|f IH]; intros d H; [lia|]. cbn [queue_loop].
    destruct (d_queue d) as [|head q] eqn:Eq; [eauto|].
    destruct (dep_loop_spec r feats (rreq head) (mkD (d_added d) q (d_items d))) as (ext & E & A & B & N).
    cbn [d_added d_queue d_items] in *. rewrite E. apply IH. cbn [d_added d_queue]. rewrite app_length.
    pose proof (cnt_add_list unames (NoDup_nodup _ _) (map rname ext) (d_added d) N) as Hc.
    rewrite map_length in Hc. cbn [length] in H.
    rewrite <- Hc in H; [lia|]. intros y Hy. apply in_map_iff in Hy. destruct Hy as (e & <- & He).
    destruct (A e He) as ((dep & Hdep & Hs) & _ & Hn). split; [|exact Hn].
    unfold unames. apply nodup_In. apply in_map. eapply summon_universe. exact Hs.
  Qed.
End Total.

Lemma filter_len_le {A} (f : A -> bool) l : (length (filter f l) <= length l)%nat.
Proof. induction l as [|x l IH]; cbn [filter length]; [lia|]. destruct (f x); cbn [length]; lia. Qed.

Theorem deploy_total r p item : exists p', deploy r p item = Some p'.
Proof.
  unfold deploy.
  destruct (queue_loop_total r (p_feats p ++ rfeat item) (S (S (length (universe r))))
              (mkD (map rname (p_items p) ++ [rname item]) [item] (p_items p ++ [item]))) as (d & E).
  - cbn [d_queue d_added length]. unfold cnt.
    assert ((length (filter (fun n => negb (memz n (map rname (p_items p) ++ [rname item]))) (unames r)) <= length (universe r))%nat).
    { eapply Nat.le_trans; [apply filter_len_le|]. unfold unames.
      eapply Nat.le_trans; [apply NoDup_incl_length; [apply NoDup_nodup|]|].
      - intros x Hx. apply nodup_In in Hx. exact Hx.
      - rewrite map_length. apply Nat.le_refl. }
    lia.
  - rewrite E. eauto.
Qed.

Theorem deploy_closure_main r p item p' : reg_okb r = true -> deploy r p item = Some p' ->
  p_feats p' = p_feats p ++ rfeat item /\
  exists new, p_items p' = p_items p ++ new /\
    In item new /\
    (forall x dep sib, In x new -> In dep (rreq x) -> In sib (summon r dep) ->
       enabledb (p_feats p ++ rfeat item) sib = true ->
       ~ In (rname sib) (map rname (p_items p) ++ [rname item]) -> In sib new) /\
    (forall P : rentry -> Prop, P item ->
       (forall x dep sib, P x -> In dep (rreq x) -> In sib (summon r dep) ->
          enabledb (p_feats p ++ rfeat item) sib = true ->
          ~ In (rname sib) (map rname (p_items p) ++ [rname item]) -> P sib) ->
       forall x, In x new -> P x).
Proof. intros Hr H. exact (deploy_closure r p item (reg_okb_spec r Hr) p' H). Qed.

Print Assumptions deploy_closure_main.
