CONFIG = dict(
        level='proof',
        streams=[dict(harness='c05', driver='c05', shrink_field='ops')],
        search_seconds=150,
        rule='operation sequences on 1-3 real rbtree.RBTree sharing ONE real rbtree.Allocator: Insert / DeleteWithKey / DeleteWithIterator / FindGE / FindLE / '
             'Get / Min / Max / Next / Prev / Len / Erase / CloneDeep; iterators live in 4 registers, are obtained from Insert/FindGE/FindLE/Min/Max and advanced '
             'with Next/Prev (also over Limit and NegativeLimit, where the assertions must fire). Streams: exhaustive insert/delete sequences, random '
             'sequences of 10..400 operations with phases of different insert/delete/query weights over a key universe of 3..60 keys (one quarter '
             'scaled to the full uint32 range, values up to 2^32-1), and walks that fill a tree in ascending/descending/random order and delete '
             'through a second iterator while iterating forwards or backwards; one quarter of the random and walk cases draw their keys from a table '
             'straddling 2^8, 2^15, 2^16, 2^31 (pairs exactly 2^31 apart) and ending at 2^32-1. After EVERY operation the whole arena (every cell: key, value, '
             'parent, left, right, colour), the gaps, every tree header and Item() of every live iterator are recorded. '
             'Stream `scale` (cases marked (scale 1), macro operations, harness/cmd/c05/scale.go): trees of 255 .. 262 144 keys in the quick tier and up to '
             '1 048 577 keys in the thorough tier (sizes at c-1, c, c+1 of 2^8, 2^15, 2^16, 10^3 .. 10^6, and ascending fills beyond the 228 803 keys that make a '
             'right spine deeper than 32), filled in ascending, descending, shuffled, outside-in, inside-out and sawtooth order, keys 1..n, straddling 2^31, spread up to '
             '2^32-1 or from 0; on the big tree: CloneDeep, Erase (of the clone and of the tree), complete forward and backward iteration, FindGE / FindLE / Get / Min / Max / Len '
             'at both ends of the key range and around sampled elements, sweeps that delete every 2nd / 3rd element through a second iterator while iterating in either '
             'direction, mass deletion by key at the low and at the high end (Min / Max afterwards), refill through the free list, a bystander tree and a clone on the '
             'same allocator, iterators held across everything. Every answer and every position of every iteration is compared with a sorted map as it comes; at '
             'CHECKPOINTS (4 to 20 per case) the snapshot of the real arena is judged by the extracted proved-sound oracle (entries and node ids = the map, red-black, '
             'parent/min/max/count links, logarithmic height) and compared cell for cell with the model trees (run element by element with the tree-level model functions). '
             'Bulk observations are in the binary side file <trace>.side. '
             'SHARED-ALLOCATOR streams (round 3, harness/cmd/c05/share.go): every read operation (Get, FindGE, FindLE, Min, Max, Len, complete Next / Prev iteration, Item() of held '
             'iterators) is issued on EVERY tree after every mutation of ANY tree of the allocator, first with the keys just queried / deleted / inserted elsewhere, and after a deletion '
             'another tree inserts exactly as many new keys as there are gaps, so that every freed cell is re-used whichever gap malloc picks. `pp` (directed ping-pong, exhaustive over a '
             'universe of 3 keys, thorough also 4): prefill of A x key k of A that is read and then freed x prefill of B x key B inserts first x way of freeing (DeleteWithKey, '
             'DeleteWithIterator, Erase - also followed by re-use of the erased tree itself -, CloneDeep onto a third tree then deletion from the clone or the original), each with drawn read '
             'orders, 2-3 trees, prefill orders and key universes (10..60, 0..5, 2^32-6..2^32-1, {0, 1, 2^31-1, 2^31, 2^32-2, 2^32-1}); then the same in the other direction. `exm`: from each of '
             'the 16 prefilled states of 2 trees over 2 keys every sequence of 3 (thorough 4) steps over {Insert, DeleteWithKey, Get+FindGE+FindLE} x tree x key, then all reads on both trees '
             '(quick: first step on tree 0). `share`: random sequences on 2-3 trees over 2..8 keys, every mutation (incl. Erase, CloneDeep, refill of all gaps) followed by the reads on all trees. '
             'Scale cases `scale-shared-*`: three trees of 257 / 2 000 (thorough 100 000) equal keys on one allocator that hand blocks of 33 / 300 / 1 000 cells to each other (qkeys = Get / FindGE / FindLE at a '
             'key sequence on every tree before and after), Erase + re-use of a tree, CloneDeep mutated next to its original. '
             'FORK streams (round 4, R4-6 two features at once: several trees on one allocator x fork x free-list re-use x hibernation; harness/cmd/c05/fork.go): (fork a) = Allocator.Clone() of arena a + '
             'CloneShallow() of each of its trees (the fork idiom of leaves/burndown.go; up to 4 arenas, forks of forks), (hib a) = Hibernate() + Boot() under living trees and iterators; after EVERY operation every '
             'arena (cells, gaps, headers, Used()) is recorded and every tree of every arena is judged, so a write of one side that shows on the other, a header or cell not copied and a free list that offers a live cell '
             '(PROPFAIL "the free list of the allocator contains node n, which is an element of one of its trees") are seen at once; the generators know the number of genuine gaps of every arena and let one tree insert '
             'gaps + ntrees + 1 new keys, so that a wrongly freed cell is certainly handed out. `forkex`: (2 trees with sizes in {0, 1, 2, 3, 6}, 3 trees with sizes in {0, 1, 2, 5}: the empty tree, the ROOT-ONLY tree, ...) x '
             '(0..2 genuine gaps at fork time), drawn universe / fill order / hibernation before and after the fork / side mutated first / draining tree / second-level fork with Erase and re-use in its parent; both sides are mutated, '
             'all trees of all arenas are read (Get, FindGE, FindLE, Len, complete Next / Prev iterations), iterators are held across the fork. `forkrnd`: random mutations on random trees of random arenas with forks, hibernations '
             'and drains in between. Scale cases `scale-fork-*` (macro (forksw hib): the case goes on with the fork): a tree of 257 / 2 000 / 20 000 (thorough 65 537 / 300 000) keys, a root-only tree and an empty tree with 50 genuine gaps, '
             'fork, the big tree re-uses the gaps, all trees grow and shrink, a second fork (hibernated and booted) before an iterator sweep. '
             'Non-trivial = at least 3 successful insertions and 1 successful deletion; distinct = distinct (number of trees, operation list).',
        exhaustive_note='every sequence of 4 Insert/DeleteWithKey operations over 6 keys (20 736) and of 5 over 4 keys (32 768) in the quick tier; of 5 over '
                        '6 keys (248 832) and of 7 over 3 keys (279 936) in the thorough tier; the arena is compared after every operation, so all shorter sequences are covered as prefixes; '
                        'two trees on one allocator: every sequence of 3 steps (first step on tree 0; thorough: 4 steps, any tree) over {Insert, DeleteWithKey, Get+FindGE+FindLE} x 2 trees x 2 keys from each of the 16 prefilled states, '
                        'followed by all reads on both trees (13 824 / 331 776), and the ping-pong enumeration read-free-reuse-read over 3 keys (576 combinations x 2 draws; thorough x 6, and 4 keys: 4 096 x 3)',
        assumptions=[
            'malloc takes an arbitrary key of the gaps map: the node index actually handed out is read from the implementation (returned iterator / walk of the clone) '
            'and fed to the model as an explicit choice; the theorems quantify over every choice the model accepts (a gap if there is one, else len(storage))',
            'the theorems exclude what the Go API leaves undefined: iterators that do not point into the tree they are used with (deleted element, other tree), '
            'CloneDeep onto a slot that still owns nodes; the harness never does these (an operation on an invalidated register is skipped on both sides)',
            'hibernation / serialisation of the allocator is C06 and is not modelled here: (hib a) = Hibernate() + Boot() is replayed as the identity (nothing in the arena, the gaps or the headers may change); (fork a) is replayed as a copy of the model state and of the sorted maps of arena a',
        ],
        trusted_base=[
            'hand-written Gallina model coq/theories/RBTree/Model.v + Arena.v of internal/rbtree/rbtree.go (recursive tree with node ids; parent links, minNode/maxNode/count derived), '
            'tied to the code by comparing, after every operation of every case, the result and the complete arena image (to_arena) with the real arena',
            'read-only hooks /repo/internal/rbtree/verif_hooks.go (VerifSnapshot, VerifHeader, VerifNode) and /repo/verifapi/rbtree.go',
            'the gap-complement and zero-cell comparison of the snapshot is done by the OCaml driver itself (allocator bookkeeping is C06)',
            'scale cases: between checkpoints the sorted map is an OCaml Map kept by the driver (converted to the entry list of Spec.v and judged by the extracted oracle at every checkpoint); '
            'the model trees are compared with the arena by a traversal written in the driver; bulk observations are read from the side file written by the harness',
        ],
        level_text='Coq theorems (closed under the global context) over the executable Gallina model, for ALL trees / ALL operation sequences on any number of trees '
                   'sharing an allocator and ALL node-index choices of malloc: C05_sequences (induction over the operation list: every reachable state satisfies the invariant '
                   'and the run equals, result for result, the run of n sorted association lists), C05_step, C05_insert_map / C05_delete_map / C05_lookup_map '
                   '(entry list after Insert = sorted-list insert, after doDelete = sorted-list delete; membership, Get, FindGE, FindLE, Min, Max, Len, Next, Prev and the complete '
                   'forward/backward walks answer like the list), C05_insert_rb / C05_delete_rb / C05_rb_meaning (search-tree order, black root, no red-red, equal black height preserved), '
                   'C05_height (depth <= 2*log2(size+1)) and C05_height_pow, C05_iterators_stable and C05_iterators_stable_step (a node id keeps its key and value across every '
                   'operation on every tree unless that operation removes it - including the predecessor swap of doDelete), C05_arena_links (derived parent links consistent), '
                   'C05_frame (operations on one tree leave the others untouched), C05_oracle_sound (the snapshot oracle used on the real arena is sound).',
        level_note='Proved about the Gallina model, not about the Go text (no verified Go semantics): the tie is the replay - on the unchanged repository zero disagreements on '
                   'about 71 000 cases / 1.3 million operations per quick run, node for node and link for link, plus 42 large trees (0.7 million insertions, 0.85 million nodes compared at checkpoints). Modelled rather than verified: all of rbtree.go. The model is a '
                   'recursive tree, not a pointer structure: parent links, minNode/maxNode and count are DERIVED from the shape (C05_arena_links proves the derived links consistent; '
                   'that the incrementally maintained Go fields equal the derived ones is checked by the replay and by the oracle on every snapshot). doDelete(node) is modelled as '
                   'deletion of that node\'s key (equal on search trees with distinct ids, which the invariant provides). Several trees on one allocator are separate values in the model, so '
                   'isolation holds there by construction (C05_frame, disjoint ids in Inv); that the real trees do not disturb each other in the shared arena is what the full-arena '
                   'comparison after every operation checks (every cell outside the model trees must be zero, gaps = complement). Independently of the model, an executable oracle '
                   'extracted from Coq and proved sound (C05_oracle_sound) judges every snapshot of the real arena: red-black search tree, parent/min/max/count consistent, '
                   'entries and node ids equal to a sorted-map specification driven only by the inputs; every query answer and every live iterator\'s Item() is compared with that specification (PROPFAIL).',
        technique='machine-checked proof in Coq 8.16 over a hand-written executable Gallina model (recursive red-black tree with node ids and a deficit flag; '
                  'invariant RB t ctx n, in-order entry lists, induction over operation sequences) + replay of the real trees/allocator through the extracted model '
                  '(result and complete arena after every operation) + a Coq-extracted, proved-sound oracle on the implementation\'s own snapshots and answers',
    )
