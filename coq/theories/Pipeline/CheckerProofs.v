(* Soundness of the order validator [order_ok] of Resolve.v against the declarative statement of C10. *)
From Coq Require Import List ZArith Lia Bool Permutation.
From Herc Require Import Toposort.Model Toposort.Assoc Pipeline.Resolve.
Import ListNotations.
Open Scope Z_scope.

(* ---------- the declarative statement ---------- *)

(* entities derived from the set E0: E0 itself and every output of an item that requires a derived entity *)
Inductive derived (items : list item) (E0 : list Z) : Z -> Prop :=
| d_base e : In e E0 -> derived items E0 e
| d_step x e e' : In x items -> derived items E0 e -> In e (ireq x) -> In e' (iprov x) -> derived items E0 e'.

(* p transitively requires an output of c *)
Definition feeds (items : list item) (c p : item) : Prop :=
  exists e, derived items (iprov c) e /\ In e (ireq p).

(* C10 for one order: every item sees, strictly before it, a provider of each entity it requires, and every
   provider of such an entity that does not run strictly before it transitively requires one of its outputs *)
Definition respects (items order : list item) : Prop :=
  forall l1 c l3, order = l1 ++ c :: l3 -> forall e, In e (ireq c) ->
    (exists p, In p l1 /\ In e (iprov p)) /\
    (forall p, In p (c :: l3) -> In e (iprov p) -> feeds items c p).

(* the literal reading, which holds when nothing is chained *)
Definition respects_strict (order : list item) : Prop :=
  forall l1 c l3, order = l1 ++ c :: l3 -> forall e, In e (ireq c) ->
    (exists p, In p l1 /\ In e (iprov p)) /\ (forall p, In p (c :: l3) -> ~ In e (iprov p)).

(* ---------- small facts ---------- *)
Lemma memZ_In x l : memZ x l = true <-> In x l.
Proof. unfold memZ. apply existsb_eqb_In. Qed.

Lemma providesb_In p e : providesb p e = true <-> In e (iprov p).
Proof. apply memZ_In. Qed.

Lemma intersects_spec a b : intersects a b = true <-> exists x, In x a /\ In x b.
Proof.
  unfold intersects. rewrite existsb_exists. split; intros (x & H1 & H2); exists x; split; auto; apply memZ_In; auto.
Qed.

(* ---------- feedsb is sound ---------- *)
Lemma downstream_sound items E0 : forall fuel E,
  (forall e, In e E -> derived items E0 e) ->
  forall e, In e (downstream_b fuel items E) -> derived items E0 e.
Proof.
  induction fuel as [|f IH]; intros E HE e He; cbn [downstream_b] in He; [auto|].
  apply (IH _) in He; [exact He|]. clear He e. intros e He. apply in_app_or in He. destruct He as [He|He]; [auto|].
  apply in_flat_map in He. destruct He as (x & Hx & He).
  destruct (intersects (ireq x) E) eqn:Ei; [|destruct He].
  apply intersects_spec in Ei. destruct Ei as (e0 & H1 & H2).
  eapply d_step; eauto.
Qed.

Lemma feedsb_sound items c p : feedsb items c p = true -> feeds items c p.
Proof.
  unfold feedsb. intros H. apply intersects_spec in H. destruct H as (e & H1 & H2). exists e. split; [|exact H1].
  eapply downstream_sound; [|exact H2]. intros e0 He0. apply d_base. exact He0.
Qed.

(* ---------- perm_b ---------- *)
Lemma perm_b_sound l1 l2 : perm_b l1 l2 = true -> Permutation l1 l2.
Proof.
  unfold perm_b. intros H. rewrite forallb_forall in H.
  apply (Permutation_count_occ item_eq_dec). intros x.
  destruct (in_dec item_eq_dec x (l1 ++ l2)) as [Hin|Hni].
  - apply Nat.eqb_eq. apply H. exact Hin.
  - assert (~ In x l1 /\ ~ In x l2) as [H1 H2] by (split; intros Hx; apply Hni; apply in_or_app; auto).
    rewrite (proj1 (count_occ_not_In item_eq_dec l1 x) H1), (proj1 (count_occ_not_In item_eq_dec l2 x) H2). reflexivity.
Qed.

Lemma perm_b_complete l1 l2 : Permutation l1 l2 -> perm_b l1 l2 = true.
Proof.
  intros H. unfold perm_b. apply forallb_forall. intros x _. apply Nat.eqb_eq.
  apply (Permutation_count_occ item_eq_dec). exact H.
Qed.

(* ---------- positions_ok ---------- *)
Lemma positions_ok_sound items : forall rest bef, positions_ok items bef rest = true ->
  forall r1 c r3, rest = r1 ++ c :: r3 -> forall e, In e (ireq c) ->
    (exists p, In p (bef ++ r1) /\ In e (iprov p)) /\
    (forall p, In p (c :: r3) -> In e (iprov p) -> feeds items c p).
Proof.
  induction rest as [|c0 after IH]; intros bef H r1 c r3 E e He.
  - destruct r1; discriminate.
  - cbn [positions_ok] in H. apply andb_prop in H. destruct H as [H0 H1].
    destruct r1 as [|x r1]; cbn [app] in E.
    + injection E as -> ->. rewrite app_nil_r.
      rewrite forallb_forall in H0. specialize (H0 e He). unfold req_ok in H0.
      apply andb_prop in H0. destruct H0 as [Ha Hb]. split.
      * apply existsb_exists in Ha. destruct Ha as (p & Hp & Hpe). exists p. split; [exact Hp|]. apply providesb_In. exact Hpe.
      * intros p Hp Hpe. rewrite forallb_forall in Hb. specialize (Hb p Hp).
        apply orb_prop in Hb. destruct Hb as [Hb|Hb].
        -- apply providesb_In in Hpe. rewrite Hpe in Hb. discriminate.
        -- apply feedsb_sound. exact Hb.
    + injection E as -> ->.
      destruct (IH (bef ++ [x]) H1 r1 c r3 eq_refl e He) as [(p & Hp & Hpe) Hq]. split; [|exact Hq].
      exists p. split; [|exact Hpe]. rewrite <- app_assoc in Hp. exact Hp.
Qed.

Theorem order_ok_sound items order : order_ok items order = true ->
  respects items order /\ Permutation order items.
Proof.
  unfold order_ok. intros H. apply andb_prop in H. destruct H as [Hp Ho]. split.
  - intros l1 c l3 E e He. exact (positions_ok_sound items order [] Ho l1 c l3 E e He).
  - apply perm_b_sound. exact Hp.
Qed.

(* ---------- the strict reading implies acceptance ---------- *)
Lemma positions_ok_complete items : forall rest bef,
  (forall r1 c r3, rest = r1 ++ c :: r3 -> forall e, In e (ireq c) ->
     (exists p, In p (bef ++ r1) /\ In e (iprov p)) /\ (forall p, In p (c :: r3) -> ~ In e (iprov p))) ->
  positions_ok items bef rest = true.
Proof.
  induction rest as [|c0 after IH]; intros bef H; [reflexivity|].
  cbn [positions_ok]. apply andb_true_intro. split.
  - apply forallb_forall. intros e He. destruct (H [] c0 after eq_refl e He) as [(p & Hp & Hpe) Hn].
    rewrite app_nil_r in Hp. unfold req_ok. apply andb_true_intro. split.
    + apply existsb_exists. exists p. split; [exact Hp|]. apply providesb_In. exact Hpe.
    + apply forallb_forall. intros q Hq. apply orb_true_intro. left.
      destruct (providesb q e) eqn:Eq; [|reflexivity]. exfalso. apply (Hn q Hq). apply providesb_In. exact Eq.
  - apply IH. intros r1 c r3 E e He. destruct (H (c0 :: r1) c r3 (f_equal (cons c0) E) e He) as [(p & Hp & Hpe) Hn].
    split; [|exact Hn]. exists p. split; [|exact Hpe]. rewrite <- app_assoc. exact Hp.
Qed.

Theorem strict_order_ok items order : respects_strict order -> Permutation order items -> order_ok items order = true.
Proof.
  intros Hs Hp. unfold order_ok. apply andb_true_intro. split.
  - apply perm_b_complete. exact Hp.
  - apply positions_ok_complete. intros r1 c r3 E e He. exact (Hs r1 c r3 E e He).
Qed.

Lemma strict_respects items order : respects_strict order -> respects items order.
Proof.
  intros H l1 c l3 E e He. destruct (H l1 c l3 E e He) as [H1 H2]. split; [exact H1|].
  intros p Hp Hpe. exfalso. exact (H2 p Hp Hpe).
Qed.

Lemma positions_strict_sound : forall rest bef, positions_strict bef rest = true ->
  forall r1 c r3, rest = r1 ++ c :: r3 -> forall e, In e (ireq c) ->
    (exists p, In p (bef ++ r1) /\ In e (iprov p)) /\ (forall p, In p (c :: r3) -> ~ In e (iprov p)).
Proof.
  induction rest as [|c0 after IH]; intros bef H r1 c r3 E e He.
  - destruct r1; discriminate.
  - cbn [positions_strict] in H. apply andb_prop in H. destruct H as [H0 H1].
    destruct r1 as [|x r1]; cbn [app] in E.
    + injection E as -> ->. rewrite app_nil_r.
      rewrite forallb_forall in H0. specialize (H0 e He). unfold req_strict in H0.
      apply andb_prop in H0. destruct H0 as [Ha Hb]. split.
      * apply existsb_exists in Ha. destruct Ha as (p & Hp & Hpe). exists p. split; [exact Hp|]. apply providesb_In. exact Hpe.
      * intros p Hp Hpe. rewrite forallb_forall in Hb. specialize (Hb p Hp).
        apply providesb_In in Hpe. rewrite Hpe in Hb. discriminate.
    + injection E as -> ->.
      destruct (IH (bef ++ [x]) H1 r1 c r3 eq_refl e He) as [(p & Hp & Hpe) Hq]. split; [|exact Hq].
      exists p. split; [|exact Hpe]. rewrite <- app_assoc in Hp. exact Hp.
Qed.
