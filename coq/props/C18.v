(* C18 - combining results conserves counts and re-indexes by name and identity.
   Only statements (spelled out in full) closed by [exact], their assumptions, and non-vacuity examples.
   Model: coq/theories/Combine/Model.v (devs_merge, couples_merge, bd_merge, common_merge, literal_merge);
   specification functions: coq/theories/Combine/Spec.v.  The identity table computed by
   identity.MergeReversedDictsIdentities (property C16) is an ARGUMENT [people]/[merged] of the models; what
   the theorems need to know about it is the boolean [wf_table_b], which the replay driver evaluates on the
   table of every real call. *)
From Coq Require Import List ZArith Bool.
From Herc Require Import Combine.Model Combine.Spec Combine.DevsProofs Combine.CommonProofs
     Combine.LiteralProofs Combine.CouplesByName Combine.BurndownProofs Combine.RowsProofs.
Import ListNotations.
Open Scope Z_scope.

(* ------------------------------------------------------------------------------------------------------ *)
(* Developer statistics.  Whenever DevsAnalysis.MergeResults returns a result (it returns an error for
   different tick sizes and panics for tick size 0 or a developer index outside the people list), for EVERY
   identity table: each figure f (commits, added/removed/changed lines, and the same per language) stored
   for tick t and developer k is the sum of the input figures whose tick, shifted by the offset of their
   result, is t and whose developer the table sends to k; the totals over all ticks and developers are the
   sums of the totals of the inputs; the result's maps have distinct keys (so [out_cell] IS the stored cell). *)
Theorem C18_devs_conserve : forall people merged r1 r2 c1 c2 m,
  devs_merge people merged r1 r2 c1 c2 = Ok m ->
  exists o1 o2,
    tick_offsets (c_begin c1) (c_begin c2) (dr_ticksize r1) = Ok (o1, o2) /\
    dr_ticksize r1 = dr_ticksize r2 /\ dr_ticksize m = dr_ticksize r1 /\ dr_people m = merged /\
    (forall f, dv_total f (dr_ticks m) = dv_total f (dr_ticks r1) + dv_total f (dr_ticks r2)) /\
    (forall f t k, out_cell f t k (dr_ticks m) =
                   in_sum f people (dr_people r1) o1 t k (dr_ticks r1) +
                   in_sum f people (dr_people r2) o2 t k (dr_ticks r2)) /\
    dv_maps_ok (dr_ticks m) = true.
Proof. exact devs_merge_conserve. Qed.
Print Assumptions C18_devs_conserve.

(* Tick alignment by the begin dates: with a positive tick size d the result that begins earlier keeps its
   ticks and the other one is shifted by the number of whole ticks between the two begin times floored to
   multiples of d (counted from Go's zero time). *)
Theorem C18_devs_alignment : forall b1 b2 d,
  0 < d ->
  tick_offsets b1 b2 d =
  Ok (unix_to_abs b1 / d - Z.min (unix_to_abs b1 / d) (unix_to_abs b2 / d),
      unix_to_abs b2 / d - Z.min (unix_to_abs b1 / d) (unix_to_abs b2 / d)).
Proof. exact tick_offsets_spec. Qed.
Print Assumptions C18_devs_alignment.

(* The merge is defined on every pair of results with equal non-zero tick size and developer indices inside
   their people lists (or the unmatched-author index). *)
Theorem C18_devs_defined : forall people merged r1 r2 c1 c2,
  dr_ticksize r1 = dr_ticksize r2 -> dr_ticksize r1 <> 0 ->
  devs_in_range (dr_people r1) (dr_ticks r1) = true -> devs_in_range (dr_people r2) (dr_ticks r2) = true ->
  exists m, devs_merge people merged r1 r2 c1 c2 = Ok m.
Proof. exact devs_merge_defined. Qed.
Print Assumptions C18_devs_defined.

(* ------------------------------------------------------------------------------------------------------ *)
(* Couples.  Whenever CouplesAnalysis.MergeResults returns (file lists without duplicates), for EVERY identity
   table: the merged file list is the duplicate-free union; FilesLines adds up by file NAME; every cell (a, b)
   of the files matrix is the sum of the input cells whose row and column file NAMES are at positions a and b
   of the merged file list; every cell of the people matrix is the sum of the input cells whose row and column
   developers the table sends to a and b (index = number of merged developers: the unmatched developer);
   PeopleFiles of merged developer w is the strictly sorted union of the re-indexed file sets of the input
   developers sent to w. *)
Theorem C18_couples_sum : forall people merged r1 r2 m,
  NoDup (cr_files r1) -> NoDup (cr_files r2) ->
  couples_merge people merged r1 r2 = Ok m ->
  let mfiles := cr_files m in
  let fi1 := name_index mfiles (cr_files r1) in
  let fi2 := name_index mfiles (cr_files r2) in
  let pi1 := pidx0 people (cr_people r1) merged in
  let pi2 := pidx0 people (cr_people r2) merged in
  cr_people m = merged /\
  NoDup mfiles /\ (forall s, In s mfiles <-> In s (cr_files r1) \/ In s (cr_files r2)) /\
  length (cr_fl m) = length mfiles /\
  (forall name, In name mfiles ->
     lines_of mfiles (cr_fl m) name =
     lines_of (cr_files r1) (cr_fl r1) name + lines_of (cr_files r2) (cr_fl r2) name) /\
  length (cr_fm m) = length mfiles /\ forallb (keys_nodup Z.eqb) (cr_fm m) = true /\
  (forall a b, out_get (cr_fm m) a b = rows_sum fi1 a b (cr_fm r1) 0 + rows_sum fi2 a b (cr_fm r2) 0) /\
  length (cr_pm m) = S (length merged) /\ forallb (keys_nodup Z.eqb) (cr_pm m) = true /\
  (forall a b, out_get (cr_pm m) a b = rows_sum pi1 a b (cr_pm r1) 0 + rows_sum pi2 a b (cr_pm r2) 0) /\
  length (cr_pf m) = length merged /\
  (forall w, strictly_sorted (nthZ (cr_pf m) w []) = true) /\
  (forall w x, In x (nthZ (cr_pf m) w []) <->
               In x (pf_members (pfidx0 people (cr_people r1)) fi1 w (cr_pf r1) 0) \/
               In x (pf_members (pfidx0 people (cr_people r2)) fi2 w (cr_pf r2) 0)).
Proof. exact couples_merge_by_name. Qed.
Print Assumptions C18_couples_sum.

(* identity.MergeReversedDictsLiteral (the file table): defined for a duplicate-free first list; the merged
   list is the duplicate-free union, a name's Final index is its position there, First/Second are -1 exactly
   for names the list does not contain and otherwise positions holding that name. *)
Theorem C18_file_table : forall rd1 rd2,
  NoDup rd1 ->
  exists tab mrd,
    literal_merge rd1 rd2 = Ok (tab, mrd) /\
    mrd = map fst tab /\ NoDup mrd /\
    (forall s, In s mrd <-> In s rd1 \/ In s rd2) /\
    (forall s m, lookup tab s = Some m ->
       nth_error mrd (Z.to_nat (Final m)) = Some s /\ 0 <= Final m /\
       first_ok rd1 s m /\ second_ok rd2 s m) /\
    (forall s, In s rd1 \/ In s rd2 -> exists m, lookup tab s = Some m).
Proof. exact literal_merge_spec. Qed.
Print Assumptions C18_file_table.

(* ------------------------------------------------------------------------------------------------------ *)
(* Burndown: which input developers the history and the interaction row of a merged developer come from.
   The clause of the property is FALSE of the code as it is (finding F8): MergeResults looks the MERGED
   identity string up in the table, which is keyed by INPUT identity strings.  What holds:

   C18_people_selection: for a well-formed identity table in which every input identity is spelled exactly
   like the merged identity it belongs to ([literal_b]: identities are identical or have nothing in common),
   for every opaque mergeMatrices, the history of every merged developer w is mergeMatrices applied to exactly
   the histories of the members of w (the empty matrix for a result that has no member of w). *)
Theorem C18_people_selection : forall (mergeM : matrix -> matrix -> matrix) people merged r1 r2 m,
  wf_table_b people (br_people r1) (br_people r2) merged = true ->
  literal_b people (br_people r1) merged = true -> literal_b people (br_people r2) merged = true ->
  bd_merge mergeM people merged r1 r2 = Ok m ->
  nonempty (br_ph r1) || nonempty (br_ph r2) = true ->
  length (br_ph m) = length merged /\
  forall w, 0 <= w < lenZ merged ->
    exists m1 m2, nth_error (br_ph m) (Z.to_nat w) = Some (mergeM m1 m2) /\
                  hist_of (br_ph r1) (members people (br_people r1) w) m1 /\
                  hist_of (br_ph r2) (members people (br_people r2) w) m2.
Proof. exact people_history_exact. Qed.
Print Assumptions C18_people_selection.

(* The same for the interaction matrix (both matrices present, one row of n+2 cells per developer): under the
   same hypotheses every cell of row w is the sum over the members of w of their cells - columns 0 (own lines)
   and 1 (removed by unknown authors) kept, column 2+k' collecting the columns 2+k of the members k of merged
   developer k'. *)
Theorem C18_interaction_rows : forall people merged r1 r2 out,
  wf_table_b people (br_people r1) (br_people r2) merged = true ->
  literal_b people (br_people r1) merged = true -> literal_b people (br_people r2) merged = true ->
  nonempty (br_pm r2) = true ->
  rect_b (length (br_people r1)) (br_pm r1) = true -> rect_b (length (br_people r2)) (br_pm r2) = true ->
  bd_people_matrix people merged r1 r2 = Ok out ->
  length out = length merged /\
  forall w c, cellZ out w c = pm_spec_cell people (br_people r1) (br_people r2) (br_pm r1) (br_pm r2) w c.
Proof. exact people_rows_exact. Qed.
Print Assumptions C18_interaction_rows.

(* The selection test itself: under the hypotheses it is exact for every merged developer ... *)
Theorem C18_people_selection_exact : forall people rd1 rd2 merged,
  wf_table_b people rd1 rd2 merged = true ->
  literal_b people rd1 merged = true -> literal_b people rd2 merged = true ->
  forall w, 0 <= w < lenZ merged -> sel_exact_b people rd1 rd2 merged w = true.
Proof. exact selection_exact_b. Qed.
Print Assumptions C18_people_selection_exact.

(* ... and conversely the EXACT condition under which the clause fails: with a well-formed table the selection
   for merged developer w is right only if every member of w is spelled like the merged identity, or - by
   accident - the merged spelling is no input identity at all and the members are precisely position 0 of
   both lists (the zero value {0,0,0} of the missing map entry points at them). *)
Theorem C18_people_selection_only_if : forall people rd1 rd2 merged w,
  wf_table people rd1 rd2 merged -> 0 <= w < lenZ merged ->
  sel_exact_b people rd1 rd2 merged w = true ->
  ((forall i, In i (members people rd1 w) -> nthZ rd1 i [] = nthZ merged w []) /\
   (forall i, In i (members people rd2 w) -> nthZ rd2 i [] = nthZ merged w []))
  \/ (lookup people (nthZ merged w []) = None /\ members people rd1 w = [0] /\ members people rd2 w = [0]).
Proof. exact selection_exact_only_if. Qed.
Print Assumptions C18_people_selection_only_if.

(* The refutation (F8), with the table MergeReversedDictsIdentities really returns for
   ["bob|b@y"; "ann|a@x"] and ["ann|c@z"]: merged developer 1 = "ann|a@x|c@z" has the members 1 (first list)
   and 0 (second list), the code selects 0 and 0: for every mergeMatrices and all histories, the history of
   "ann" is computed from the history of "bob|b@y". *)
Theorem C18_people_selection_refuted :
  wf_table_b w_people w_rd1 w_rd2 w_merged = true /\
  members w_people w_rd1 1 = [1] /\ members w_people w_rd2 1 = [0] /\
  selected w_people (nthZ w_merged 1 []) = (Some 0, Some 0) /\
  sel_exact_b w_people w_rd1 w_rd2 w_merged 1 = false /\
  forall (mergeM : matrix -> matrix -> matrix) (hbob hann1 hann2 : matrix) r1 r2 m,
    br_people r1 = w_rd1 -> br_people r2 = w_rd2 ->
    br_ph r1 = [hbob; hann1] -> br_ph r2 = [hann2] ->
    bd_merge mergeM w_people w_merged r1 r2 = Ok m ->
    nth_error (br_ph m) 1 = Some (mergeM hbob hann2).
Proof. exact people_selection_refuted. Qed.
Print Assumptions C18_people_selection_refuted.

(* The remaining fields of the merged burndown result. *)
Theorem C18_burndown_summary : forall (mergeM : matrix -> matrix -> matrix) people merged r1 r2 m,
  bd_merge mergeM people merged r1 r2 = Ok m ->
  br_ticksize r1 = br_ticksize r2 /\
  br_people m = merged /\
  br_ticksize m = (if br_ticksize r1 =? 0 then DefaultTickSize else br_ticksize r1) /\
  br_sampling m = Z.min (br_sampling r1) (br_sampling r2) /\
  br_granularity m = Z.min (br_granularity r1) (br_granularity r2) /\
  br_global m = (if nonempty (br_global r1) || nonempty (br_global r2)
                 then mergeM (br_global r1) (br_global r2) else []).
Proof. exact bd_merge_summary. Qed.
Print Assumptions C18_burndown_summary.

(* ------------------------------------------------------------------------------------------------------ *)
(* Common summary: earliest begin, latest end, sums of the commit counts and run times; Merge panics exactly
   when the receiver has no end time or the argument no begin time (or a nil per-item map would be written). *)
Theorem C18_common : forall c1 c2 c,
  common_merge c1 c2 = Ok c ->
  c_begin c = Z.min (c_begin c1) (c_begin c2) /\
  c_end c = Z.max (c_end c1) (c_end c2) /\
  c_commits c = c_commits c1 + c_commits c2 /\
  c_runtime c = c_runtime c1 + c_runtime c2 /\
  c_end c1 <> 0 /\ c_begin c2 <> 0.
Proof. exact common_merge_ok. Qed.
Print Assumptions C18_common.

Theorem C18_common_panics : forall c1 c2,
  c_end c1 = 0 \/ c_begin c2 = 0 -> common_merge c1 c2 = Panic.
Proof. exact common_merge_panics. Qed.
Print Assumptions C18_common_panics.

Theorem C18_common_defined : forall c1 c2,
  c_end c1 <> 0 -> c_begin c2 <> 0 ->
  (c_items c1 <> None \/ c_items c2 = None \/ c_items c2 = Some []) ->
  exists c, common_merge c1 c2 = Ok c.
Proof. exact common_merge_defined. Qed.
Print Assumptions C18_common_defined.

(* ------------------------------------------------------------------------------------------------------ *)
(* Non-vacuity: concrete results on which the hypotheses hold and the merges succeed.
   Identities: a = "a", b = "b", c = "c"; first list [a; b], second list [b; c]; merged [a; b; c]. *)
Definition ex_a : name := [97].  Definition ex_b : name := [98].  Definition ex_c : name := [99].
Definition ex_go : name := [71;111].
Definition ex_people : table := [(ex_a, mkMI 0 0 (-1)); (ex_b, mkMI 1 1 0); (ex_c, mkMI 2 (-1) 1)].
Definition ex_merged := [ex_a; ex_b; ex_c].
Definition ex_day : Z := 86400000000000.
Definition ex_c1 := mkC 1500000000 1500900000 10 5 (Some []).
Definition ex_c2 := mkC 1500300000 1501000000 7 6 (Some []).

Definition ex_dv1 := mkDR [(0, [(0, mkDT 1 (mkLS 10 2 3) [(ex_go, mkLS 10 2 3)]); (1, mkDT 2 (mkLS 4 0 0) [])]);
                           (5, [(1, mkDT 1 (mkLS 1 1 1) []); (AuthorMissing, mkDT 1 (mkLS 0 0 9) [])])]
                          [ex_a; ex_b] ex_day.
Definition ex_dv2 := mkDR [(2, [(0, mkDT 3 (mkLS 7 7 7) [(ex_go, mkLS 1 0 0)]); (1, mkDT 1 (mkLS 2 0 0) [])])]
                          [ex_b; ex_c] ex_day.
Example C18_ex_devs : exists m,
  devs_merge ex_people ex_merged ex_dv1 ex_dv2 ex_c1 ex_c2 = Ok m /\
  tick_offsets (c_begin ex_c1) (c_begin ex_c2) ex_day = Ok (0, 3) /\
  dv_conserve_b ex_people ex_merged ex_dv1 ex_dv2 0 3 m = true /\
  out_cell FCommits 5 1 (dr_ticks m) = 4 /\ dv_total FCommits (dr_ticks m) = 9 /\
  dv_total (FLang ex_go LAdded) (dr_ticks m) = 11.
Proof. eexists. split; [vm_compute; reflexivity|]. repeat split; vm_compute; reflexivity. Qed.

Definition ex_f : name := [102].  Definition ex_g : name := [103].  Definition ex_h : name := [104].
Definition ex_cp1 := mkCR [[(0, 3); (1, 1)]; [(0, 1); (1, 2)]; [(2, 1)]] [[0; 1]; [1]] [[(0, 5); (1, 2)]; [(0, 2); (1, 4)]]
                          [100; 200] [ex_f; ex_g] [ex_a; ex_b].
Definition ex_cp2 := mkCR [[(0, 1)]; [(1, 6); (2, 1)]; []] [[0]; [0; 1]] [[(0, 1); (1, 1)]; [(0, 1); (1, 9)]]
                          [210; 50] [ex_g; ex_h] [ex_b; ex_c].
Example C18_ex_couples : exists m,
  couples_merge ex_people ex_merged ex_cp1 ex_cp2 = Ok m /\
  cp_sum_b ex_people ex_merged ex_cp1 ex_cp2 m = true /\
  cr_files m = [ex_f; ex_g; ex_h] /\ cr_fl m = [100; 410; 50] /\
  out_get (cr_fm m) 1 1 = 5 /\ out_get (cr_pm m) 1 1 = 3 /\ nthZ (cr_pf m) 1 [] = [1].
Proof. eexists. split; [vm_compute; reflexivity|]. repeat split; vm_compute; reflexivity. Qed.

Definition ex_bd1 := mkBR [[1048576]] [[[1]]; [[2]]] [[5; 1; 0; 2]; [3; 0; 1; 0]] [ex_a; ex_b] ex_day 1 1.
Definition ex_bd2 := mkBR [[2097152]] [[[1024]]; [[2048]]] [[7; 0; 0; 4]; [1; 1; 2; 0]] [ex_b; ex_c] ex_day 1 1.
Example C18_ex_burndown : exists m,
  wf_table_b ex_people (br_people ex_bd1) (br_people ex_bd2) ex_merged = true /\
  literal_b ex_people (br_people ex_bd1) ex_merged = true /\
  literal_b ex_people (br_people ex_bd2) ex_merged = true /\
  rect_b 2 (br_pm ex_bd1) = true /\ rect_b 2 (br_pm ex_bd2) = true /\
  bd_merge code_merge ex_people ex_merged ex_bd1 ex_bd2 = Ok m /\
  map code (br_ph m) = [1; 1026; 2048] /\
  br_pm m = [[5; 1; 0; 2; 0]; [10; 0; 1; 0; 4]; [1; 1; 0; 2; 0]] /\
  pm_rows_b ex_people ex_merged ex_bd1 ex_bd2 (br_pm m) = true.
Proof. eexists. repeat split; vm_compute; reflexivity. Qed.

Example C18_ex_common : exists c,
  common_merge ex_c1 ex_c2 = Ok c /\ c = mkC 1500000000 1501000000 17 11 (Some []).
Proof. eexists. split; vm_compute; reflexivity. Qed.

(* ==== strengthening round: large results and large identity graphs ==== *)
From Herc Require Import Combine.FastOracles Combine.IdentityBridge
     Plumbing.IdStr Plumbing.IdentityMerge Plumbing.IdentityMergeProofs.

(* The oracles the replay driver runs on LARGE cases (10^3 .. 10^4 files, developers, ticks) are different, faster
   functions (coq/theories/Combine/FastOracles.v: both sides flattened to keyed sums in canonical form, index maps
   tabulated once); whatever they accept, the oracles of Spec.v accept. *)
Theorem C18_couples_fast_oracle_sound : forall people merged r1 r2 out,
  cp_sum_fast_b people merged r1 r2 out = true -> cp_sum_b people merged r1 r2 out = true.
Proof. exact cp_sum_fast_sound. Qed.
Print Assumptions C18_couples_fast_oracle_sound.

Theorem C18_devs_fast_oracle_sound : forall people merged r1 r2 o1 o2 out,
  dv_conserve_fast_b people merged r1 r2 o1 o2 out = true -> dv_conserve_b people merged r1 r2 o1 o2 out = true.
Proof. exact dv_conserve_fast_sound. Qed.
Print Assumptions C18_devs_fast_oracle_sound.

(* "Re-indexes by merged developer IDENTITY": when the identity table of a MergeResults call passes the executable
   statements of C16 (mtotal_okb, mcomponents_okb: coq/theories/Plumbing/IdentityMerge.v), which the replay driver
   of C18 evaluates on the table of the real calls, two input identities are sent to the same merged developer - in
   the sense in which every model and specification function of C18 reads the table, Final (lookup0 people s) -
   exactly when they are connected by shared names / e-mails (reflexive-transitive closure of "share a part"),
   and every merged index lies inside the merged list. *)
Theorem C18_identity_classes : forall people rd1 rd2 merged,
  mtotal_okb rd1 rd2 (table_c16 people) merged = true ->
  mcomponents_okb rd1 rd2 (table_c16 people) = true ->
  forall s t, In s (rd1 ++ rd2) -> In t (rd1 ++ rd2) ->
  (Final (lookup0 people s) = Final (lookup0 people t) <-> connected (rd1 ++ rd2) s t).
Proof. exact table_classes. Qed.
Print Assumptions C18_identity_classes.

Theorem C18_identity_finals_in_range : forall people rd1 rd2 merged,
  mtotal_okb rd1 rd2 (table_c16 people) merged = true ->
  forall s, In s (rd1 ++ rd2) -> 0 <= Final (lookup0 people s) < lenZ merged.
Proof. exact table_finals_in_range. Qed.
Print Assumptions C18_identity_finals_in_range.

(* non-vacuity: the fast oracles accept the outputs of the model on the examples above, and C16's statements hold of
   the example table *)
Example C18_ex_fast_oracles :
  (exists m, couples_merge ex_people ex_merged ex_cp1 ex_cp2 = Ok m /\
             cp_sum_fast_b ex_people ex_merged ex_cp1 ex_cp2 m = true) /\
  (exists m, devs_merge ex_people ex_merged ex_dv1 ex_dv2 ex_c1 ex_c2 = Ok m /\
             dv_conserve_fast_b ex_people ex_merged ex_dv1 ex_dv2 0 3 m = true) /\
  mtotal_okb (cr_people ex_cp1) (cr_people ex_cp2) (table_c16 ex_people) ex_merged = true /\
  mcomponents_okb (cr_people ex_cp1) (cr_people ex_cp2) (table_c16 ex_people) = true.
Proof.
  split; [eexists; split; vm_compute; reflexivity|]. split; [eexists; split; vm_compute; reflexivity|].
  split; vm_compute; reflexivity.
Qed.
