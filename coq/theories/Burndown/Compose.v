(* Composition of C01 with C03, C07 and C02.

   Part 1: BurndownAnalysis over REAL tracker states.  [T*] below is leaves/burndown.go transcribed exactly as in
   Analysis.v, except that a tracked file is a C03 node list ([tfile]) edited by the C03 model of File.Update /
   NewFile ([tr_update], [tr_new], ComposeFile.v) and merged by the C07 model of File.Merge ([tr_file_merge],
   ComposeMerge.v); Hibernate / Boot are explicit functions on a branch.
   Part 2: simulation.  Run along any plan, with any plumbing (authors, ticks, change lists), the tracker-level
   analysis and the array-level analysis of Analysis.v agree at every step: both fail or both succeed, and then
   the tracker world flattens to the array world and the shared histories (global, per file, per developer,
   interaction matrix) are EQUAL.  Side conditions: authors within 0..AuthorMissing, ticks uint32, the line
   counts of every change fit a uint32 ([changes_fit]), Hibernate / Boot are the identity.
   Part 3: the composed theorems, with C02's validator in the place of C01's (ComposePlan.v). *)
From Coq Require Import List ZArith Lia Bool.
From Herc Require Import Burndown.Base Burndown.Dense Burndown.Lifetimes Burndown.LifetimesFacts Burndown.Analysis
  Burndown.AnalysisFacts Burndown.SparseFacts Burndown.Replay Burndown.CommitProofs Burndown.DagProofs Burndown.MatrixProofs
  Burndown.ComposeFile Burndown.ComposeMerge Burndown.ComposePlan.
Import ListNotations.
Open Scope Z_scope.

(* ================================================================ Part 1: the analysis over trackers *)
Record tbranch := mkTBranch {
  tb_files : list (Z * tfile);
  tb_merged : list (Z * bool);
  tb_mauthor : Z;
  tb_tick : Z;
  tb_prev : Z
}.
Definition tbranch0 : tbranch := mkTBranch [] [] author_missing 0 0.

Definition twith_files (b : tbranch) x := mkTBranch x (tb_merged b) (tb_mauthor b) (tb_tick b) (tb_prev b).
Definition twith_merged (b : tbranch) x := mkTBranch (tb_files b) x (tb_mauthor b) (tb_tick b) (tb_prev b).
Definition ton_new_tick (b : tbranch) : tbranch :=
  mkTBranch (tb_files b) (tb_merged b) author_missing (tb_tick b) (if tb_prev b <? tb_tick b then tb_tick b else tb_prev b).

Notation tst := (tbranch * shared)%type (only parsing).

(* newFile + handleInsertion *)
Definition thandle_insertion (cf : cfg) (author : Z) (b : tbranch) (s : shared) (path lines : Z) : result tst :=
  match aget (tb_files b) path with
  | Some _ => Err PExists
  | None =>
      let '(hd, s1) :=
        if c_files cf then
          match aget (s_names s) path with
          | Some h => (Some h, s)
          | None => (Some (s_next s),
                     with_fhs (with_names s (aset (s_names s) path (s_next s)) (s_next s + 1))
                              (aset (s_fhs s) (s_next s) []))
          end
        else (None, s) in
      let t := if c_people cf =? 0 then tb_tick b else pack cf author (tb_tick b) in
      match tr_new cf hd s1 t lines with
      | Ok (f, s2) =>
          let b1 := twith_files b (aset (tb_files b) path f) in
          let s3 := with_dels s2 (adel (s_dels s2) path) in
          let b2 := if tb_tick b =? mark then twith_merged b1 (aset (tb_merged b1) path true) else b1 in
          Ok (b2, s3)
      | Panic c => Panic c
      | Err c => Err c
      end
  end.

Definition thandle_deletion (cf : cfg) (author : Z) (b : tbranch) (s : shared) (path lines : Z) : result tst :=
  match aget (tb_files b) path with
  | None => Ok (b, s)
  | Some f =>
      let tick := if (tb_tick b =? mark) && negb (aget_d false (s_dels s) path) then 0 else tb_tick b in
      let s1 := with_dels s (aset (s_dels s) path true) in
      match tr_update cf f s1 (pack cf author tick) 0 0 lines with
      | Ok (_, s2) =>
          let b1 := twith_files b (adel (tb_files b) path) in
          let s3 := with_names s2 (adel (s_names s2) path) (s_next s2) in
          let b2 := if tb_tick b =? mark then twith_merged b1 (aset (tb_merged b1) path false) else b1 in
          Ok (b2, s3)
      | Panic c => Panic c
      | Err c => Err c
      end
  end.

(* File.Len() of the tracker *)
Definition tf_len (f : tfile) : Z := FM.len (tf_nodes f).

Definition thandle_modification (cf : cfg) (author : Z) (b : tbranch) (s : shared)
           (path old_loc new_loc : Z) (diffs : list (dop * Z)) : result tst :=
  let b0 := if tb_tick b =? mark then twith_merged b (aset (tb_merged b) path true) else b in
  match aget (tb_files b0) path with
  | None => thandle_insertion cf author b0 s path new_loc
  | Some f =>
      if negb (tf_len f =? old_loc) then Err PIntegrity
      else
        match thm_loop cf (pack cf author (tb_tick b0)) diffs 0 (DEq, 0) f s with
        | Ok (f', s') =>
            if negb (tf_len f' =? new_loc) then Err PIntegrity
            else Ok (twith_files b0 (aset (tb_files b0) path f'), s')
        | Panic c => Panic c
        | Err c => Err c
        end
  end.

Fixpoint thandle_changes (cf : cfg) (author : Z) (chs : list change) (b : tbranch) (s : shared) : result tst :=
  match chs with
  | [] => Ok (b, s)
  | ch :: rest =>
      let r := match ch with
               | CInsert p n => thandle_insertion cf author b s p n
               | CDelete p n => thandle_deletion cf author b s p n
               | CModify p o n d => thandle_modification cf author b s p o n d
               end in
      match r with
      | Ok (b', s') => thandle_changes cf author rest b' s'
      | e => e
      end
  end.

Definition tconsume (cf : cfg) (author tick : Z) (is_merge : bool) (chs : list change)
           (b : tbranch) (s : shared) : result tst :=
  let b1 :=
    if is_merge then mkTBranch (tb_files b) [] author mark (tb_prev b)
    else ton_new_tick (mkTBranch (tb_files b) (tb_merged b) (tb_mauthor b) tick (tb_prev b)) in
  match thandle_changes cf author chs b1 s with
  | Ok (b2, s2) => Ok (mkTBranch (tb_files b2) (tb_merged b2) (tb_mauthor b2) tick (tb_prev b2), s2)
  | e => e
  end.

Fixpoint tsome_files (l : list (option tfile)) : list tfile :=
  match l with [] => [] | Some f :: r => f :: tsome_files r | None :: r => tsome_files r end.

Fixpoint tmerge_keys (cf : cfg) (day : Z) (keys : list (Z * bool)) (all : list tbranch) (s : shared)
  : result (list tbranch * shared) :=
  match keys with
  | [] => Ok (all, s)
  | (k, false) :: rest =>
      tmerge_keys cf day rest (map (fun b => twith_files b (adel (tb_files b) k)) all) s
  | (k, true) :: rest =>
      match tsome_files (map (fun b => aget (tb_files b) k) all) with
      | [] => tmerge_keys cf day rest all s
      | f0 :: others =>
          match tr_file_merge cf day f0 others s with
          | Ok (f', s') => tmerge_keys cf day rest (map (fun b => twith_files b (aset (tb_files b) k f')) all) s'
          | Panic c => Panic c
          | Err c => Err c
          end
      end
  end.

Definition tanalysis_merge (cf : cfg) (all : list tbranch) (s : shared) : result (list tbranch * shared) :=
  match all with
  | [] => Ok ([], s)
  | me :: _ =>
      let keys := fold_left (fun ks b => merged_keys ks (tb_merged b)) all [] in
      match tmerge_keys cf (pack cf (tb_mauthor me) (tb_tick me)) keys all s with
      | Ok (me' :: rest, s') => Ok (ton_new_tick me' :: rest, s')
      | r => r
      end
  end.

Record tlbranch := mkTLB { tlb_state : tbranch; tlb_last : option Z }.
Record tworld := mkTWorld { tw_branches : list (Z * tlbranch); tw_shared : shared }.
Definition tworld0 : tworld := mkTWorld [] shared0.

Fixpoint tget_all (bs : list Z) (m : list (Z * tlbranch)) : option (list tlbranch) :=
  match bs with
  | [] => Some []
  | b :: r => match aget m b, tget_all r m with
              | Some x, Some xs => Some (x :: xs)
              | _, _ => None
              end
  end.
Fixpoint tset_all (bs : list Z) (xs : list tlbranch) (m : list (Z * tlbranch)) : list (Z * tlbranch) :=
  match bs, xs with
  | b :: r, x :: xr => tset_all r xr (aset m b x)
  | _, _ => m
  end.

(* Hibernate / Boot of the listed branches that are live *)
Definition tapply (g : tbranch -> tbranch) (bs : list Z) (m : list (Z * tlbranch)) : list (Z * tlbranch) :=
  fold_left (fun m b => match aget m b with
                        | Some lb => aset m b (mkTLB (g (tlb_state lb)) (tlb_last lb))
                        | None => m
                        end) bs m.

Section TRun.
  Variable cf : cfg.
  Variable author_of_commit : Z -> Z.
  Variable tick_of_commit : Z -> Z.
  Variable changes_of : option Z -> Z -> list change.
  (* BurndownAnalysis.Hibernate / Boot as functions on the analysis state of a branch *)
  Variable hib boot : tbranch -> tbranch.

  Definition tstep (before_rev after : list action) (a : action) (w : tworld) : result tworld :=
    match a with
    | AEmerge b => Ok (mkTWorld (aset (tw_branches w) b (mkTLB tbranch0 None)) (tw_shared w))
    | ACommit c b =>
        match aget (tw_branches w) b with
        | None => Err POther
        | Some lb =>
            match tconsume cf (author_of_commit c) (tick_of_commit c) (is_merge_at before_rev after c)
                           (changes_of (tlb_last lb) c) (tlb_state lb) (tw_shared w) with
            | Ok (b', s') => Ok (mkTWorld (aset (tw_branches w) b (mkTLB b' (Some c))) s')
            | Panic e => Panic e
            | Err e => Err e
            end
        end
    | AFork b bs =>
        match aget (tw_branches w) b with
        | None => Err POther
        | Some lb => Ok (mkTWorld (fold_left (fun m b' => aset m b' lb) bs (tw_branches w)) (tw_shared w))
        end
    | AMerge bs =>
        match tget_all bs (tw_branches w) with
        | None => Err POther
        | Some lbs =>
            match tanalysis_merge cf (map tlb_state lbs) (tw_shared w) with
            | Ok (sts, s') =>
                Ok (mkTWorld (tset_all bs (map (fun p => mkTLB (fst p) (tlb_last (snd p))) (combine sts lbs))
                                       (tw_branches w)) s')
            | Panic e => Panic e
            | Err e => Err e
            end
        end
    | ADelete b => Ok (mkTWorld (adel (tw_branches w) b) (tw_shared w))
    | AHibernate bs => Ok (mkTWorld (tapply hib bs (tw_branches w)) (tw_shared w))
    | ABoot bs => Ok (mkTWorld (tapply boot bs (tw_branches w)) (tw_shared w))
    end.

  Fixpoint trun_from (before_rev : list action) (plan : list action) (w : tworld) : result tworld :=
    match plan with
    | [] => Ok w
    | a :: rest => match tstep before_rev rest a w with
                   | Ok w' => trun_from (a :: before_rev) rest w'
                   | e => e
                   end
    end.
  Definition trun (plan : list action) : result tworld := trun_from [] plan tworld0.
End TRun.

(* ================================================================ Part 2: the simulation *)
(* ---------- flattening ---------- *)
Definition amap {V W} (g : V -> W) (l : list (Z * V)) : list (Z * W) := map (fun kv => (fst kv, g (snd kv))) l.

Lemma aget_amap {V W} (g : V -> W) l k : aget (amap g l) k = option_map g (aget l k).
Proof.
  induction l as [|[k' v] r IH]; cbn [amap map aget fst snd]; [reflexivity|].
  destruct (k' =? k); [reflexivity|exact IH].
Qed.
Lemma aset_amap {V W} (g : V -> W) l k v : aset (amap g l) k (g v) = amap g (aset l k v).
Proof.
  induction l as [|[k' v'] r IH]; cbn [amap map aset fst snd]; [reflexivity|].
  destruct (k' =? k); cbn [map fst snd]; [reflexivity|]. f_equal. exact IH.
Qed.
Lemma adel_amap {V W} (g : V -> W) l k : adel (amap g l) k = amap g (adel l k).
Proof.
  induction l as [|[k' v'] r IH]; cbn [amap map adel fst snd]; [reflexivity|].
  destruct (k' =? k); cbn [map fst snd]; [reflexivity|]. f_equal. exact IH.
Qed.

Definition flat_branch (b : tbranch) : branch :=
  mkBranch (amap flat_file (tb_files b)) (tb_merged b) (tb_mauthor b) (tb_tick b) (tb_prev b).
Definition flat_lb (lb : tlbranch) : lbranch := mkLB (flat_branch (tlb_state lb)) (tlb_last lb).
Definition flat_world (w : tworld) : world := mkWorld (amap flat_lb (tw_branches w)) (tw_shared w).

(* ---------- invariants ---------- *)
Definition files_ok (l : list (Z * tfile)) : Prop := Forall (fun kf => tf_ok (snd kf)) l.
Definition tb_ok (b : tbranch) : Prop :=
  files_ok (tb_files b) /\ 0 <= tb_mauthor b <= author_missing /\ 0 <= tb_tick b < FM.MaxU32.
Definition tw_ok (w : tworld) : Prop := Forall (fun kb => tb_ok (tlb_state (snd kb))) (tw_branches w).

Lemma Forall_aget {V} (P : Z * V -> Prop) l k v : Forall P l -> aget l k = Some v -> exists k', P (k', v).
Proof.
  induction l as [|[k' v'] r IH]; cbn [aget]; intros HF E; [discriminate|].
  inversion HF; subst. destruct (k' =? k); [inversion E; subst; eauto|auto].
Qed.
Lemma Forall_aset {V} (P : V -> Prop) l k v :
  Forall (fun kv : Z * V => P (snd kv)) l -> P v -> Forall (fun kv : Z * V => P (snd kv)) (aset l k v).
Proof.
  induction l as [|[k' v'] r IH]; cbn [aset]; intros HF Hv; [constructor; auto|].
  inversion HF; subst. destruct (k' =? k); constructor; auto.
Qed.
Lemma Forall_adel {V} (P : V -> Prop) l k :
  Forall (fun kv : Z * V => P (snd kv)) l -> Forall (fun kv : Z * V => P (snd kv)) (adel l k).
Proof.
  induction l as [|[k' v'] r IH]; cbn [adel]; intros HF; [constructor|].
  inversion HF; subst. destruct (k' =? k); [auto|constructor; auto].
Qed.
Lemma files_ok_aget l k f : files_ok l -> aget l k = Some f -> tf_ok f.
Proof. intros H E. destruct (Forall_aget _ _ _ _ H E) as [k' Hk]. exact Hk. Qed.

(* ---------- the packed value is a uint32 below TreeEnd ---------- *)
Lemma pack_range cf a t : 0 <= a <= author_missing -> 0 <= t < FM.MaxU32 -> 0 <= pack cf a t < FM.MaxU32.
Proof.
  intros Ha Ht. unfold pack. destruct (c_people cf =? 0); [exact Ht|].
  rewrite land_mark by lia.
  assert (Hm : 0 <= t mod 16384 < 16384) by (apply Z.mod_pos_bound; lia).
  unfold tree_max_bin_power. rewrite lor_disjoint by lia.
  unfold author_missing, FM.MaxU32 in *. lia.
Qed.

Lemma mark_lt_max : 0 <= mark < FM.MaxU32.
Proof. unfold mark, FM.MaxU32. lia. Qed.

(* ---------- File.Len ---------- *)
Lemma tf_len_flat f : tf_ok f -> tf_len f = Z.of_nat (length (f_vals (flat_file f))).
Proof.
  intros [W _]. unfold tf_len, flat_file. cbn [f_vals].
  rewrite FV.len_slen, <- (FJ.alen_flatten _ (FV.WF_WF2 _ W)). reflexivity.
Qed.

(* ---------- the handlers ---------- *)
Definition st_rel (x : tbranch * shared) (y : branch * shared) : Prop :=
  tb_ok (fst x) /\ flat_branch (fst x) = fst y /\ snd x = snd y.

Lemma tb_ok_with_merged b m : tb_ok b -> tb_ok (twith_merged b m).
Proof. intros H. exact H. Qed.

Lemma flat_with_merged b m : flat_branch (twith_merged b m) = with_merged (flat_branch b) m.
Proof. reflexivity. Qed.

Lemma thandle_insertion_agree cf author tb sh path lines :
  tb_ok tb -> 0 <= author <= author_missing -> 0 <= lines <= FM.MaxU32 ->
  rel_res st_rel (thandle_insertion cf author tb sh path lines)
                 (handle_insertion cf author (flat_branch tb) sh path lines).
Proof.
  intros (Hf & Hma & Htk) Ha Hl. unfold thandle_insertion, handle_insertion.
  cbn [flat_branch b_files b_tick b_merged]. rewrite aget_amap.
  destruct (aget (tb_files tb) path) as [f0|]; cbn [option_map]; [exact I|].
  match goal with |- context [let '(hd, s1) := ?X in _] => destruct X as [hd s1] end.
  set (t := if c_people cf =? 0 then tb_tick tb else pack cf author (tb_tick tb)).
  assert (Ht : 0 <= t <= FM.MaxU32).
  { unfold t. destruct (c_people cf =? 0); [lia|]. pose proof (pack_range cf author (tb_tick tb) Ha Htk). lia. }
  pose proof (tr_new_agree cf hd s1 t lines Ht Hl) as A.
  destruct (tr_new cf hd s1 t lines) as [[f s2]| |], (update_time cf hd s1 t t lines) as [s2'| |];
    cbn [rel_res] in A; try contradiction; try exact I.
  destruct A as (Hfok & Hff & Hs). cbn [fst snd] in *. subst s2'.
  cbn [rel_res]. unfold st_rel. cbn [fst snd].
  assert (Hfiles : files_ok (aset (tb_files tb) path f)) by (apply Forall_aset; auto).
  assert (Hflat : amap flat_file (aset (tb_files tb) path f) =
                  aset (amap flat_file (tb_files tb)) path (mkFile (repeat t (Z.to_nat lines)) hd)).
  { rewrite <- Hff. symmetry. apply aset_amap. }
  destruct (tb_tick tb =? mark); (split; [split; [exact Hfiles|split; assumption]|split; [|reflexivity]]);
    unfold flat_branch, twith_files, twith_merged, with_files, with_merged;
    cbn [tb_files tb_merged tb_mauthor tb_tick tb_prev b_files b_merged b_mauthor b_tick b_prev];
    rewrite Hflat; reflexivity.
Qed.

Lemma tf_ok_alen f : tf_ok f -> FS.alen (FS.flatten (tf_nodes f)) <= FM.MaxU32.
Proof.
  intros [W _]. rewrite (FJ.alen_flatten _ (FV.WF_WF2 _ W)). destruct W as (_ & _ & _ & H0). exact H0.
Qed.

Lemma thandle_deletion_agree cf author tb sh path lines :
  tb_ok tb -> 0 <= author <= author_missing ->
  rel_res st_rel (thandle_deletion cf author tb sh path lines)
                 (handle_deletion cf author (flat_branch tb) sh path lines).
Proof.
  intros (Hf & Hma & Htk) Ha. unfold thandle_deletion, handle_deletion.
  cbn [flat_branch b_files b_tick b_merged]. rewrite aget_amap.
  destruct (aget (tb_files tb) path) as [f|] eqn:Eg; cbn [option_map].
  2:{ cbn [rel_res]. unfold st_rel, tb_ok. cbn [fst snd]. auto. }
  pose proof (files_ok_aget _ _ _ Hf Eg) as Hfok.
  set (tick := if (tb_tick tb =? mark) && negb (aget_d false (s_dels sh) path) then 0 else tb_tick tb).
  assert (Htick : 0 <= tick < FM.MaxU32).
  { unfold tick. destruct ((tb_tick tb =? mark) && negb (aget_d false (s_dels sh) path)); [unfold FM.MaxU32; lia|lia]. }
  pose proof (pack_range cf author tick Ha Htick) as Ht.
  pose proof (tf_ok_alen f Hfok) as Hal.
  pose proof (tr_update_agree cf f (with_dels sh (aset (s_dels sh) path true)) (pack cf author tick) 0 0 lines
                Hfok Ht ltac:(lia) ltac:(left; unfold FM.MaxU32; lia)) as A.
  destruct (tr_update cf f _ (pack cf author tick) 0 0 lines) as [[f1 s2]| |],
           (arr_update cf (flat_file f) _ (pack cf author tick) 0 0 lines) as [[g1 s2']| |];
    cbn [rel_res] in A; try contradiction; try exact I.
  destruct A as (_ & _ & Hs). cbn [fst snd] in Hs. subst s2'.
  cbn [rel_res]. unfold st_rel. cbn [fst snd].
  assert (Hfiles : files_ok (adel (tb_files tb) path)) by (apply Forall_adel; auto).
  destruct (tb_tick tb =? mark); (split; [split; [exact Hfiles|split; assumption]|split; [|reflexivity]]);
    unfold flat_branch, twith_files, twith_merged, with_files, with_merged;
    cbn [tb_files tb_merged tb_mauthor tb_tick tb_prev b_files b_merged b_mauthor b_tick b_prev];
    rewrite adel_amap; reflexivity.
Qed.

Lemma thandle_modification_agree cf author tb sh path old_loc new_loc diffs :
  tb_ok tb -> 0 <= author <= author_missing ->
  0 <= new_loc <= FM.MaxU32 -> old_loc + ins_total diffs <= FM.MaxU32 ->
  rel_res st_rel (thandle_modification cf author tb sh path old_loc new_loc diffs)
                 (handle_modification cf author (flat_branch tb) sh path old_loc new_loc diffs).
Proof.
  intros Hok Ha Hn Hbud. unfold thandle_modification, handle_modification.
  set (tb0 := if tb_tick tb =? mark then twith_merged tb (aset (tb_merged tb) path true) else tb).
  assert (E0 : (if b_tick (flat_branch tb) =? mark
                then with_merged (flat_branch tb) (aset (b_merged (flat_branch tb)) path true)
                else flat_branch tb) = flat_branch tb0).
  { unfold tb0. cbn [flat_branch b_tick b_merged]. destruct (tb_tick tb =? mark); reflexivity. }
  rewrite E0.
  assert (Hok0 : tb_ok tb0) by (unfold tb0; destruct (tb_tick tb =? mark); exact Hok).
  assert (Etk : tb_tick tb0 = tb_tick tb) by (unfold tb0; destruct (tb_tick tb =? mark); reflexivity).
  clearbody tb0. clear E0.
  cbn [flat_branch b_files b_tick]. rewrite aget_amap.
  destruct (aget (tb_files tb0) path) as [f|] eqn:Eg; cbn [option_map].
  2:{ apply (thandle_insertion_agree cf author tb0 sh path new_loc Hok0 Ha Hn). }
  destruct Hok0 as (Hf & Hma & Htk).
  pose proof (files_ok_aget _ _ _ Hf Eg) as Hfok.
  rewrite (tf_len_flat f Hfok).
  destruct (Z.eqb_spec (Z.of_nat (length (f_vals (flat_file f)))) old_loc) as [El|Nl]; cbn [negb]; [|exact I].
  pose proof (pack_range cf author (tb_tick tb0) Ha Htk) as Ht.
  pose proof (thm_loop_agree cf (pack cf author (tb_tick tb0)) Ht diffs 0 (DEq, 0) f sh Hfok) as A.
  assert (Hb : FS.alen (FS.flatten (tf_nodes f)) + ins_of (DEq, 0) + ins_total diffs <= FM.MaxU32).
  { unfold ins_of. cbn [fst snd]. cbn [flat_file f_vals] in El. unfold FS.alen. lia. }
  specialize (A Hb).
  destruct (thm_loop cf _ diffs 0 (DEq, 0) f sh) as [[f1 s1]| |],
           (hm_loop cf _ diffs 0 (DEq, 0) (flat_file f) sh) as [[g1 s1']| |];
    cbn [rel_res] in A; try contradiction; try exact I.
  destruct A as (Hfok1 & Hff & Hs). cbn [fst snd] in *. subst s1' g1.
  rewrite (tf_len_flat f1 Hfok1).
  destruct (Z.eqb_spec (Z.of_nat (length (f_vals (flat_file f1)))) new_loc) as [El1|Nl1]; cbn [negb]; [|exact I].
  cbn [rel_res]. unfold st_rel. cbn [fst snd].
  split; [split; [apply Forall_aset; auto|split; assumption]|split; [|reflexivity]].
  unfold flat_branch, twith_files, with_files.
  cbn [tb_files tb_merged tb_mauthor tb_tick tb_prev b_files b_merged b_mauthor b_tick b_prev].
  rewrite aset_amap. reflexivity.
Qed.

(* the uint32 side condition on the changes of a commit: the line counts that NewFile / File.Update receive
   (and the lengths they produce) fit a uint32 *)
Definition change_fits (ch : change) : Prop :=
  match ch with
  | CInsert _ n => 0 <= n <= FM.MaxU32
  | CDelete _ _ => True
  | CModify _ o n d => 0 <= n <= FM.MaxU32 /\ o + ins_total d <= FM.MaxU32
  end.
Definition changes_fit (chs : list change) : Prop := Forall change_fits chs.

Lemma thandle_changes_agree cf author : 0 <= author <= author_missing -> forall chs tb sh,
  changes_fit chs -> tb_ok tb ->
  rel_res st_rel (thandle_changes cf author chs tb sh) (handle_changes cf author chs (flat_branch tb) sh).
Proof.
  intros Ha. induction chs as [|ch rest IH]; intros tb sh Hfit Hok; cbn [thandle_changes handle_changes].
  - cbn [rel_res]. unfold st_rel. cbn [fst snd]. auto.
  - inversion Hfit as [|? ? Hch Hrest]; subst.
    assert (A : rel_res st_rel
                  match ch with
                  | CInsert p n => thandle_insertion cf author tb sh p n
                  | CDelete p n => thandle_deletion cf author tb sh p n
                  | CModify p o n d => thandle_modification cf author tb sh p o n d
                  end
                  match ch with
                  | CInsert p n => handle_insertion cf author (flat_branch tb) sh p n
                  | CDelete p n => handle_deletion cf author (flat_branch tb) sh p n
                  | CModify p o n d => handle_modification cf author (flat_branch tb) sh p o n d
                  end).
    { destruct ch as [p n|p n|p o n d]; cbn [change_fits] in Hch.
      - apply thandle_insertion_agree; auto.
      - apply thandle_deletion_agree; auto.
      - destruct Hch. apply thandle_modification_agree; auto. }
    destruct (match ch with
              | CInsert p n => thandle_insertion cf author tb sh p n
              | CDelete p n => thandle_deletion cf author tb sh p n
              | CModify p o n d => thandle_modification cf author tb sh p o n d
              end) as [[b1 s1]| |],
             (match ch with
              | CInsert p n => handle_insertion cf author (flat_branch tb) sh p n
              | CDelete p n => handle_deletion cf author (flat_branch tb) sh p n
              | CModify p o n d => handle_modification cf author (flat_branch tb) sh p o n d
              end) as [[b2 s2]| |]; cbn [rel_res] in A; try contradiction; try exact I.
    destruct A as (Hok1 & Hfl & Hs). cbn [fst snd] in *. subst b2 s2. apply IH; auto.
Qed.

Lemma tconsume_agree cf author tick is_merge chs tb sh :
  0 <= author <= author_missing -> 0 <= tick < FM.MaxU32 -> changes_fit chs -> tb_ok tb ->
  rel_res st_rel (tconsume cf author tick is_merge chs tb sh)
                 (consume cf author tick is_merge chs (flat_branch tb) sh).
Proof.
  intros Ha Htk Hfit (Hf & Hma & Htb). unfold tconsume, consume.
  set (tb1 := if is_merge then mkTBranch (tb_files tb) [] author mark (tb_prev tb)
              else ton_new_tick (mkTBranch (tb_files tb) (tb_merged tb) (tb_mauthor tb) tick (tb_prev tb))).
  assert (E1 : (if is_merge
                then mkBranch (b_files (flat_branch tb)) [] author mark (b_prev (flat_branch tb))
                else on_new_tick (mkBranch (b_files (flat_branch tb)) (b_merged (flat_branch tb))
                                           (b_mauthor (flat_branch tb)) tick (b_prev (flat_branch tb))))
               = flat_branch tb1).
  { unfold tb1. destruct is_merge; reflexivity. }
  rewrite E1.
  assert (Hok1 : tb_ok tb1).
  { unfold tb1, tb_ok. destruct is_merge; cbn [ton_new_tick tb_files tb_mauthor tb_tick].
    - split; [exact Hf|]. split; [exact Ha|apply mark_lt_max].
    - split; [exact Hf|]. split; [unfold author_missing; lia|exact Htk]. }
  clearbody tb1. clear E1.
  pose proof (thandle_changes_agree cf author Ha chs tb1 sh Hfit Hok1) as A.
  destruct (thandle_changes cf author chs tb1 sh) as [[b2 s2]| |],
           (handle_changes cf author chs (flat_branch tb1) sh) as [[b2' s2']| |];
    cbn [rel_res] in A; try contradiction; try exact I.
  destruct A as ((Hf2 & Hma2 & _) & Hfl & Hs). cbn [fst snd] in *. subst b2' s2'.
  cbn [rel_res]. unfold st_rel. cbn [fst snd]. split; [|split; reflexivity].
  unfold tb_ok. cbn [tb_files tb_mauthor tb_tick]. auto.
Qed.

(* ---------- BurndownAnalysis.Merge ---------- *)
Definition all_rel (x : list tbranch * shared) (y : list branch * shared) : Prop :=
  Forall tb_ok (fst x) /\ map flat_branch (fst x) = fst y /\ snd x = snd y.

Lemma tsome_files_flat k : forall all,
  some_files (map (fun b => aget (b_files b) k) (map flat_branch all)) =
  map flat_file (tsome_files (map (fun b => aget (tb_files b) k) all)).
Proof.
  induction all as [|b r IH]; cbn [map some_files tsome_files]; [reflexivity|].
  cbn [flat_branch b_files]. rewrite aget_amap. destruct (aget (tb_files b) k); cbn [option_map map]; rewrite IH; reflexivity.
Qed.

Lemma tsome_files_ok k : forall all, Forall tb_ok all ->
  Forall tf_ok (tsome_files (map (fun b => aget (tb_files b) k) all)).
Proof.
  induction all as [|b r IH]; intros H; cbn [map tsome_files]; [constructor|].
  inversion H as [|? ? Hb Hr]; subst. destruct (aget (tb_files b) k) as [f|] eqn:E; [|auto].
  constructor; [|auto]. destruct Hb as (Hf & _). eapply files_ok_aget; eauto.
Qed.

Lemma tmerge_keys_agree cf day : 0 <= day <= FM.MaxU32 -> forall keys all s,
  Forall tb_ok all ->
  rel_res all_rel (tmerge_keys cf day keys all s) (merge_keys cf day keys (map flat_branch all) s).
Proof.
  intros Hday. induction keys as [|[k v] rest IH]; intros all s Hall; cbn [tmerge_keys merge_keys].
  - cbn [rel_res]. unfold all_rel. cbn [fst snd]. auto.
  - destruct v.
    + rewrite tsome_files_flat. pose proof (tsome_files_ok k all Hall) as Hsf.
      destruct (tsome_files (map (fun b => aget (tb_files b) k) all)) as [|f0 others]; cbn [map].
      * apply IH; auto.
      * inversion Hsf as [|? ? Hf0 Hothers]; subst.
        pose proof (tr_file_merge_agree cf day f0 others s Hf0 Hothers Hday) as A.
        destruct (tr_file_merge cf day f0 others s) as [[f1 s1]| |],
                 (file_merge cf day (flat_file f0) (map flat_file others) s) as [[g1 s1']| |];
          cbn [rel_res] in A; try contradiction; try exact I.
        destruct A as (Hf1 & Hfl & Hs). cbn [fst snd] in *. subst g1 s1'.
        replace (map (fun b => with_files b (aset (b_files b) k (flat_file f1))) (map flat_branch all))
          with (map flat_branch (map (fun b => twith_files b (aset (tb_files b) k f1)) all)).
        2:{ rewrite !map_map. apply map_ext. intros b. unfold flat_branch, twith_files, with_files.
            cbn [tb_files tb_merged tb_mauthor tb_tick tb_prev b_files b_merged b_mauthor b_tick b_prev].
            rewrite aset_amap. reflexivity. }
        apply IH. rewrite Forall_forall in *. intros b Hb. apply in_map_iff in Hb. destruct Hb as (b0 & <- & Hb0).
        destruct (Hall b0 Hb0) as (Hf & Hrest). split; [apply Forall_aset; auto|exact Hrest].
    + replace (map (fun b => with_files b (adel (b_files b) k)) (map flat_branch all))
        with (map flat_branch (map (fun b => twith_files b (adel (tb_files b) k)) all)).
      2:{ rewrite !map_map. apply map_ext. intros b. unfold flat_branch, twith_files, with_files.
          cbn [tb_files tb_merged tb_mauthor tb_tick tb_prev b_files b_merged b_mauthor b_tick b_prev].
          rewrite adel_amap. reflexivity. }
      apply IH. rewrite Forall_forall in *. intros b Hb. apply in_map_iff in Hb. destruct Hb as (b0 & <- & Hb0).
      destruct (Hall b0 Hb0) as (Hf & Hrest). split; [apply Forall_adel; auto|exact Hrest].
Qed.

Lemma fold_left_map_gen {A B C} (f : A -> C -> A) (g : B -> C) l : forall a,
  fold_left f (map g l) a = fold_left (fun a x => f a (g x)) l a.
Proof. induction l as [|x r IH]; intros a; cbn [map fold_left]; auto. Qed.

Lemma tanalysis_merge_agree cf all s : Forall tb_ok all ->
  rel_res all_rel (tanalysis_merge cf all s) (analysis_merge cf (map flat_branch all) s).
Proof.
  intros Hall. unfold tanalysis_merge, analysis_merge.
  destruct all as [|me r]; cbn [map].
  { cbn [rel_res]. unfold all_rel. cbn [fst snd]. auto. }
  change (flat_branch me :: map flat_branch r) with (map flat_branch (me :: r)).
  rewrite (fold_left_map_gen (fun ks b => merged_keys ks (b_merged b)) flat_branch (me :: r)).
  cbn [flat_branch b_merged b_mauthor b_tick].
  inversion Hall as [|? ? Hme Hr]; subst. destruct Hme as (Hfme & Hma & Htk).
  pose proof (pack_range cf (tb_mauthor me) (tb_tick me) Hma Htk) as Hday.
  pose proof (tmerge_keys_agree cf (pack cf (tb_mauthor me) (tb_tick me)) ltac:(lia)
                (fold_left (fun ks b => merged_keys ks (tb_merged b)) (me :: r) []) (me :: r) s Hall) as A.
  destruct (tmerge_keys cf _ _ (me :: r) s) as [[all1 s1]| |],
           (merge_keys cf _ _ (map flat_branch (me :: r)) s) as [[all1' s1']| |];
    cbn [rel_res] in A; try contradiction; try exact I.
  destruct A as (Hall1 & Hfl & Hs). cbn [fst snd] in *. subst all1' s1'.
  destruct all1 as [|me' rest]; cbn [map rel_res].
  - unfold all_rel. cbn [fst snd]. auto.
  - unfold all_rel. cbn [fst snd map]. inversion Hall1 as [|? ? Hme' Hrest]; subst.
    split; [|split; reflexivity]. constructor; [|exact Hrest].
    destruct Hme' as (Hf' & _ & Htk'). unfold tb_ok, ton_new_tick. cbn [tb_files tb_mauthor tb_tick].
    split; [exact Hf'|]. split; [unfold author_missing; lia|exact Htk'].
Qed.

(* ---------- plan execution ---------- *)
Definition w_rel (tw : tworld) (w : world) : Prop := tw_ok tw /\ flat_world tw = w.

Lemma tb_ok_0 : tb_ok tbranch0.
Proof. unfold tb_ok, tbranch0, files_ok. cbn. repeat split; try constructor; unfold author_missing, FM.MaxU32; lia. Qed.

Lemma aset_same {V} (l : list (Z * V)) k v : aget l k = Some v -> aset l k v = l.
Proof.
  induction l as [|[k' v'] r IH]; cbn [aget aset]; [discriminate|].
  destruct (Z.eqb_spec k' k) as [->|Hne]; intros E; [inversion E; reflexivity|]. rewrite IH; auto.
Qed.

Lemma tapply_id g bs : (forall b, g b = b) -> forall m, tapply g bs m = m.
Proof.
  intros Hg. unfold tapply. induction bs as [|b r IH]; intros m; cbn [fold_left]; [reflexivity|].
  destruct (aget m b) as [lb|] eqn:E; [|apply IH]. rewrite Hg. destruct lb as [st la]. cbn [tlb_state tlb_last].
  rewrite (aset_same m b _ E). apply IH.
Qed.

Lemma fork_amap lb bs : forall m,
  amap flat_lb (fold_left (fun m b' => aset m b' lb) bs m) =
  fold_left (fun m b' => aset m b' (flat_lb lb)) bs (amap flat_lb m).
Proof.
  induction bs as [|b r IH]; intros m; cbn [fold_left]; [reflexivity|]. rewrite IH, aset_amap. reflexivity.
Qed.

Lemma fork_ok lb bs : tb_ok (tlb_state lb) -> forall m,
  Forall (fun kb : Z * tlbranch => tb_ok (tlb_state (snd kb))) m ->
  Forall (fun kb : Z * tlbranch => tb_ok (tlb_state (snd kb))) (fold_left (fun m b' => aset m b' lb) bs m).
Proof.
  intros Hlb. induction bs as [|b r IH]; intros m Hm; cbn [fold_left]; [exact Hm|].
  apply IH. apply (Forall_aset (fun x => tb_ok (tlb_state x))); auto.
Qed.

Lemma get_all_amap bs : forall m, get_all bs (amap flat_lb m) = option_map (map flat_lb) (tget_all bs m).
Proof.
  induction bs as [|b r IH]; intros m; cbn [get_all tget_all]; [reflexivity|].
  rewrite aget_amap, IH. destruct (aget m b); cbn [option_map]; [|reflexivity].
  destruct (tget_all r m); reflexivity.
Qed.

Lemma tget_all_ok bs : forall m lbs, Forall (fun kb : Z * tlbranch => tb_ok (tlb_state (snd kb))) m ->
  tget_all bs m = Some lbs -> Forall tb_ok (map tlb_state lbs).
Proof.
  induction bs as [|b r IH]; intros m lbs Hm E; cbn [tget_all] in E.
  - inversion E. constructor.
  - destruct (aget m b) as [x|] eqn:Ex; [|discriminate]. destruct (tget_all r m) as [xs|] eqn:Exs; [|discriminate].
    inversion E; subst. cbn [map]. constructor; [|eapply IH; eauto].
    destruct (Forall_aget _ _ _ _ Hm Ex) as [k' Hk]. exact Hk.
Qed.

Lemma set_all_amap bs : forall xs m,
  set_all bs (map flat_lb xs) (amap flat_lb m) = amap flat_lb (tset_all bs xs m).
Proof.
  induction bs as [|b r IH]; intros xs m; cbn [set_all tset_all]; [destruct xs; reflexivity|].
  destruct xs as [|x xr]; cbn [map]; [reflexivity|]. rewrite aset_amap. apply IH.
Qed.

Lemma tset_all_ok bs : forall xs m, Forall (fun x => tb_ok (tlb_state x)) xs ->
  Forall (fun kb : Z * tlbranch => tb_ok (tlb_state (snd kb))) m ->
  Forall (fun kb : Z * tlbranch => tb_ok (tlb_state (snd kb))) (tset_all bs xs m).
Proof.
  induction bs as [|b r IH]; intros xs m Hxs Hm; cbn [tset_all]; [exact Hm|].
  destruct xs as [|x xr]; [exact Hm|]. inversion Hxs; subst.
  apply IH; [assumption|]. apply (Forall_aset (fun x => tb_ok (tlb_state x))); auto.
Qed.

Lemma combine_flat : forall sts lbs,
  map (fun p => mkLB (fst p) (lb_last (snd p))) (combine (map flat_branch sts) (map flat_lb lbs)) =
  map flat_lb (map (fun p => mkTLB (fst p) (tlb_last (snd p))) (combine sts lbs)).
Proof.
  induction sts as [|st r IH]; intros [|lb lbs]; cbn [map combine]; try reflexivity.
  rewrite IH. reflexivity.
Qed.

Lemma combine_ok : forall sts lbs, Forall tb_ok sts ->
  Forall (fun x => tb_ok (tlb_state x)) (map (fun p => mkTLB (fst p) (tlb_last (snd p))) (combine sts lbs)).
Proof.
  induction sts as [|st r IH]; intros [|lb lbs] H; cbn [map combine]; try constructor.
  - inversion H; subst. assumption.
  - inversion H; subst. apply IH. assumption.
Qed.

Section Sim.
  Variable cf : cfg.
  Variable author_of_commit : Z -> Z.
  Variable tick_of_commit : Z -> Z.
  Variable changes_of : option Z -> Z -> list change.
  Variable hib boot : tbranch -> tbranch.
  Hypothesis Hauth : forall c, 0 <= author_of_commit c <= author_missing.
  Hypothesis Htick : forall c, 0 <= tick_of_commit c < FM.MaxU32.
  Hypothesis Hfit : forall last c, changes_fit (changes_of last c).
  Hypothesis Hhib : forall b, hib b = b.
  Hypothesis Hboot : forall b, boot b = b.

  Notation tstep' := (tstep cf author_of_commit tick_of_commit changes_of hib boot).
  Notation step' := (step cf author_of_commit tick_of_commit changes_of).

  Lemma tstep_agree before_rev after a tw : tw_ok tw ->
    rel_res w_rel (tstep' before_rev after a tw) (step' before_rev after a (flat_world tw)).
  Proof.
    intros Hok. unfold tw_ok in Hok. destruct a as [b|c b|b bs|bs|b|bs|bs]; cbn [tstep step flat_world w_branches w_shared].
    - (* emerge *)
      cbn [rel_res]. unfold w_rel, tw_ok, flat_world. cbn [tw_branches tw_shared]. split.
      + apply (Forall_aset (fun x => tb_ok (tlb_state x))); [exact Hok|exact tb_ok_0].
      + rewrite <- aset_amap. reflexivity.
    - (* commit *)
      rewrite aget_amap. destruct (aget (tw_branches tw) b) as [lb|] eqn:Eb; cbn [option_map]; [|exact I].
      destruct (Forall_aget _ _ _ _ Hok Eb) as [k' Hlb]. cbn [snd] in Hlb.
      cbn [flat_lb lb_state lb_last].
      pose proof (tconsume_agree cf (author_of_commit c) (tick_of_commit c) (is_merge_at before_rev after c)
                    (changes_of (tlb_last lb) c) (tlb_state lb) (tw_shared tw)
                    (Hauth c) (Htick c) (Hfit _ _) Hlb) as A.
      destruct (tconsume cf _ _ _ _ (tlb_state lb) (tw_shared tw)) as [[b1 s1]| |],
               (consume cf _ _ _ _ (flat_branch (tlb_state lb)) (tw_shared tw)) as [[b1' s1']| |];
        cbn [rel_res] in A; try contradiction; try exact I.
      destruct A as (Hb1 & Hfl & Hs). cbn [fst snd] in *. subst b1' s1'.
      cbn [rel_res]. unfold w_rel, tw_ok, flat_world. cbn [tw_branches tw_shared]. split.
      + apply (Forall_aset (fun x => tb_ok (tlb_state x))); [exact Hok|exact Hb1].
      + rewrite <- aset_amap. reflexivity.
    - (* fork *)
      rewrite aget_amap. destruct (aget (tw_branches tw) b) as [lb|] eqn:Eb; cbn [option_map]; [|exact I].
      destruct (Forall_aget _ _ _ _ Hok Eb) as [k' Hlb]. cbn [snd] in Hlb.
      cbn [rel_res]. unfold w_rel, tw_ok, flat_world. cbn [tw_branches tw_shared]. split.
      + apply fork_ok; assumption.
      + rewrite fork_amap. reflexivity.
    - (* merge *)
      rewrite get_all_amap. destruct (tget_all bs (tw_branches tw)) as [lbs|] eqn:Eg; cbn [option_map]; [|exact I].
      pose proof (tget_all_ok bs _ _ Hok Eg) as Hlbs.
      replace (map lb_state (map flat_lb lbs)) with (map flat_branch (map tlb_state lbs))
        by (rewrite !map_map; reflexivity).
      pose proof (tanalysis_merge_agree cf (map tlb_state lbs) (tw_shared tw) Hlbs) as A.
      destruct (tanalysis_merge cf (map tlb_state lbs) (tw_shared tw)) as [[sts s1]| |],
               (analysis_merge cf (map flat_branch (map tlb_state lbs)) (tw_shared tw)) as [[sts' s1']| |];
        cbn [rel_res] in A; try contradiction; try exact I.
      destruct A as (Hsts & Hfl & Hs). cbn [fst snd] in *. subst sts' s1'.
      cbn [rel_res]. unfold w_rel, tw_ok, flat_world. cbn [tw_branches tw_shared]. split.
      + apply tset_all_ok; [apply combine_ok; exact Hsts|exact Hok].
      + rewrite combine_flat, set_all_amap. reflexivity.
    - (* delete *)
      cbn [rel_res]. unfold w_rel, tw_ok, flat_world. cbn [tw_branches tw_shared]. split.
      + apply (Forall_adel (fun x => tb_ok (tlb_state x))). exact Hok.
      + rewrite adel_amap. reflexivity.
    - (* hibernate *)
      rewrite (tapply_id hib bs Hhib). cbn [rel_res]. unfold w_rel, tw_ok, flat_world. destruct tw; auto.
    - (* boot *)
      rewrite (tapply_id boot bs Hboot). cbn [rel_res]. unfold w_rel, tw_ok, flat_world. destruct tw; auto.
  Qed.

  Lemma trun_from_agree : forall plan before_rev tw, tw_ok tw ->
    rel_res w_rel (trun_from cf author_of_commit tick_of_commit changes_of hib boot before_rev plan tw)
                  (run_from cf author_of_commit tick_of_commit changes_of before_rev plan (flat_world tw)).
  Proof.
    induction plan as [|a rest IH]; intros before_rev tw Hok; cbn [trun_from run_from].
    - cbn [rel_res]. split; [exact Hok|reflexivity].
    - pose proof (tstep_agree before_rev rest a tw Hok) as A.
      destruct (tstep' before_rev rest a tw) as [tw1| |], (step' before_rev rest a (flat_world tw)) as [w1| |];
        cbn [rel_res] in A; try contradiction; try exact I.
      destruct A as (Hok1 & <-). apply IH. exact Hok1.
  Qed.

  (* the whole run: the analysis over real trackers and the analysis over arrays agree *)
  Theorem trun_agree plan :
    rel_res w_rel (trun cf author_of_commit tick_of_commit changes_of hib boot plan)
                  (run cf author_of_commit tick_of_commit changes_of plan).
  Proof.
    unfold trun, run. change world0 with (flat_world tworld0). apply trun_from_agree.
    unfold tw_ok, tworld0. cbn. constructor.
  Qed.

  Corollary trun_ok_run plan tw :
    trun cf author_of_commit tick_of_commit changes_of hib boot plan = Ok tw ->
    run cf author_of_commit tick_of_commit changes_of plan = Ok (flat_world tw) /\ tw_ok tw.
  Proof.
    intros E. pose proof (trun_agree plan) as A. rewrite E in A.
    destruct (rel_res_ok_l _ _ _ A) as (w & Ew & Hok & Hfl). subst w. auto.
  Qed.

  Corollary run_ok_trun plan w :
    run cf author_of_commit tick_of_commit changes_of plan = Ok w ->
    exists tw, trun cf author_of_commit tick_of_commit changes_of hib boot plan = Ok tw /\
               flat_world tw = w /\ tw_ok tw.
  Proof.
    intros E. pose proof (trun_agree plan) as A. rewrite E in A.
    destruct (rel_res_ok _ _ _ A) as (tw & Etw & Hok & Hfl). eauto.
  Qed.
End Sim.

(* ================================================================ Part 3: the composed theorems *)
(* ---------- the plumbing functions only matter pointwise ---------- *)
Lemma step_ext cf a1 t1 c1 a2 t2 c2 :
  (forall c, a1 c = a2 c) -> (forall c, t1 c = t2 c) -> (forall l c, c1 l c = c2 l c) ->
  forall br af a w, step cf a1 t1 c1 br af a w = step cf a2 t2 c2 br af a w.
Proof.
  intros Ha Ht Hc br af a w. destruct a; cbn [step]; try reflexivity.
  destruct (aget (w_branches w) b); [|reflexivity]. rewrite Ha, Ht, Hc. reflexivity.
Qed.

Lemma run_ext cf a1 t1 c1 a2 t2 c2 :
  (forall c, a1 c = a2 c) -> (forall c, t1 c = t2 c) -> (forall l c, c1 l c = c2 l c) ->
  forall plan, run cf a1 t1 c1 plan = run cf a2 t2 c2 plan.
Proof.
  intros Ha Ht Hc plan. unfold run. generalize (@nil action) world0.
  induction plan as [|a rest IH]; intros br w; cbn [run_from]; [reflexivity|].
  rewrite (step_ext cf a1 t1 c1 a2 t2 c2 Ha Ht Hc). destruct (step cf a2 t2 c2 br rest a w); auto.
Qed.

(* ---------- the uint32 side condition on a history ---------- *)
(* every path has fewer than 2^31 lines in its whole history: then no file and no intermediate state of
   handleModification exceeds 2^32-1 lines *)
Definition sizes_ok (h : hist) : Prop :=
  forall pl, In pl (h_paths h) -> 2 * Z.of_nat (length (snd pl)) <= FM.MaxU32.

Lemma ins_total_flat_hunks o n : forall seq k d i, 0 <= i ->
  ins_total (flat_hunks (hunks3 o n seq k d i)) <= i + Z.of_nat (length seq).
Proof.
  assert (One : forall k d i, 0 <= i -> ins_total (flat_hunks [(k, d, i)]) = i).
  { intros k d i Hi. unfold ins_total, flat_hunks, ins_of. cbn. lia. }
  assert (Cons : forall k d i ts, ins_total (flat_hunks ((k, d, i) :: ts)) = Z.max 0 i + ins_total (flat_hunks ts)).
  { intros. unfold ins_total, flat_hunks, ins_of. cbn [flat_map app map fst snd]. rewrite !sum_z_cons. lia. }
  induction seq as [|l r IH]; intros k d i Hi; cbn [hunks3 length].
  - rewrite One by lia. lia.
  - destruct (o l), (n l).
    + destruct (0 <? d + i).
      * rewrite Cons. specialize (IH 1 0 0 ltac:(lia)). lia.
      * specialize (IH (k + 1) 0 0 ltac:(lia)). lia.
    + specialize (IH k (d + 1) i Hi). lia.
    + specialize (IH k d (i + 1) ltac:(lia)). lia.
    + specialize (IH k d i Hi). lia.
Qed.

Lemma filter_length_le {A} (f : A -> bool) l : (length (filter f l) <= length l)%nat.
Proof. induction l as [|x r IH]; cbn [filter length]; [lia|]. destruct (f x); cbn [length]; lia. Qed.

Lemma changes_of_fit h last c : sizes_ok h -> changes_fit (changes_of h (ancs h) last c).
Proof.
  intros Hs. unfold changes_fit, changes_of. apply Forall_forall. intros ch Hch.
  apply in_flat_map in Hch. destruct Hch as ([p seq] & Hin & Hch). cbn [fst snd] in Hch.
  specialize (Hs _ Hin). cbn [snd] in Hs.
  pose proof (filter_length_le (old_alive (ancs h) last) seq) as Ho.
  pose proof (filter_length_le (aliveb (ancs h) c) seq) as Hn.
  unfold change_of_path, content in Hch.
  destruct (old_exists (ancs h) last seq), (path_exists (ancs h) c seq).
  - destruct (forallb _ seq); [destruct Hch|]. destruct Hch as [<-|[]]. cbn [change_fits].
    split; [lia|]. unfold hunks.
    pose proof (ins_total_flat_hunks (old_alive (ancs h) last) (aliveb (ancs h) c) seq 0 0 0 ltac:(lia)). lia.
  - destruct Hch as [<-|[]]. exact I.
  - destruct Hch as [<-|[]]. cbn [change_fits]. lia.
  - destruct Hch.
Qed.

(* ---------- ticks of a conflict-free history are uint32 ---------- *)
Lemma tick_of_range h : conflict_free h = true -> (forall c, 0 <= c < ncommits h -> tick_of h c < mark) ->
  forall c, 0 <= tick_of h c < FM.MaxU32.
Proof.
  intros Hcf Hm c. destruct (Z.lt_ge_cases c 0) as [Hneg|Hnn].
  { unfold tick_of, znth. replace (c <? 0) with true by (symmetry; apply Z.ltb_lt; lia). unfold FM.MaxU32. lia. }
  destruct (Z.lt_ge_cases c (ncommits h)) as [Hin|Hout].
  - pose proof (tick_nonneg h Hcf c ltac:(lia)). pose proof (Hm c ltac:(lia)). unfold mark, FM.MaxU32 in *. lia.
  - destruct (cf_parts h Hcf) as [Hok _]. unfold commits_okb in Hok.
    repeat (apply andb_prop in Hok; destruct Hok as [Hok ?]).
    match goal with H : (Z.of_nat (length (h_ticks h)) =? ncommits h) = true |- _ => apply Z.eqb_eq in H; rename H into HL end.
    unfold tick_of, znth. replace (c <? 0) with false by (symmetry; apply Z.ltb_ge; lia).
    rewrite nth_overflow by lia. unfold FM.MaxU32. lia.
Qed.

(* ---------- what remains external, named ---------- *)
(* C20 (tree diff) + C11 (file diff): the changes handed to Consume for commit c against the previous commit of
   the branch are the canonical edit script of the two line sets *)
Definition diffs_canonical (h : hist) (changes : option Z -> Z -> list change) : Prop :=
  forall last c, changes last c = changes_of h (ancs h) last c.
(* C19: the tick of a commit is its day offset, as recorded in the history *)
Definition ticks_are_days (h : hist) (tick_of_commit : Z -> Z) : Prop :=
  forall c, tick_of_commit c = tick_of h c.
(* C16: the author of a commit is the people index given by the identity detector *)
Definition authors_are_indices (aidx : list Z) (author_of_commit : Z -> Z) : Prop :=
  forall c, author_of_commit c = znth 0 aidx c.
(* C09: Hibernate and Boot do not change the analysis state of a branch *)
Definition hibernation_identity (hib boot : tbranch -> tbranch) : Prop :=
  (forall b, hib b = b) /\ (forall b, boot b = b).
(* every commit of the history is in the plan (C02 keeps the largest connected component only) *)
Definition all_commits_planned (h : hist) (p : list PS.action) : Prop :=
  forall c, (c < length (h_parents h))%nat -> In c (PS.analysed p).

Section Composed.
  Variable h : hist.
  Variable cf : cfg.
  Variable aidx : list Z.
  Variables author_of_commit tick_of_commit : Z -> Z.
  Variable changes : option Z -> Z -> list change.
  Variables hib boot : tbranch -> tbranch.
  Hypothesis Hcf : conflict_free h = true.
  Hypothesis Hmark : forall c, 0 <= c < ncommits h -> tick_of h c < mark.
  Hypothesis Haidx : forall c, 0 <= znth 0 aidx c <= author_missing.
  Hypothesis Hsizes : sizes_ok h.
  Hypothesis Hdiff : diffs_canonical h changes.
  Hypothesis Hticks : ticks_are_days h tick_of_commit.
  Hypothesis Hauthors : authors_are_indices aidx author_of_commit.
  Hypothesis Hhib : hibernation_identity hib boot.

  Notation trun' := (trun cf author_of_commit tick_of_commit changes hib boot).

  (* the analysis over real trackers and C07 merges, along ANY plan, is the array analysis of C01 *)
  Theorem trun_is_run_hist plan tw :
    trun' plan = Ok tw -> run_hist cf h aidx plan = Ok (flat_world tw) /\ tw_ok tw.
  Proof.
    intros E. destruct Hhib as [Hh Hb].
    destruct (trun_ok_run cf author_of_commit tick_of_commit changes hib boot) with (plan := plan) (tw := tw)
      as [Er Hok]; auto.
    - intros c. rewrite Hauthors. apply Haidx.
    - intros c. rewrite Hticks. apply tick_of_range; auto.
    - intros last c. rewrite Hdiff. apply changes_of_fit. exact Hsizes.
    - split; [|exact Hok]. unfold run_hist. rewrite <- Er. symmetry. apply run_ext; auto.
  Qed.

  Theorem run_hist_is_trun plan w :
    run_hist cf h aidx plan = Ok w -> exists tw, trun' plan = Ok tw /\ flat_world tw = w /\ tw_ok tw.
  Proof.
    intros E. destruct Hhib as [Hh Hb].
    apply (run_ok_trun cf author_of_commit tick_of_commit changes hib boot); auto.
    - intros c. rewrite Hauthors. apply Haidx.
    - intros c. rewrite Hticks. apply tick_of_range; auto.
    - intros last c. rewrite Hdiff. apply changes_of_fit. exact Hsizes.
    - unfold run_hist in E. rewrite <- E. apply run_ext; auto.
  Qed.

  Lemma aidx_nonneg : forall c, 0 <= znth 0 aidx c.
  Proof. intros c. apply Haidx. Qed.

  (* C01_global_sparse over trackers, for a plan validated by C01's own validator *)
  Theorem global_sparse_trackers plan tw :
    plan_okb h plan = true -> trun' plan = Ok tw ->
    forall P, wsum P (s_gh (tw_shared tw)) = sum_z (map (contrib h P) (zrange (ncommits h))).
  Proof.
    intros Hok E. destruct (trun_is_run_hist plan tw E) as [Er _].
    exact (proj1 (global_sparse h cf aidx Hcf Hmark aidx_nonneg plan (flat_world tw) Hok Er)).
  Qed.

  Theorem matrix_trackers plan tw G S M last :
    plan_okb h plan = true -> trun' plan = Ok tw ->
    1 <= G -> 1 <= S -> group_sparse_history G S (s_gh (tw_shared tw)) (-1) = Ok (M, last) ->
    M = truth_project h G S /\ last = last_event h.
  Proof.
    intros Hok E HG HS Eg. destruct (trun_is_run_hist plan tw E) as [Er _].
    exact (matrix_eq h cf aidx plan (flat_world tw) G S M last Hcf Hmark aidx_nonneg Hok Er HG HS Eg).
  Qed.

  (* ... and for a plan validated by C02's validator *)
  Theorem matrix_composed (p : list PS.action) tw G S M last :
    PC.plan_ok (graph_of h) p = true -> all_commits_planned h p ->
    trun' (tr_plan p) = Ok tw ->
    1 <= G -> 1 <= S -> group_sparse_history G S (s_gh (tw_shared tw)) (-1) = Ok (M, last) ->
    M = truth_project h G S /\ last = last_event h.
  Proof.
    intros Hp Hall E HG HS Eg.
    apply (matrix_trackers (tr_plan p) tw G S M last); auto.
    apply plan_ok_implies_plan_okb; auto. apply (cf_parts h Hcf).
  Qed.

  Theorem matrix_composed_single_head (p : list PS.action) tw G S M last :
    PC.plan_ok (graph_of h) p = true -> single_head h = true ->
    trun' (tr_plan p) = Ok tw ->
    1 <= G -> 1 <= S -> group_sparse_history G S (s_gh (tw_shared tw)) (-1) = Ok (M, last) ->
    M = truth_project h G S /\ last = last_event h.
  Proof.
    intros Hp Hsh E HG HS Eg.
    apply (matrix_trackers (tr_plan p) tw G S M last); auto.
    apply plan_ok_implies_plan_okb_single_head; auto. apply (cf_parts h Hcf).
  Qed.

  Theorem global_sparse_composed (p : list PS.action) tw :
    PC.plan_ok (graph_of h) p = true -> all_commits_planned h p ->
    trun' (tr_plan p) = Ok tw ->
    forall P, wsum P (s_gh (tw_shared tw)) = sum_z (map (contrib h P) (zrange (ncommits h))).
  Proof.
    intros Hp Hall E. apply (global_sparse_trackers (tr_plan p) tw); auto.
    apply plan_ok_implies_plan_okb; auto. apply (cf_parts h Hcf).
  Qed.
End Composed.

(* ---------- non-vacuity ---------- *)
(* the diamond of props/C01.v (a merge that adds a line, two developers, commit 1 kills a line of commit 0), run
   over real trackers along the C02 plan of props/C02.v: the run succeeds, every hypothesis of the composed
   theorem holds, and the dense matrix is the ground truth *)
Definition ex_hist : hist := mkHist [[]; [0]; [0]; [1; 2]] [0; 1; 1; 3] [0; 1; 0; 1]
  [(0, [mkLine 0 0 1; mkLine 1 0 (-1); mkLine 2 1 (-1); mkLine 5 3 (-1); mkLine 3 2 (-1)]); (1, [mkLine 4 2 (-1)])].
Definition ex_trun : result tworld :=
  trun (mkCfg 2 true) (fun c => znth 0 [0; 1; 0; 1] c) (tick_of ex_hist) (changes_of ex_hist (ancs ex_hist))
       (fun b => b) (fun b => b) (tr_plan diamond_plan02).

Example composed_nonvacuous :
  conflict_free ex_hist = true /\ PC.plan_ok (graph_of ex_hist) diamond_plan02 = true /\
  match ex_trun with
  | Ok tw => group_sparse_history 2 1 (s_gh (tw_shared tw)) (-1) = Ok (truth_project ex_hist 2 1, 3) /\
             run_hist (mkCfg 2 true) ex_hist [0; 1; 0; 1] (tr_plan diamond_plan02) = Ok (flat_world tw) /\
             map (fun kb => map (fun kf => tf_nodes (snd kf)) (tb_files (tlb_state (snd kb)))) (tw_branches tw)
             = [[[(0, 0); (1, 16385); (2, 16387); (3, 1); (4, FM.TreeEnd)]; [(0, 1); (1, FM.TreeEnd)]]]
  | _ => False
  end.
Proof. vm_compute. repeat split; reflexivity. Qed.

Lemma ex_sizes_ok : sizes_ok ex_hist.
Proof. intros pl [<-|[<-|[]]]; cbn; unfold FM.MaxU32; lia. Qed.

Lemma ex_all_planned : all_commits_planned ex_hist diamond_plan02.
Proof. intros c Hc. cbn in Hc. cbn. lia. Qed.

(* ================================================================ linear histories with arbitrary edit scripts *)
(* C01_linear over trackers: commits consumed in normal mode on one branch of real trackers *)
From Herc Require Import Burndown.LinearProofs.

Fixpoint tlin_run (cf : cfg) (cs : list lcommit) (b : tbranch) (s : shared) : result (tbranch * shared) :=
  match cs with
  | [] => Ok (b, s)
  | c :: r => match tconsume cf (lc_author c) (lc_tick c) false (lc_changes c) b s with
              | Ok (b', s') => tlin_run cf r b' s'
              | e => e
              end
  end.

(* the uint32 side conditions of a linear history *)
Definition lin_fits (cs : list lcommit) : Prop :=
  Forall (fun c => 0 <= lc_author c <= author_missing /\ 0 <= lc_tick c < FM.MaxU32 /\ changes_fit (lc_changes c)) cs.

Theorem tlin_run_agree cf : forall cs tb s, lin_fits cs -> tb_ok tb ->
  rel_res st_rel (tlin_run cf cs tb s) (lin_run cf cs (flat_branch tb) s).
Proof.
  induction cs as [|c r IH]; intros tb s Hfit Hok; cbn [tlin_run lin_run].
  - cbn [rel_res]. unfold st_rel. cbn [fst snd]. auto.
  - inversion Hfit as [|? ? (Ha & Ht & Hc) Hr]; subst.
    pose proof (tconsume_agree cf (lc_author c) (lc_tick c) false (lc_changes c) tb s Ha Ht Hc Hok) as A.
    destruct (tconsume cf (lc_author c) (lc_tick c) false (lc_changes c) tb s) as [[b1 s1]| |],
             (consume cf (lc_author c) (lc_tick c) false (lc_changes c) (flat_branch tb) s) as [[b1' s1']| |];
      cbn [rel_res] in A; try contradiction; try exact I.
    destruct A as (Hok1 & Hfl & Hs). cbn [fst snd] in *. subst b1' s1'. apply IH; auto.
Qed.

Theorem linear_composed : forall cf G S cs tb s M last,
  1 <= S -> 1 <= G -> lin_wf 0 [] cs = true -> lin_fits cs ->
  tlin_run cf cs tbranch0 shared0 = Ok (tb, s) ->
  group_sparse_history G S (s_gh s) (-1) = Ok (M, last) ->
  forall sidx, 0 <= sidx <= last / S ->
    (forall bidx, 0 <= bidx <= last / G -> 0 <= cell M sidx bidx) /\
    (forall pre suf, cs = pre ++ suf ->
       (forall c, In c pre -> lc_tick c <= sample_end S sidx) ->
       (forall c, In c suf -> sample_end S sidx < lc_tick c) ->
       sum_z (map (cell M sidx) (zrange (last / G + 1))) = stotal (snap_run pre [])).
Proof.
  intros cf G S cs tb s M last HS HG Hwf Hfit E Eg.
  pose proof (tlin_run_agree cf cs tbranch0 shared0 Hfit tb_ok_0) as A. rewrite E in A.
  destruct (rel_res_ok_l _ _ _ A) as ([b s'] & Er & _ & Hfl & Hs). cbn [fst snd] in *. subst s' b.
  exact (C01_linear cf G S cs (flat_branch tb) s M last HS HG Hwf Er Eg).
Qed.
