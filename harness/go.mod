module verifharness

go 1.23

require gopkg.in/src-d/hercules.v10 v10.0.0

replace gopkg.in/src-d/hercules.v10 => /repo

replace github.com/smacker/go-tree-sitter => github.com/dennwc/go-tree-sitter v0.0.0-20191127160809-cea124db9399
