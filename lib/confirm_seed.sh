#!/bin/bash
# usage: lib/confirm_seed.sh <seed-output-dir> <id>
# Confirms an externally produced seeded change on a scratch copy of /repo: demo passes without the patch,
# patch applies, tree builds, the 65 baseline tests pass, demo fails with the patch.  Imports it to seeded/<id>/.
set -u
export GOFLAGS=-mod=mod GOPROXY=off GOSUMDB=off GOTOOLCHAIN=local
D="$1"; ID="$2"; PROP="${3:-}"
S=/tmp/confirm-$ID
rm -rf "$S"; cp -r /repo "$S"
cd "$S"
# how to run the demo
CMD=""
for m in $(cd "$D/demo" && find . -name main.go | sed 's#/main.go##'); do CMD="go run -tags verif $m"; done
if [ -z "$CMD" ]; then
  t=$(cd "$D/demo" && find . -name '*_test.go' | head -1)
  pkg=$(dirname "$t")
  names=$(grep -ho 'func Test[A-Za-z0-9_]*' "$D/demo/$t" | sed 's/func //' | paste -sd'|')
  CMD="go test -tags verif -vet=off -count=1 -run ^($names)\$ $pkg"
fi
echo "demo command: $CMD"
# 1. patched tree without the demo files: build + the 65 baseline tests
git apply --whitespace=nowarn "$D/patch.diff"; RA=$?
go build ./internal/... ./leaves/... . > /tmp/confirm-$ID.build.txt 2>&1; RB=$?
timeout 1500 go test -vet=off -count=1 ./internal/burndown/... ./internal/levenshtein/... ./internal/rbtree/... ./internal/toposort/... . -v 2>&1 > /tmp/confirm-$ID.tests.txt; RT=$?
NP=$(grep -c '^--- PASS\|^    --- PASS' /tmp/confirm-$ID.tests.txt); NF=$(grep -c -- '--- FAIL' /tmp/confirm-$ID.tests.txt)
# 2. demo with the patch
cp -r "$D/demo/." "$S/"
timeout 1200 $CMD > /tmp/confirm-$ID.with.txt 2>&1; R1=$?
# 3. demo without the patch
git apply -R --whitespace=nowarn "$D/patch.diff"
timeout 1200 $CMD > /tmp/confirm-$ID.without.txt 2>&1; R0=$?
echo "without-patch demo exit=$R0; apply=$RA build=$RB tests exit=$RT pass=$NP fail=$NF; with-patch demo exit=$R1"
OK=no
if [ $R0 -eq 0 ] && [ $RA -eq 0 ] && [ $RB -eq 0 ] && [ $RT -eq 0 ] && [ $NF -eq 0 ] && [ $R1 -ne 0 ]; then OK=yes; fi
echo "CONFIRMED=$OK"
if [ $OK = yes ]; then
  T=/verif/seeded/$ID; mkdir -p $T; cp "$D/patch.diff" $T/; rm -rf $T/demo; cp -r "$D/demo" $T/demo; cp "$D/README.md" $T/README.md
  python3 - "$T" "$ID" "$PROP" "$CMD" "$NP" <<'PY'
import json,sys,os
T,ID,PROP,CMD,NP=sys.argv[1:6]
readme=open(os.path.join(T,'README.md')).read()
meta=dict(id=ID,property=PROP,origin='independent sub-agent given only the property text and a scratch worktree',
  needs='see README.md (written by the author of the change)',
  demonstration=CMD,
  ran=['demo without patch: exit 0','git apply patch.diff: ok','go build ./internal/... ./leaves/... .: ok','65-test offline baseline: %s PASS lines, 0 FAIL'%NP,'demo with patch: non-zero exit'],
  confirmed_by='lib/confirm_seed.sh on a scratch copy of /repo')
json.dump(meta,open(os.path.join(T,'meta.json'),'w'),indent=1)
PY
fi
cd /; rm -rf "$S"
