(* Composition C02/C04 -> C14.

   C14 (Pipeline/RunModel.v) states its theorems under boolean predicates on the plan handed to
   Pipeline.Run ([head_emergeb], [head_firstb], [contigb], [distinctb], [liveb]) in its own plan syntax.
   C02/C04 (Plan/) validate every plan of the real planner with [plan_ok] / [c04_ok].  This file
   translates a C14 plan into the plan syntax of C02/C04 ([back]: forgetful, total, injective on what the
   validators read) and proves that the validators imply the C14 predicates:

       c04_ok g (map back q) = true  ->  liveb q, contigb q, distinctb q, "plan[0] is an emerge".

   What the validators do NOT look at is the Commit field of plan[0] (Exec.v ignores the commit of an
   emerge): [head_firstb q] / "plan[0] carries a commit" stay hypotheses (see docs/COMPOSITION.md).

   Only new definitions and proofs; nothing of Plan/ or Pipeline/ is modified. *)
From Coq Require Import List NArith ZArith Bool Arith Lia Permutation.
From Herc Require Import Pipeline.RunModel Pipeline.RunProofs.
From Herc Require Plan.Syntax Plan.Exec Plan.Graph Plan.Checker Plan.Spec Plan.Lifecycle Plan.ExecProofs
  Plan.CheckerLemmas Plan.CheckerSound Plan.LifecycleProofs Plan.HibernateProofs.
Import ListNotations.

Module PS := Herc.Plan.Syntax.
Module PE := Herc.Plan.Exec.
Module PG := Herc.Plan.Graph.
Module PC := Herc.Plan.Checker.
Module PSp := Herc.Plan.Spec.
Module PL := Herc.Plan.Lifecycle.
Module PEP := Herc.Plan.ExecProofs.
Module PCL := Herc.Plan.CheckerLemmas.
Module PCS := Herc.Plan.CheckerSound.
Module PLP := Herc.Plan.LifecycleProofs.
Module PHP := Herc.Plan.HibernateProofs.

(* ------------------------------------------------------------------------------------------ *)
(* The translation: a C14 action read as a runAction of C02/C04.  Commit hashes (N) become commit
   numbers (nat), branch ids (N) become Go ints (Z); the committer time is forgotten. *)

Definition back_kind (k : akind) : PS.akind :=
  match k with
  | KFork => PS.KFork | KMerge => PS.KMerge | KEmerge => PS.KEmerge
  | KDelete => PS.KDelete | KHibernate => PS.KHibernate | KBoot => PS.KBoot
  end.
Definition back_commit (c : commit) : nat := N.to_nat (c_id c).
Definition back (a : action) : PS.action :=
  match a with
  | ACommit c its => PS.mkA PS.KCommit (Some (back_commit c)) (map Z.of_N its)
  | AOther k oc its => PS.mkA (back_kind k) (option_map back_commit oc) (map Z.of_N its)
  end.
Definition back_plan (q : list action) : list PS.action := map back q.

(* the plan without its hibernate / boot actions *)
Definition nohb (q : list action) : list action := filter (fun a => negb (is_hb a)) q.

(* plan[0] carries a commit (Run reads plan[0].Commit.Committer.When) *)
Definition head_carriesb (q : list action) : bool :=
  match q with
  | a :: _ => match a_commit a with Some _ => true | None => false end
  | [] => false
  end.

(* ------------------------------------------------------------------------------------------ *)
(* small facts about the translation *)

Lemma back_hb a : PS.is_kind PS.KHibernate (back a) || PS.is_kind PS.KBoot (back a) = is_hb a.
Proof. destruct a as [c its|k oc its]; [reflexivity|]. destruct k; reflexivity. Qed.

Lemma back_nohb q : back_plan (nohb q) = PS.erase_hb (back_plan q).
Proof.
  unfold back_plan, nohb, PS.erase_hb. induction q as [|a r IH]; [reflexivity|].
  cbn [filter map]. rewrite back_hb. destruct (is_hb a); cbn [negb map]; rewrite IH; reflexivity.
Qed.

Lemma map_of_N_single its b : map Z.of_N its = [b] -> exists i, its = [i] /\ b = Z.of_N i.
Proof.
  destruct its as [|i [|j r]]; simpl; intro H; try discriminate.
  injection H as <-. exists i. split; reflexivity.
Qed.

Lemma memzb_of_N n l : PEP.memzb (Z.of_N n) (map Z.of_N l) = mem n l.
Proof.
  unfold PEP.memzb. induction l as [|x r IH]; [reflexivity|].
  cbn [map existsb mem]. rewrite IH. f_equal.
  destruct (N.eqb x n) eqn:E.
  - apply N.eqb_eq in E. subst. apply Z.eqb_refl.
  - apply N.eqb_neq in E. apply Z.eqb_neq. intro H. apply E. apply N2Z.inj. symmetry. exact H.
Qed.

Lemma of_N_eqb a b : (Z.of_N a =? Z.of_N b)%Z = N.eqb a b.
Proof.
  destruct (N.eqb a b) eqn:E.
  - apply N.eqb_eq in E. subst. apply Z.eqb_refl.
  - apply N.eqb_neq in E. apply Z.eqb_neq. intro H. apply E. apply N2Z.inj. exact H.
Qed.

Lemma analysed_cons a p : PS.analysed (a :: p) = PS.analysed [a] ++ PS.analysed p.
Proof. exact (PEP.analysed_app [a] p). Qed.

Lemma analysed_back_commit c its : PS.analysed [back (ACommit c its)] = [back_commit c].
Proof. reflexivity. Qed.

Lemma analysed_back_other k oc its : PS.analysed [back (AOther k oc its)] = [].
Proof. destruct k, oc; reflexivity. Qed.

(* the commit actions with hash h, seen on the translated plan *)
Lemma commit_of_analysed h l :
  existsb (is_commit_of h) l = true -> In (N.to_nat h) (PS.analysed (back_plan l)).
Proof.
  unfold back_plan. induction l as [|a r IH]; [discriminate|].
  cbn [existsb map]. rewrite analysed_cons. intro H. apply in_or_app. apply orb_true_iff in H.
  destruct H as [H|H]; [left|right; exact (IH H)].
  destruct a as [c its|k oc its]; [|discriminate]. simpl in H. apply N.eqb_eq in H. subst h. left. reflexivity.
Qed.

Lemma hcount_analysed h q :
  hcount h q = count_occ Nat.eq_dec (PS.analysed (back_plan q)) (N.to_nat h).
Proof.
  unfold hcount, back_plan. induction q as [|a r IH]; [reflexivity|].
  cbn [map]. rewrite analysed_cons, count_occ_app, <- IH.
  destruct a as [c its|k oc its].
  - rewrite analysed_back_commit. cbn [replays filter fst count_occ]. unfold back_commit.
    destruct (N.eqb (c_id c) h) eqn:E.
    + apply N.eqb_eq in E. subst h. destruct (Nat.eq_dec (N.to_nat (c_id c)) (N.to_nat (c_id c))); [reflexivity|congruence].
    + apply N.eqb_neq in E. destruct (Nat.eq_dec (N.to_nat (c_id c)) (N.to_nat h)) as [D|D]; [|reflexivity].
      exfalso. apply E. apply N2Nat.inj. exact D.
  - rewrite analysed_back_other. reflexivity.
Qed.

(* ------------------------------------------------------------------------------------------ *)
(* 1. branch lifecycle (C04) -> liveb *)

Definition aliveb (l : PE.life) : bool :=
  match l with PE.Live _ | PE.Hibernated _ => true | _ => false end.

(* [live] is the key set of Run's branch map, [s] the state of the abstract executor *)
Definition sim (s : list (Z * PE.life)) (live : list N) : Prop :=
  forall n, mem n live = aliveb (PE.get s (Z.of_N n)).

Lemma aliveb_upd f l : aliveb (PE.upd f l) = aliveb l.
Proof. destruct l; reflexivity. Qed.
Lemma aliveb_hib l : aliveb (PEP.hib_life l) = aliveb l.
Proof. destruct l; reflexivity. Qed.
Lemma aliveb_boot l : aliveb (PEP.boot_life l) = aliveb l.
Proof. destruct l; reflexivity. Qed.
Lemma awake_aliveb s b : PE.awake s b -> aliveb (PE.get s b) = true.
Proof. intros [x ->]. reflexivity. Qed.

Lemma mem_kdel n k l : mem n (kdel k l) = negb (N.eqb k n) && mem n l.
Proof.
  unfold kdel. induction l as [|x r IH]; [rewrite andb_false_r; reflexivity|].
  cbn [filter mem]. destruct (N.eqb x k) eqn:E; cbn [negb].
  - rewrite IH. apply N.eqb_eq in E. subst x. destruct (N.eqb k n); reflexivity.
  - cbn [mem]. rewrite IH. destruct (N.eqb x n) eqn:F; [|reflexivity].
    apply N.eqb_eq in F. subst x. rewrite N.eqb_sym, E. reflexivity.
Qed.

Lemma mem_kset n k l : mem n (kset k l) = N.eqb k n || mem n l.
Proof. unfold kset. cbn [mem]. rewrite mem_kdel. destruct (N.eqb k n); reflexivity. Qed.

Lemma mem_assign_keys n : forall ks l, mem n (assign_keys ks l) = mem n ks || mem n l.
Proof.
  induction ks as [|k r IH]; intro l; [reflexivity|].
  cbn [assign_keys mem]. rewrite IH, mem_kset.
  destruct (N.eqb k n), (mem n r); reflexivity.
Qed.

(* one action executed in a state that allows it: what liveb asks of it holds, and the key set follows *)
Lemma sim_step s live a r :
  sim s live -> PL.step_ok s (back a) ->
  (forall live', sim (PE.step s (back a)) live' -> liveb_from r live' = true) ->
  liveb_from (a :: r) live = true.
Proof.
  intros S [W [ND [U [C B]]]] K.
  destruct a as [c its|k oc its].
  - (* commit *)
    unfold PS.wf_action in W. cbn [back PS.kind PS.commit PS.items] in W.
    destruct W as [c0 [b [_ Ei]]]. destruct (map_of_N_single _ _ Ei) as [i [-> ->]].
    cbn [liveb_from a_items]. apply andb_true_iff. split.
    + rewrite (S i). apply awake_aliveb. apply U. left. reflexivity.
    + apply K. intro n. rewrite (S n).
      change (back (ACommit c [i])) with (PS.commit_on (back_commit c) (Z.of_N i)).
      rewrite PEP.get_step_commit. destruct (Z.eqb (Z.of_N i) (Z.of_N n)) eqn:E; [|reflexivity].
      apply Z.eqb_eq in E. rewrite <- E. rewrite aliveb_upd. reflexivity.
  - destruct k.
    + (* fork *)
      unfold PS.wf_action in W. cbn [back back_kind PS.kind PS.items] in W.
      destruct W as [b [t [ts Ei]]].
      destruct its as [|i rest]; [discriminate|]. cbn [map] in Ei. injection Ei as Eb Er.
      cbn [liveb_from a_items].
      assert (Aw : aliveb (PE.get s (Z.of_N i)) = true).
      { apply awake_aliveb. apply U. cbn. left. reflexivity. }
      apply andb_true_iff. split; [rewrite (S i); exact Aw|].
      apply K. intro n. rewrite mem_assign_keys, (S n).
      unfold PE.step. cbn [back back_kind PS.kind PS.items map].
      rewrite (PEP.get_fold_set (fun _ => PE.get s (Z.of_N i))), memzb_of_N.
      destruct (mem n rest); [rewrite Aw|]; reflexivity.
    + (* merge *)
      unfold PS.wf_action in W. cbn [back back_kind PS.kind PS.items] in W.
      destruct W as [b1 [b2 [bs Ei]]].
      destruct its as [|i rest]; [discriminate|].
      cbn [liveb_from a_items]. apply andb_true_iff. split.
      * apply forallb_forall. intros x Hx. rewrite (S x). apply awake_aliveb. apply U.
        cbn [PL.uses back back_kind PS.kind PS.items]. apply in_map. exact Hx.
      * apply K. intro n. rewrite (S n).
        rewrite (PEP.get_step_merge s (back (AOther KMerge oc (i :: rest))) (Z.of_N n) eq_refl).
        destruct (PEP.memzb (Z.of_N n) (PS.items (back (AOther KMerge oc (i :: rest))))); [|reflexivity].
        rewrite aliveb_upd. reflexivity.
    + (* emerge *)
      unfold PS.wf_action in W. cbn [back back_kind PS.kind PS.items] in W.
      destruct W as [b Ei]. destruct (map_of_N_single _ _ Ei) as [i [-> ->]].
      cbn [liveb_from a_items]. apply K. intro n. rewrite mem_kset.
      unfold PE.step. cbn [back back_kind PS.kind PS.items map].
      rewrite PEP.get_set, of_N_eqb. destruct (N.eqb i n); [reflexivity|]. apply S.
    + (* delete *)
      unfold PS.wf_action in W. cbn [back back_kind PS.kind PS.items] in W.
      destruct W as [b Ei]. destruct (map_of_N_single _ _ Ei) as [i [-> ->]].
      cbn [liveb_from a_items]. apply K. intro n. rewrite mem_kdel.
      unfold PE.step. cbn [back back_kind PS.kind PS.items map].
      rewrite PEP.get_set, of_N_eqb. destruct (N.eqb i n); [reflexivity|]. apply S.
    + (* hibernate *)
      unfold PS.wf_action in W. cbn [back back_kind PS.kind PS.items] in W.
      destruct its as [|i rest]; [exfalso; apply W; reflexivity|].
      cbn [liveb_from a_items]. apply K. intro n. rewrite (S n).
      unfold PE.step. cbn [back back_kind PS.kind PS.items].
      rewrite PEP.get_fold_hibernate. destruct (PEP.memzb _ _); [rewrite aliveb_hib|]; reflexivity.
    + (* boot *)
      unfold PS.wf_action in W. cbn [back back_kind PS.kind PS.items] in W.
      destruct its as [|i rest]; [exfalso; apply W; reflexivity|].
      cbn [liveb_from a_items]. apply K. intro n. rewrite (S n).
      unfold PE.step. cbn [back back_kind PS.kind PS.items].
      rewrite PEP.get_fold_boot. destruct (PEP.memzb _ _); [rewrite aliveb_boot|]; reflexivity.
Qed.

Lemma lifecycle_liveb_from : forall q s live,
  sim s live -> PL.lifecycle_from s (back_plan q) -> liveb_from q live = true.
Proof.
  induction q as [|a r IH]; intros s live S L; [reflexivity|].
  unfold back_plan in L. cbn [map] in L. destruct (PHP.lifecycle_tail _ _ _ L) as [SO L'].
  apply (sim_step s live a r S SO). intros live' S'. exact (IH _ _ S' L').
Qed.

Theorem lifecycle_liveb q : PL.lifecycle_ok (back_plan q) -> liveb q = true.
Proof.
  intro L. apply (lifecycle_liveb_from q PE.init []); [|exact L]. intro n. reflexivity.
Qed.

(* ------------------------------------------------------------------------------------------ *)
(* 2. plan[0] is an emerge *)

Lemma lifecycle_head q :
  PL.lifecycleb PE.init (back_plan q) = true ->
  q = [] \/ exists oc its r, q = AOther KEmerge oc its :: r.
Proof.
  destruct q as [|a r]; [left; reflexivity|]. intro H. right.
  unfold back_plan in H. cbn [map PL.lifecycleb] in H. apply andb_true_iff in H. destruct H as [H _].
  unfold PL.step_okb in H. rewrite !andb_true_iff in H. destruct H as [[[[W _] U] _] B].
  destruct a as [c its|k oc its].
  - exfalso. destruct its as [|i [|j l]]; cbn in W, U; first [discriminate W | discriminate U].
  - destruct k; try (exfalso; destruct its as [|i [|j l]]; cbn in W, U, B;
                     first [discriminate W | discriminate U | discriminate B]).
    exists oc, its, r. reflexivity.
Qed.

Lemma plan_ok_nonempty g p : PC.plan_ok g p = true -> p <> [].
Proof.
  intros H E. subst p. unfold PC.plan_ok in H. apply andb_true_iff in H. destruct H as [_ H].
  cbn in H. discriminate.
Qed.

(* ------------------------------------------------------------------------------------------ *)
(* 3. hibernate / boot actions do not matter for contigb / distinctb *)

Lemma existsb_commit_nohb h l : existsb (is_commit_of h) (nohb l) = existsb (is_commit_of h) l.
Proof.
  unfold nohb. induction l as [|a r IH]; [reflexivity|]. cbn [filter existsb].
  destruct (is_hb a) eqn:E; cbn [negb existsb]; rewrite IH; [|reflexivity].
  destruct a as [c its|k oc its]; [discriminate E|reflexivity].
Qed.

Lemma after_run_nohb h l :
  existsb (is_commit_of h) (after_run h (nohb l)) = existsb (is_commit_of h) (after_run h l).
Proof.
  induction l as [|a r IH]; [reflexivity|].
  unfold nohb in *. cbn [filter after_run]. destruct (is_hb a) eqn:E; cbn [negb orb after_run].
  - exact IH.
  - rewrite E. cbn [orb]. destruct (is_commit_of h a); [exact IH|].
    cbn [existsb]. f_equal. apply existsb_commit_nohb.
Qed.

Lemma contigb_nohb l : contigb (nohb l) = contigb l.
Proof.
  induction l as [|a r IH]; [reflexivity|].
  unfold nohb in *. cbn [filter]. destruct (is_hb a) eqn:E; cbn [negb].
  - rewrite IH. destruct a as [c its|k oc its]; [discriminate E|reflexivity].
  - destruct a as [c its|k oc its]; cbn [contigb]; [|exact IH].
    rewrite IH. f_equal. f_equal. apply (after_run_nohb (c_id c) r).
Qed.

Lemma replays_nohb l : replays (nohb l) = replays l.
Proof.
  unfold nohb. induction l as [|a r IH]; [reflexivity|]. cbn [filter].
  destruct (is_hb a) eqn:E; cbn [negb].
  - rewrite IH. destruct a as [c its|k oc its]; [discriminate E|reflexivity].
  - destruct a as [c its|k oc its]; cbn [replays]; rewrite IH; reflexivity.
Qed.

(* ------------------------------------------------------------------------------------------ *)
(* 4. the replay blocks of C02 -> contigb, distinctb *)

(* what is used of C02_spec's clause [c02_blocks]: all replays of a commit form one block on
   pairwise distinct branches *)
Definition blocks_inv (p : list PS.action) : Prop :=
  forall c, In c (PS.analysed p) ->
  exists p1 bs p2, p = p1 ++ PSp.block c bs ++ p2 /\
                   ~ In c (PS.analysed p1) /\ ~ In c (PS.analysed p2) /\ NoDup bs.

Lemma spec_blocks_inv g p : PSp.C02_spec g p -> blocks_inv p.
Proof.
  intros Sp c Hc. destruct (PSp.c02_blocks g p Sp c Hc) as [p1 [bs [p2 [E [N1 [N2 [ND _]]]]]]].
  exists p1, bs, p2. auto.
Qed.

Lemma analysed_head_commit a p c :
  PS.kind a = PS.KCommit -> PS.commit a = Some c -> In c (PS.analysed (a :: p)).
Proof.
  intros K C. rewrite analysed_cons. apply in_or_app. left.
  unfold PS.analysed. cbn [flat_map]. rewrite K, C. left. reflexivity.
Qed.

Lemma blocks_inv_tail a p : blocks_inv (a :: p) -> blocks_inv p.
Proof.
  intros I c Hc.
  assert (Hc' : In c (PS.analysed (a :: p))) by (rewrite analysed_cons; apply in_or_app; right; exact Hc).
  destruct (I c Hc') as [p1 [bs [p2 [E [N1 [N2 ND]]]]]].
  destruct p1 as [|x p1'].
  - destruct bs as [|b0 bs']; cbn [PSp.block map app] in E.
    + exfalso. apply N2. rewrite <- E. exact Hc'.
    + injection E as Ea Ep. exists [], bs', p2. split; [exact Ep|].
      split; [intros []|]. split; [exact N2|]. inversion ND; assumption.
  - cbn [app] in E. injection E as Ea Ep. exists p1', bs, p2. split; [exact Ep|].
    split; [|split; [exact N2|exact ND]].
    intro H. apply N1. rewrite analysed_cons. apply in_or_app. right. exact H.
Qed.

Lemma blocks_inv_head a p c :
  PS.kind a = PS.KCommit -> PS.commit a = Some c -> blocks_inv (a :: p) ->
  exists b bs p2, a = PS.commit_on c b /\ p = PSp.block c bs ++ p2 /\ ~ In b bs /\ ~ In c (PS.analysed p2).
Proof.
  intros K C I. pose proof (analysed_head_commit a p c K C) as Hc.
  destruct (I c Hc) as [p1 [bs [p2 [E [N1 [N2 ND]]]]]].
  destruct p1 as [|x p1'].
  - destruct bs as [|b0 bs']; cbn [PSp.block map app] in E.
    + exfalso. apply N2. rewrite <- E. exact Hc.
    + injection E as Ea Ep. exists b0, bs', p2. split; [exact Ea|]. split; [exact Ep|].
      split; [inversion ND; assumption|exact N2].
  - exfalso. cbn [app] in E. injection E as Ea Ep. apply N1. subst x. apply analysed_head_commit; assumption.
Qed.

(* the C14 actions behind a block of replays *)
Lemma back_block n : forall bs r1, back_plan r1 = PSp.block n bs ->
  Forall (fun x => exists c' i, x = ACommit c' [i] /\ back_commit c' = n /\ In (Z.of_N i) bs) r1.
Proof.
  unfold back_plan, PSp.block. induction bs as [|b bs IH]; intros r1 E.
  - destruct r1; [constructor|discriminate].
  - destruct r1 as [|x r1]; [discriminate|]. cbn [map] in E. injection E as Ex Er.
    constructor.
    + destruct x as [c' its|k oc its].
      * unfold PS.commit_on in Ex. cbn [back] in Ex. injection Ex as Ec Ei.
        destruct (map_of_N_single _ _ Ei) as [i [-> ->]]. exists c', i. split; [reflexivity|]. split; [exact Ec|].
        left. reflexivity.
      * exfalso. unfold PS.commit_on in Ex. cbn [back] in Ex. destruct k; discriminate.
    + eapply Forall_impl; [|exact (IH r1 Er)]. intros y [c' [i [Ey [En Hi]]]]. exists c', i.
      split; [exact Ey|]. split; [exact En|]. right. exact Hi.
Qed.

Lemma after_run_skip h r1 r2 :
  Forall (fun x => is_commit_of h x = true) r1 -> after_run h (r1 ++ r2) = after_run h r2.
Proof.
  induction 1 as [|x l Hx _ IH]; [reflexivity|]. cbn [app after_run]. rewrite Hx, orb_true_r. exact IH.
Qed.

Lemma existsb_after_run (f : action -> bool) h l :
  existsb f (after_run h l) = true -> existsb f l = true.
Proof.
  induction l as [|a r IH]; [discriminate|]. cbn [after_run].
  destruct (is_hb a || is_commit_of h a); [|auto].
  intro H. cbn [existsb]. rewrite (IH H). apply orb_true_r.
Qed.

Lemma no_commit_of h l :
  ~ In (N.to_nat h) (PS.analysed (back_plan l)) -> existsb (is_commit_of h) l = false.
Proof.
  intro N. destruct (existsb (is_commit_of h) l) eqn:E; [|reflexivity].
  exfalso. apply N. apply commit_of_analysed. exact E.
Qed.

Lemma replays_no_commit h (f : N -> bool) l :
  existsb (is_commit_of h) l = false ->
  existsb (fun q => N.eqb (fst q) h && f (snd q)) (replays l) = false.
Proof.
  induction l as [|a r IH]; [reflexivity|]. cbn [existsb]. intro H. apply orb_false_iff in H.
  destruct H as [Ha Hr]. destruct a as [c its|k oc its]; cbn [replays]; [|exact (IH Hr)].
  cbn [existsb fst]. cbn [is_commit_of] in Ha. rewrite Ha. cbn [andb orb]. exact (IH Hr).
Qed.

Theorem blocks_contig_distinct : forall r,
  blocks_inv (back_plan r) -> contigb r = true /\ nodup_pairs (replays r) = true.
Proof.
  induction r as [|a r IH]; intro I; [split; reflexivity|].
  unfold back_plan in I. cbn [map] in I.
  destruct (IH (blocks_inv_tail _ _ I)) as [IC ID].
  destruct a as [c its|k oc its]; [|split; assumption].
  destruct (blocks_inv_head (back (ACommit c its)) (map back r) (back_commit c) eq_refl eq_refl I) as [b [bs [p2 [Ea [Ep [Nb N2]]]]]].
  change (map back r) with (back_plan r) in Ep. unfold back_plan in Ep.
  apply map_eq_app in Ep. destruct Ep as [r1 [r2 [Er [E1 E2]]]].
  pose proof (back_block _ _ _ E1) as F1.
  assert (Hits : exists i0, its = [i0] /\ b = Z.of_N i0).
  { unfold PS.commit_on in Ea. cbn [back] in Ea. injection Ea as Ei. exact (map_of_N_single _ _ Ei). }
  destruct Hits as [i0 [-> ->]].
  assert (F1c : Forall (fun x => is_commit_of (c_id c) x = true) r1).
  { eapply Forall_impl; [|exact F1]. intros x [c' [i [-> [En _]]]]. cbn [is_commit_of].
    apply N.eqb_eq. apply N2Nat.inj. exact En. }
  assert (N2' : existsb (is_commit_of (c_id c)) r2 = false).
  { apply no_commit_of. unfold back_plan. rewrite E2. exact N2. }
  subst r. split.
  - cbn [contigb]. rewrite IC, andb_true_r. apply negb_true_iff.
    rewrite (after_run_skip _ _ _ F1c).
    destruct (existsb (is_commit_of (c_id c)) (after_run (c_id c) r2)) eqn:E; [|reflexivity].
    apply existsb_after_run in E. congruence.
  - cbn [replays nodup_pairs first_item]. rewrite ID, andb_true_r. apply negb_true_iff.
    rewrite replays_app, existsb_app. apply orb_false_iff. split.
    + clear - F1 Nb. induction F1 as [|x l [c' [i [-> [En Hi]]]] _ IHl]; [reflexivity|].
      cbn [replays existsb fst snd first_item]. rewrite IHl, orb_false_r.
      destruct (N.eqb i i0) eqn:E; [|apply andb_false_r].
      exfalso. apply N.eqb_eq in E. subst i. exact (Nb Hi).
    + exact (replays_no_commit (c_id c) (fun x => N.eqb x i0) r2 N2').
Qed.

(* ------------------------------------------------------------------------------------------ *)
(* 5. how often a commit is replayed: once per non-redundant parent *)

Lemma count_block c bs : count_occ Nat.eq_dec (PS.analysed (PSp.block c bs)) c = length bs.
Proof.
  induction bs as [|b r IH]; [reflexivity|].
  cbn [PSp.block map]. rewrite analysed_cons, count_occ_app. fold (PSp.block c r). rewrite IH.
  cbn. destruct (Nat.eq_dec c c); [reflexivity|congruence].
Qed.

Lemma lasts_count g c ls : PSp.lasts_ok g c ls ->
  length ls <= Nat.max 1 (length (PS.parents g c)) /\
  (2 <= length ls <-> PSp.merge_commit g c).
Proof.
  intros [[Hp ->]|[Hp [qs [-> [ND Hq]]]]].
  - cbn [length]. split; [lia|]. split; [lia|].
    intros [q1 [q2 [_ [[Hin _] _]]]]. rewrite Hp in Hin. destruct Hin.
  - rewrite map_length.
    assert (Hincl : incl qs (PS.parents g c)).
    { intros q Hin. apply Hq in Hin. exact (proj1 Hin). }
    pose proof (NoDup_incl_length ND Hincl) as Hle.
    split; [lia|]. split.
    + intro H2. destruct qs as [|q1 [|q2 r]]; cbn in H2; try lia.
      exists q1, q2. split.
      * intro E. subst q2. inversion ND as [|? ? Hn _]. apply Hn. left. reflexivity.
      * split; apply Hq; cbn; auto.
    + intros [q1 [q2 [Hne [H1 H2]]]]. apply Hq in H1. apply Hq in H2.
      destruct qs as [|a [|b r]].
      * destruct H1.
      * exfalso. destruct H1 as [<-|[]]. destruct H2 as [<-|[]]. apply Hne. reflexivity.
      * cbn [length]. lia.
Qed.

Lemma spec_count g q : PSp.C02_spec g (PS.erase_hb (back_plan q)) ->
  forall h, 1 <= hcount h q ->
  hcount h q <= Nat.max 1 (length (PS.parents g (N.to_nat h))) /\
  (2 <= hcount h q <-> PSp.merge_commit g (N.to_nat h)).
Proof.
  intros Sp h H1. rewrite hcount_analysed in *. rewrite <- PLP.analysed_erase_hb in *.
  set (p := PS.erase_hb (back_plan q)) in *. set (n := N.to_nat h) in *.
  assert (Hin : In n (PS.analysed p)) by (apply (count_occ_In Nat.eq_dec); lia).
  destruct (PSp.c02_blocks g p Sp n Hin) as [p1 [bs [p2 [E [N1 [N2 [_ [L _]]]]]]]].
  assert (Hc : count_occ Nat.eq_dec (PS.analysed p) n = length bs).
  { rewrite E, !PEP.analysed_app, !count_occ_app, count_block.
    apply (count_occ_not_In Nat.eq_dec) in N1. apply (count_occ_not_In Nat.eq_dec) in N2. lia. }
  rewrite Hc. pose proof (lasts_count g n _ L) as HL. rewrite map_length in HL. exact HL.
Qed.

(* ------------------------------------------------------------------------------------------ *)
(* 6. the validators imply the plan predicates of C14 *)

Lemma c04_ok_parts g p : PL.c04_ok g p = true ->
  PL.lifecycleb PE.init p = true /\ PC.plan_ok g (PS.erase_hb p) = true.
Proof.
  unfold PL.c04_ok. rewrite !andb_true_iff. tauto.
Qed.

Theorem validators_imply_predicates g q : PL.c04_ok g (back_plan q) = true ->
  liveb q = true /\ contigb q = true /\ distinctb q = true /\
  exists oc its r, q = AOther KEmerge oc its :: r.
Proof.
  intro V. destruct (c04_ok_parts _ _ V) as [L PO].
  pose proof (PCS.checker_sound g _ PO) as Sp.
  split; [apply lifecycle_liveb; apply PLP.lifecycleb_sound; exact L|].
  rewrite <- back_nohb in Sp.
  destruct (blocks_contig_distinct (nohb q) (spec_blocks_inv g _ Sp)) as [C D].
  rewrite contigb_nohb in C. rewrite replays_nohb in D.
  split; [exact C|]. split; [exact D|].
  destruct (lifecycle_head q L) as [->|H]; [|exact H].
  exfalso. exact (plan_ok_nonempty g _ PO eq_refl).
Qed.

Lemma head_firstb_emergeb q : head_firstb q = true -> head_emergeb q = true.
Proof.
  unfold head_firstb, head_emergeb. destruct q as [|a r]; [discriminate|].
  destruct a as [c its|k oc its]; [discriminate|]. destruct k; try discriminate. destruct oc; [reflexivity|discriminate].
Qed.

Theorem head_emergeb_composed g q :
  PL.c04_ok g (back_plan q) = true -> head_carriesb q = true -> head_emergeb q = true.
Proof.
  intros V H. destruct (validators_imply_predicates g q V) as [_ [_ [_ [oc [its [r ->]]]]]].
  cbn in H. destruct oc; [reflexivity|discriminate].
Qed.

Theorem plan_okb_composed g q :
  PL.c04_ok g (back_plan q) = true -> head_firstb q = true -> plan_okb q = true.
Proof.
  intros V H. destruct (validators_imply_predicates g q V) as [L [C [D _]]].
  unfold plan_okb. rewrite (head_firstb_emergeb q H), H, C, D, L. reflexivity.
Qed.

(* ------------------------------------------------------------------------------------------ *)
(* 7. the theorems of C14 with the plan predicates discharged by the validators *)

Section RunComposed.
  Variables St U : Type.
  Variable sm : sem St U.
  Variable items : list item.
  Variable g : list (list nat).
  Variable q : list action.
  Variable nc : N.
  Hypothesis V : PL.c04_ok g (back_plan q) = true.

  Let out := run St U sm items q nc.

  (* the calls of a step are the items of the resolved order, each once *)
  Theorem run_order_composed : forall s : cstep U, In (RCommit s) (ro_recs out) ->
    map (fun c => (k_item c, k_desc c)) (cs_calls s) =
      firstn (length (cs_calls s)) (combine (seq 0 (length items)) items) /\
    (forallb complete (cs_calls s) = true -> length (cs_calls s) = length items).
  Proof.
    apply run_order. exact (proj1 (validators_imply_predicates g q V)).
  Qed.

  (* the flag an item sees is true exactly for a commit with at least two non-redundant parents *)
  Theorem run_is_merge_composed : head_carriesb q = true ->
    forall (i : nat) (s : cstep U), nth_error (ro_recs out) i = Some (RCommit s) ->
    (cs_merge s = true <-> 2 <= length (replay_branches q (c_id (cs_commit s)))) /\
    (cs_merge s = true <-> PSp.merge_commit g (back_commit (cs_commit s))).
  Proof.
    intros Hc i s Hn.
    destruct (validators_imply_predicates g q V) as [_ [C [D _]]].
    pose proof (head_emergeb_composed g q V Hc) as He.
    pose proof (run_is_merge St U sm items q nc He C D i s Hn) as M.
    split; [exact M|]. rewrite M, (replay_branches_count q _ D).
    destruct (run_steps St U sm items q nc i _ Hn) as [a [Ha [its [-> _]]]].
    assert (H1 : 1 <= hcount (c_id (cs_commit s)) q).
    { apply hcount_pos_iff. exists (ACommit (cs_commit s) its). split; [eapply nth_error_In; exact Ha|].
      cbn. apply N.eqb_refl. }
    destruct (c04_ok_parts _ _ V) as [_ PO].
    exact (proj2 (spec_count g q (PCS.checker_sound g _ PO) _ H1)).
  Qed.

  Theorem run_log_ok_composed (ueqb : U -> U -> bool) : (forall u, ueqb u u = true) ->
    head_carriesb q = true -> forall early : bool,
    (early = true \/ match ro_out out with
                     | Done _ _ => True
                     | Failed (EConsume _ _) => True
                     | Failed (EMissing _ _) => True
                     | _ => False
                     end) ->
    log_ok U ueqb early q items q 0 (consume_log (ro_recs out)) = true.
  Proof.
    intros Hr Hc early He.
    destruct (validators_imply_predicates g q V) as [L [C [D _]]].
    exact (run_log_ok St U ueqb sm items q nc Hr (head_emergeb_composed g q V Hc) C D L early He).
  Qed.
End RunComposed.
