CONFIG = dict(
        level='proof',
        streams=[dict(harness='c14', driver='c14', shrink_field='commits')],
        rule='one case = one Pipeline.Initialize + Pipeline.Run of the real code on a synthetic in-memory go-git repository '
             '(facts[ConfigPipelineCommits]) with a pipeline of recording items (chain, diamond, two consumers of a two-output provider, '
             're-provider chain, single leaf, random dependency DAGs of 1-6 items; fork by copy or by sharing, hibernateable or not, leaf '
             'or not; registered in random order) and hibernation distance 0..5, optionally with one injected failure (Consume error at '
             'a commit index, a declared output left out, Hibernate/Boot error). Histories: ex<n> = every parent assignment on n<=4 '
             'commits (thorough: 5), lin = linear, dag = random DAGs up to 14 commits with 2-3 parent merges, several roots, equal and '
             'non-monotone committer times, hist = histories of harness/synth.GenHist, octo = harness/synth.GenOctopusShape: 1-2 octopus merges of '
             '3..7 parents per history (half of the cases aimed at parents = distance+3 / +4, where ONE boot action covers several branches), arms of '
             'different lengths, chains after the merge, 1..3 roots, distance 1..4, at least one hibernateable item. '
             'Added after the seeded change C14-s3 (declared outputs cached per item NAME) was missed - input attributes of the pipelines: '
             'same = 2-3 items of one pipeline share their Name() (resolve() numbers them Name_1, Name_2) while their Provides()/Requires() are '
             'equal, different, overlapping or nested (pair, refiner, disjoint, first-declares-more, three of a name, two interleaved names, whole '
             'pipeline under one name, random aliasing), mostly with a probe leaf that requires every entity, missing-output injections aimed at the '
             'last item of a name; attr = pipelines of 1..12 items providing 0..4 entities, requiring nothing / everything, one re-provider with '
             'consumers before and after it (TreeDiff -> RenameAnalysis shape), undeclared extra keys colliding with commit, index, is_merge, with an '
             'entity of another item or echoing an input, or no undeclared key at all, a nil result map (injection nil), an error during the replay of '
             'a merge commit (injection errm), commit indices biased to the first / last, items to the first / last declared, PrintActions on in a '
             'quarter of the cases (what Run prints must be the executed prefix of the dumped plan); histories: one commit, linear, random DAG, octopus. '
             'scale-* = the scale family (harness/cmd/c14/scale.go): histories of 10^3 commits (thorough: 10^4, one of 2^15+1) - linear with ascending / '
             'descending / equal committer times, 8, 33 (thorough: 200) branches alive at once joined by an octopus or a merge cascade, a side branch '
             'merged back every p commits (p among 2^k, 2^k+-1, 99..101), a ladder of merges between two long-lived branches, 5 (thorough: 64) roots; '
             'hibernation distances 0, 1, 2, 10, 99, 100, 101; failures at the last commit index / last item / first merge replay of the second half; '
             'item lists of 1, 2, 10, 30 items (thorough: 30 items x 3000 commits); linear histories of 98..200 and 127..513 commits (plan positions and '
             'commit indices around 100, 2^7, 2^8, 2^9). Runs whose plan has more than 450 actions are judged by the extracted oracles only (log_ok over the '
             'complete call log at the end, summary_ok, errors-abort): the extracted interpreter is cubic in the plan length. '
             'Added after the third round of seeded changes (semantic corners; harness/cmd/c14/reuse.go): '
             'special = recording items publish special-but-legal VALUES for declared entities (field special = (item entity commit-index-or--1 code)): the '
             'untyped nil interface (1), typed nil slice / map / pointer (2-4), "" (5), int 0 (6), false (7), an empty slice (8), uint64 0 (9) - every value x 4 '
             'fixed pipelines x (every step, first step, merge replay) on a diamond, and random pipelines / histories / injections; a value is written '
             '3000000000+code in deps / out, the downstream digest depends on it; Run must store it and go on (only an ABSENT key is a missing output), '
             'and a run that aborts although no call failed and nothing is missing is a property failure by itself. '
             'reuse-sides / -mid / -sub / -grow = ONE Pipeline object and the SAME item instances run on several commit selections of one repository (field '
             'runs = (run mode dist pa dump (inject ..) (sel ids)) per run, obs = one (run ...) block per run): each side of a merge of equally long arms, the '
             'same window with another commit dropped (same length, same first and last commit), sub-histories, a history that grows; mode 0 = '
             'Initialize again, 1 = no Initialize (the harness resets the counters of the original instances), 3 = Initialize twice; a run may carry an '
             'injected failure, so that the next run re-uses a Pipeline whose Run was aborted; in half of the later runs DumpPlan is off (a dump forces '
             're-planning in plausible caches) and the executed plan is read from what PrintActions prints. Every run is judged like a single fresh run '
             '(model = fresh-instance twin: call log and result equal; oracles on the observed log) and every commit of the executed plan must be one of '
             'the commits handed to that run. '
             'Non-trivial = at least 2 items and at least 2 commit '
             'steps in the executed plan; distinct = distinct (distance, items, injection, options, commits).',
        exhaustive_note='every parent assignment (each commit chooses any subset of the earlier ones: several roots, octopus and redundant merges, '
                        'disconnected parts) on 1..4 commits (thorough: 5) x 3 fixed pipelines x 2 hibernation distances',
        assumptions=[
            'the plan predicates head_emergeb, head_firstb, contigb, distinctb, liveb (coq/theories/Pipeline/RunModel.v) are hypotheses of '
            'C14_is_merge / C14_once_in_order / C14_summary; they are evaluated on the plan of every real run (a failure is reported as a '
            'correspondence break); the plan validator of C02/C04 implies them - proved in Coq for liveb, contigb, distinctb and "plan[0] is an emerge" '
            '(C14_plan_predicates_composed, coq/theories/Compose/PlanRun.v, docs/COMPOSITION.md); the Commit field of plan[0] (head_firstb / head_carriesb) is '
            'not inspected by the validators and stays a hypothesis',
            'a runActionCommit always carries a commit (appendCommit in generatePlan is its only producer)',
            'item behaviour (Consume, Merge, Hibernate, Boot, Finalize) is an arbitrary function of the state of the Go object it is called on; '
            'Fork is ForkCopyPipelineItem or ForkSamePipelineItem; an item does not modify the deps map it is handed',
        ],
        trusted_base=[
            'hand-written Gallina model coq/theories/Pipeline/RunModel.v of Pipeline.Run, cloneItems, mergeItems, getMasterBranch, '
            'ForkSamePipelineItem, ForkCopyPipelineItem, tied to the code by the replay of every harness case (complete call log and result)',
            'the recording items of harness/cmd/c14 and their Gallina twin rec_sem; the behaviours added with the attribute streams (undeclared '
            'extra keys, nil result map, error at a merge replay, special values of declared entities) are an OCaml wrapper around the extracted rec_sem in ocaml/c14/driver.ml (the '
            'interpreter is the extracted run, the theorems hold for every item behaviour)',
            'verif hook internal/core/verif_c14.go (redirects the sink of the plan dump so that the plan Run executed is observed) and '
            'verifapi/c14/c14.go; the existing verifapi planner exports (InsertHibernateBoot) and Pipeline.VerifItems',
        ],
        level_text='Coq theorems about the Gallina interpreter model of Pipeline.Run, for every item state type, value type, item behaviour '
                   '(Consume/Merge/Hibernate/Boot/Finalize as arbitrary functions), item list and plan: C14_steps (commit records = commit '
                   'actions, with their commit, branch and isMerge value), C14_inputs (every key of the map a call sees = output of the last '
                   'earlier provider of the same step, else the step metadata; no hypothesis), C14_once_in_order (plans with live branches: '
                   'items 0..n-1 once each, in resolved order), C14_index, C14_is_merge_scan / C14_is_merge (flag true iff replayed on >= 2 '
                   'branches, under head_emergeb, contigb, distinctb), C14_errors_abort (failing call is the last one; Run returns its error '
                   'and no result), C14_done / C14_summary (BeginTime, EndTime, CommitsNumber), C14_oracle_accepts_model (the extracted log '
                   'oracle accepts every model log); all closed under the global context. Every run replays the real call log through the '
                   'extracted interpreter (equality) and through the extracted oracles.',
        level_note='Proved about the model, tied to the Go code by correspondence only (complete event log incl. object identities of '
                   'forked items, and the result). The plan is an input: the theorems assume boolean plan predicates that are evaluated '
                   'on the plan of every real run and that the C02/C04 validator implies; the resolved item order is taken as observed '
                   '(C10). Modelled rather than verified: Go map semantics of the state map, reflect-based ForkCopyPipelineItem (copy of '
                   'the object state), the planner (only its output is used; it is non-deterministic, so the executed plan is captured '
                   'from Run\'s own plan dump). Not modelled: RunTime/RunTimePerItem, OnProgress, DryRun, Dispose, items that mutate the '
                   'deps map. Boundaries stated in the theorems: EndTime is max(0, newest committer time) (newestTime starts at int64 0); '
                   'CommitsNumber counts the input commits including those of dropped disjoint components; the commit index counts '
                   'replays (a merge commit replayed on k branches takes k indices). Run panics on an empty commit list (plan[0]); the '
                   'model does too.',
        technique='machine-checked proof in Coq over a Gallina model of the action interpreter + model/implementation correspondence replay of the '
                  'complete call log with extracted oracles',
    )
