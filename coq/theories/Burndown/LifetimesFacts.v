(* Facts about the ground-truth oracle of Lifetimes.v: no negative cell, every row sums to the number of
   lines alive at the end of the sample, the last row sums to the number of lines at HEAD. *)
From Coq Require Import List ZArith Lia Bool.
From Herc Require Import Burndown.Base Burndown.Lifetimes.
Import ListNotations.
Open Scope Z_scope.

Lemma count_nonneg {A} (f : A -> bool) l : 0 <= count f l.
Proof. unfold count. lia. Qed.

Lemma count_cons {A} (f : A -> bool) x l : count f (x :: l) = (if f x then 1 else 0) + count f l.
Proof. unfold count. cbn [filter]. destruct (f x); cbn [length]; lia. Qed.

Lemma count_ext_in {A} (f g : A -> bool) l : (forall x, In x l -> f x = g x) -> count f l = count g l.
Proof. intros E. unfold count. rewrite (filter_ext_in f g l E). reflexivity. Qed.

Lemma zrange_from_in a n x : In x (zrange_from a n) <-> a <= x < a + Z.of_nat n.
Proof.
  revert a. induction n as [|n IH]; intros a; cbn [zrange_from In].
  - lia.
  - rewrite IH. lia.
Qed.
Lemma zrange_in n x : In x (zrange n) <-> 0 <= x < n.
Proof. unfold zrange. rewrite zrange_from_in. lia. Qed.

Lemma zrange_from_length a n : length (zrange_from a n) = n.
Proof. revert a; induction n; intros; cbn; auto. Qed.

(* sum over the bands of the lines whose band is b = all the lines (each band counted once) *)
Lemma sum_bands {A} (f : A -> bool) (g : A -> Z) (l : list A) a n :
  (forall x, In x l -> f x = true -> a <= g x < a + Z.of_nat n) ->
  sum_z (map (fun b => count (fun x => f x && (g x =? b)) l) (zrange_from a n)) = count f l.
Proof.
  revert f a. induction n as [|n IH]; intros f a Hr.
  - cbn. unfold count. assert (E : filter f l = []).
    { induction l as [|x l IHl]; [reflexivity|]. cbn [filter]. destruct (f x) eqn:E.
      - specialize (Hr x (or_introl eq_refl) E). lia.
      - apply IHl. intros y Hy. apply Hr. right; auto. }
    rewrite E. reflexivity.
  - cbn [zrange_from map]. change (sum_z (?x :: ?r)) with (x + sum_z r).
    (* split the lines into those of band a and the others *)
    assert (E : sum_z (map (fun b => count (fun x => f x && (g x =? b)) l) (zrange_from (a + 1) n)) =
                count (fun x => f x && negb (g x =? a)) l).
    { rewrite <- (IH (fun x => f x && negb (g x =? a)) (a + 1)).
      - f_equal. apply map_ext_in. intros b Hb. apply zrange_from_in in Hb.
        apply count_ext_in. intros x Hx. destruct (Z.eqb_spec (g x) b), (Z.eqb_spec (g x) a); cbn; try lia;
        rewrite ?andb_true_r, ?andb_false_r; auto.
      - intros x Hx E. apply andb_prop in E. destruct E as [E1 E2].
        specialize (Hr x Hx E1). apply negb_true_iff in E2. apply Z.eqb_neq in E2. lia. }
    rewrite E. clear. induction l as [|x l IHl]; [reflexivity|].
    rewrite !count_cons. destruct (f x), (g x =? a); cbn [andb negb]; lia.
Qed.

Section Truth.
  Variable h : hist.
  Variables G S : Z.
  Hypothesis HG : 1 <= G.
  Hypothesis HS : 1 <= S.
  Hypothesis Hcf : conflict_free h = true.

  Lemma cf_parts : commits_okb h = true /\
    forallb (fun pl => line_okb h (ancs h) (snd pl)) (all_lines h) = true.
  Proof.
    pose proof Hcf as Hc. unfold conflict_free in Hc.
    apply andb_prop in Hc. destruct Hc as [Hc H4]. apply andb_prop in Hc. destruct Hc as [Hc H3].
    apply andb_prop in Hc. destruct Hc as [H1 H2]. apply andb_prop in H1. destruct H1 as [H0 H1]. split; assumption.
  Qed.

  Lemma anc_ticks c a : 0 <= c < ncommits h -> 0 <= a < ncommits h -> ancb (ancs h) c a = true ->
    tick_of h a <= tick_of h c.
  Proof.
    intros Hc Ha E. pose proof Hcf as H0. unfold conflict_free in H0.
    apply andb_prop in H0. destruct H0 as [H0 _]. apply andb_prop in H0. destruct H0 as [H0 _].
    apply andb_prop in H0. destruct H0 as [H0 _]. apply andb_prop in H0. destruct H0 as [H0 _].
    unfold anc_ticks_okb in H0. rewrite forallb_forall in H0. specialize (H0 c (proj2 (zrange_in _ _) Hc)).
    rewrite forallb_forall in H0. specialize (H0 a (proj2 (zrange_in _ _) Ha)). rewrite E in H0. cbn in H0. lia.
  Qed.

  Lemma tick_nonneg c : 0 <= c < ncommits h -> 0 <= tick_of h c.
  Proof.
    intros Hc. destruct cf_parts as [Hok _]. unfold commits_okb in Hok.
    apply andb_prop in Hok. destruct Hok as [_ Hall]. rewrite forallb_forall in Hall.
    specialize (Hall c (proj2 (zrange_in _ _) Hc)).
    repeat (apply andb_prop in Hall; destruct Hall as [Hall ?]). lia.
  Qed.

  Lemma line_ok pl : In pl (all_lines h) -> line_okb h (ancs h) (snd pl) = true.
  Proof. destruct cf_parts as [_ Hl]. rewrite forallb_forall in Hl. auto. Qed.

  Lemma born_range pl : In pl (all_lines h) -> 0 <= l_born (snd pl) < ncommits h.
  Proof.
    intros Hin. pose proof (line_ok pl Hin) as Hl. unfold line_okb, in_range in Hl.
    apply andb_prop in Hl. destruct Hl as [Hl _]. lia.
  Qed.

  Lemma killer_range pl : In pl (all_lines h) -> has_killer (snd pl) = true -> 0 <= l_killer (snd pl) < ncommits h.
  Proof.
    intros Hin Hk. pose proof (line_ok pl Hin) as Hl. unfold line_okb, in_range, has_killer in *.
    apply andb_prop in Hl. destruct Hl as [_ Hl]. apply orb_prop in Hl. destruct Hl as [Hl|Hl]; [lia|].
    repeat (apply andb_prop in Hl; destruct Hl as [Hl ?]). lia.
  Qed.

  Lemma birth_le_last pl : In pl (all_lines h) -> 0 <= birth_tick h (snd pl) <= last_event h.
  Proof.
    intros Hin. split; [apply tick_nonneg, born_range; auto|].
    unfold last_event. induction (all_lines h) as [|x l IH]; [destruct Hin|].
    cbn [fold_right]. destruct Hin as [->|Hin]; [lia|]. specialize (IH Hin). lia.
  Qed.

  Lemma death_le_last pl : In pl (all_lines h) -> has_killer (snd pl) = true -> death_tick h (snd pl) <= last_event h.
  Proof.
    intros Hin Hk. unfold last_event. induction (all_lines h) as [|x l IH]; [destruct Hin|].
    cbn [fold_right]. destruct Hin as [->|Hin]; [rewrite Hk; lia|]. specialize (IH Hin). lia.
  Qed.

  Lemma last_event_nonneg : 0 <= last_event h.
  Proof. unfold last_event. induction (all_lines h) as [|x l IH]; cbn [fold_right]; lia. Qed.

  Variable keep : Z * line -> bool.

  Theorem truth_cell_nonneg s b : 0 <= truth_cell h G S keep s b.
  Proof. apply count_nonneg. Qed.

  Theorem truth_matrix_nonneg : forall row, In row (truth_matrix h G S keep) -> forall v, In v row -> 0 <= v.
  Proof.
    intros row Hr v Hv. unfold truth_matrix in Hr. apply in_map_iff in Hr. destruct Hr as (s & <- & _).
    apply in_map_iff in Hv. destruct Hv as (b & <- & _). apply truth_cell_nonneg.
  Qed.

  Definition truth_row (s : Z) : list Z :=
    map (fun b => truth_cell h G S keep s b) (zrange (last_event h / G + 1)).

  (* every row sums to the lines (of the file / developer) alive at the end of the sample *)
  Theorem truth_row_sum s :
    sum_z (truth_row s) = count (fun pl => keep pl && alive_at h ((s + 1) * S - 1) (snd pl)) (all_lines h).
  Proof.
    unfold truth_row, truth_cell, zrange.
    rewrite (sum_bands (fun pl => keep pl && alive_at h ((s + 1) * S - 1) (snd pl))
                       (fun pl => birth_tick h (snd pl) / G) (all_lines h) 0); auto.
    intros pl Hin _. pose proof (birth_le_last pl Hin) as Hb. pose proof last_event_nonneg.
    assert (0 <= birth_tick h (snd pl) / G) by (apply Z.div_pos; lia).
    assert (birth_tick h (snd pl) / G <= last_event h / G) by (apply Z.div_le_mono; lia).
    assert (0 <= last_event h / G) by (apply Z.div_pos; lia). lia.
  Qed.

  Lemma truth_matrix_rows : truth_matrix h G S keep = map truth_row (zrange (last_event h / S + 1)).
  Proof. reflexivity. Qed.

  (* in the last row every line that was never killed is alive, and nothing else *)
  Theorem truth_last_row_sum :
    sum_z (truth_row (last_event h / S)) = count (fun pl => keep pl && negb (has_killer (snd pl))) (all_lines h).
  Proof.
    rewrite truth_row_sum. apply count_ext_in. intros pl Hin. f_equal.
    pose proof (birth_le_last pl Hin) as Hb. pose proof last_event_nonneg as Hl.
    assert (He : last_event h <= (last_event h / S + 1) * S - 1).
    { pose proof (Z.mod_pos_bound (last_event h) S). pose proof (Z.div_mod (last_event h) S). nia. }
    unfold alive_at. destruct (Z.leb_spec (birth_tick h (snd pl)) ((last_event h / S + 1) * S - 1)); [|lia].
    cbn [andb]. destruct (has_killer (snd pl)) eqn:Ek; cbn [andb negb]; auto.
    pose proof (death_le_last pl Hin Ek).
    destruct (Z.leb_spec (death_tick h (snd pl)) ((last_event h / S + 1) * S - 1)); [reflexivity|lia].
  Qed.

  (* with a single head, the lines of HEAD are the lines that were never killed *)
  Hypothesis Hsingle : single_head h = true.

  Lemma head_alive pl : In pl (all_lines h) ->
    aliveb (ancs h) (ncommits h - 1) (snd pl) = negb (has_killer (snd pl)).
  Proof.
    intros Hin. pose proof Hsingle as Hs. unfold single_head in Hs. rewrite forallb_forall in Hs.
    unfold aliveb. rewrite (Hs _ (proj2 (zrange_in _ _) (born_range pl Hin))). cbn [andb].
    fold (has_killer (snd pl)). destruct (has_killer (snd pl)) eqn:Ek; cbn [andb negb]; auto.
    rewrite (Hs _ (proj2 (zrange_in _ _) (killer_range pl Hin Ek))). reflexivity.
  Qed.

  Theorem lines_at_head_never_killed :
    lines_at_head h = count (fun pl => negb (has_killer (snd pl))) (all_lines h).
  Proof.
    unfold lines_at_head, head_lines, count. f_equal. f_equal. apply filter_ext_in. intros pl Hin.
    apply head_alive; auto.
  Qed.
End Truth.

(* the project matrix of the oracle: last row = lines at HEAD *)
Theorem truth_project_last_row h G S : 1 <= G -> 1 <= S -> conflict_free h = true -> single_head h = true ->
  sum_z (truth_row h G S keep_all (last_event h / S)) = lines_at_head h.
Proof.
  intros HG HS Hcf Hs. rewrite truth_last_row_sum by auto. rewrite lines_at_head_never_killed by auto.
  apply count_ext_in. intros. reflexivity.
Qed.
