(* Specification vocabulary for C15 over the executable model's state: edges are [has_edge s a b = true];
   walks, non-empty paths, acyclicity, "a occurs before b in L". *)
From Coq Require Import List ZArith Bool.
From Herc Require Import Toposort.Model.
Import ListNotations.
Open Scope Z_scope.

(* consecutive elements are edges *)
Inductive is_walk (s : st) : list Z -> Prop :=
| walk_one a : is_walk s [a]
| walk_cons a b l : has_edge s a b = true -> is_walk s (b :: l) -> is_walk s (a :: b :: l).

(* non-empty path a ->+ b *)
Inductive spath (s : st) : Z -> Z -> Prop :=
| spath_one a b : has_edge s a b = true -> spath s a b
| spath_cons a b c : has_edge s a b = true -> spath s b c -> spath s a c.

Definition acyclic (s : st) : Prop := forall n, ~ spath s n n.

Definition before (a b : Z) (L : list Z) : Prop := exists L1 L2 L3, L = L1 ++ a :: L2 ++ b :: L3.

Definition node_list (s : st) : list Z := map fst (outs s).
