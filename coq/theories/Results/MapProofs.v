(* C17 - facts about the canonical-association-list model of Go maps (PB.v, Section Maps):
   inserting keeps the list canonical, a loop of writes with distinct keys yields the sorted
   permutation, and a canonical list is determined by its contents.  Key lemma:
   [map_of_list_perm]: re-inserting any permutation of a canonical map gives that map. *)
From Coq Require Import List ZArith Bool Lia Permutation Sorted.
From Herc Require Import Results.PB.
Import ListNotations.
Open Scope Z_scope.

Record cmp_ok {K : Type} (cmp : K -> K -> comparison) : Prop := {
  cmp_eq : forall a b, cmp a b = Eq <-> a = b;
  cmp_antisym : forall a b, cmp b a = CompOpp (cmp a b);
  cmp_trans : forall a b c, cmp a b = Lt -> cmp b c = Lt -> cmp a c = Lt
}.

Lemma Zcompare_ok : cmp_ok Z.compare.
Proof.
  split.
  - intros a b. apply Z.compare_eq_iff.
  - intros a b. apply Z.compare_antisym.
  - intros a b c H1 H2. rewrite Z.compare_lt_iff in *. lia.
Qed.

Lemma name_compare_refl : forall a, name_compare a a = Eq.
Proof. induction a as [|x a IH]; cbn; [reflexivity|]. rewrite Z.compare_refl. exact IH. Qed.

Lemma name_compare_eq : forall a b, name_compare a b = Eq -> a = b.
Proof.
  induction a as [|x a IH]; intros [|y b] H; cbn in H; try discriminate; [reflexivity|].
  destruct (Z.compare x y) eqn:E; try discriminate.
  apply Z.compare_eq_iff in E. subst. f_equal. apply IH. exact H.
Qed.

Lemma name_compare_antisym : forall a b, name_compare b a = CompOpp (name_compare a b).
Proof.
  induction a as [|x a IH]; intros [|y b]; cbn; try reflexivity.
  rewrite (Z.compare_antisym x y). destruct (Z.compare x y); cbn; try reflexivity. apply IH.
Qed.

Lemma name_compare_trans : forall a b c, name_compare a b = Lt -> name_compare b c = Lt -> name_compare a c = Lt.
Proof.
  induction a as [|x a IH]; intros [|y b] [|z c] H1 H2; cbn in *; try discriminate; try reflexivity.
  destruct (Z.compare x y) eqn:E1; try discriminate.
  - apply Z.compare_eq_iff in E1. subst y.
    destruct (Z.compare x z) eqn:E2; try discriminate; try reflexivity.
    eapply IH; eassumption.
  - destruct (Z.compare y z) eqn:E2; try discriminate.
    + apply Z.compare_eq_iff in E2. subst z. rewrite E1. reflexivity.
    + assert (E3 : Z.compare x z = Lt) by (rewrite Z.compare_lt_iff in *; lia).
      rewrite E3. reflexivity.
Qed.

Lemma name_compare_ok : cmp_ok name_compare.
Proof.
  split.
  - intros a b. split; [apply name_compare_eq | intros ->; apply name_compare_refl].
  - apply name_compare_antisym.
  - apply name_compare_trans.
Qed.

Lemma names_eqb_eq : forall a b, names_eqb a b = true -> a = b.
Proof.
  induction a as [|x a IH]; intros [|y b] H; cbn in H; try discriminate; [reflexivity|].
  destruct (name_compare x y) eqn:E; try discriminate.
  apply name_compare_eq in E. subst. f_equal. apply IH. exact H.
Qed.

Lemma NoDup_map_inj_in {A B : Type} (f : A -> B) : forall l,
  (forall x y, In x l -> In y l -> f x = f y -> x = y) -> NoDup l -> NoDup (map f l).
Proof.
  induction l as [|a l IH]; intros Hinj Hnd; cbn; [constructor|].
  inversion Hnd as [|? ? Hna Hnd']; subst. constructor.
  - intros Hin. apply in_map_iff in Hin. destruct Hin as [y [Hy Hyin]].
    assert (y = a) by (apply Hinj; [right; exact Hyin | left; reflexivity | exact Hy]).
    subst. contradiction.
  - apply IH; [|exact Hnd']. intros x y Hx Hy. apply Hinj; right; assumption.
Qed.

Section MapFacts.
  Context {K V : Type}.
  Variable cmp : K -> K -> comparison.
  Hypothesis cmpok : cmp_ok cmp.

  Definition klt (x y : K * V) : Prop := cmp (fst x) (fst y) = Lt.
  Definition msorted (m : list (K * V)) : Prop := StronglySorted klt m.

  Lemma cmp_refl : forall a, cmp a a = Eq.
  Proof. intros a. apply (cmp_eq _ cmpok). reflexivity. Qed.

  Lemma cmp_gt_lt : forall a b, cmp a b = Gt -> cmp b a = Lt.
  Proof. intros a b H. rewrite (cmp_antisym _ cmpok a b), H. reflexivity. Qed.

  Lemma msortedb_sorted : forall m, msortedb cmp m = true -> msorted m.
  Proof.
    intros m H. apply Sorted_StronglySorted.
    - intros x y z. unfold klt. apply (cmp_trans _ cmpok).
    - induction m as [|[k v] t IH]; [constructor|].
      cbn in H. destruct t as [|[k' v'] t'].
      + constructor; constructor.
      + destruct (cmp k k') eqn:E; try discriminate.
        constructor; [apply IH; exact H|]. constructor. exact E.
  Qed.

  Lemma msorted_tail : forall x m, msorted (x :: m) -> msorted m.
  Proof. intros x m H. inversion H; assumption. Qed.

  Lemma msorted_head : forall x m, msorted (x :: m) -> Forall (klt x) m.
  Proof. intros x m H. inversion H; assumption. Qed.

  Lemma msorted_NoDup : forall m, msorted m -> NoDup (map fst m).
  Proof.
    induction m as [|x m IH]; intros H; cbn; [constructor|].
    constructor.
    - intros Hin. apply in_map_iff in Hin. destruct Hin as [y [Hy Hyin]].
      pose proof (msorted_head _ _ H) as Hf. rewrite Forall_forall in Hf.
      specialize (Hf y Hyin). unfold klt in Hf. rewrite Hy, cmp_refl in Hf. discriminate.
    - apply IH. eapply msorted_tail; exact H.
  Qed.

  Lemma in_minsert : forall k (v : V) m x, In x (minsert cmp k v m) -> x = (k, v) \/ In x m.
  Proof.
    intros k v. induction m as [|[k' v'] t IH]; intros x H; cbn in H.
    - destruct H as [H|[]]. left. symmetry. exact H.
    - destruct (cmp k k').
      + destruct H as [H|H]; [left; symmetry; exact H | right; right; exact H].
      + destruct H as [H|H]; [left; symmetry; exact H | right; exact H].
      + destruct H as [H|H]; [right; left; exact H|].
        destruct (IH x H) as [H'|H']; [left; exact H' | right; right; exact H'].
  Qed.

  Lemma minsert_sorted : forall k (v : V) m, msorted m -> msorted (minsert cmp k v m).
  Proof.
    intros k v. induction m as [|[k' v'] t IH]; intros H; cbn.
    - constructor; constructor.
    - pose proof (msorted_head _ _ H) as Hf. pose proof (msorted_tail _ _ H) as Ht.
      destruct (cmp k k') eqn:E.
      + apply (cmp_eq _ cmpok) in E. subst k'. constructor; [exact Ht|].
        eapply Forall_impl; [|exact Hf]. intros a Ha. exact Ha.
      + constructor; [exact H|]. constructor; [exact E|].
        eapply Forall_impl; [|exact Hf]. intros a Ha. unfold klt in *. cbn in *.
        eapply (cmp_trans _ cmpok); eassumption.
      + constructor; [apply IH; exact Ht|].
        rewrite Forall_forall. intros x Hx. apply in_minsert in Hx. destruct Hx as [Hx|Hx].
        * subst x. unfold klt. cbn. apply cmp_gt_lt. exact E.
        * rewrite Forall_forall in Hf. apply Hf. exact Hx.
  Qed.

  Lemma minsert_perm : forall k (v : V) m, ~ In k (map fst m) -> Permutation (minsert cmp k v m) ((k, v) :: m).
  Proof.
    intros k v. induction m as [|[k' v'] t IH]; intros Hn; cbn.
    - apply Permutation_refl.
    - destruct (cmp k k') eqn:E.
      + apply (cmp_eq _ cmpok) in E. subst k'. exfalso. apply Hn. left. reflexivity.
      + apply Permutation_refl.
      + eapply perm_trans; [apply perm_skip; apply IH | apply perm_swap].
        intros Hin. apply Hn. right. exact Hin.
  Qed.

  Definition ins (m : list (K * V)) (kv : K * V) : list (K * V) := minsert cmp (fst kv) (snd kv) m.

  Lemma fold_ins_sorted : forall l acc, msorted acc -> msorted (fold_left ins l acc).
  Proof.
    induction l as [|x l IH]; intros acc H; cbn; [exact H|].
    apply IH. apply minsert_sorted. exact H.
  Qed.

  Lemma fold_ins_perm : forall l acc, NoDup (map fst (acc ++ l)) -> Permutation (fold_left ins l acc) (acc ++ l).
  Proof.
    induction l as [|[k v] l IH]; intros acc Hnd; cbn.
    - rewrite app_nil_r. apply Permutation_refl.
    - assert (Hk : ~ In k (map fst acc)).
      { rewrite map_app in Hnd. cbn in Hnd. apply NoDup_remove_2 in Hnd.
        intros Hin. apply Hnd. apply in_or_app. left. exact Hin. }
      pose proof (minsert_perm k v acc Hk) as Hp.
      assert (Hp2 : Permutation (minsert cmp k v acc ++ l) (acc ++ (k, v) :: l)).
      { eapply perm_trans; [apply Permutation_app_tail; exact Hp|]. cbn. apply Permutation_middle. }
      eapply perm_trans; [apply IH | exact Hp2].
      eapply Permutation_NoDup; [|exact Hnd].
      apply Permutation_map. apply Permutation_sym. exact Hp2.
  Qed.

  Lemma map_of_list_sorted : forall l, msorted (map_of_list cmp l).
  Proof. intros l. apply fold_ins_sorted. constructor. Qed.

  Lemma sorted_perm_eq : forall a b, msorted a -> msorted b -> Permutation a b -> a = b.
  Proof.
    induction a as [|x a IH]; intros b Ha Hb Hp.
    - apply Permutation_nil in Hp. symmetry. exact Hp.
    - destruct b as [|y b]; [apply Permutation_sym, Permutation_nil in Hp; discriminate|].
      assert (Hxy : x = y).
      { assert (Hx : In x (y :: b)) by (eapply Permutation_in; [exact Hp | left; reflexivity]).
        assert (Hy : In y (x :: a)) by (eapply Permutation_in; [apply Permutation_sym; exact Hp | left; reflexivity]).
        destruct Hx as [Hx|Hx]; [symmetry; exact Hx|].
        destruct Hy as [Hy|Hy]; [exact Hy|].
        pose proof (msorted_head _ _ Ha) as Hfa. pose proof (msorted_head _ _ Hb) as Hfb.
        rewrite Forall_forall in Hfa, Hfb.
        specialize (Hfa y Hy). specialize (Hfb x Hx). unfold klt in *.
        rewrite (cmp_antisym _ cmpok), Hfa in Hfb. discriminate. }
      subst y. f_equal. apply IH.
      + eapply msorted_tail; exact Ha.
      + eapply msorted_tail; exact Hb.
      + eapply Permutation_cons_inv; exact Hp.
  Qed.

  (* re-inserting any permutation of a canonical map gives that map *)
  Lemma map_of_list_perm : forall l m, msorted m -> Permutation l m -> map_of_list cmp l = m.
  Proof.
    intros l m Hm Hp. apply sorted_perm_eq; [apply map_of_list_sorted | exact Hm |].
    eapply perm_trans; [|exact Hp].
    unfold map_of_list. change (fold_left _ l []) with (fold_left ins l []).
    apply (fold_ins_perm l []). cbn.
    eapply Permutation_NoDup; [apply Permutation_map; apply Permutation_sym; exact Hp|].
    apply msorted_NoDup. exact Hm.
  Qed.

  Lemma map_of_list_id : forall m, msorted m -> map_of_list cmp m = m.
  Proof. intros m H. apply map_of_list_perm; [exact H | apply Permutation_refl]. Qed.

  Lemma mfind_in : forall k m (v : V), mfind cmp k m = Some v -> In (k, v) m.
  Proof.
    intros k. induction m as [|[k' v'] t IH]; intros v H; cbn in H; [discriminate|].
    destruct (cmp k k') eqn:E.
    - apply (cmp_eq _ cmpok) in E. subst k'. injection H as ->. left. reflexivity.
    - right. apply IH. exact H.
    - right. apply IH. exact H.
  Qed.

  Lemma mfind_sorted_in : forall m k (v : V), msorted m -> In (k, v) m -> mfind cmp k m = Some v.
  Proof.
    induction m as [|[k' v'] t IH]; intros k v Hs Hin; [destruct Hin|].
    cbn. destruct Hin as [Hin|Hin].
    - injection Hin as -> ->. rewrite cmp_refl. reflexivity.
    - pose proof (msorted_head _ _ Hs) as Hf. rewrite Forall_forall in Hf.
      specialize (Hf _ Hin). unfold klt in Hf. cbn in Hf.
      rewrite (cmp_antisym _ cmpok), Hf. cbn. apply IH; [eapply msorted_tail; exact Hs | exact Hin].
  Qed.

  Lemma mfind_none_notin : forall (m : list (K * V)) k, mfind cmp k m = None -> ~ In k (map fst m).
  Proof.
    induction m as [|[k' v'] t IH]; intros k H Hin; [destruct Hin|].
    cbn in H. destruct (cmp k k') eqn:E; try discriminate.
    - destruct Hin as [Hin|Hin]; [cbn in Hin; subst k'; rewrite cmp_refl in E; discriminate|].
      eapply IH; eassumption.
    - destruct Hin as [Hin|Hin]; [cbn in Hin; subst k'; rewrite cmp_refl in E; discriminate|].
      eapply IH; eassumption.
  Qed.
End MapFacts.

(* a map whose keys are kept and whose values are transformed stays canonical *)
Lemma msorted_map_values {K V W : Type} (cmp : K -> K -> comparison) (f : K * V -> K * W) :
  (forall x, fst (f x) = fst x) -> forall m, msorted cmp m -> msorted cmp (map f m).
Proof.
  intros Hf. induction m as [|x m IH]; intros H; cbn; [constructor|].
  constructor.
  - apply IH. eapply msorted_tail; exact H.
  - pose proof (msorted_head _ _ _ H) as Hh. rewrite Forall_forall in *.
    intros y Hy. apply in_map_iff in Hy. destruct Hy as [z [<- Hz]].
    unfold klt. rewrite !Hf. apply Hh. exact Hz.
Qed.

Lemma NoDup_map_eq {A B : Type} (f : A -> B) : forall l x y,
  NoDup (map f l) -> In x l -> In y l -> f x = f y -> x = y.
Proof.
  induction l as [|a l IH]; intros x y Hnd Hx Hy Hf; [destruct Hx|].
  cbn in Hnd. inversion Hnd as [|? ? Hna Hnd']; subst.
  destruct Hx as [Hx|Hx]; destruct Hy as [Hy|Hy]; subst.
  - reflexivity.
  - exfalso. apply Hna. rewrite Hf. apply in_map. exact Hy.
  - exfalso. apply Hna. rewrite <- Hf. apply in_map. exact Hx.
  - apply IH; assumption.
Qed.

Lemma msorted_key_eq {K V : Type} (cmp : K -> K -> comparison) (ok : cmp_ok cmp) :
  forall (m : list (K * V)) x y, msorted cmp m -> In x m -> In y m -> fst x = fst y -> x = y.
Proof. intros m x y Hs. apply NoDup_map_eq. apply (msorted_NoDup cmp ok). exact Hs. Qed.

Lemma map_of_list_permutation {K V : Type} (cmp : K -> K -> comparison) (ok : cmp_ok cmp) :
  forall l : list (K * V), NoDup (map fst l) -> Permutation (map_of_list cmp l) l.
Proof.
  intros l H. unfold map_of_list. change (fold_left _ l []) with (fold_left (ins cmp) l []).
  apply (fold_ins_perm cmp ok l []). exact H.
Qed.

(* the shape of every map round trip of C17: keys and values are converted entry by entry (F), the
   entries are written into a map, read back, converted back (G) and written into a map again *)
Lemma map_of_list_roundtrip {K V K' V' : Type} (cmp : K -> K -> comparison) (cmp' : K' -> K' -> comparison)
  (ok : cmp_ok cmp) (ok' : cmp_ok cmp') (F : K * V -> K' * V') (G : K' * V' -> K * V) :
  forall m : list (K * V),
  msorted cmp m ->
  (forall x, In x m -> G (F x) = x) ->
  (forall x y, In x m -> In y m -> fst (F x) = fst (F y) -> x = y) ->
  map_of_list cmp (map G (map_of_list cmp' (map F m))) = m.
Proof.
  intros m Hs HGF Hinj. apply (map_of_list_perm cmp ok); [exact Hs|].
  assert (Hnd : NoDup (map fst (map F m))).
  { rewrite map_map. apply NoDup_map_inj_in; [exact Hinj|].
    eapply NoDup_map_inv. apply (msorted_NoDup cmp ok). exact Hs. }
  pose proof (map_of_list_permutation cmp' ok' (map F m) Hnd) as Hp.
  eapply perm_trans; [apply Permutation_map; exact Hp|].
  rewrite map_map. rewrite (map_ext_in _ (fun x => x)); [rewrite map_id; apply Permutation_refl|].
  exact HGF.
Qed.
