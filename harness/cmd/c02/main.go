// Harness for C02: drives the real run planner (internal/core/forks.go prepareRunPlan, distance 0) on
// fabricated commit graphs and records the plans.  Every graph is planned twice (Go's map iteration
// order varies between runs; the second planning also receives the commits in reversed slice order).
package main

import (
	"flag"
	"fmt"
	"sync"

	"gopkg.in/src-d/hercules.v10/verifapi"
	. "verifharness/lib"
	pl "verifharness/planlib"
)

func plansOf(g pl.Graph) Sx {
	return pl.Guard("plans", func() Sx {
		cs, id := g.Commits(false)
		p1 := verifapi.PrepareRunPlan(cs, 0)
		cs2, _ := g.Commits(true)
		p2 := verifapi.PrepareRunPlan(cs2, 0)
		return T("plans", pl.PlanSx("plan", p1, id), pl.PlanSx("plan", p2, id))
	})
}

func caseFields(kind string, g pl.Graph, obs ...Sx) []Sx {
	fs := []Sx{T("kind", A(kind)), T("nt", B(g.NonTrivial()))}
	fs = append(fs, g.Fields()...)
	fs = append(fs, T("obs", obs...))
	return fs
}

// sweep plans every DAG on n commits selected by keep under every hash order selected by takeOrder.
// With dedup, one case is written per (graph, distinct plan) with the number of plannings that produced
// it (the ranks are those of the first hash order that did).
func sweep(c *Config, kind string, n int, keep func(parents [][]int) bool, takeOrder func(k int) bool, dedup bool, workers int) {
	perms := pl.Perms(n)
	total := pl.NumMasks(n)
	const batch = 512
	for start := 0; start < total; start += batch {
		end := start + batch
		if end > total {
			end = total
		}
		out := make([][][]Sx, end-start)
		var wg sync.WaitGroup
		next := make(chan int, batch)
		for w := 0; w < workers; w++ {
			wg.Add(1)
			go func() {
				defer wg.Done()
				for m := range next {
					parents := pl.DagFromMask(n, m)
					if !keep(parents) {
						continue
					}
					var lines [][]Sx
					seen := map[string]int{}
					var mult []int
					for k, ranks := range perms {
						if !takeOrder(k) {
							continue
						}
						g := pl.FromParents(parents, ranks)
						obs := plansOf(g)
						if !dedup {
							lines = append(lines, caseFields(kind, g, obs))
							continue
						}
						// one case per distinct plan of this graph (either planning), with its multiplicity
						for _, one := range obs.Args() {
							key := one.String()
							if at, ok := seen[key]; ok {
								mult[at]++
								continue
							}
							seen[key] = len(lines)
							mult = append(mult, 1)
							lines = append(lines, caseFields(kind, g, T("plans", one)))
						}
					}
					if dedup {
						for i := range lines {
							last := len(lines[i]) - 1
							lines[i][last] = T("obs", T("mult", I(mult[i])), lines[i][last].Args()[0])
						}
					}
					out[m-start] = lines
				}
			}()
		}
		for m := start; m < end; m++ {
			next <- m
		}
		close(next)
		wg.Wait()
		for _, lines := range out {
			for _, l := range lines {
				c.Emit(l...)
			}
		}
	}
}

func main() {
	full := flag.Bool("full", false, "thorough tier: all 720 hash orders of every 6-commit DAG (19.2 M plans) instead of every sixth")
	c := Setup()
	defer c.Close()
	if c.Replay != "" {
		for _, cs := range c.ReplayCases() {
			g := pl.ParseGraph(cs)
			c.Emit(caseFields("replay", g, plansOf(g))...)
		}
		return
	}
	workers := 6
	if c.Thorough() {
		workers = 10
	}
	all := func(int) bool { return true }
	conn := func(p [][]int) bool { return pl.Connected(p) }
	disc := func(p [][]int) bool { return !pl.Connected(p) }
	// exhaustive: every DAG on <= 5 commits (connected and not) x every hash order
	for n := 1; n <= 5; n++ {
		sweep(c, fmt.Sprintf("ex%d", n), n, conn, all, false, workers)
	}
	for n := 2; n <= 5; n++ {
		sweep(c, fmt.Sprintf("exdisc%d", n), n, disc, all, false, workers)
	}
	if c.Tier == "thorough" { // not in the search tier: the sweep does not scale down
		off := int(c.Seed % 6)
		if off < 0 {
			off = 0
		}
		take := func(k int) bool { return k%6 == off }
		if *full {
			take = all
		}
		sweep(c, "ex6", 6, conn, take, true, workers)
	}
	// samples of 6- and 7-commit DAGs with random hash orders
	for i := c.Count(4000, 40000); i > 0; i-- {
		n := 6 + c.Rng.Intn(2)
		parents := pl.DagFromMask(n, c.Rng.Intn(pl.NumMasks(n)))
		g := pl.FromParents(parents, c.Rng.Perm(n))
		c.Emit(caseFields(fmt.Sprintf("smp%d", n), g, plansOf(g))...)
	}
	// random histories up to 14 commits
	for i := c.Count(20000, 300000); i > 0; i-- {
		g := pl.RandomGraph(c.Rng, 14)
		c.Emit(caseFields("rnd", g, plansOf(g))...)
	}
	for i := c.Count(400, 8000); i > 0; i-- {
		g := pl.RandomGraph(c.Rng, 40)
		c.Emit(caseFields("rndbig", g, plansOf(g))...)
	}
}
