(* C01_global_sparse for arbitrary validated plans (the DAG case): the invariant of PlanProofs.v extended by the
   state "a merge commit m is being replayed on the branches bs" and the two steps that PlanProofs.v excludes:
   a commit in merge mode and the merge action. *)
From Coq Require Import List ZArith Lia Bool Permutation.
From Herc Require Import Burndown.Base Burndown.Dense Burndown.DenseProofs Burndown.Lifetimes Burndown.LifetimesFacts
  Burndown.AncFacts Burndown.Analysis Burndown.SparseFacts Burndown.AnalysisFacts Burndown.Replay
  Burndown.HunkProofs Burndown.LinearProofs Burndown.StepProofs Burndown.CommitProofs Burndown.MergeProofs
  Burndown.PlanProofs.
Import ListNotations.
Open Scope Z_scope.

(* ---------- helpers on association lists and vectors ---------- *)
Lemma get_all_Forall2 bs : forall (m : list (Z * lbranch)) xs, get_all bs m = Some xs ->
  Forall2 (fun b x => aget m b = Some x) bs xs.
Proof.
  induction bs as [|b bs IH]; intros m xs E; cbn [get_all] in E.
  - injection E as <-. constructor.
  - destruct (aget m b) as [x|] eqn:Ex; [|discriminate]. destruct (get_all bs m) as [xs'|] eqn:Er; [|discriminate].
    injection E as <-. constructor; auto.
Qed.

Lemma aget_set_all : forall bs (xs : list lbranch) m0 k, NoDup bs -> length bs = length xs ->
  aget (set_all bs xs m0) k = match aget (combine bs xs) k with Some x => Some x | None => aget m0 k end.
Proof.
  induction bs as [|b bs IH]; intros xs m0 k Hnd HL; destruct xs as [|x xs]; cbn [length] in HL; try lia; cbn [set_all combine aget].
  - reflexivity.
  - inversion Hnd as [|? ? Hn Hnd']; subst. rewrite IH by (auto; lia).
    destruct (Z.eqb_spec b k) as [->|Hne].
    + assert (aget (combine bs xs) k = None).
      { destruct (aget (combine bs xs) k) eqn:E; auto. apply aget_in in E. apply in_combine_l in E. tauto. }
      rewrite H, aget_aset, Z.eqb_refl. reflexivity.
    + destruct (aget (combine bs xs) k); auto. rewrite aget_aset. destruct (Z.eqb_spec b k); [congruence|reflexivity].
Qed.

Lemma nodup_set_all : forall bs (xs : list lbranch) m0, NoDup (map fst m0) -> NoDup (map fst (set_all bs xs m0)).
Proof.
  induction bs as [|b bs IH]; intros xs m0 Hm; destruct xs; cbn [set_all]; auto. apply IH. apply nodup_aset. exact Hm.
Qed.

Lemma aget_combine_Forall2 {X} (R : Z -> X -> Prop) bs xs k x : Forall2 R bs xs -> aget (combine bs xs) k = Some x -> In k bs /\ R k x.
Proof.
  induction 1 as [|b y bs' xs' Hr HF IH]; cbn [combine aget]; [discriminate|].
  destruct (Z.eqb_spec b k) as [->|Hne].
  - intros E. injection E as <-. split; [left; auto|auto].
  - intros E. destruct (IH E). split; [right; auto|auto].
Qed.

Lemma aget_combine_in {X} bs (xs : list X) k : length bs = length xs -> In k bs -> exists x, aget (combine bs xs) k = Some x.
Proof.
  revert xs. induction bs as [|b bs IH]; intros [|x xs] HL Hin; cbn in HL; try lia; [destruct Hin|].
  cbn [combine aget]. destruct (Z.eqb_spec b k); [eauto|]. destruct Hin; [congruence|]. apply IH; auto.
Qed.

Lemma vec_leb_get a b i : vec_leb a b = true -> vget a i = true -> vget b i = true.
Proof.
  revert b i. induction a as [|x a IH]; intros [|y b] i E Hv; cbn in E; try discriminate.
  - rewrite vget_nil in Hv. discriminate.
  - apply andb_prop in E. destruct E as [E1 E2]. rewrite vget_cons in *.
    destruct (i =? 0); [destruct x; [exact E1|discriminate]|]. destruct (i <? 0); [discriminate|]. eapply IH; eauto.
Qed.

Lemma vget_fold_orvec (n : nat) sets : forall z a, (forall v, In v sets -> length v = n) -> length z = n ->
  vget (fold_left orvec sets z) a = vget z a || existsb (fun v => vget v a) sets.
Proof.
  induction sets as [|v sets IH]; intros z a Hs Hz; cbn [fold_left existsb]; [rewrite orb_false_r; reflexivity|].
  rewrite IH; [|intros; apply Hs; right; auto|rewrite orvec_length; auto].
  rewrite vget_orvec by (rewrite Hz; symmetry; apply Hs; left; auto). rewrite orb_assoc. reflexivity.
Qed.

Lemma NoDup_app_iff' {X} (l1 l2 : list X) : NoDup l1 /\ NoDup l2 /\ (forall x, In x l1 -> ~ In x l2) -> NoDup (l1 ++ l2).
Proof.
  intros (H1 & H2 & H3). induction l1 as [|x l1 IH]; [exact H2|]. cbn [app]. inversion H1; subst. constructor.
  - intros Hin. apply in_app_or in Hin. destruct Hin; [tauto|]. apply (H3 x); [left; auto|auto].
  - apply IH; auto. intros y Hy. apply H3. right; auto.
Qed.

Lemma Forall2_join {X Y Z'} (Q : X -> Y -> Prop) (R : X -> Z' -> Prop) xs ys zs :
  Forall2 Q xs ys -> Forall2 R xs zs -> Forall2 (fun y z => exists x, In x xs /\ Q x y /\ R x z) ys zs.
Proof.
  intros HQ. revert zs. induction HQ as [|x y xs ys Hq HQ IH]; intros zs HR; inversion HR; subst; constructor.
  - exists x. split; [left; auto|auto].
  - specialize (IH _ H3). clear - IH. induction IH as [|? ? ? ? (x0 & ? & ? & ?)]; constructor; auto.
    exists x0. split; [right; auto|auto].
Qed.

Lemma Forall2_length' {X Y} (R : X -> Y -> Prop) xs ys : Forall2 R xs ys -> length xs = length ys.
Proof. induction 1; cbn; auto. Qed.

Lemma Forall2_three {X Y Z'} (R : X -> Y -> Z' -> Prop) xs ys zs :
  length xs = length ys -> length ys = length zs ->
  (forall i x y z, nth_error xs i = Some x -> nth_error ys i = Some y -> nth_error zs i = Some z -> R x y z) ->
  Forall2 (fun x yz => R x (fst yz) (snd yz)) xs (combine ys zs).
Proof.
  revert ys zs. induction xs as [|x xs IH]; intros [|y ys] [|z zs] H1 H2 H; cbn in H1, H2; try lia; cbn [combine]; constructor.
  - apply (H 0%nat); reflexivity.
  - apply IH; try lia. intros i x' y' z' E1 E2 E3. apply (H (S i)); auto.
Qed.

Lemma Forall2_nth {X Y} (R : X -> Y -> Prop) xs ys i x y : Forall2 R xs ys -> nth_error xs i = Some x -> nth_error ys i = Some y -> R x y.
Proof.
  intros HF. revert i. induction HF as [|x0 y0 xs ys Hr HF IH]; intros [|i] E1 E2; cbn in E1, E2; try discriminate.
  - injection E1 as <-. injection E2 as <-. exact Hr.
  - eapply IH; eauto.
Qed.

Lemma Forall2_of_nth {X Y} (R : X -> Y -> Prop) : forall xs ys, length xs = length ys ->
  (forall i x y, nth_error xs i = Some x -> nth_error ys i = Some y -> R x y) -> Forall2 R xs ys.
Proof.
  induction xs as [|x xs IH]; intros [|y ys] HL H; cbn in HL; try lia; constructor.
  - apply (H 0%nat); reflexivity.
  - apply IH; [lia|]. intros i x' y' E1 E2. apply (H (S i)); auto.
Qed.

Lemma nth_error_combine {X Y} : forall (xs : list X) (ys : list Y) i p, nth_error (combine xs ys) i = Some p ->
  nth_error xs i = Some (fst p) /\ nth_error ys i = Some (snd p).
Proof.
  induction xs as [|x xs IH]; intros [|y ys] [|i] p E; cbn in E; try discriminate.
  - injection E as <-. split; reflexivity.
  - apply IH in E. exact E.
Qed.

Lemma Forall2_exists {X Y} (Q : X -> Y -> Prop) xs : (forall x, In x xs -> exists y, Q x y) -> exists ys, Forall2 Q xs ys.
Proof.
  induction xs as [|x xs IH]; intros H; [exists []; constructor|].
  destruct (H x (or_introl eq_refl)) as [y Hy]. destruct IH as [ys Hys]; [intros; apply H; right; auto|].
  exists (y :: ys). constructor; auto.
Qed.

Section Dag.
  Variable h : hist.
  Variable cf : cfg.
  Variable aidx : list Z.
  Hypothesis Hcf : conflict_free h = true.
  Hypothesis Hmark : forall c, 0 <= c < ncommits h -> tick_of h c < mark.
  Hypothesis Haidx : forall c, 0 <= znth 0 aidx c.
  Notation A := (ancs h).
  Notation n := (length (h_parents h)).
  Notation pair_ok := (pair_ok h cf aidx).
  Notation vecof := (vecof h).

  (* the branch has replayed the merge commit m in merge mode; before it was at l *)
  Definition pend_entry (m : Z) (pb : pbranch) (lb : lbranch) : Prop :=
    exists l, pb_last pb = Some m /\ lb_last lb = Some m /\ pb_set pb = vec_set (znth [] A l) m /\
      0 <= l < ncommits h /\ ancb A l m = false /\ (forall a, ancb A l a = true -> ancb A m a = true) /\
      replayed h cf aidx m l (lb_state lb).

  Definition entry_ok (ps : pstate) (b : Z) (pb : pbranch) (lb : lbranch) : Prop :=
    match ps_pend ps with
    | Some (m, bs) => if memz b bs then pend_entry m pb lb else pair_ok pb lb
    | None => pair_ok pb lb
    end.

  Definition pend_ok (ps : pstate) : Prop :=
    match ps_pend ps with
    | Some (m, bs) => 0 <= m < ncommits h /\ memz m (ps_done ps) = false /\ 2 <= Z.of_nat (length (parents_of h m)) /\
                      NoDup bs /\ bs <> [] /\ forall b, In b bs -> aget (ps_live ps) b <> None
    | None => True
    end.

  Definition W (ps : pstate) (w : world) : Prop :=
    NoDup (map fst (ps_live ps)) /\ NoDup (map fst (w_branches w)) /\
    (forall b, match aget (ps_live ps) b, aget (w_branches w) b with
               | Some pb, Some lb => entry_ok ps b pb lb
               | None, None => True
               | _, _ => False
               end) /\
    (forall b pb, aget (ps_live ps) b = Some pb -> memz b (ps_seen ps) = true) /\
    pend_ok ps /\
    (forall c, In c (ps_done ps) -> 0 <= c < ncommits h) /\
    (forall P, wsum P (s_gh (w_shared w)) = sum_z (map (contrib h P) (ps_done ps))) /\
    gh_ok mark (s_gh (w_shared w)) /\
    (forall x, In x (keys (s_gh (w_shared w))) <-> exists c, In c (ps_done ps) /\ event h c = true /\ tick_of h c = x).

  Lemma vecof_len last : match last with Some l => 0 <= l < ncommits h | None => True end -> length (vecof last) = n.
  Proof. apply (PlanProofs.vecof_len h Hcf). Qed.

  Lemma no_killer_of_merge m : 0 <= m -> 2 <= Z.of_nat (length (parents_of h m)) ->
    forall pl, In pl (all_lines h) -> l_killer (snd pl) <> m.
  Proof.
    intros H0 H2 pl Hin Ek. pose proof (line_ok h Hcf pl Hin) as Hl. unfold line_okb in Hl.
    apply andb_prop in Hl. destruct Hl as [_ Hl]. apply orb_prop in Hl. destruct Hl as [Hl|Hl].
    - apply Z.eqb_eq in Hl. lia.
    - apply andb_prop in Hl. destruct Hl as [Hl _]. apply andb_prop in Hl. destruct Hl as [_ Hp]. rewrite Ek in Hp. lia.
  Qed.

  Lemma H1_of_set (pb : pbranch) c : 0 <= c < ncommits h ->
    pb_set pb = vecof (pb_last pb) -> match pb_last pb with Some l => 0 <= l < ncommits h | None => True end ->
    forall a, vget (vec_set (pb_set pb) c) a = (a =? c) || anc_last h (pb_last pb) a.
  Proof.
    intros Hc P3 P4 a. assert (Hlen : length (pb_set pb) = n) by (rewrite P3; apply vecof_len; exact P4).
    unfold vec_set. destruct (Z.ltb_spec c 0); [lia|]. rewrite vget_setbit, Hlen, P3, (PlanProofs.vecof_get h).
    rewrite Z2Nat.id by lia. unfold ncommits in Hc. destruct (Z.ltb_spec c (Z.of_nat n)); [|lia]. rewrite andb_true_r. reflexivity.
  Qed.

  Lemma step_W before after a ps w ps' w' :
    W ps w -> pstep h A n before after a ps = Some ps' ->
    step cf (fun c => znth 0 aidx c) (tick_of h) (changes_of h A) before after a w = Ok w' ->
    W ps' w'.
  Proof.
    intros (W1 & W2 & W3 & W4 & W5 & W6 & W7 & W8 & W9) Ep Es.
    destruct a as [b|c b|b bs|bs|b|bs|bs]; cbn [pstep step] in Ep, Es.
    - (* emerge *)
      destruct (ps_pend ps) as [[m0 bs0]|] eqn:Epend; [discriminate|].
      destruct (memz b (ps_seen ps)) eqn:Eseen; [discriminate|].
      injection Ep as <-. injection Es as <-. unfold W, entry_ok, pend_ok in *; cbn [ps_live ps_seen ps_pend ps_done w_branches w_shared].
      rewrite Epend in *.
      split; [apply nodup_aset; auto|]. split; [apply nodup_aset; auto|]. split.
      { intros b'. rewrite !aget_aset. destruct (Z.eqb_spec b b') as [->|Hne]; [|apply W3].
        split; [reflexivity|]. split; [|split; [reflexivity|exact I]].
        intros pl Hin. unfold pgood. cbn. reflexivity. }
      split.
      { intros b' pb. rewrite aget_aset. unfold memz. cbn [existsb]. destruct (Z.eqb_spec b b') as [->|Hne].
        - rewrite Z.eqb_refl. reflexivity.
        - intros E. apply W4 in E. unfold memz in E. rewrite E. apply orb_true_r. }
      split; auto.
    - (* commit *)
      pose proof (W3 b) as Hb. destruct (aget (ps_live ps) b) as [pb|] eqn:Epb; [|discriminate].
      destruct (aget (w_branches w) b) as [lb|] eqn:Elb; [|destruct Hb].
      destruct (negb (in_range (Z.of_nat n) c) || vec_get (pb_set pb) c || memz c (ps_done ps)) eqn:Eg; [discriminate|].
      apply orb_false_iff in Eg. destruct Eg as [Eg Eg3]. apply orb_false_iff in Eg. destruct Eg as [Eg1 Eg2].
      apply negb_false_iff in Eg1. unfold in_range in Eg1.
      assert (Hc : 0 <= c < ncommits h) by (unfold ncommits; lia).
      destruct (is_merge_at before after c) eqn:Eim.
      + (* merge mode: the branch is in its normal state and becomes a member of the pending group *)
        set (okp := match pb_last pb with Some l => memz l (parents_of h c) | None => false end) in *.
        destruct (negb (okp && vec_leb (pb_set pb) (znth [] A c) && (2 <=? Z.of_nat (length (parents_of h c))))) eqn:Eok; [discriminate|].
        apply negb_false_iff in Eok. apply andb_prop in Eok. destruct Eok as [Eok Ep2]. apply andb_prop in Eok. destruct Eok as [Eokp Eleb].
        assert (Hgroup : exists bs0, (ps_pend ps = None /\ bs0 = []) \/ (ps_pend ps = Some (c, bs0)) ) .
        { destruct (ps_pend ps) as [[m0 bs0]|]; [|exists []; left; auto].
          destruct ((m0 =? c) && negb (memz b bs0)) eqn:Em; [|discriminate]. apply andb_prop in Em. destruct Em as [Em _].
          apply Z.eqb_eq in Em. subst. exists bs0. right; auto. }
        destruct Hgroup as [bs0 Hgroup].
        assert (Hnb : memz b bs0 = false /\ ps' = mkPS (aset (ps_live ps) b (mkPB (vec_set (pb_set pb) c) (Some c))) (ps_seen ps) (ps_done ps) (Some (c, bs0 ++ [b]))).
        { destruct Hgroup as [[Epd ->]|Epd]; rewrite Epd in Ep.
          - injection Ep as <-. split; reflexivity.
          - rewrite Z.eqb_refl in Ep. cbn [andb] in Ep. destruct (memz b bs0); [discriminate|]. injection Ep as <-. split; reflexivity. }
        destruct Hnb as [Hnb ->]. clear Ep.
        assert (Hpair : pair_ok pb lb).
        { unfold entry_ok in Hb. destruct Hgroup as [[Epd _]|Epd]; rewrite Epd in Hb; [exact Hb|]. rewrite Hnb in Hb. exact Hb. }
        destruct Hpair as (P1 & P2 & P3 & P4).
        destruct (pb_last pb) as [l|] eqn:Elast; [|discriminate]. unfold okp in Eokp.
        assert (Hsub : forall a, ancb A l a = true -> ancb A c a = true).
        { intros a Ha. unfold ancb in *. apply (vec_leb_get _ _ a Eleb). rewrite P3. exact Ha. }
        destruct (consume cf (znth 0 aidx c) (tick_of h c) true _ (lb_state lb) (w_shared w)) as [[b1 s1]| |] eqn:Ec; try discriminate.
        injection Es as <-. rewrite P1 in Ec.
        destruct (consume_merge_good h cf aidx Hcf Haidx c l (lb_state lb) (w_shared w) b1 s1 P4 Hsub P2 Ec) as (G1 & G2 & G3 & G4 & G5 & G6 & G7).
        assert (Hpe : pend_entry c (mkPB (vec_set (pb_set pb) c) (Some c)) (mkLB b1 (Some c))).
        { exists l. cbn [pb_last lb_last pb_set lb_state]. split; auto. split; auto. split; [rewrite P3; reflexivity|].
          split; auto. split.
          { unfold vec_get in Eg2. rewrite P3 in Eg2. exact Eg2. }
          split; auto. split; auto. }
        assert (Hmem : forall b', memz b' (bs0 ++ [b]) = memz b' bs0 || (b' =? b)).
        { intros b'. unfold memz. rewrite existsb_app. cbn [existsb]. rewrite orb_false_r. reflexivity. }
        unfold W, entry_ok, pend_ok in *; cbn [ps_live ps_seen ps_pend ps_done w_branches w_shared].
        split; [apply nodup_aset; auto|]. split; [apply nodup_aset; auto|]. split.
        { intros b'. rewrite !aget_aset, Hmem. destruct (Z.eqb_spec b b') as [->|Hne].
          - rewrite Z.eqb_refl, orb_true_r. exact Hpe.
          - destruct (Z.eqb_spec b' b); [congruence|]. rewrite orb_false_r. specialize (W3 b').
            destruct (aget (ps_live ps) b') as [pb'|], (aget (w_branches w) b') as [lb'|]; auto.
            destruct Hgroup as [[Epd ->]|Epd]; rewrite Epd in W3; [cbn [memz existsb]; exact W3|exact W3]. }
        split.
        { intros b' pb'. rewrite aget_aset. destruct (Z.eqb_spec b b') as [->|Hne]; [|apply W4].
          intros _. eapply W4; eauto. }
        split.
        { split; [exact Hc|]. split; [exact Eg3|]. split; [lia|]. split.
          { apply NoDup_app_iff'. destruct Hgroup as [[Epd ->]|Epd].
            - split; [constructor|]. split; [constructor; [intros []|constructor]|intros x []].
            - rewrite Epd in W5. destruct W5 as (_ & _ & _ & Hnd0 & _). split; [exact Hnd0|].
              split; [constructor; [intros []|constructor]|]. intros x Hx [<-|[]]. apply memz_true in Hx. congruence. }
          split; [destruct bs0; discriminate|].
          intros b' Hin. rewrite aget_aset. destruct (Z.eqb_spec b b'); [discriminate|].
          apply in_app_or in Hin. destruct Hin as [Hin|[<-|[]]]; [|congruence].
          destruct Hgroup as [[Epd ->]|Epd]; [destruct Hin|]. rewrite Epd in W5. destruct W5 as (_ & _ & _ & _ & _ & Hl0). apply Hl0. exact Hin. }
        split; auto. split; [|split; [apply G3; auto|rewrite G7; exact W9]].
        intros P. rewrite G2. apply W7.
      + (* normal mode *)
        destruct (ps_pend ps) as [[m0 bs0]|] eqn:Epend; [discriminate|].
        unfold entry_ok in Hb. rewrite Epend in Hb. destruct Hb as (P1 & P2 & P3 & P4).
        destruct (vec_eqb (vec_set (pb_set pb) c) (znth [] A c)) eqn:Ev; [|discriminate].
        injection Ep as <-. apply vec_eqb_eq in Ev.
        destruct (consume cf (znth 0 aidx c) (tick_of h c) _ _ (lb_state lb) (w_shared w)) as [[b1 s1]| |] eqn:Ec; try discriminate.
        injection Es as <-. rewrite P1 in Ec.
        assert (H1 : forall a, ancb A c a = (a =? c) || anc_last h (pb_last pb) a).
        { intros a. unfold ancb. rewrite <- Ev. apply (H1_of_set pb c Hc P3 P4). }
        assert (H2 : anc_last h (pb_last pb) c = false).
        { unfold vec_get in Eg2. fold (vget (pb_set pb) c) in Eg2. rewrite P3, (PlanProofs.vecof_get h) in Eg2. exact Eg2. }
        destruct (consume_good h cf aidx Hcf Hmark Haidx (pb_last pb) c Hc P4 H1 H2 (lb_state lb) (w_shared w) b1 s1 P2 Ec) as (G1 & G2 & G3 & G4).
        unfold W, entry_ok, pend_ok in *; cbn [ps_live ps_seen ps_pend ps_done w_branches w_shared]. rewrite Epend in *.
        split; [apply nodup_aset; auto|]. split; [apply nodup_aset; auto|]. split.
        { intros b'. rewrite !aget_aset. destruct (Z.eqb_spec b b') as [->|Hne]; [|apply W3].
          split; [reflexivity|]. split; [exact G1|]. split; [exact Ev|exact Hc]. }
        split.
        { intros b' pb'. rewrite aget_aset. destruct (Z.eqb_spec b b') as [->|Hne]; [|apply W4].
          intros _. eapply W4; eauto. }
        split; auto. split.
        { intros x [<-|Hx]; auto. }
        split; [|split; [apply G3; auto; pose proof (Hmark c Hc); lia|]].
        { intros P. rewrite G2, W7. cbn [map]. rewrite sum_z_cons. lia. }
        intros x. rewrite (G4 x), (W9 x). cbn [In]. split.
        { intros [(c0 & H1' & H2' & H3')|[H1' H2']]; [exists c0; auto|exists c; auto]. }
        { intros (c0 & [<-|H1'] & H2' & H3'); [right; auto|left; exists c0; auto]. }
    - (* fork *)
      destruct (ps_pend ps) as [[m0 bs0]|] eqn:Epend; [discriminate|].
      pose proof (W3 b) as Hb. destruct (aget (ps_live ps) b) as [pb|] eqn:Epb; [|discriminate].
      destruct (aget (w_branches w) b) as [lb|] eqn:Elb; [|destruct Hb].
      destruct (forallb (fun b' => negb (memz b' (ps_seen ps))) bs && nodup_zb bs) eqn:Ef; [|discriminate].
      injection Ep as <-. injection Es as <-. unfold W, entry_ok, pend_ok in *; cbn [ps_live ps_seen ps_pend ps_done w_branches w_shared].
      rewrite Epend in *.
      split; [apply nodup_fold_aset; auto|]. split; [apply nodup_fold_aset; auto|]. split.
      { intros b'. rewrite !aget_fold_aset. destruct (memz b' bs); [exact Hb|apply W3]. }
      split.
      { intros b' pb'. rewrite aget_fold_aset. destruct (memz b' bs) eqn:Em.
        - intros _. apply memz_true. apply in_or_app. left. apply memz_true. exact Em.
        - intros E. apply W4 in E. apply memz_true. apply in_or_app. right. apply memz_true. exact E. }
      split; auto.
    - (* merge *)
      destruct (ps_pend ps) as [[m rs]|] eqn:Epend; [|discriminate].
      destruct (negb (nodup_zb bs && subset_z bs rs && subset_z rs bs && (2 <=? Z.of_nat (length bs)))) eqn:Econd; [discriminate|].
      apply negb_false_iff in Econd. apply andb_prop in Econd. destruct Econd as [Econd Hlen2].
      apply andb_prop in Econd. destruct Econd as [Econd Hs2]. apply andb_prop in Econd. destruct Econd as [Hnd Hs1].
      set (sets := map (fun b => match aget (ps_live ps) b with Some pb => pb_set pb | None => [] end) bs) in *.
      set (u := fold_left orvec sets (repeat false n)) in *.
      destruct (vec_eqb u (znth [] A m)) eqn:Eu; [|discriminate]. injection Ep as <-. apply vec_eqb_eq in Eu.
      destruct (get_all bs (w_branches w)) as [lbs|] eqn:Eget; [|discriminate].
      destruct (analysis_merge cf (map lb_state lbs) (w_shared w)) as [[sts s1]| |] eqn:Eam; try discriminate.
      injection Es as <-.
      unfold pend_ok in W5. rewrite Epend in W5. destruct W5 as (Hm & Hmd & Hp2 & Hndrs & Hrsne & Hlive).
      pose proof (nodup_zb_NoDup _ Hnd) as HNDbs.
      unfold subset_z in Hs1, Hs2. rewrite forallb_forall in Hs1, Hs2.
      (* every branch of the group has replayed m *)
      pose (Q := fun (b l : Z) => exists pb lb, aget (ps_live ps) b = Some pb /\ aget (w_branches w) b = Some lb /\
                   pb_set pb = vec_set (znth [] A l) m /\ 0 <= l < ncommits h /\ ancb A l m = false /\
                   (forall a, ancb A l a = true -> ancb A m a = true) /\ replayed h cf aidx m l (lb_state lb) /\
                   lb_last lb = Some m).
      assert (HQ : forall b, In b bs -> exists l, Q b l).
      { intros b Hb. pose proof (Hs1 b Hb) as Hbr. pose proof (W3 b) as H3.
        pose proof (Hlive b (proj1 (memz_true _ _) Hbr)) as Hl.
        destruct (aget (ps_live ps) b) as [pb|] eqn:Epb; [|congruence].
        destruct (aget (w_branches w) b) as [lb|] eqn:Elb; [|destruct H3].
        unfold entry_ok in H3. rewrite Epend, Hbr in H3. destruct H3 as (l & E1 & E2 & E3 & E4 & E5 & E6 & E7).
        exists l, pb, lb. split; [exact Epb|]. split; [exact Elb|]. split; [exact E3|]. split; [exact E4|].
        split; [exact E5|]. split; [exact E6|]. split; [exact E7|exact E2]. }
      destruct (Forall2_exists Q bs HQ) as [ls HFQ].
      pose proof (get_all_Forall2 bs _ _ Eget) as HFget.
      pose proof (Forall2_join _ _ _ _ _ HFQ HFget) as HFj.
      assert (HFrep : Forall2 (replayed h cf aidx m) ls (map lb_state lbs)).
      { clear - HFj. induction HFj as [|l lb ? ? (b & _ & (pb & lb' & _ & E2 & _ & _ & _ & _ & Hr & _) & E) HF IH]; cbn [map]; constructor; auto.
        rewrite E in E2. injection E2 as <-. exact Hr. }
      assert (HL1 : length bs = length ls) by (apply (Forall2_length' _ _ _ HFQ)).
      assert (HL2 : length bs = length lbs) by (apply (Forall2_length' _ _ _ HFget)).
      assert (Hlsne : ls <> []) by (destruct ls; [cbn in HL1; lia|discriminate]).
      assert (HlsQ : forall l, In l ls -> exists b, In b bs /\ Q b l).
      { intros l Hl. clear - HFQ Hl. induction HFQ as [|b l0 ? ? Hq HF IH]; [destruct Hl|].
        destruct Hl as [<-|Hl]; [exists b; split; [left; auto|auto]|]. destruct (IH Hl) as (b' & ? & ?). exists b'. split; [right; auto|auto]. }
      assert (HU : forall a, ancb A m a = (a =? m) || existsb (fun l => ancb A l a) ls).
      { intros a. unfold ancb at 1. rewrite <- Eu. unfold u. fold (vget (fold_left orvec sets (repeat false n)) a).
        rewrite (vget_fold_orvec n).
        - rewrite vget_repeat_false. cbn [orb].
          assert (Es : existsb (fun v => vget v a) sets = existsb (fun l => (a =? m) || ancb A l a) ls).
          { unfold sets. clear - HFQ Hm Hcf. induction HFQ as [|b l ? ? (pb & lb & E1 & _ & E3 & E4 & _) HF IH]; [reflexivity|].
            cbn [map existsb]. rewrite IH, E1, E3. f_equal.
            exact (H1_of_set (mkPB (znth [] A l) (Some l)) m Hm eq_refl E4 a). }
          rewrite Es. clear - Hlsne. destruct ls as [|l0 ls0]; [congruence|]. cbn [existsb].
          destruct (a =? m); cbn [orb]; reflexivity.
        - intros v Hv. unfold sets in Hv. apply in_map_iff in Hv. destruct Hv as (b & <- & Hb).
          destruct (HQ b Hb) as (l & pb & lb & E1 & _ & E3 & E4 & _). rewrite E1, E3. unfold vec_set.
          destruct (m <? 0); [|rewrite setbit_length]; apply (row_len h (commits_ok h Hcf) l E4).
        - apply repeat_length. }
      assert (Hnew : forall l, In l ls -> ancb A l m = false).
      { intros l Hl. destruct (HlsQ l Hl) as (b & _ & (pb & lb & _ & _ & _ & _ & E5 & _)). exact E5. }
      assert (Hrange : forall l, In l ls -> 0 <= l < ncommits h).
      { intros l Hl. destruct (HlsQ l Hl) as (b & _ & (pb & lb & _ & _ & _ & E4 & _)). exact E4. }
      assert (Hsub : forall l, In l ls -> forall seq, old_exists A (Some l) seq = true -> path_exists A m seq = true).
      { intros l Hl seq E. destruct (HlsQ l Hl) as (b & _ & (pb & lb & _ & _ & _ & _ & _ & E6 & _)).
        unfold old_exists, path_exists in *. apply existsb_exists in E. destruct E as (x & Hx & E). apply existsb_exists. exists x. split; auto. }
      destruct (analysis_merge_spec h cf aidx Hcf Hmark Haidx m Hm ls HU Hnew Hrange
                  (no_killer_of_merge m (proj1 Hm) Hp2) Hsub (map lb_state lbs) (w_shared w) sts s1 Hlsne HFrep Eam) as (B1 & B2 & B3 & B4).
      assert (HL3 : length ls = length sts) by (apply (Forall2_length' _ _ _ B1)).
      set (xs := map (fun p => mkLB (fst p) (lb_last (snd p))) (combine sts lbs)) in *.
      assert (HLx : length bs = length xs).
      { unfold xs. rewrite map_length, combine_length. lia. }
      assert (HFx : Forall2 (fun (_ : Z) x => lb_last x = Some m /\ bgood h cf aidx (Some m) (lb_state x)) bs xs).
      { apply Forall2_of_nth; auto. intros i b x Eb Ex. unfold xs in Ex. rewrite nth_error_map in Ex.
        destruct (nth_error (combine sts lbs) i) as [[st lb]|] eqn:Ec; [|discriminate]. injection Ex as <-.
        apply nth_error_combine in Ec. cbn [fst snd] in Ec. destruct Ec as [Est Elb]. cbn [lb_last lb_state]. split.
        - pose proof (Forall2_nth _ _ _ i b lb HFget Eb Elb) as Eg.
          assert (exists l, nth_error ls i = Some l) as [l El].
          { destruct (nth_error ls i) eqn:E; [eauto|]. apply nth_error_None in E. assert (i < length bs)%nat by (apply nth_error_Some; congruence). lia. }
          destruct (Forall2_nth _ _ _ i b l HFQ Eb El) as (pb & lb' & _ & E2 & _ & _ & _ & _ & _ & E8).
          rewrite Eg in E2. injection E2 as <-. exact E8.
        - assert (exists l, nth_error ls i = Some l) as [l El].
          { destruct (nth_error ls i) eqn:E; [eauto|]. apply nth_error_None in E. assert (i < length bs)%nat by (apply nth_error_Some; congruence). lia. }
          apply (Forall2_nth _ _ _ i l st B1 El Est). }
      unfold W, entry_ok, pend_ok in *; cbn [ps_live ps_seen ps_pend ps_done w_branches w_shared].
      split; [apply nodup_fold_aset; auto|]. split; [apply nodup_set_all; auto|]. split.
      { intros b'. rewrite aget_fold_aset, aget_set_all by auto. destruct (memz b' bs) eqn:Emb.
        - apply memz_true in Emb. destruct (aget_combine_in bs xs b' HLx Emb) as [x Ex]. rewrite Ex.
          destruct (aget_combine_Forall2 _ _ _ _ _ HFx Ex) as (_ & Ex1 & Ex2).
          split; [exact Ex1|]. cbn [pb_last pb_set]. split; [exact Ex2|]. split; [exact Eu|exact Hm].
        - assert (Hnone : aget (combine bs xs) b' = None).
          { destruct (aget (combine bs xs) b') eqn:E; auto. apply aget_in in E. apply in_combine_l in E.
            apply memz_true in E. congruence. }
          rewrite Hnone. specialize (W3 b'). rewrite Epend in W3.
          destruct (aget (ps_live ps) b') as [pb'|], (aget (w_branches w) b') as [lb'|]; auto.
          destruct (memz b' rs) eqn:Er; [|exact W3]. rewrite (Hs2 b' (proj1 (memz_true _ _) Er)) in Emb. discriminate. }
      split.
      { intros b' pb'. rewrite aget_fold_aset. destruct (memz b' bs) eqn:Emb; [|apply W4].
        intros _. apply memz_true in Emb. destruct (HQ b' Emb) as (l & pb & lb & E1 & _). eapply W4; eauto. }
      split; auto. split.
      { intros x [<-|Hx]; auto. }
      split; [|split; [apply B3; auto; pose proof (Hmark m Hm); lia|]].
      { intros P. rewrite B2, W7. cbn [map]. rewrite sum_z_cons. lia. }
      intros x. rewrite (B4 x), (W9 x). cbn [In]. split.
      { intros [(c0 & H1' & H2' & H3')|[H1' H2']]; [exists c0; auto|exists m; auto]. }
      { intros (c0 & [<-|H1'] & H2' & H3'); [right; auto|left; exists c0; auto]. }
    - (* delete *)
      destruct (ps_pend ps) as [[m0 bs0]|] eqn:Epend; [discriminate|].
      destruct (aget (ps_live ps) b) as [pb|] eqn:Epb; [|discriminate].
      injection Ep as <-. injection Es as <-. unfold W, entry_ok, pend_ok in *; cbn [ps_live ps_seen ps_pend ps_done w_branches w_shared].
      rewrite Epend in *.
      split; [apply nodup_adel; auto|]. split; [apply nodup_adel; auto|]. split.
      { intros b'. rewrite !aget_adel by auto. destruct (b =? b'); [exact I|apply W3]. }
      split.
      { intros b' pb'. rewrite aget_adel by auto. destruct (b =? b'); [discriminate|apply W4]. }
      split; auto.
    - injection Ep as <-. injection Es as <-. unfold W; auto 12.
    - injection Ep as <-. injection Es as <-. unfold W; auto 12.
  Qed.

  Lemma run_W : forall plan before ps w ps' w',
    W ps w -> prun h A n before plan ps = Some ps' ->
    run_from cf (fun c => znth 0 aidx c) (tick_of h) (changes_of h A) before plan w = Ok w' -> W ps' w'.
  Proof.
    induction plan as [|a rest IH]; intros before ps w ps' w' HW Ep Er.
    - cbn in Ep, Er. injection Ep as <-. injection Er as <-. exact HW.
    - cbn [prun run_from] in Ep, Er.
      destruct (pstep h A n before rest a ps) as [ps1|] eqn:E1; [|discriminate].
      destruct (step cf _ _ _ before rest a w) as [w1| |] eqn:E2; try discriminate.
      apply (IH (a :: before) ps1 w1 ps' w'); auto. eapply step_W; eauto.
  Qed.

  Lemma W_init : W pstate0 world0.
  Proof.
    split; [constructor|]. split; [constructor|]. split; [intros b; exact I|]. split; [intros b pb E; discriminate|].
    split; [exact I|]. split; [intros c []|]. split; [intros P; reflexivity|]. split; [apply gh_ok_nil|].
    intros x. cbn. split; [intros []|intros (c & [] & _)].
  Qed.

  (* C01_global_sparse: any validated plan, merges included *)
  Theorem global_sparse plan w :
    plan_okb h plan = true -> run_hist cf h aidx plan = Ok w ->
    (forall P, wsum P (s_gh (w_shared w)) = sum_z (map (contrib h P) (zrange (ncommits h)))) /\
    gh_ok mark (s_gh (w_shared w)) /\
    (forall x, In x (keys (s_gh (w_shared w))) <-> exists c, 0 <= c < ncommits h /\ event h c = true /\ tick_of h c = x).
  Proof.
    intros Hok Er. unfold plan_okb in Hok.
    destruct (prun h A n [] plan pstate0) as [ps|] eqn:Ep; [|discriminate].
    unfold run_hist, run in Er.
    pose proof (run_W plan [] pstate0 world0 ps w W_init Ep Er) as (W1 & W2 & W3 & W4 & W5 & W6 & W7 & W8 & W9).
    destruct (ps_pend ps) as [[m0 bs0]|]; [discriminate|]. apply andb_prop in Hok. destruct Hok as [Hl Hnd].
    assert (Hperm : Permutation (ps_done ps) (zrange (ncommits h))).
    { apply (done_perm h); auto; [apply nodup_zb_NoDup; exact Hnd|apply Z.eqb_eq in Hl; lia]. }
    split; [|split; [exact W8|]].
    - intros P. rewrite W7. apply sum_map_perm. exact Hperm.
    - intros x. rewrite (W9 x). split; intros (c & Hc & He & Ht); exists c; (split; [|auto]).
      + apply zrange_in. apply (Permutation_in _ Hperm). exact Hc.
      + apply (Permutation_in _ (Permutation_sym Hperm)). apply zrange_in. exact Hc.
  Qed.
End Dag.
