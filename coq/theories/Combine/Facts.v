(* C18 - generic facts: byte-string equality, association lists and their sums, Go slice reads/writes,
   monadic folds. *)
From Coq Require Import List ZArith Bool Lia.
From Herc Require Import Combine.Model Combine.Spec.
Import ListNotations.
Open Scope Z_scope.

(* ---------- names ---------- *)
Lemma name_eqb_spec a b : reflect (a = b) (name_eqb a b).
Proof.
  revert b. induction a as [|x a IH]; intros [|y b]; simpl; try (constructor; congruence).
  destruct (Z.eqb_spec x y); simpl.
  - destruct (IH b); constructor; congruence.
  - constructor; congruence.
Qed.
Lemma name_eqb_eq a b : name_eqb a b = true <-> a = b.
Proof. destruct (name_eqb_spec a b); split; congruence. Qed.
Lemma name_eqb_refl a : name_eqb a a = true.
Proof. apply name_eqb_eq; reflexivity. Qed.
Lemma name_eqb_neq a b : name_eqb a b = false <-> a <> b.
Proof. destruct (name_eqb_spec a b); split; congruence. Qed.
Lemma Zeqb_eq a b : Z.eqb a b = true <-> a = b.
Proof. apply Z.eqb_eq. Qed.

(* ---------- result ---------- *)
Lemma bind_ok {A B} (r : result A) (f : A -> result B) b :
  bind r f = Ok b -> exists a, r = Ok a /\ f a = Ok b.
Proof. destruct r; simpl; intros H; try discriminate. eauto. Qed.

Ltac inv_bind H :=
  let a := fresh "v" in let Ha := fresh "Hv" in
  apply bind_ok in H; destruct H as (a & Ha & H).

(* ---------- association lists ---------- *)
Section AFacts.
  Context {K V : Type} (eqb : K -> K -> bool).
  Hypothesis eqb_eq : forall a b, eqb a b = true <-> a = b.

  Lemma eqb_refl' a : eqb a a = true.
  Proof. apply eqb_eq; reflexivity. Qed.

  Section Weights.
    Variable w : V -> Z.

    Lemma asum_aupd k k' (m : list (K * V)) f :
      asum eqb w k (aupd eqb m k' f) =
      asum eqb w k m + (if eqb k k' then w (f (aget eqb m k')) - wopt w (aget eqb m k') else 0).
    Proof.
      induction m as [|[k0 v] r IH]; simpl.
      - destruct (eqb k k'); lia.
      - destruct (eqb k' k0) eqn:E.
        + apply eqb_eq in E; subst k0. simpl. destruct (eqb k k'); lia.
        + simpl. rewrite IH. destruct (eqb k k0), (eqb k k'); lia.
    Qed.

    Lemma atotal_aupd k' (m : list (K * V)) f :
      atotal w (aupd eqb m k' f) = atotal w m + w (f (aget eqb m k')) - wopt w (aget eqb m k').
    Proof.
      induction m as [|[k0 v] r IH]; simpl.
      - lia.
      - destruct (eqb k' k0) eqn:E; simpl; lia.
    Qed.
  End Weights.

  Lemma aget_aupd k k' (m : list (K * V)) f :
    aget eqb (aupd eqb m k' f) k = if eqb k k' then Some (f (aget eqb m k')) else aget eqb m k.
  Proof.
    induction m as [|[k0 v] r IH]; simpl.
    - destruct (eqb k k'); reflexivity.
    - destruct (eqb k' k0) eqn:E.
      + apply eqb_eq in E; subst k0. simpl. destruct (eqb k k'); reflexivity.
      + simpl. rewrite IH. destruct (eqb k k0) eqn:E0; [|reflexivity].
        apply eqb_eq in E0; subst k0. destruct (eqb k k') eqn:E1; [|reflexivity].
        apply eqb_eq in E1; subst k'. rewrite eqb_refl' in E. discriminate.
  Qed.

  Lemma existsb_key_aupd k k' (m : list (K * V)) f :
    existsb (fun e => eqb k (fst e)) (aupd eqb m k' f) =
    existsb (fun e => eqb k (fst e)) m || eqb k k'.
  Proof.
    induction m as [|[k0 v] r IH]; simpl.
    - rewrite orb_false_r. reflexivity.
    - destruct (eqb k' k0) eqn:E; simpl.
      + apply eqb_eq in E; subst k0. destruct (eqb k k'); simpl; [reflexivity|]. rewrite orb_false_r. reflexivity.
      + rewrite IH. rewrite orb_assoc. reflexivity.
  Qed.

  Lemma keys_nodup_aupd k' (m : list (K * V)) f :
    keys_nodup eqb m = true -> keys_nodup eqb (aupd eqb m k' f) = true.
  Proof.
    induction m as [|[k0 v] r IH]; simpl; intros H.
    - reflexivity.
    - apply andb_true_iff in H. destruct H as [H1 H2].
      destruct (eqb k' k0) eqn:E; simpl.
      + rewrite H1, H2. reflexivity.
      + rewrite existsb_key_aupd. rewrite IH by assumption.
        apply negb_true_iff in H1. rewrite H1. simpl.
        destruct (eqb k0 k') eqn:E'; [|reflexivity].
        apply eqb_eq in E'; subst k'. rewrite eqb_refl' in E. discriminate.
  Qed.

  Lemma forallb_aupd (P : K * V -> bool) k' (m : list (K * V)) f :
    forallb P m = true ->
    (forall k0, eqb k' k0 = true -> P (k0, f (aget eqb m k')) = true) ->
    forallb P (aupd eqb m k' f) = true.
  Proof.
    induction m as [|[k0 v] r IH]; simpl; intros H HP.
    - rewrite (HP k') by apply eqb_refl'. reflexivity.
    - apply andb_true_iff in H. destruct H as [H1 H2].
      destruct (eqb k' k0) eqn:E; simpl.
      + rewrite (HP k0 E), H2. reflexivity.
      + rewrite H1. simpl. apply IH; assumption.
  Qed.

  (* with distinct keys the sum under a key is the weight of the entry found by the lookup *)
  Lemma asum_nodup (w : V -> Z) k (m : list (K * V)) :
    keys_nodup eqb m = true -> asum eqb w k m = wopt w (aget eqb m k).
  Proof.
    induction m as [|[k0 v] r IH]; simpl; intros H.
    - reflexivity.
    - apply andb_true_iff in H. destruct H as [H1 H2].
      destruct (eqb k k0) eqn:E.
      + simpl. apply eqb_eq in E; subst k0.
        assert (asum eqb w k r = 0) as ->; [|lia].
        apply negb_true_iff in H1. clear -H1. induction r as [|[k1 v1] r IH]; simpl in *; [reflexivity|].
        apply orb_false_iff in H1. destruct H1 as [-> H1]. rewrite IH by assumption. reflexivity.
      + rewrite IH by assumption. lia.
  Qed.
End AFacts.

Lemma wopt_default {V} (w : V -> Z) (d : V) (o : option V) : w d = 0 -> w (default d o) = wopt w o.
Proof. destruct o; simpl; auto. Qed.

(* ---------- slices ---------- *)
Lemma idx_ok {A} (l : list A) i a : idx l i = Ok a -> 0 <= i /\ nth_error l (Z.to_nat i) = Some a.
Proof.
  unfold idx. destruct (i <? 0) eqn:E; [discriminate|].
  destruct (nth_error l (Z.to_nat i)) eqn:En; [|discriminate].
  intros H; inversion H; subst. split; [lia|reflexivity].
Qed.

Lemma idx_nthZ {A} (l : list A) i a d : idx l i = Ok a -> nthZ l i d = a.
Proof.
  intros H. apply idx_ok in H. destruct H as [H0 H1]. unfold nthZ.
  destruct (i <? 0) eqn:E; [lia|]. apply nth_error_nth. assumption.
Qed.

Lemma idx_lt {A} (l : list A) i a : idx l i = Ok a -> 0 <= i < lenZ l.
Proof.
  intros H. apply idx_ok in H. destruct H as [H0 H1]. split; [assumption|].
  assert (Z.to_nat i < length l)%nat by (apply nth_error_Some; congruence). unfold lenZ. lia.
Qed.

Lemma idx_in_range {A} (l : list A) i : 0 <= i < lenZ l -> exists a, idx l i = Ok a.
Proof.
  intros H. unfold idx. destruct (i <? 0) eqn:E; [lia|].
  destruct (nth_error l (Z.to_nat i)) eqn:En; [eauto|].
  apply nth_error_None in En. unfold lenZ in H. lia.
Qed.

Lemma set_nth_spec {A} (l : list A) n v l' :
  set_nth l n v = Some l' ->
  length l' = length l /\ forall m d, nth m l' d = if Nat.eqb m n then v else nth m l d.
Proof.
  revert n l'. induction l as [|a r IH]; intros [|n] l' H; simpl in H; try discriminate.
  - inversion H; subst. split; [reflexivity|]. intros [|m] d; reflexivity.
  - destruct (set_nth r n v) eqn:E; [|discriminate]. inversion H; subst.
    destruct (IH _ _ E) as [Hl Hn]. split; [simpl; congruence|].
    intros [|m] d; simpl; [reflexivity|apply Hn].
Qed.

Lemma list_set_spec {A} (l : list A) i v l' :
  list_set l i v = Ok l' ->
  length l' = length l /\ 0 <= i < lenZ l /\ forall j d, nthZ l' j d = if j =? i then v else nthZ l j d.
Proof.
  unfold list_set. destruct (i <? 0) eqn:E; [discriminate|].
  destruct (set_nth l (Z.to_nat i) v) eqn:Es; [|discriminate]. intros H; inversion H; subst.
  destruct (set_nth_spec _ _ _ _ Es) as [Hl Hn]. split; [assumption|]. split.
  - split; [lia|]. unfold lenZ.
    assert (Z.to_nat i < length l)%nat; [|lia].
    clear -Es. revert Es. generalize (Z.to_nat i). revert l'.
    induction l as [|a r IH]; intros l' [|n] H; simpl in *; try discriminate; try lia.
    destruct (set_nth r n v) eqn:E; [|discriminate]. apply IH in E. lia.
  - intros j d. unfold nthZ. destruct (j <? 0) eqn:Ej.
    + destruct (j =? i) eqn:Eji; [lia|reflexivity].
    + rewrite Hn. destruct (Nat.eqb_spec (Z.to_nat j) (Z.to_nat i)); destruct (Z.eqb_spec j i); try reflexivity; lia.
Qed.

Lemma nthZ_repeat {A} (a d : A) n i : nthZ (repeat a n) i a = a.
Proof.
  unfold nthZ. destruct (i <? 0); [reflexivity|].
  generalize (Z.to_nat i). induction n as [|n IH]; intros [|m]; simpl; auto.
Qed.

Lemma nthZ_nil {A} (d : A) i : nthZ [] i d = d.
Proof. unfold nthZ. destruct (i <? 0); [reflexivity|]. destruct (Z.to_nat i); reflexivity. Qed.

Lemma nthZ_cons {A} (a : A) l i d : 0 <= i -> nthZ (a :: l) (i + 1) d = nthZ l i d.
Proof.
  intros H. unfold nthZ. destruct (i + 1 <? 0) eqn:E1; [lia|]. destruct (i <? 0) eqn:E2; [lia|].
  replace (Z.to_nat (i + 1)) with (S (Z.to_nat i)) by lia. reflexivity.
Qed.

Lemma nthZ_0 {A} (a : A) l d : nthZ (a :: l) 0 d = a.
Proof. reflexivity. Qed.

(* ---------- folds ---------- *)
Lemma foldM_inv {A B} (f : B -> A -> result B) (P : B -> list A -> Prop) :
  (forall b a r b', f b a = Ok b' -> P b (a :: r) -> P b' r) ->
  forall l b b', foldM f l b = Ok b' -> P b l -> P b' [].
Proof.
  intros Hstep. induction l as [|a r IH]; simpl; intros b b' H HP.
  - inversion H; subst. assumption.
  - inv_bind H. eapply IH; [exact H|]. eapply Hstep; eassumption.
Qed.

Lemma foldMi_inv {A B} (f : B -> Z -> A -> result B) (P : B -> Z -> list A -> Prop) :
  (forall b i a r b', f b i a = Ok b' -> P b i (a :: r) -> P b' (i + 1) r) ->
  forall l i b b', foldMi f l i b = Ok b' -> P b i l -> exists j, P b' j [].
Proof.
  intros Hstep. induction l as [|a r IH]; simpl; intros i b b' H HP.
  - inversion H; subst. eauto.
  - inv_bind H. eapply IH; [exact H|]. eapply Hstep; eassumption.
Qed.

Lemma mapM_nth {A B} (f : A -> result B) l bs :
  mapM f l = Ok bs -> length bs = length l /\
  forall n a, nth_error l n = Some a -> exists b, nth_error bs n = Some b /\ f a = Ok b.
Proof.
  revert bs. induction l as [|a r IH]; simpl; intros bs H.
  - inversion H; subst. split; [reflexivity|]. intros [|n] a0 Hn; discriminate.
  - inv_bind H. inv_bind H. inversion H; subst. destruct (IH _ Hv0) as [Hl Hn].
    split; [simpl; congruence|]. intros [|n] a0 Hn0; simpl in *.
    + inversion Hn0; subst. eauto.
    + apply Hn. assumption.
Qed.
