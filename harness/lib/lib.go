// Package lib holds what every per-property harness shares: the seeded PRNG, the S-expression
// trace writer and panic capture.
package lib

import (
	"bufio"
	"flag"
	"fmt"
	"math/rand"
	"os"
	"strconv"
	"strings"
)

// Sx is an S-expression: an atom or a list.
type Sx struct {
	Atom string
	List []Sx
	IsL  bool
}

// A makes an atom.
func A(s string) Sx { return Sx{Atom: s} }

// I makes an integer atom.
func I(i int) Sx { return Sx{Atom: strconv.Itoa(i)} }

// I64 makes an integer atom.
func I64(i int64) Sx { return Sx{Atom: strconv.FormatInt(i, 10)} }

// U64 makes an unsigned integer atom.
func U64(i uint64) Sx { return Sx{Atom: strconv.FormatUint(i, 10)} }

// B makes a boolean atom 0/1.
func B(b bool) Sx {
	if b {
		return A("1")
	}
	return A("0")
}

// L makes a list.
func L(xs ...Sx) Sx { return Sx{List: xs, IsL: true} }

// T makes a tagged list (tag x1 x2 ...).
func T(tag string, xs ...Sx) Sx {
	l := make([]Sx, 0, len(xs)+1)
	l = append(l, A(tag))
	l = append(l, xs...)
	return Sx{List: l, IsL: true}
}

// Ints makes a list of integer atoms.
func Ints(xs []int) Sx {
	l := make([]Sx, len(xs))
	for i, x := range xs {
		l[i] = I(x)
	}
	return Sx{List: l, IsL: true}
}

// Bytes makes a list of byte values (used for arbitrary strings).
func Bytes(b []byte) Sx {
	l := make([]Sx, len(b))
	for i, x := range b {
		l[i] = I(int(x))
	}
	return Sx{List: l, IsL: true}
}

func (s Sx) write(sb *strings.Builder) {
	if !s.IsL {
		sb.WriteString(s.Atom)
		return
	}
	sb.WriteByte('(')
	for i, x := range s.List {
		if i > 0 {
			sb.WriteByte(' ')
		}
		x.write(sb)
	}
	sb.WriteByte(')')
}

func (s Sx) String() string {
	var sb strings.Builder
	s.write(&sb)
	return sb.String()
}

// ParseSx parses one S-expression (the replay format is the trace format).
func ParseSx(line string) (Sx, error) {
	toks := tokenize(line)
	pos := 0
	var parse func() (Sx, error)
	parse = func() (Sx, error) {
		if pos >= len(toks) {
			return Sx{}, fmt.Errorf("unexpected end")
		}
		t := toks[pos]
		pos++
		if t == "(" {
			l := []Sx{}
			for {
				if pos >= len(toks) {
					return Sx{}, fmt.Errorf("missing )")
				}
				if toks[pos] == ")" {
					pos++
					return Sx{List: l, IsL: true}, nil
				}
				x, err := parse()
				if err != nil {
					return Sx{}, err
				}
				l = append(l, x)
			}
		}
		if t == ")" {
			return Sx{}, fmt.Errorf("unexpected )")
		}
		return A(t), nil
	}
	return parse()
}

func tokenize(line string) []string {
	var toks []string
	cur := strings.Builder{}
	flush := func() {
		if cur.Len() > 0 {
			toks = append(toks, cur.String())
			cur.Reset()
		}
	}
	for _, c := range line {
		switch c {
		case '(', ')':
			flush()
			toks = append(toks, string(c))
		case ' ', '\t', '\n', '\r':
			flush()
		default:
			cur.WriteRune(c)
		}
	}
	flush()
	return toks
}

// Int reads an integer atom.
func (s Sx) Int() int {
	i, err := strconv.Atoi(s.Atom)
	if err != nil {
		panic("not an int: " + s.String())
	}
	return i
}

// Tag returns the head atom of a tagged list.
func (s Sx) Tag() string {
	if s.IsL && len(s.List) > 0 && !s.List[0].IsL {
		return s.List[0].Atom
	}
	return ""
}

// Args returns the elements after the tag.
func (s Sx) Args() []Sx {
	if s.IsL && len(s.List) > 0 {
		return s.List[1:]
	}
	return nil
}

// Field finds (tag ...) among the arguments of a tagged list.
func (s Sx) Field(tag string) (Sx, bool) {
	for _, x := range s.Args() {
		if x.Tag() == tag {
			return x, true
		}
	}
	return Sx{}, false
}

// Config is the common command line of every harness.
type Config struct {
	Seed   int64
	Tier   string
	Out    string
	Replay string
	Scale  float64
	Rng    *rand.Rand
	w      *bufio.Writer
	f      *os.File
	N      int
}

// Setup parses the common flags and opens the trace file.
func Setup() *Config {
	c := &Config{}
	flag.Int64Var(&c.Seed, "seed", 1, "PRNG seed (VERIF_SEED)")
	flag.StringVar(&c.Tier, "tier", "quick", "quick | thorough | search")
	flag.StringVar(&c.Out, "out", "trace.txt", "trace file")
	flag.StringVar(&c.Replay, "replay", "", "file with case lines to re-run instead of generating")
	flag.Float64Var(&c.Scale, "scale", 1.0, "multiplier for the number of random cases")
	flag.Parse()
	c.Rng = rand.New(rand.NewSource(c.Seed))
	f, err := os.Create(c.Out)
	if err != nil {
		fmt.Fprintln(os.Stderr, err)
		os.Exit(2)
	}
	c.f = f
	c.w = bufio.NewWriterSize(f, 1<<20)
	return c
}

// Thorough tells whether the larger budget was requested.
func (c *Config) Thorough() bool { return c.Tier != "quick" }

// Count scales a case count.
func (c *Config) Count(quick, thorough int) int {
	n := quick
	if c.Thorough() {
		n = thorough
	}
	n = int(float64(n) * c.Scale)
	if n < 1 {
		n = 1
	}
	return n
}

// Emit writes one case line: (case <n> <fields...>).
func (c *Config) Emit(fields ...Sx) {
	l := make([]Sx, 0, len(fields)+2)
	l = append(l, A("case"), I(c.N))
	l = append(l, fields...)
	c.N++
	c.w.WriteString(Sx{List: l, IsL: true}.String())
	c.w.WriteByte('\n')
}

// ReplayCases reads the case lines of a replay file.
func (c *Config) ReplayCases() []Sx {
	data, err := os.ReadFile(c.Replay)
	if err != nil {
		fmt.Fprintln(os.Stderr, err)
		os.Exit(2)
	}
	var res []Sx
	for _, line := range strings.Split(string(data), "\n") {
		line = strings.TrimSpace(line)
		if !strings.HasPrefix(line, "(case") {
			continue
		}
		sx, err := ParseSx(line)
		if err != nil {
			fmt.Fprintln(os.Stderr, "bad replay line:", err)
			os.Exit(2)
		}
		res = append(res, sx)
	}
	return res
}

// Close flushes the trace.
func (c *Config) Close() {
	c.w.Flush()
	c.f.Close()
}

// Catch runs f and reports the panic message, if any.
func Catch(f func()) (msg string, panicked bool) {
	defer func() {
		if r := recover(); r != nil {
			panicked = true
			msg = fmt.Sprint(r)
		}
	}()
	f()
	return "", false
}
