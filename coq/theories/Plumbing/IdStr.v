(* Byte strings and string-keyed association lists for the model of
   internal/plumbing/identity/identity.go (property C16).  Definitions and their basic lemmas.

   A Go string is the list of its bytes (0..255) as Z.  Go's [==] and [<] on strings are bytewise
   equality and bytewise lexicographic order; [strings.Split(s, "|")] and [strings.Join(l, "|")] are
   [split] and [join]; [sort.Strings] is [sort_str] (insertion sort: the result of sorting is unique
   for a total order, so the algorithm does not matter); a Go map with string keys is an
   association list in first-insertion order ([sget] / [sset]). *)
From Coq Require Import List ZArith Lia Bool Permutation Sorted.
Import ListNotations.
Open Scope Z_scope.

Notation str := (list Z) (only parsing).

(* ---------- equality ---------- *)
Fixpoint str_eqb (a b : str) : bool :=
  match a, b with
  | [], [] => true
  | x :: a', y :: b' => (x =? y) && str_eqb a' b'
  | _, _ => false
  end.

Lemma str_eqb_spec a b : reflect (a = b) (str_eqb a b).
Proof.
  revert b. induction a as [|x a IH]; intros [|y b]; simpl; try (constructor; congruence).
  destruct (Z.eqb_spec x y); simpl.
  - destruct (IH b); constructor; congruence.
  - constructor; congruence.
Qed.

Lemma str_eqb_refl a : str_eqb a a = true.
Proof. destruct (str_eqb_spec a a); congruence. Qed.

Lemma str_eqb_eq a b : str_eqb a b = true <-> a = b.
Proof. destruct (str_eqb_spec a b); split; congruence. Qed.

Lemma str_eqb_neq a b : str_eqb a b = false <-> a <> b.
Proof. destruct (str_eqb_spec a b); split; congruence. Qed.

Lemma str_eqb_sym a b : str_eqb a b = str_eqb b a.
Proof. destruct (str_eqb_spec a b), (str_eqb_spec b a); congruence. Qed.

Definition str_eq_dec (a b : str) : {a = b} + {a <> b}.
Proof. destruct (str_eqb_spec a b); [left|right]; assumption. Defined.

(* membership *)
Definition smem (x : str) (l : list str) : bool := existsb (str_eqb x) l.

Lemma smem_In x l : smem x l = true <-> In x l.
Proof.
  unfold smem. rewrite existsb_exists. split.
  - intros [y [Hy E]]. apply str_eqb_eq in E. subst. assumption.
  - intros H. exists x. split; [assumption|apply str_eqb_refl].
Qed.

Lemma smem_nIn x l : smem x l = false <-> ~ In x l.
Proof. rewrite <- smem_In. destruct (smem x l); split; congruence. Qed.

(* ---------- Go's string order ---------- *)
Fixpoint str_ltb (a b : str) : bool :=
  match a, b with
  | _, [] => false
  | [], _ :: _ => true
  | x :: a', y :: b' => if x <? y then true else if y <? x then false else str_ltb a' b'
  end.

Definition str_leb (a b : str) : bool := negb (str_ltb b a).

Lemma str_ltb_irrefl a : str_ltb a a = false.
Proof. induction a as [|x a IH]; simpl; [reflexivity|]. rewrite Z.ltb_irrefl. assumption. Qed.

Lemma str_ltb_trans a b c : str_ltb a b = true -> str_ltb b c = true -> str_ltb a c = true.
Proof.
  revert b c. induction a as [|x a IH]; intros [|y b] [|z c]; simpl; try congruence.
  destruct (Z.ltb_spec x y), (Z.ltb_spec y x), (Z.ltb_spec y z), (Z.ltb_spec z y),
    (Z.ltb_spec x z), (Z.ltb_spec z x); try congruence; try lia.
  intros. eapply IH; eassumption.
Qed.

Lemma str_ltb_total a b : str_ltb a b = false -> str_ltb b a = false -> a = b.
Proof.
  revert b. induction a as [|x a IH]; intros [|y b]; simpl; try congruence.
  destruct (Z.ltb_spec x y), (Z.ltb_spec y x); try congruence; try lia.
  intros. f_equal; [lia|]. apply IH; assumption.
Qed.

Lemma str_ltb_asym a b : str_ltb a b = true -> str_ltb b a = false.
Proof.
  intros H. destruct (str_ltb b a) eqn:E; [|reflexivity].
  pose proof (str_ltb_trans _ _ _ H E) as T. rewrite str_ltb_irrefl in T. discriminate.
Qed.

(* ---------- insertion sort for an arbitrary boolean "less" ---------- *)
Section Sort.
  Variable A : Type.
  Variable ltb : A -> A -> bool.
  Fixpoint ins_sorted (x : A) (l : list A) : list A :=
    match l with
    | [] => [x]
    | y :: r => if ltb y x then y :: ins_sorted x r else x :: l
    end.
  Definition isort (l : list A) : list A := fold_right ins_sorted [] l.

  Lemma ins_sorted_perm x l : Permutation (ins_sorted x l) (x :: l).
  Proof.
    induction l as [|y r IH]; simpl; [reflexivity|].
    destruct (ltb y x); [|reflexivity].
    rewrite IH. apply perm_swap.
  Qed.

  Lemma isort_perm l : Permutation (isort l) l.
  Proof.
    induction l as [|x l IH]; simpl; [reflexivity|].
    rewrite ins_sorted_perm. constructor. assumption.
  Qed.

  Lemma isort_In l x : In x (isort l) <-> In x l.
  Proof.
    split; apply Permutation_in; [apply isort_perm|symmetry; apply isort_perm].
  Qed.

  Lemma isort_NoDup l : NoDup l -> NoDup (isort l).
  Proof. intros H. eapply Permutation_NoDup; [symmetry; apply isort_perm|assumption]. Qed.

  Lemma isort_length l : length (isort l) = length l.
  Proof. apply Permutation_length, isort_perm. Qed.

  (* sortedness: no element is strictly less than an earlier one, given asymmetry-free totality *)
  Definition leR (a b : A) : Prop := ltb b a = false.

  Hypothesis ltb_trans : forall a b c, ltb a b = true -> ltb b c = true -> ltb a c = true.
  Hypothesis ltb_asym : forall a b, ltb a b = true -> ltb b a = false.
  Hypothesis ltb_negtrans : forall a b c, ltb b a = false -> ltb c b = false -> ltb c a = false.

  Lemma ins_sorted_sorted x l : StronglySorted leR l -> StronglySorted leR (ins_sorted x l).
  Proof.
    induction l as [|y r IH]; intros H; simpl.
    - constructor; constructor.
    - inversion H as [|? ? Hr Hy]; subst.
      destruct (ltb y x) eqn:E.
      + constructor; [apply IH; assumption|].
        rewrite Forall_forall. intros z Hz.
        apply (Permutation_in _ (ins_sorted_perm x r)) in Hz. destruct Hz as [<-|Hz].
        * unfold leR. apply ltb_asym. assumption.
        * rewrite Forall_forall in Hy. apply Hy. assumption.
      + constructor; [assumption|]. constructor; [exact E|].
        rewrite Forall_forall in Hy |- *. intros z Hz. specialize (Hy z Hz).
        unfold leR in *. eapply ltb_negtrans; eassumption.
  Qed.

  Lemma isort_sorted l : StronglySorted leR (isort l).
  Proof. induction l; simpl; [constructor|apply ins_sorted_sorted; assumption]. Qed.
End Sort.
Arguments ins_sorted {A}. Arguments isort {A}. Arguments leR {A}.

Definition sort_str (l : list str) : list str := isort str_ltb l.

Lemma str_ltb_negtrans a b c : str_ltb b a = false -> str_ltb c b = false -> str_ltb c a = false.
Proof.
  intros H1 H2. destruct (str_ltb c a) eqn:E; [|reflexivity].
  (* c < a, not b < a, not c < b: then a <= b <= c < a *)
  destruct (str_ltb a b) eqn:E1.
  - pose proof (str_ltb_trans _ _ _ E E1). congruence.
  - pose proof (str_ltb_total _ _ E1 H1). subst. congruence.
Qed.

Lemma sort_str_sorted l : StronglySorted (leR str_ltb) (sort_str l).
Proof. apply isort_sorted; [apply str_ltb_asym|apply str_ltb_negtrans]. Qed.

(* ---------- split / join on "|" ---------- *)
Definition bar : Z := 124.

Fixpoint split (s : str) : list str :=
  match s with
  | [] => [[]]
  | c :: r => if c =? bar then [] :: split r
              else match split r with
                   | [] => [[c]]
                   | h :: t => (c :: h) :: t
                   end
  end.

Fixpoint join (l : list str) : str :=
  match l with
  | [] => []
  | x :: r => match r with [] => x | _ :: _ => x ++ bar :: join r end
  end.

Definition nobar (s : str) : Prop := ~ In bar s.
Definition nobarb (s : str) : bool := negb (existsb (Z.eqb bar) s).

Lemma nobarb_spec s : nobarb s = true <-> nobar s.
Proof.
  unfold nobarb, nobar. rewrite negb_true_iff. split.
  - intros H Hin. assert (existsb (Z.eqb bar) s = true); [|congruence].
    apply existsb_exists. exists bar. split; [assumption|apply Z.eqb_refl].
  - intros H. destruct (existsb (Z.eqb bar) s) eqn:E; [|reflexivity].
    apply existsb_exists in E. destruct E as [x [Hx E]]. apply Z.eqb_eq in E. subst. contradiction.
Qed.

Lemma split_nonempty s : split s <> [].
Proof.
  induction s as [|c r IH]; simpl; [discriminate|].
  destruct (c =? bar); [discriminate|]. destruct (split r); discriminate.
Qed.

Lemma split_nobar s : Forall nobar (split s).
Proof.
  induction s as [|c r IH]; simpl.
  - constructor; [intros []|constructor].
  - destruct (Z.eqb_spec c bar).
    + constructor; [intros []|assumption].
    + destruct (split r) as [|h t]; [constructor; [|constructor]|].
      * intros [E|[]]. congruence.
      * inversion IH; subst. constructor; [|assumption].
        intros [E|Hin]; [congruence|contradiction].
Qed.

Lemma split_single s : nobar s -> split s = [s].
Proof.
  induction s as [|c r IH]; intros H; simpl; [reflexivity|].
  destruct (Z.eqb_spec c bar) as [E|E]; [exfalso; apply H; left; congruence|].
  rewrite IH; [reflexivity|]. intros Hin. apply H. right. assumption.
Qed.

Lemma split_app_bar a r : nobar a -> split (a ++ bar :: r) = a :: split r.
Proof.
  induction a as [|c a IH]; intros H; simpl.
  - reflexivity.
  - destruct (Z.eqb_spec c bar) as [E|E]; [exfalso; apply H; left; congruence|].
    rewrite IH; [reflexivity|]. intros Hin. apply H. right. assumption.
Qed.

Lemma split_join l : l <> [] -> Forall nobar l -> split (join l) = l.
Proof.
  induction l as [|x r IH]; intros Hne H; [congruence|].
  inversion H as [|? ? Hx Hr]; subst. cbn [join]. destruct r as [|y r'].
  - apply split_single. assumption.
  - rewrite split_app_bar by assumption. f_equal. apply IH; [discriminate|assumption].
Qed.

Lemma NoDup_snoc {A} (l : list A) (k : A) : NoDup l -> ~ In k l -> NoDup (l ++ [k]).
Proof.
  intros H Hn. induction H as [|x l Hx H IH]; simpl; [constructor; [intros []|constructor]|].
  constructor.
  - rewrite in_app_iff. intros [Hin|[E|[]]]; [contradiction|]. apply Hn. left. symmetry. assumption.
  - apply IH. intros Hin. apply Hn. right. assumption.
Qed.

(* ---------- string-keyed association lists (Go maps in first-insertion order) ---------- *)
Section SMap.
  Context {V : Type}.
  Fixpoint sget (l : list (str * V)) (k : str) : option V :=
    match l with
    | [] => None
    | (k', v) :: r => if str_eqb k' k then Some v else sget r k
    end.
  Fixpoint sset (l : list (str * V)) (k : str) (v : V) : list (str * V) :=
    match l with
    | [] => [(k, v)]
    | (k', v') :: r => if str_eqb k' k then (k, v) :: r else (k', v') :: sset r k v
    end.

  Lemma sget_sset_same l k v : sget (sset l k v) k = Some v.
  Proof.
    induction l as [|[k' v'] r IH]; simpl.
    - rewrite str_eqb_refl. reflexivity.
    - destruct (str_eqb k' k) eqn:E; simpl; [rewrite str_eqb_refl; reflexivity|].
      rewrite E. assumption.
  Qed.

  Lemma sget_sset_other l k v k2 : k <> k2 -> sget (sset l k v) k2 = sget l k2.
  Proof.
    intros Hne. induction l as [|[k' v'] r IH]; simpl.
    - apply str_eqb_neq in Hne. rewrite Hne. reflexivity.
    - destruct (str_eqb_spec k' k) as [->|E]; simpl.
      + apply str_eqb_neq in Hne. rewrite Hne. reflexivity.
      + destruct (str_eqb k' k2); [reflexivity|assumption].
  Qed.

  Lemma sget_sset l k v k2 : sget (sset l k v) k2 = if str_eqb k k2 then Some v else sget l k2.
  Proof.
    destruct (str_eqb_spec k k2) as [->|E]; [apply sget_sset_same|apply sget_sset_other; assumption].
  Qed.

  Lemma sget_In l k v : sget l k = Some v -> In (k, v) l.
  Proof.
    induction l as [|[k' v'] r IH]; simpl; [discriminate|].
    destruct (str_eqb_spec k' k) as [->|E]; [intros [= ->]; left; reflexivity|].
    intros H. right. apply IH. assumption.
  Qed.

  Lemma In_sget l k v : In (k, v) l -> exists v', sget l k = Some v'.
  Proof.
    induction l as [|[k' v'] r IH]; simpl; [intros []|].
    intros [[= -> ->]|H].
    - rewrite str_eqb_refl. eauto.
    - destruct (str_eqb k' k); eauto.
  Qed.

  Definition keys_nodup (l : list (str * V)) : Prop := NoDup (map fst l).

  Lemma sset_keys l k v : map fst (sset l k v) = if smem k (map fst l) then map fst l else map fst l ++ [k].
  Proof.
    induction l as [|[k' v'] r IH]; simpl; [reflexivity|].
    rewrite (str_eqb_sym k k').
    destruct (str_eqb_spec k' k) as [->|E]; simpl; [reflexivity|].
    rewrite IH. destruct (smem k (map fst r)); reflexivity.
  Qed.

  Lemma sset_keys_nodup l k v : keys_nodup l -> keys_nodup (sset l k v).
  Proof.
    unfold keys_nodup. intros H. rewrite sset_keys.
    destruct (smem k (map fst l)) eqn:E; [assumption|].
    apply smem_nIn in E. apply NoDup_snoc; assumption.
  Qed.

  Lemma In_sget_nodup l k v : keys_nodup l -> In (k, v) l -> sget l k = Some v.
  Proof.
    unfold keys_nodup. induction l as [|[k' v'] r IH]; simpl; [intros _ []|].
    intros Hnd [[= -> ->]|H].
    - rewrite str_eqb_refl. reflexivity.
    - inversion Hnd as [|? ? Hni Hnd']; subst.
      destruct (str_eqb_spec k' k) as [->|E].
      + exfalso. apply Hni. apply in_map_iff. exists (k, v). split; [reflexivity|assumption].
      + apply IH; assumption.
  Qed.
End SMap.

(* update position i of a list (make([]T, n) followed by a[i] = x; out of range is left to the caller) *)
Fixpoint upd {A} (l : list A) (i : nat) (x : A) : list A :=
  match l, i with
  | [], _ => []
  | _ :: r, O => x :: r
  | y :: r, S j => y :: upd r j x
  end.

Lemma upd_length {A} (l : list A) i x : length (upd l i x) = length l.
Proof. revert i. induction l; intros [|i]; simpl; auto. Qed.

Lemma nth_upd {A} (l : list A) i j x d :
  nth j (upd l i x) d = if (Nat.eqb i j && Nat.ltb i (length l))%bool then x else nth j l d.
Proof.
  revert i j. induction l as [|y r IH]; intros [|i] [|j]; simpl; try reflexivity.
  - destruct (Nat.eqb i j); reflexivity.
  - rewrite IH. reflexivity.
Qed.

(* ---------- ASCII lower-casing (strings.ToLower on strings without upper-case non-ASCII letters) ---------- *)
Definition lower_byte (c : Z) : Z := if (65 <=? c) && (c <=? 90) then c + 32 else c.
Definition lower_ascii (s : str) : str := map lower_byte s.

Lemma lower_ascii_app a b : lower_ascii (a ++ b) = lower_ascii a ++ lower_ascii b.
Proof. apply map_app. Qed.

Lemma lower_byte_idem c : lower_byte (lower_byte c) = lower_byte c.
Proof.
  unfold lower_byte.
  destruct (Z.leb_spec 65 c), (Z.leb_spec c 90); cbn [andb];
    repeat match goal with |- context [?a <=? ?b] => destruct (Z.leb_spec a b) end; cbn [andb]; lia.
Qed.

Lemma lower_ascii_idem s : lower_ascii (lower_ascii s) = lower_ascii s.
Proof. unfold lower_ascii. rewrite map_map. apply map_ext. intros. apply lower_byte_idem. Qed.
