// Harness for C15: drives the real internal/toposort.Graph with generated operation sequences and
// records everything it returns.
//
// Nodes are integers in the trace (and in the Gallina model); the strings given to the Go code come
// from a per-case name table (names.go): either fixed-width decimal names (string order = integer
// order) or an arbitrary table of distinct byte strings written into the trace as (names ...); the
// driver then runs the model on the RANKS of the names in plain byte order.
// Large graphs (scale.go) use run-length encoded bulk operations (addnodes / addedges / rmedges).
//
// Several graphs (copy.go): a case has four graph slots 0..3, all starting as NewGraph().  (at g <op>)
// applies <op> to slot g, a bare operation is on slot 0; (copy s d) is slots[d] = slots[s].Copy();
// (sortd) is Toposort on the graph ITSELF (consuming it), where (sort) sorts copies.  A wrapper rather than
// a "current graph" switch, so that removing any operation while shrinking never changes the meaning of
// the others.
package main

import (
	"fmt"
	"os"
	"runtime"
	"sort"
	"time"

	"gopkg.in/src-d/hercules.v10/verifapi"
	. "verifharness/lib"
)

type op struct {
	kind string
	a, b int
	x    []int // parameters of a bulk operation
	g    int   // graph slot the operation is applied to (copy: a = source slot, b = target slot)
}

const nSlots = 4

// at puts operations onto a graph slot
func at(g int, ops ...op) []op {
	res := make([]op, len(ops))
	for i, o := range ops {
		o.g = g
		res[i] = o
	}
	return res
}

func isBulk(kind string) bool {
	return kind == "addnodes" || kind == "addedges" || kind == "rmedges" || kind == "reindexes"
}

func (o op) sx() Sx {
	if o.g != 0 && o.kind != "copy" {
		inner := o
		inner.g = 0
		return T("at", I(o.g), inner.sx())
	}
	switch o.kind {
	case "addedge", "rmedge", "copy":
		return T(o.kind, I(o.a), I(o.b))
	case "sort", "sortd":
		return T(o.kind)
	case "addnodes", "addedges", "rmedges", "reindexes":
		xs := make([]Sx, len(o.x))
		for i, v := range o.x {
			xs[i] = I(v)
		}
		return T(o.kind, xs...)
	default:
		return T(o.kind, I(o.a))
	}
}

func parseOp(s Sx) op {
	o := op{kind: s.Tag()}
	args := s.Args()
	if o.kind == "at" {
		g := args[0].Int()
		o = parseOp(args[1])
		if g < 0 || g >= nSlots || o.kind == "copy" || o.g != 0 {
			panic("malformed (at g op): " + s.String())
		}
		o.g = g
		return o
	}
	if isBulk(o.kind) {
		for _, a := range args {
			o.x = append(o.x, a.Int())
		}
		return o
	}
	if len(args) > 0 {
		o.a = args[0].Int()
	}
	if len(args) > 1 {
		o.b = args[1].Int()
	}
	if o.kind == "copy" && (o.a < 0 || o.a >= nSlots || o.b < 0 || o.b >= nSlots) {
		panic("graph slot out of range: " + s.String())
	}
	return o
}

// bulk operations (run-length encoding of regular insertion patterns; the driver expands them with the
// same three-line loop):
//
//	(addnodes from count step mod)      AddNode(wrap(from + i*step))                        i < count
//	(addedges a b count sa sb mod)      AddEdge(wrap(a + i*sa), wrap(b + i*sb))             i < count
//	(rmedges  a b count sa sb mod)      RemoveEdge(wrap(a + i*sa), wrap(b + i*sb))          i < count
//	(reindexes from count step mod)     ReindexNode(wrap(from + i*step))                    i < count
//
// wrap(v) = v mod `mod` when mod > 0, v otherwise.  Observation: (agg <number of true results>) for
// addnodes / rmedges, (agg <sum of the returned in-degrees>) for addedges.
func wrap(v, mod int) int {
	if mod > 0 {
		return v % mod
	}
	return v
}

func addNodes(from, count, step, mod int) op {
	return op{kind: "addnodes", x: []int{from, count, step, mod}}
}
func addEdges(a, b, count, sa, sb, mod int) op {
	return op{kind: "addedges", x: []int{a, b, count, sa, sb, mod}}
}
func rmEdges(a, b, count, sa, sb, mod int) op {
	return op{kind: "rmedges", x: []int{a, b, count, sa, sb, mod}}
}
func reindexes(from, count, step, mod int) op {
	return op{kind: "reindexes", x: []int{from, count, step, mod}}
}

// sortOnCopy runs Toposort on a fresh copy (Toposort consumes the graph).
func sortOnCopy(g *verifapi.Graph, nm *namer) Sx {
	var l []string
	var ok bool
	msg, p := Catch(func() { l, ok = g.Copy().Toposort() })
	if p {
		_ = msg
		return T("panic")
	}
	return T("sorted", B(ok), Ints(nm.uns(l)))
}

// apply one mutating operation; ok=false for queries
func apply(g *verifapi.Graph, nm *namer, o op) (Sx, bool) {
	switch o.kind {
	case "addnode":
		return T("b", B(g.AddNode(nm.of(o.a)))), true
	case "addedge":
		return T("i", I(g.AddEdge(nm.of(o.a), nm.of(o.b)))), true
	case "rmedge":
		return T("b", B(g.RemoveEdge(nm.of(o.a), nm.of(o.b)))), true
	case "reindex":
		g.ReindexNode(nm.of(o.a))
		return T("u"), true
	case "sortd":
		// Toposort on the graph itself: it deletes the edges it walks
		var l []string
		var ok bool
		if _, p := Catch(func() { l, ok = g.Toposort() }); p {
			return T("panic"), true
		}
		return T("sorted", B(ok), Ints(nm.uns(l))), true
	case "addnodes":
		from, count, step, mod := o.x[0], o.x[1], o.x[2], o.x[3]
		agg := 0
		for i := 0; i < count; i++ {
			if g.AddNode(nm.of(wrap(from+i*step, mod))) {
				agg++
			}
		}
		return T("agg", I(agg)), true
	case "reindexes":
		from, count, step, mod := o.x[0], o.x[1], o.x[2], o.x[3]
		for i := 0; i < count; i++ {
			g.ReindexNode(nm.of(wrap(from+i*step, mod)))
		}
		return T("u"), true
	case "addedges", "rmedges":
		a, b, count, sa, sb, mod := o.x[0], o.x[1], o.x[2], o.x[3], o.x[4], o.x[5]
		agg := 0
		for i := 0; i < count; i++ {
			from, to := nm.of(wrap(a+i*sa, mod)), nm.of(wrap(b+i*sb, mod))
			if o.kind == "addedges" {
				agg += g.AddEdge(from, to)
			} else if g.RemoveEdge(from, to) {
				agg++
			}
		}
		return T("agg", I(agg)), true
	}
	return Sx{}, false
}

func watchdog(done chan []string, limit time.Duration) ([]string, bool) {
	select {
	case cyc := <-done:
		return cyc, false
	case <-time.After(50 * time.Millisecond):
	}
	var ms runtime.MemStats
	runtime.ReadMemStats(&ms)
	base, t0 := ms.HeapAlloc, time.Now()
	tick := time.NewTicker(50 * time.Millisecond)
	defer tick.Stop()
	for {
		select {
		case cyc := <-done:
			return cyc, false
		case <-tick.C:
			runtime.ReadMemStats(&ms)
			if (ms.HeapAlloc > base && ms.HeapAlloc-base > 3<<29) || time.Since(t0) > limit {
				return nil, true
			}
		}
	}
}

// hungAt > 0: FindCycle did not return within the watchdog's time at the op with this 1-based index
var hungAt int

func runCase(nm *namer, ops []op) (obs []Sx) {
	var gs [nSlots]*verifapi.Graph
	for i := range gs {
		gs[i] = verifapi.NewGraph()
	}
	// repetitions of every Sort: 5 copies + 3 rebuilt graphs; 3 copies + 1 rebuilt graph for the very large cases
	copies, rebuilds, size := 4, 3, 0
	for _, o := range ops {
		switch o.kind {
		case "addnodes":
			size += o.x[1]
		case "addedges":
			size += o.x[2]
		}
	}
	if size > 15000 {
		copies, rebuilds = 2, 1
	}
	// per slot: the mutating operations that produced the graph (a copy inherits the history of its source;
	// a destructive sort is part of the history and is replayed as one)
	var prefix [nSlots][]op
	for _, o := range ops {
		if o.kind == "copy" {
			var cl *verifapi.Graph
			if _, p := Catch(func() { cl = gs[o.a].Copy() }); p {
				obs = append(obs, T("panic"))
				continue
			}
			gs[o.b] = cl
			prefix[o.b] = append([]op(nil), prefix[o.a]...)
			obs = append(obs, T("u"))
			continue
		}
		g := gs[o.g]
		if r, ok := apply(g, nm, o); ok {
			obs = append(obs, r)
			prefix[o.g] = append(prefix[o.g], o)
			continue
		}
		switch o.kind {
		case "sort":
			// several runs on independent copies: Go randomises map iteration per range loop, so a
			// dependence on map order shows up as differing answers
			first := sortOnCopy(g, nm)
			firstS := first.String()
			res := first
			for k := 0; k < copies; k++ {
				again := sortOnCopy(g, nm)
				if again.String() != firstS {
					res = T("nondet", first, again)
					break
				}
			}
			// "equal inputs give equal orders": rebuild the graph from the same operation sequence
			// (AddEdge / ReindexNode iterate maps too) and sort again
			for k := 0; k < rebuilds && res.Tag() != "nondet"; k++ {
				g2 := verifapi.NewGraph()
				for _, p := range prefix[o.g] {
					apply(g2, nm, p)
				}
				again := sortOnCopy(g2, nm)
				if again.String() != firstS {
					res = T("nondet", first, again)
				}
			}
			obs = append(obs, res)
		case "children":
			obs = append(obs, T("l", Ints(nm.uns(g.FindChildren(nm.of(o.a))))))
		case "parents":
			ps := nm.uns(g.FindParents(nm.of(o.a)))
			sort.Ints(ps)
			obs = append(obs, T("l", Ints(ps)))
		case "cycle":
			// FindCycle is run under a watchdog: a walk back through a corrupted parent map never ends
			// (and allocates all the way).  A hang is an observation; the case is cut after it and the
			// process stops, because the runaway goroutine cannot be cancelled.  The watchdog does not
			// judge by a short time (a ring of 10^6 nodes legitimately takes seconds on a loaded machine):
			// it fires when the call has allocated 1.5 GiB beyond the heap at its 50th millisecond, or
			// after 20 s + 100 us per operation and bulk element of the case.
			done := make(chan []string, 1)
			go func(seed string) { done <- g.FindCycle(seed) }(nm.of(o.a))
			cyc, hung := watchdog(done, 20*time.Second+time.Duration(size+len(ops))*100*time.Microsecond)
			if hung {
				obs = append(obs, T("hang"))
				hungAt = len(obs)
				return
			}
			obs = append(obs, T("cycle", Ints(nm.uns(cyc))))
		default:
			panic("unknown op " + o.kind)
		}
	}
	return
}

func emit(c *Config, kind string, nm *namer, ops []op) {
	if nm == nil {
		nm = fixedNames(5)
	}
	obs := runCase(nm, ops)
	if hungAt > 0 {
		ops = ops[:hungAt]
		defer func() {
			c.Close()
			os.Exit(0)
		}()
	}
	sops := make([]Sx, len(ops))
	nodes, edges := 0, 0
	for i, o := range ops {
		sops[i] = o.sx()
		switch o.kind {
		case "addnode":
			nodes++
		case "addedge":
			edges++
		case "addnodes":
			nodes += o.x[1]
		case "addedges":
			edges += o.x[2]
		}
	}
	fields := []Sx{T("kind", A(kind)), T("nt", B(nodes >= 2 && edges >= 1))}
	fields = append(fields, nm.fields()...)
	fields = append(fields, T("ops", sops...), T("obs", obs...))
	c.Emit(fields...)
}

// queries appended after a graph has been built
func queries(n int, all bool, c *Config) []op {
	var ops []op
	ops = append(ops, op{kind: "sort"})
	for i := 0; i < n; i++ {
		if all || c.Rng.Intn(3) == 0 {
			ops = append(ops, op{kind: "cycle", a: i})
		}
		if all || c.Rng.Intn(4) == 0 {
			ops = append(ops, op{kind: "children", a: i}, op{kind: "parents", a: i})
		}
	}
	return ops
}

// exhaustive: every digraph on n nodes in two insertion orders.  adversarial=false: fixed-width names
// (string order = integer order, so the two insertion orders are "ascending" and "descending" with
// respect to the name order); adversarial=true: the same enumeration under a drawn name table.
func exhaustive(c *Config, n int, selfLoops bool, adversarial bool) {
	var pairs [][2]int
	for a := 0; a < n; a++ {
		for b := 0; b < n; b++ {
			if a != b || selfLoops {
				pairs = append(pairs, [2]int{a, b})
			}
		}
	}
	for mask := 0; mask < 1<<uint(len(pairs)); mask++ {
		for order := 0; order < 2; order++ {
			var ops []op
			for i := 0; i < n; i++ {
				k := i
				if order == 1 {
					k = n - 1 - i
				}
				ops = append(ops, op{kind: "addnode", a: k})
			}
			var es [][2]int
			for i, p := range pairs {
				if mask&(1<<uint(i)) != 0 {
					es = append(es, p)
				}
			}
			if order == 1 {
				for i, j := 0, len(es)-1; i < j; i, j = i+1, j-1 {
					es[i], es[j] = es[j], es[i]
				}
			}
			for _, e := range es {
				ops = append(ops, op{kind: "addedge", a: e[0], b: e[1]})
			}
			ops = append(ops, queries(n, true, c)...)
			if adversarial {
				emit(c, fmt.Sprintf("ex%dnames", n), tableNames(drawTable(c.Rng, n)), ops)
			} else {
				emit(c, fmt.Sprintf("ex%d", n), nil, ops)
			}
		}
	}
}

func randomGraph(c *Config, maxNodes int, acyclicBias bool) ([]op, int) {
	r := c.Rng
	n := 1 + r.Intn(maxNodes)
	perm := r.Perm(n)
	var ops []op
	added := map[int]bool{}
	type e struct{ a, b int }
	have := map[e]bool{}
	ne := r.Intn(2*n + 1)
	if r.Intn(4) == 0 {
		ne = r.Intn(n*n/2 + 1)
	}
	// interleave node and edge insertions; an edge needs both ends
	ni := 0
	for ni < n || ne > 0 {
		if ni < n && (ne == 0 || ni < 2 || r.Intn(2) == 0) {
			ops = append(ops, op{kind: "addnode", a: perm[ni]})
			added[perm[ni]] = true
			ni++
			continue
		}
		a, b := perm[r.Intn(ni)], perm[r.Intn(ni)]
		if acyclicBias && a > b {
			a, b = b, a
		}
		if acyclicBias && a == b {
			ne--
			continue
		}
		if !have[e{a, b}] {
			have[e{a, b}] = true
			ops = append(ops, op{kind: "addedge", a: a, b: b})
		}
		ne--
	}
	ops = append(ops, queries(n, false, c)...)
	// removals followed by re-indexing, as Pipeline.resolve does, then more edges and queries
	rounds := r.Intn(3)
	for k := 0; k < rounds && len(have) > 0; k++ {
		touched := map[int]bool{}
		cnt := 1 + r.Intn(3)
		for ; cnt > 0 && len(have) > 0; cnt-- {
			var keys []e
			for x := range have {
				keys = append(keys, x)
			}
			sort.Slice(keys, func(i, j int) bool {
				if keys[i].a != keys[j].a {
					return keys[i].a < keys[j].a
				}
				return keys[i].b < keys[j].b
			})
			x := keys[r.Intn(len(keys))]
			delete(have, x)
			ops = append(ops, op{kind: "rmedge", a: x.a, b: x.b})
			touched[x.a] = true
		}
		var ts []int
		for t := range touched {
			ts = append(ts, t)
		}
		sort.Ints(ts)
		// half of the rounds add edges to the nodes that lost one BEFORE they are re-indexed
		// (Pipeline.resolve does RemoveEdge, AddEdge, RemoveEdge, ReindexNode): the new edge takes
		// rank len+1, which may collide with a surviving rank until ReindexNode repairs it
		if r.Intn(2) == 0 {
			for j := 1 + r.Intn(3); j > 0; j-- {
				a, b := ts[r.Intn(len(ts))], r.Intn(n)
				if !have[e{a, b}] {
					have[e{a, b}] = true
					ops = append(ops, op{kind: "addedge", a: a, b: b})
				}
			}
		}
		for _, t := range ts {
			ops = append(ops, op{kind: "reindex", a: t})
		}
		for j := r.Intn(3); j > 0; j-- {
			a, b := r.Intn(n), r.Intn(n)
			if !have[e{a, b}] {
				have[e{a, b}] = true
				ops = append(ops, op{kind: "addedge", a: a, b: b})
			}
		}
		ops = append(ops, queries(n, false, c)...)
	}
	return ops, n
}

// malformed: duplicate nodes and edges, unknown endpoints, removals of absent edges,
// sorting without re-indexing.  Node indices 0..n.
func malformed(c *Config) ([]op, int) {
	r := c.Rng
	n := 2 + r.Intn(5)
	var ops []op
	for k := 3 + r.Intn(25); k > 0; k-- {
		a, b := r.Intn(n+1), r.Intn(n+1)
		switch r.Intn(8) {
		case 0, 1:
			ops = append(ops, op{kind: "addnode", a: a})
		case 2, 3, 4:
			ops = append(ops, op{kind: "addedge", a: a, b: b})
		case 5:
			ops = append(ops, op{kind: "rmedge", a: a, b: b})
		case 6:
			ops = append(ops, op{kind: "reindex", a: a})
		case 7:
			ops = append(ops, op{kind: "sort"}, op{kind: "children", a: a}, op{kind: "parents", a: b}, op{kind: "cycle", a: b})
		}
	}
	ops = append(ops, op{kind: "sort"})
	return ops, n + 1
}

// nameCase: a small graph whose ROOT LIST and whose RE-INDEXED CHILD LISTS hold many names of one
// confusable family at once (the two places where toposort.go sorts strings): several roots, one or two
// hubs with many children, a removal, optionally a new edge, ReindexNode, Sort, FindChildren.
func nameCase(c *Config) ([]op, *namer) {
	r := c.Rng
	n := 3 + r.Intn(12)
	nm := tableNames(drawConfusable(r, n))
	perm := r.Perm(n)
	var ops []op
	for _, k := range perm {
		ops = append(ops, op{kind: "addnode", a: k})
	}
	type e struct{ a, b int }
	have := map[e]bool{}
	pos := make([]int, n) // position in the insertion order: edges go forward in it (acyclic)
	for i, k := range perm {
		pos[k] = i
	}
	add := func(a, b int) {
		if a != b && !have[e{a, b}] && pos[a] < pos[b] {
			have[e{a, b}] = true
			ops = append(ops, op{kind: "addedge", a: a, b: b})
		}
	}
	hubs := r.Intn(3)
	if hubs > n/3 {
		hubs = n / 3
	}
	for h := 0; h < hubs; h++ {
		hub := perm[h]
		var children []int
		for _, k := range r.Perm(n) {
			if pos[k] > pos[hub] && r.Intn(4) != 0 {
				add(hub, k)
				if have[e{hub, k}] {
					children = append(children, k)
				}
			}
		}
		if len(children) >= 2 && r.Intn(4) != 0 {
			// removal of one or two children, perhaps a new edge, then the re-index
			rm := 1 + r.Intn(2)
			for j := 0; j < rm && j < len(children)-1; j++ {
				ops = append(ops, op{kind: "rmedge", a: hub, b: children[j]})
				delete(have, e{hub, children[j]})
			}
			if r.Intn(2) == 0 {
				add(hub, children[0])
			}
			ops = append(ops, op{kind: "reindex", a: hub})
		}
		ops = append(ops, op{kind: "children", a: hub})
	}
	for j := r.Intn(n); j > 0; j-- {
		add(r.Intn(n), r.Intn(n))
	}
	ops = append(ops, op{kind: "sort"})
	if r.Intn(3) == 0 {
		// close a cycle and look for it
		a, b := perm[n-1], perm[0]
		if !have[e{a, b}] {
			ops = append(ops, op{kind: "addedge", a: a, b: b})
		}
		ops = append(ops, op{kind: "sort"}, op{kind: "cycle", a: b}, op{kind: "cycle", a: perm[n/2]})
	}
	return ops, nm
}

func main() {
	c := Setup()
	defer c.Close()
	if c.Replay != "" {
		for _, cs := range c.ReplayCases() {
			f, _ := cs.Field("ops")
			var ops []op
			for _, o := range f.Args() {
				ops = append(ops, parseOp(o))
			}
			emit(c, "replay", namerOfCase(cs), ops)
		}
		return
	}
	t0 := time.Now()
	phase := func(what string) {
		if os.Getenv("C15_TIMING") != "" {
			fmt.Fprintf(os.Stderr, "phase %s %v\n", what, time.Since(t0))
		}
		t0 = time.Now()
	}
	exhaustive(c, 1, true, false)
	exhaustive(c, 2, true, false)
	exhaustive(c, 3, true, false)
	if c.Thorough() {
		exhaustive(c, 4, true, false)
	} else {
		exhaustive(c, 4, false, false)
	}
	phase("exhaustive")
	exhaustive(c, 2, true, true)
	exhaustive(c, 3, true, true)
	phase("exhaustive-names")
	// three quarters of the random cases run under a drawn name table, one quarter under fixed-width names
	pick := func(n int) *namer {
		if c.Rng.Intn(4) == 0 {
			return nil
		}
		return tableNames(drawTable(c.Rng, n))
	}
	for i := c.Count(3000, 100000); i > 0; i-- {
		ops, n := randomGraph(c, 30, false)
		emit(c, "rnd", pick(n), ops)
	}
	phase("rnd")
	for i := c.Count(2000, 100000); i > 0; i-- {
		ops, n := randomGraph(c, 30, true)
		emit(c, "dag", pick(n), ops)
	}
	phase("dag")
	for i := c.Count(1500, 50000); i > 0; i-- {
		ops, n := malformed(c)
		emit(c, "malformed", pick(n), ops)
	}
	phase("malformed")
	for i := c.Count(2500, 100000); i > 0; i-- {
		ops, nm := nameCase(c)
		emit(c, "names", nm, ops)
	}
	phase("names")
	// Copy as an operation: several live graphs, copy, mutate either side, query both (copy.go)
	copyExhaustive(c, 0, true) // the copy of the EMPTY graph
	copyExhaustive(c, 1, true)
	copyExhaustive(c, 2, true)
	copyExhaustive(c, 3, c.Thorough())
	copyChains(c, 3, c.Count(4, 40))
	phase("copyex")
	for i := c.Count(2000, 60000); i > 0; i-- {
		kind, ops, n := copyRandom(c)
		emit(c, kind, pick(n), ops)
	}
	phase("copyrnd")
	if c.Tier != "search" {
		scale(c)
	}
	phase("scale")
}
