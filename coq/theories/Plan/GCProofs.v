(* C04_gc: the model of collectGarbage turns a plan that only uses live branches into a plan with a
   sound lifecycle, and erasing the deletes gives back the input.  For every plan. *)
From Coq Require Import List ZArith Bool Arith Lia Permutation Sorted.
From Herc Require Import Plan.Syntax Plan.Exec Plan.Graph Plan.Checker Plan.Lifecycle Plan.GC
  Plan.ExecProofs Plan.CheckerLemmas Plan.CheckerSound Plan.LifecycleProofs.
Import ListNotations.
Local Open Scope nat_scope.

(* ---------- the input domain ---------- *)

Definition gc_kind (a : action) : Prop :=
  kind a = KCommit \/ kind a = KFork \/ kind a = KMerge \/ kind a = KEmerge.

(* the plan only uses live branches, holds no delete / hibernate / boot yet, ids >= rootBranchIndex *)
Definition pre_ok (p : plan) : Prop :=
  lifecycle_ok p /\ Forall (fun a => gc_kind a /\ Forall (fun b => (1 <= b)%Z) (items a)) p.

Lemma pre_okb_spec p : pre_okb p = true -> pre_ok p.
Proof.
  unfold pre_okb, pre_ok. rewrite andb_true_iff. intros [G L]. split; [apply lifecycleb_sound; exact L|].
  unfold gc_inputb in G. rewrite forallb_forall in G. apply Forall_forall. intros a Ha.
  specialize (G a Ha). apply andb_true_iff in G. destruct G as [K I]. split.
  - unfold gc_kind, is_kind in *. destruct (kind a); simpl in K; try discriminate; auto.
  - apply Forall_forall. intros b Hb. rewrite forallb_forall in I. apply Z.leb_le. apply I. exact Hb.
Qed.

(* the branches collectGarbage records for an action *)
Definition mentions (a : action) : list Z :=
  match kind a, items a with
  | KCommit, b :: _ | KFork, b :: _ | KEmerge, b :: _ => [b]
  | KMerge, ms => ms
  | _, _ => []
  end.

(* ---------- lastMentioned ---------- *)

Lemma lm_get_set m k v k' : lm_get (lm_set m k v) k' = if Z.eqb k k' then Some v else lm_get m k'.
Proof.
  induction m as [|[k0 v0] r IH]; simpl.
  - reflexivity.
  - destruct (Z.eqb_spec k0 k) as [->|N]; simpl.
    + destruct (Z.eqb k k'); reflexivity.
    + rewrite IH. destruct (Z.eqb_spec k0 k') as [->|N']; [|reflexivity].
      destruct (Z.eqb_spec k k') as [->|_]; [congruence | reflexivity].
Qed.

Lemma lm_set_keys m k v : In k (map fst m) -> map fst (lm_set m k v) = map fst m.
Proof.
  induction m as [|[k0 v0] r IH]; simpl; [intros []|].
  destruct (Z.eqb k0 k) eqn:E.
  - intros _. apply Z.eqb_eq in E. subst. reflexivity.
  - intros [H|H]; [apply Z.eqb_neq in E; congruence|]. simpl. f_equal. apply IH. exact H.
Qed.

Lemma lm_set_keys_new m k v : ~ In k (map fst m) -> map fst (lm_set m k v) = map fst m ++ [k].
Proof.
  induction m as [|[k0 v0] r IH]; simpl; [reflexivity|].
  intro H. destruct (Z.eqb k0 k) eqn:E.
  - apply Z.eqb_eq in E. exfalso. apply H. left. exact E.
  - simpl. f_equal. apply IH. intro H'. apply H. right. exact H'.
Qed.

Lemma lm_set_nodup m k v : NoDup (map fst m) -> NoDup (map fst (lm_set m k v)).
Proof.
  intro H. destruct (in_dec Z.eq_dec k (map fst m)) as [I|I].
  - rewrite lm_set_keys; assumption.
  - rewrite lm_set_keys_new by assumption.
    eapply Permutation_NoDup; [apply Permutation_cons_append|]. constructor; assumption.
Qed.

Lemma lm_fold_get i : forall its m k,
    lm_get (fold_left (fun m' it => lm_set m' it i) its m) k = if memzb k its then Some i else lm_get m k.
Proof.
  induction its as [|t its IH]; intros m k; simpl; [reflexivity|].
  rewrite IH, lm_get_set, (Z.eqb_sym k t). destruct (memzb k its); simpl.
  - rewrite orb_true_r. reflexivity.
  - rewrite orb_false_r. reflexivity.
Qed.

Lemma lm_fold_nodup i : forall its m, NoDup (map fst m) -> NoDup (map fst (fold_left (fun m' it => lm_set m' it i) its m)).
Proof.
  induction its as [|t its IH]; intros m H; simpl; [exact H|]. apply IH. apply lm_set_nodup. exact H.
Qed.

Lemma lm_get_in m k v : NoDup (map fst m) -> (lm_get m k = Some v <-> In (k, v) m).
Proof.
  induction m as [|[k0 v0] r IH]; simpl; intro H.
  - split; [discriminate | intros []].
  - inversion H as [|? ? Hn Hr]; subst. destruct (Z.eqb k0 k) eqn:E.
    + apply Z.eqb_eq in E. subst k0. split.
      * intro H'. injection H' as ->. left. reflexivity.
      * intros [H'|H']; [injection H' as ->; reflexivity|].
        exfalso. apply Hn. apply in_map_iff. exists (k, v). split; [reflexivity | exact H'].
    + rewrite (IH Hr). split; [intro H'; right; exact H'|].
      intros [H'|H']; [|exact H']. injection H' as -> ->. rewrite Z.eqb_refl in E. discriminate.
Qed.

(* the index of the last action of p (numbered from i) that mentions k *)
Fixpoint lastf (f : action -> list Z) (p : plan) (i : nat) (k : Z) : option nat :=
  match p with
  | [] => None
  | a :: r =>
      match lastf f r (S i) k with
      | Some v => Some v
      | None => if memzb k (f a) then Some i else None
      end
  end.
Notation lastm := (lastf mentions).

Lemma last_mentioned_spec : forall p i m m',
    last_mentioned p i m = Some m' -> NoDup (map fst m) ->
    NoDup (map fst m') /\
    forall k, lm_get m' k = match lastm p i k with Some v => Some v | None => lm_get m k end.
Proof.
  induction p as [|a r IH]; intros i m m' H Hn; simpl in H.
  - injection H as <-. split; [exact Hn | reflexivity].
  - destruct (items a) as [|first its] eqn:I; [discriminate|].
    assert (M1 : forall m1, last_mentioned r (S i) m1 = Some m' -> NoDup (map fst m1) ->
                 (forall k, lm_get m1 k = if memzb k (mentions a) then Some i else lm_get m k) ->
                 NoDup (map fst m') /\
                 forall k, lm_get m' k = match lastm (a :: r) i k with Some v => Some v | None => lm_get m k end).
    { intros m1 H1 Hn1 Hg. destruct (IH _ _ _ H1 Hn1) as [N G]. split; [exact N|].
      intro k. rewrite G. simpl. destruct (lastm r (S i) k); [reflexivity|]. rewrite Hg.
      destruct (memzb k (mentions a)); reflexivity. }
    unfold mentions in M1. rewrite I in M1.
    destruct (kind a) eqn:K.
    + destruct (Z.ltb first 1); [discriminate|]. apply (M1 _ H); [apply lm_set_nodup; exact Hn|].
      intro k. rewrite lm_get_set. simpl. rewrite (Z.eqb_sym k first), orb_false_r. reflexivity.
    + apply (M1 _ H); [apply lm_set_nodup; exact Hn|].
      intro k. rewrite lm_get_set. simpl. rewrite (Z.eqb_sym k first), orb_false_r. reflexivity.
    + apply (M1 _ H); [apply lm_fold_nodup; exact Hn|]. intro k. apply lm_fold_get.
    + apply (M1 _ H); [apply lm_set_nodup; exact Hn|].
      intro k. rewrite lm_get_set. simpl. rewrite (Z.eqb_sym k first), orb_false_r. reflexivity.
    + apply (M1 _ H Hn). intro k. reflexivity.
    + apply (M1 _ H Hn). intro k. reflexivity.
    + apply (M1 _ H Hn). intro k. reflexivity.
Qed.

Lemma last_mentioned_total : forall p i m,
    Forall (fun a => wf_action a /\ Forall (fun b => (1 <= b)%Z) (items a)) p ->
    exists m', last_mentioned p i m = Some m'.
Proof.
  induction p as [|a r IH]; intros i m H; simpl; [eexists; reflexivity|].
  inversion H as [|? ? [W I] Hr]; subst.
  destruct (items a) as [|first its] eqn:E.
  - exfalso. unfold wf_action in W. destruct (kind a); rewrite E in W;
      try (destruct W as [? [? [_ W]]]; discriminate); try (destruct W as [? W]; discriminate);
      try (destruct W as [? [? [? W]]]; discriminate); try (apply W; reflexivity).
  - inversion I as [|? ? I1 _]; subst.
    destruct (kind a); try apply IH; try exact Hr.
    destruct (Z.ltb first 1) eqn:L; [apply Z.ltb_lt in L; lia | apply IH; exact Hr].
Qed.

(* ---------- positions in the plan ---------- *)

Definition dummy : action := mkA KDelete None [].

Lemma lastm_none : forall q i k, lastm q i k = None ->
    forall n, n < length q -> ~ In k (mentions (nth n q dummy)).
Proof.
  induction q as [|a r IH]; intros i k H n Hn; simpl in Hn; [lia|].
  simpl in H. destruct (lastm r (S i) k) eqn:L; [discriminate|].
  destruct (memzb k (mentions a)) eqn:M; [discriminate|].
  destruct n as [|n]; simpl.
  - apply memzb_false. exact M.
  - apply (IH (S i)); [exact L | lia].
Qed.

Lemma lastm_spec : forall q i k v, lastm q i k = Some v ->
    i <= v < i + length q /\ In k (mentions (nth (v - i) q dummy)) /\
    forall j, v < j -> j < i + length q -> ~ In k (mentions (nth (j - i) q dummy)).
Proof.
  induction q as [|a r IH]; intros i k v H; simpl in H; [discriminate|].
  destruct (lastm r (S i) k) as [v'|] eqn:L.
  - injection H as <-. destruct (IH _ _ _ L) as [R [M N]]. simpl length. split; [lia|]. split.
    + replace (v' - i) with (S (v' - S i)) by lia. exact M.
    + intros j J1 J2. replace (j - i) with (S (j - S i)) by lia. apply N; lia.
  - destruct (memzb k (mentions a)) eqn:M; [|discriminate].
    assert (E : i = v) by congruence. subst v.
    simpl length. split; [lia|]. split.
    + rewrite Nat.sub_diag. simpl. apply memzb_In. exact M.
    + intros j J1 J2. replace (j - i) with (S (j - S i)) by lia. simpl.
      apply (lastm_none r (S i) k L). lia.
Qed.

Lemma skipn_add {A} : forall b (l : list A) a, skipn a (skipn b l) = skipn (b + a) l.
Proof.
  induction b as [|b IH]; intros l a; [reflexivity|].
  destruct l as [|x r]; simpl; [apply skipn_nil | apply IH].
Qed.

Lemma In_firstn {A} (x : A) : forall n l, In x (firstn n l) -> In x l.
Proof.
  induction n as [|n IH]; intros l H; [destruct H|].
  destruct l as [|y r]; [destruct H|]. destruct H as [H|H]; [left; exact H | right; apply IH; exact H].
Qed.

Lemma In_skipn {A} (x : A) : forall n l, In x (skipn n l) -> In x l.
Proof.
  induction n as [|n IH]; intros l H; [exact H|].
  destruct l as [|y r]; [destruct H|]. right. apply IH. exact H.
Qed.

Lemma split_nth {A} (d : A) : forall (l : list A) j,
    j < length l -> l = firstn j l ++ nth j l d :: skipn (S j) l.
Proof.
  induction l as [|a r IH]; intros j H; simpl in H; [lia|].
  destruct j as [|j]; simpl; [reflexivity|]. f_equal. apply IH. lia.
Qed.

Section Plan.
  Variable p : plan.
  Let len := length p.
  Definition act (j : nat) : action := nth j p dummy.
  Definition S_ (j : nat) : state := run init (firstn j p).

  Lemma split_at j : j < len -> p = firstn j p ++ act j :: skipn (S j) p.
  Proof. intro H. apply split_nth. exact H. Qed.

  Lemma S_step j : j < len -> S_ (S j) = step (S_ j) (act j).
  Proof.
    intro H. unfold S_. rewrite (split_at j H) at 1.
    assert (L : length (firstn j p) = j) by (apply firstn_length_le; unfold len in H; lia).
    replace (S j) with (length (firstn j p) + 1) at 1 by lia.
    rewrite firstn_app_2. simpl firstn. rewrite run_app. reflexivity.
  Qed.

  Lemma slice_nil a : slice p a a = [].
  Proof. unfold slice. rewrite Nat.sub_diag. reflexivity. Qed.

  Lemma slice_cons a b : a < b -> a < len -> slice p a b = act a :: slice p (S a) b.
  Proof.
    intros H L. unfold slice. rewrite (split_at a L) at 1.
    assert (E : length (firstn a p) = a) by (apply firstn_length_le; unfold len in L; lia).
    rewrite skipn_app, skipn_all2 by lia. rewrite E, Nat.sub_diag. simpl skipn.
    replace (b - a) with (S (b - S a)) by lia. reflexivity.
  Qed.

  Lemma slice_to_end a : a <= len -> slice p a len = skipn a p.
  Proof.
    intro H. unfold slice. apply firstn_all2. rewrite skipn_length. unfold len. lia.
  Qed.

End Plan.

(* ---------- one step of the simulation: the collected plan runs like the input plan, except that the
   branches in P (already disposed) are Disposed ---------- *)

Definition rel (P : list Z) (t s : state) : Prop :=
  forall b, get t b = if memzb b P then Disposed else get s b.

Lemma flat_map_ext_in' {A B} (f g : A -> list B) l :
  (forall x, In x l -> f x = g x) -> flat_map f l = flat_map g l.
Proof.
  induction l as [|x r IH]; intro H; simpl; [reflexivity|].
  rewrite (H x) by (left; reflexivity). f_equal. apply IH. intros y Hy. apply H. right. exact Hy.
Qed.

Lemma uses_mentions a : gc_kind a -> forall b, In b (uses a) -> In b (mentions a).
Proof.
  unfold gc_kind, uses, mentions. intros [K|[K|[K|K]]] b; rewrite K; destruct (items a); simpl; tauto.
Qed.

Lemma boots_gc a : gc_kind a -> boots a = [].
Proof. unfold gc_kind, boots. intros [K|[K|[K|K]]]; rewrite K; reflexivity. Qed.

Lemma upd_nonabsent f l : l <> Absent -> upd f l <> Absent.
Proof. destruct l; simpl; congruence. Qed.

Lemma sim_step P t s a :
  rel P t s -> step_ok s a -> gc_kind a ->
  (forall b, In b P -> ~ In b (mentions a) /\ ~ In b (creates a)) ->
  step_ok t a /\ rel P (step t a) (step s a).
Proof.
  intros R [W [N [U [C B]]]] G HP.
  assert (Eq : forall b, In b (mentions a) \/ In b (creates a) -> memzb b P = false /\ get t b = get s b).
  { intros b Hb. assert (F : memzb b P = false).
    { apply memzb_false. intro Hin. destruct (HP b Hin) as [H1 H2]. tauto. }
    split; [exact F|]. rewrite (R b), F. reflexivity. }
  split.
  - split; [exact W|]. split; [exact N|]. split; [|split].
    + intros b Hb. destruct (U b Hb) as [x Hx]. exists x.
      destruct (Eq b (or_introl (uses_mentions a G b Hb))) as [_ E]. rewrite E. exact Hx.
    + intros b Hb. destruct (Eq b (or_intror Hb)) as [_ E]. rewrite E. apply C. exact Hb.
    + rewrite (boots_gc a G). intros b [].
  - intro b'. unfold wf_action in W. unfold mentions, creates in Eq. unfold step.
    destruct a as [k co its]. cbn [kind items commit] in *.
    destruct G as [K|[K|[K|K]]]; cbn [kind] in K; subst k.
    + (* commit *)
      destruct W as [c [b [-> ->]]]. rewrite !get_set.
      destruct (Z.eqb_spec b b') as [<-|Hne]; [|apply R].
      destruct (Eq b (or_introl (or_introl eq_refl))) as [F E]. rewrite F, E. reflexivity.
    + (* fork *)
      destruct W as [b [t1 [ts ->]]].
      rewrite (get_fold_set (fun _ => get t b)), (get_fold_set (fun _ => get s b)).
      destruct (Eq b (or_introl (or_introl eq_refl))) as [_ E].
      destruct (memzb b' (t1 :: ts)) eqn:M; [|apply R].
      apply memzb_In in M. destruct (Eq b' (or_intror M)) as [F _]. rewrite F, E. reflexivity.
    + (* merge *)
      rewrite (get_fold_set (fun m => upd (fun x => mkB (flat_map (fun m0 => inc_of (get t m0)) its) (last x)) (get t m))).
      rewrite (get_fold_set (fun m => upd (fun x => mkB (flat_map (fun m0 => inc_of (get s m0)) its) (last x)) (get s m))).
      destruct (memzb b' its) eqn:M; [|apply R].
      apply memzb_In in M. destruct (Eq b' (or_introl M)) as [F E]. rewrite F, E.
      rewrite (flat_map_ext_in' (fun m0 => inc_of (get t m0)) (fun m0 => inc_of (get s m0))); [reflexivity|].
      intros x Hx. destruct (Eq x (or_introl Hx)) as [_ Ex]. rewrite Ex. reflexivity.
    + (* emerge *)
      destruct W as [b ->]. rewrite !get_set.
      destruct (Z.eqb_spec b b') as [<-|Hne]; [|apply R].
      destruct (Eq b (or_introl (or_introl eq_refl))) as [F E]. rewrite F. reflexivity.
Qed.

Lemma mention_awake_after s a k : step_ok s a -> gc_kind a -> In k (mentions a) -> awake (step s a) k.
Proof.
  intros [W [N [U [C B]]]] G Hk. unfold wf_action in W. unfold mentions in Hk. unfold uses in U. unfold step, awake.
  destruct a as [kd co its]. cbn [kind items commit] in *.
  destruct G as [K|[K|[K|K]]]; cbn [kind] in K; subst kd.
  - destruct W as [c [b [-> ->]]]. destruct Hk as [<-|[]]. rewrite get_set_eq.
    destruct (U b (or_introl eq_refl)) as [x Hx]. rewrite Hx. simpl. eexists. reflexivity.
  - destruct W as [b [t1 [ts ->]]]. destruct Hk as [<-|[]].
    rewrite (get_fold_set (fun _ => get s b)).
    destruct (memzb b (t1 :: ts)) eqn:M; apply (U b (or_introl eq_refl)).
  - rewrite (get_fold_set (fun m => upd (fun x => mkB (flat_map (fun m0 => inc_of (get s m0)) its) (last x)) (get s m))).
    apply memzb_In in Hk. rewrite Hk. apply memzb_In in Hk. destruct (U k Hk) as [x Hx]. rewrite Hx. simpl. eexists. reflexivity.
  - destruct W as [b ->]. destruct Hk as [<-|[]]. rewrite get_set_eq. eexists. reflexivity.
Qed.

Lemma nonabsent_step s a b : step_ok s a -> get s b <> Absent -> get (step s a) b <> Absent.
Proof.
  intros [W [N [U [C B]]]] H. unfold wf_action in W. unfold uses in U. unfold step.
  destruct a as [kd co its]. cbn [kind items commit] in *. destruct kd.
  - destruct W as [c [b0 [-> ->]]]. rewrite get_set. destruct (Z.eqb_spec b0 b) as [->|_]; [apply upd_nonabsent|]; exact H.
  - destruct W as [b0 [t1 [ts ->]]]. rewrite (get_fold_set (fun _ => get s b0)).
    destruct (memzb b (t1 :: ts)); [|exact H]. destruct (U b0 (or_introl eq_refl)) as [x Hx]. rewrite Hx. discriminate.
  - rewrite (get_fold_set (fun m => upd (fun x => mkB (flat_map (fun m0 => inc_of (get s m0)) its) (last x)) (get s m))).
    destruct (memzb b its); [apply upd_nonabsent|]; exact H.
  - destruct W as [b0 ->]. rewrite get_set. destruct (Z.eqb b0 b); [discriminate | exact H].
  - destruct W as [b0 ->]. rewrite get_set. destruct (Z.eqb b0 b); [discriminate | exact H].
  - rewrite get_fold_hibernate. destruct (memzb b its); [|exact H]. destruct (get s b); simpl; congruence.
  - rewrite get_fold_boot. destruct (memzb b its); [|exact H]. destruct (get s b); simpl; congruence.
Qed.

Lemma erase_deletes_gc q : Forall gc_kind q -> erase_deletes q = q.
Proof.
  induction 1 as [|a r G _ IH]; [reflexivity|]. unfold erase_deletes. simpl.
  unfold is_kind. destruct G as [K|[K|[K|K]]]; rewrite K; simpl; f_equal; exact IH.
Qed.

Lemma erase_deletes_app p q : erase_deletes (p ++ q) = erase_deletes p ++ erase_deletes q.
Proof. unfold erase_deletes. apply filter_app. Qed.

(* ---------- the emission loop ---------- *)

Section Loop.
  Variable p : plan.
  Hypothesis Hpre : pre_ok p.
  Let len := length p.

  Lemma act_ok j : j < len -> step_ok (S_ p j) (act p j) /\ gc_kind (act p j) /\ Forall (fun b => (1 <= b)%Z) (items (act p j)).
  Proof.
    intro H. destruct Hpre as [L F]. split.
    - apply (L (firstn j p) (act p j) (skipn (S j) p)). apply split_at. exact H.
    - rewrite Forall_forall in F. apply (F (act p j)). unfold act. apply nth_In. exact H.
  Qed.

  Lemma nonabsent_S b : forall j2 j1, j1 <= j2 -> j2 <= len -> get (S_ p j1) b <> Absent -> get (S_ p j2) b <> Absent.
  Proof.
    induction j2 as [|j2 IH]; intros j1 H1 H2 H.
    - replace j1 with 0 in H by lia. exact H.
    - destruct (Nat.eq_dec j1 (S j2)) as [->|Hne]; [exact H|].
      rewrite S_step by (unfold len in H2; lia). apply nonabsent_step; [apply act_ok; lia|].
      apply (IH j1); [lia | lia | exact H].
  Qed.

  (* a branch whose last mention is at v is live and awake right after action v, and never absent later *)
  Lemma mentioned_awake k v : lastm p 0 k = Some v -> v < len /\ awake (S_ p (S v)) k.
  Proof.
    intro H. destruct (lastm_spec p 0 k v H) as [R [M _]]. rewrite Nat.sub_0_r in M.
    assert (V : v < len) by (unfold len; lia). split; [exact V|].
    rewrite S_step by exact V. destruct (act_ok v V) as [SO [G _]].
    apply mention_awake_after; assumption.
  Qed.

  Definition dead_ok (P : list Z) (next : nat) : Prop :=
    forall b, In b P -> exists v, lastm p 0 b = Some v /\ v < next.

  Lemma seg_sim P : forall n next t,
      next + n <= len -> rel P t (S_ p next) -> dead_ok P next ->
      lifecycle_from t (slice p next (next + n)) /\
      rel P (run t (slice p next (next + n))) (S_ p (next + n)).
  Proof.
    induction n as [|n IH]; intros next t Hl R D.
    - rewrite Nat.add_0_r, slice_nil. split; [apply Forall_pre_nil | exact R].
    - assert (V : next < len) by lia.
      rewrite slice_cons by (fold len; lia).
      destruct (act_ok next V) as [SO [G _]].
      destruct (sim_step P t (S_ p next) (act p next) R SO G) as [SO' R'].
      { intros b Hb. destruct (D b Hb) as [v [Lv Hv]].
        destruct (lastm_spec p 0 b v Lv) as [_ [_ Nm]]. split.
        - specialize (Nm next Hv). rewrite Nat.sub_0_r in Nm. apply Nm. fold len. lia.
        - intro Hc. destruct SO as [_ [_ [_ [C _]]]]. specialize (C b Hc).
          destruct (mentioned_awake b v Lv) as [_ [x Hx]].
          apply (nonabsent_S b next (S v)); [lia | lia | rewrite Hx; discriminate | exact C]. }
      rewrite <- S_step in R' by exact V.
      replace (next + S n) with (S next + n) by lia.
      destruct (IH (S next) (step t (act p next))) as [L2 R2]; [lia | exact R' | |].
      { intros b Hb. destruct (D b Hb) as [v [Lv Hv]]. exists v. split; [exact Lv | lia]. }
      split; [apply (Forall_pre_cons step_ok); assumption | rewrite run_cons; exact R2].
  Qed.

  Lemma slice_skipn a b : a <= b -> slice p a b ++ skipn b p = skipn a p.
  Proof.
    intro H. unfold slice. replace b with (a + (b - a)) at 2 by lia.
    rewrite <- skipn_add. apply firstn_skipn.
  Qed.

  Lemma slice_gc a b : Forall gc_kind (slice p a b).
  Proof.
    destruct Hpre as [_ F]. apply Forall_forall. intros x Hx. unfold slice in Hx.
    apply In_firstn, In_skipn in Hx. rewrite Forall_forall in F. apply (F x Hx).
  Qed.

  Definition sentinel : nat * Z := (len - 1, (-1)%Z).

  Lemma gc_loop_ok : forall arr next t P,
      next <= len -> 1 <= len ->
      rel P t (S_ p next) -> dead_ok P next ->
      StronglySorted (fun x y => fst x <= fst y) arr ->
      (forall v k, In (v, k) arr -> lastm p 0 k = Some v /\ next <= S v /\ (0 <= k)%Z /\ ~ In k P) ->
      NoDup (map snd arr) ->
      lifecycle_from t (gc_loop p next (arr ++ [sentinel])) /\
      erase_deletes (gc_loop p next (arr ++ [sentinel])) = skipn next p.
  Proof.
    induction arr as [|[v k] r IH]; intros next t P Hn Hl R D Srt Ent Nd.
    - simpl. replace (S (len - 1)) with len by lia. rewrite app_nil_r.
      destruct (seg_sim P (len - next) next t) as [L _]; [lia | exact R | exact D|].
      replace (next + (len - next)) with len in L by lia.
      split; [exact L|]. rewrite erase_deletes_gc by apply slice_gc. apply slice_to_end. exact Hn.
    - destruct (Ent v k (or_introl eq_refl)) as [Lv [Hv [Hk HkP]]].
      destruct (mentioned_awake k v Lv) as [V Aw].
      cbn [app gc_loop]. assert (Ek : (0 <=? k)%Z = true) by (apply Z.leb_le; exact Hk). rewrite Ek.
      destruct (seg_sim P (S v - next) next t) as [L1 R1]; [lia | exact R | exact D|].
      replace (next + (S v - next)) with (S v) in L1, R1 by lia.
      set (t1 := run t (slice p next (S v))) in *.
      assert (SOd : step_ok t1 (delete k)).
      { split; [exists k; reflexivity|]. cbn [delete items uses creates boots kind].
        split; [constructor; [intros []|constructor]|].
        split; [|split; intros b []]. intros b [<-|[]]. destruct Aw as [x Hx]. exists x.
        rewrite (R1 k). apply memzb_false in HkP. rewrite HkP. exact Hx. }
      inversion Srt as [|? ? Srt' Hall]; subst.
      destruct (IH (S v) (step t1 (delete k)) (k :: P)) as [L2 E2]; try lia; try assumption.
      + intro b. unfold step, delete. cbn [kind items]. rewrite get_set. simpl memzb.
        rewrite (Z.eqb_sym b k). destruct (Z.eqb k b); [reflexivity | apply R1].
      + intros b [<-|Hb]; [exists v; split; [exact Lv | lia]|].
        destruct (D b Hb) as [v' [Lv' Hv']]. exists v'. split; [exact Lv' | lia].
      + intros v' k' Hin. destruct (Ent v' k' (or_intror Hin)) as [Lv' [_ [Hk' HkP']]].
        split; [exact Lv'|]. split.
        * rewrite Forall_forall in Hall. specialize (Hall (v', k') Hin). simpl in Hall. lia.
        * split; [exact Hk'|]. intros [<-|Hb]; [|apply HkP'; exact Hb].
          simpl in Nd. inversion Nd as [|? ? Hnin _]; subst. apply Hnin.
          apply in_map_iff. exists (v', k). split; [reflexivity | exact Hin].
      + simpl in Nd. inversion Nd; assumption.
      + split.
        * apply (Forall_pre_app step_ok); [exact L1|]. fold t1. apply (Forall_pre_cons step_ok); assumption.
        * rewrite erase_deletes_app. change (delete k :: ?q) with ([delete k] ++ q). rewrite erase_deletes_app.
          rewrite E2, erase_deletes_gc by apply slice_gc. simpl. apply slice_skipn. lia.
  Qed.
End Loop.

(* ---------- lastMentionedArr and the sort ---------- *)

Lemma gc_arr_in m len v k : In (v, k) (gc_arr m len) <-> In (k, v) m /\ v <> len - 1.
Proof.
  unfold gc_arr. rewrite in_flat_map. split.
  - intros [[k0 v0] [Hin H]]. simpl in H. destruct (Nat.eqb_spec v0 (len - 1)) as [E|E]; [destruct H|].
    destruct H as [H|[]]. injection H as -> ->. split; assumption.
  - intros [Hin Hne]. exists (k, v). split; [exact Hin|]. simpl.
    destruct (Nat.eqb_spec v (len - 1)) as [E|E]; [contradiction | left; reflexivity].
Qed.

Lemma gc_arr_nodup len : forall m, NoDup (map fst m) -> NoDup (map snd (gc_arr m len)).
Proof.
  induction m as [|[k v] r IH]; intro H; [constructor|].
  inversion H as [|? ? Hn Hr]; subst. unfold gc_arr. simpl flat_map.
  destruct (v =? len - 1); simpl; [apply IH; exact Hr|].
  constructor; [|apply IH; exact Hr].
  intro Hin. apply Hn. apply in_map_iff in Hin. destruct Hin as [[v' k'] [E Hin]]. simpl in E. subst k'.
  apply gc_arr_in in Hin. destruct Hin as [Hin _]. apply in_map_iff. exists (k, v'). split; [reflexivity | exact Hin].
Qed.

Definition by_index (x y : nat * Z) : Prop := fst x <= fst y.

Lemma pair_leb_true x y : pair_leb x y = true -> by_index x y.
Proof.
  unfold pair_leb, by_index. rewrite orb_true_iff, andb_true_iff. intros [H|[H _]].
  - apply Nat.ltb_lt in H. lia.
  - apply Nat.eqb_eq in H. lia.
Qed.

Lemma pair_leb_false x y : pair_leb x y = false -> by_index y x.
Proof.
  unfold pair_leb, by_index. rewrite orb_false_iff. intros [H _]. apply Nat.ltb_ge in H. exact H.
Qed.

Lemma ins_pair_perm x : forall l, Permutation (x :: l) (ins_pair x l).
Proof.
  induction l as [|y r IH]; simpl; [reflexivity|].
  destruct (pair_leb x y); [reflexivity|].
  etransitivity; [apply perm_swap|]. apply perm_skip. exact IH.
Qed.

Lemma ins_pair_sorted x : forall l, StronglySorted by_index l -> StronglySorted by_index (ins_pair x l).
Proof.
  induction l as [|y r IH]; intro H; simpl.
  - constructor; constructor.
  - inversion H as [|? ? Hr Hall]; subst. destruct (pair_leb x y) eqn:E.
    + constructor; [exact H|]. constructor; [apply pair_leb_true; exact E|].
      apply pair_leb_true in E. rewrite Forall_forall in *. intros z Hz. specialize (Hall z Hz).
      unfold by_index in *. lia.
    + constructor; [apply IH; exact Hr|].
      apply pair_leb_false in E. rewrite Forall_forall in *. intros z Hz.
      apply (Permutation_in _ (Permutation_sym (ins_pair_perm x r))) in Hz.
      destruct Hz as [<-|Hz]; [exact E | apply Hall; exact Hz].
Qed.

Lemma sort_pairs_perm l : Permutation l (sort_pairs l).
Proof.
  induction l as [|x r IH]; simpl; [reflexivity|].
  etransitivity; [apply perm_skip; exact IH | apply ins_pair_perm].
Qed.

Lemma sort_pairs_sorted l : StronglySorted by_index (sort_pairs l).
Proof. induction l as [|x r IH]; simpl; [constructor | apply ins_pair_sorted; exact IH]. Qed.

(* ---------- the theorems ---------- *)

Theorem gc_correct : forall p, pre_ok p ->
  exists m, last_mentioned p 0 [] = Some m /\
    forall arr, Permutation (gc_arr m (length p)) arr -> StronglySorted by_index arr ->
      lifecycle_ok (gc_emit p arr) /\ erase_deletes (gc_emit p arr) = p.
Proof.
  intros p Hpre.
  assert (Hwf : Forall (fun a => wf_action a /\ Forall (fun b => (1 <= b)%Z) (items a)) p).
  { destruct Hpre as [L F]. pose proof (lifecycle_shape _ _ L) as W.
    rewrite Forall_forall in *. intros a Ha. split; [apply W; exact Ha | apply (F a Ha)]. }
  destruct (last_mentioned_total p 0 [] Hwf) as [m Hm]. exists m. split; [exact Hm|].
  destruct (last_mentioned_spec p 0 [] m Hm) as [Nd Get]; [constructor|].
  intros arr Perm Srt.
  assert (Gk : Forall gc_kind p).
  { destruct Hpre as [_ F]. rewrite Forall_forall in *. intros a Ha. apply (F a Ha). }
  destruct arr as [|e arr0].
  { simpl. split; [apply Hpre | apply erase_deletes_gc; exact Gk]. }
  assert (Hne : e :: arr0 <> []) by discriminate. revert Perm Srt Hne. generalize (e :: arr0) as arr. intros arr Perm Srt Hne.
  assert (Ent : forall v k, In (v, k) arr -> lastm p 0 k = Some v).
  { intros v k Hin. apply (Permutation_in _ (Permutation_sym Perm)) in Hin. apply gc_arr_in in Hin.
    destruct Hin as [Hin _]. apply (lm_get_in m k v Nd) in Hin. rewrite Get in Hin. simpl in Hin.
    destruct (lastm p 0 k); [exact Hin | discriminate]. }
  assert (Hlen : 1 <= length p).
  { destruct arr as [|[v k] r]; [contradiction|]. destruct (lastm_spec p 0 k v (Ent v k (or_introl eq_refl))) as [R _]. lia. }
  unfold gc_emit. replace (match arr with [] => p | _ :: _ => gc_loop p 0 (arr ++ [((length p - 1), (-1)%Z)]) end)
    with (gc_loop p 0 (arr ++ [sentinel p])) by (destruct arr; [contradiction | reflexivity]).
  destruct (gc_loop_ok p Hpre arr 0 init []) as [L E]; try assumption; try lia.
  - intro b. reflexivity.
  - intros b [].
  - intros v k Hin. pose proof (Ent v k Hin) as Lv. split; [exact Lv|]. split; [lia|]. split; [|intros []].
    destruct (lastm_spec p 0 k v Lv) as [R [M _]]. rewrite Nat.sub_0_r in M.
    destruct (act_ok p Hpre v) as [_ [_ I]]; [lia|]. fold (act p v) in M.
    assert (Hi : In k (items (act p v))).
    { unfold mentions in M. destruct (kind (act p v)); destruct (items (act p v)) as [|b0 r0]; simpl in M |- *; tauto. }
    rewrite Forall_forall in I. specialize (I k Hi). lia.
  - eapply Permutation_NoDup; [apply Permutation_map; exact Perm | apply gc_arr_nodup; exact Nd].
  - split; [exact L | exact E].
Qed.

Theorem gc_sound : forall p, pre_ok p ->
  exists p', collect_garbage p = Some p' /\ lifecycle_ok p' /\ erase_deletes p' = p.
Proof.
  intros p Hpre. destruct (gc_correct p Hpre) as [m [Hm H]].
  unfold collect_garbage. rewrite Hm. eexists. split; [reflexivity|].
  apply H; [apply sort_pairs_perm | apply sort_pairs_sorted].
Qed.
