(* Shared helpers, compiled once per property with  -open <Cxx_model>  so that the constructor
   names below resolve to that extraction's own nat / positive / N / Z. *)
let rec pos_of_int n =
  if n <= 1 then XH
  else if n land 1 = 0 then XO (pos_of_int (n lsr 1))
  else XI (pos_of_int (n lsr 1))
let rec int_of_pos = function XH -> 1 | XO p -> 2 * int_of_pos p | XI p -> 2 * int_of_pos p + 1
let z_of_int n = if n = 0 then Z0 else if n > 0 then Zpos (pos_of_int n) else Zneg (pos_of_int (- n))
let int_of_z = function Z0 -> 0 | Zpos p -> int_of_pos p | Zneg p -> - (int_of_pos p)
let n_of_int n = if n = 0 then N0 else Npos (pos_of_int n)
let int_of_n = function N0 -> 0 | Npos p -> int_of_pos p
let rec nat_of_int n = if n <= 0 then O else S (nat_of_int (n - 1))
let int_of_nat n = let rec go acc = function O -> acc | S m -> go (acc + 1) m in go 0 n

(* S-expressions: the trace format written by the Go harness *)
type sx = A of string | L of sx list

let tokenize (s : string) : string list =
  let toks = ref [] and buf = Buffer.create 16 in
  let flush () = if Buffer.length buf > 0 then (toks := Buffer.contents buf :: !toks; Buffer.clear buf) in
  String.iter (fun c -> match c with
    | '(' | ')' -> flush (); toks := String.make 1 c :: !toks
    | ' ' | '\t' | '\n' | '\r' -> flush ()
    | c -> Buffer.add_char buf c) s;
  flush (); List.rev !toks

let parse_sx (s : string) : sx =
  let toks = ref (tokenize s) in
  let rec parse () =
    match !toks with
    | [] -> failwith "sx: unexpected end"
    | "(" :: r -> toks := r; let items = ref [] in
        let rec loop () = match !toks with
          | ")" :: r -> toks := r
          | [] -> failwith "sx: missing )"
          | _ -> items := parse () :: !items; loop () in
        loop (); L (List.rev !items)
    | ")" :: _ -> failwith "sx: unexpected )"
    | t :: r -> toks := r; A t in
  parse ()

let rec string_of_sx = function
  | A s -> s
  | L l -> "(" ^ String.concat " " (List.map string_of_sx l) ^ ")"

let tag = function L (A t :: _) -> t | _ -> ""
let args = function L (_ :: r) -> r | _ -> []
let field (t : string) (s : sx) : sx =
  try List.find (fun x -> tag x = t) (args s) with Not_found -> failwith ("sx: no field " ^ t)
let field_opt (t : string) (s : sx) : sx option =
  try Some (List.find (fun x -> tag x = t) (args s)) with Not_found -> None
let atom = function A s -> s | s -> failwith ("sx: atom expected: " ^ string_of_sx s)
let int_of_sx s = int_of_string (atom s)
let list_of_sx = function L l -> l | s -> failwith ("sx: list expected: " ^ string_of_sx s)
let ints_of_sx s = List.map int_of_sx (list_of_sx s)
let zs_of_sx s = List.map (fun x -> z_of_int (int_of_sx x)) (list_of_sx s)
let sx_of_ints l = L (List.map (fun i -> A (string_of_int i)) l)
let sx_of_zs l = sx_of_ints (List.map int_of_z l)
let bool_of_sx s = int_of_sx s <> 0

(* reporting: one line per finding, then a STATS line; the orchestration parses these *)
let n_cases = ref 0
let n_mismatch = ref 0
let n_propfail = ref 0
let mismatch (id : int) (what : string) =
  incr n_mismatch; Printf.printf "MISMATCH %d %s\n" id what
let propfail (id : int) (what : string) =
  incr n_propfail; Printf.printf "PROPFAIL %d %s\n" id what
let counters : (string, int) Hashtbl.t = Hashtbl.create 16
let count (k : string) = Hashtbl.replace counters k (1 + try Hashtbl.find counters k with Not_found -> 0)
let finish () =
  let kv = Hashtbl.fold (fun k v acc -> Printf.sprintf "%s=%d" k v :: acc) counters [] in
  Printf.printf "STATS cases=%d mismatches=%d propfails=%d %s\n" !n_cases !n_mismatch !n_propfail
    (String.concat " " (List.sort compare kv))

let iter_cases (f : int -> sx -> unit) =
  (try while true do
     let line = input_line stdin in
     if String.length line > 5 && String.sub line 0 5 = "(case" then begin
       let s = parse_sx line in
       let id = match s with L (_ :: i :: _) -> int_of_sx i | _ -> -1 in
       incr n_cases;
       (try f id s with
        | Failure m -> mismatch id ("driver-failure " ^ m)
        | Stack_overflow -> mismatch id "driver-stack-overflow"
        | Not_found -> mismatch id "driver-not-found")
     end
   done with End_of_file -> ());
  finish ()
