(* The arena image of a model tree - what is compared, cell for cell, with the snapshot of the real
   Allocator.storage and RBTree header after every operation - and the executable checker that
   judges a snapshot of the REAL arena on its own (property oracle).  Definitions only. *)
From Coq Require Import List ZArith Bool.
From Herc Require Import RBTree.Model RBTree.Spec.
Import ListNotations.
Open Scope Z_scope.

Record cell := mkCell { ckey : Z; cval : Z; cparent : Z; cleft : Z; cright : Z; cblack : bool }.
Record header := mkHeader { hroot : Z; hmin : Z; hmax : Z; hcount : Z }.

Definition is_black (c : color) : bool := match c with Black => true | Red => false end.

(* the cells of t when its root hangs below the node p (0: t is the whole tree) *)
Fixpoint cells (p : Z) (t : tree) : list (Z * cell) :=
  match t with
  | E => []
  | T c l i k v r =>
      cells i l ++ (i, mkCell k v p (root_id l) (root_id r) (is_black c)) :: cells i r
  end.

Definition header_of (t : tree) : header := mkHeader (root_id t) (min_id t) (max_id t) (tsize t).

Definition to_arena (t : tree) : header * list (Z * cell) := (header_of t, cells 0 t).

(* in-order (id, key, value) entries: the abstraction to the specification *)
Fixpoint elems (t : tree) : list (Z * Z * Z) :=
  match t with E => [] | T _ l i k v r => elems l ++ (i, k, v) :: elems r end.

(* ---------- reading a tree back from an arena (left/right links only) ---------- *)
Fixpoint from_arena (fuel : nat) (a : Z -> cell) (n : Z) : tree :=
  match fuel with
  | O => E
  | S f =>
      if n =? 0 then E
      else let c := a n in
           T (if cblack c then Black else Red) (from_arena f a (cleft c)) n (ckey c) (cval c)
             (from_arena f a (cright c))
  end.

Definition cell_eqb (x y : cell) : bool :=
  (ckey x =? ckey y) && (cval x =? cval y) && (cparent x =? cparent y) && (cleft x =? cleft y)
  && (cright x =? cright y) && Bool.eqb (cblack x) (cblack y).

Definition header_eqb (x y : header) : bool :=
  (hroot x =? hroot y) && (hmin x =? hmin y) && (hmax x =? hmax y) && (hcount x =? hcount y).

Fixpoint cells_match (a : Z -> cell) (l : list (Z * cell)) : bool :=
  match l with [] => true | (i, c) :: r => cell_eqb (a i) c && cells_match a r end.

(* ---------- executable red-black check ---------- *)
Fixpoint bh (t : tree) : option nat :=
  match t with
  | E => Some 0%nat
  | T c l _ _ _ r =>
      match bh l, bh r with
      | Some x, Some y => if Nat.eqb x y then Some (match c with Black => S x | Red => x end) else None
      | _, _ => None
      end
  end.

Fixpoint no_red_red (t : tree) : bool :=
  match t with
  | E => true
  | T c l _ _ _ r => (match c with Red => negb (is_red l) && negb (is_red r) | Black => true end)
                     && no_red_red l && no_red_red r
  end.

Definition rb_okb (t : tree) : bool :=
  negb (is_red t) && no_red_red t && (match bh t with Some _ => true | None => false end)
  && sortedb (keys (elems t)).

Fixpoint height (t : tree) : nat :=
  match t with E => O | T _ l _ _ _ r => S (Nat.max (height l) (height r)) end.

Fixpoint entries_eqb (x y : list (Z * Z * Z)) : bool :=
  match x, y with
  | [], [] => true
  | (a, b, c) :: x', (d, e, f) :: y' => (a =? d) && (b =? e) && (c =? f) && entries_eqb x' y'
  | _, _ => false
  end.

(* The oracle on a snapshot of the real arena "a" with the real header "h":
   the tree read from the root by left/right links
   - has exactly the parent links, min/max/count that the links determine (parent consistency),
   - is a red-black search tree,
   - contains exactly the entries of the specification, under the same ids (sorted map contents and
     iterator stability). *)
(* fuel = depth bound: a red-black tree with n nodes is at most 2*log2(n+1) deep (C05_height); a
   deeper (or cyclic) structure is cut off and then fails the count comparison of links_okb *)
Definition arena_tree (a : Z -> cell) (h : header) : tree :=
  from_arena (S (2 * Z.to_nat (Z.log2 (hcount h + 1)))) a (hroot h).

Definition links_okb (a : Z -> cell) (h : header) : bool :=
  let t := arena_tree a h in cells_match a (cells 0 t) && header_eqb h (header_of t).

Definition snapshot_rb_okb (a : Z -> cell) (h : header) : bool := rb_okb (arena_tree a h).

Definition snapshot_map_okb (a : Z -> cell) (h : header) (spec : list (Z * Z * Z)) : bool :=
  entries_eqb (elems (arena_tree a h)) spec.

(* logarithmic depth, as a check: 2^(height/2) <= tsize + 1 *)
Definition height_okb (t : tree) : bool :=
  Z.pow 2 (Z.of_nat (Nat.div2 (S (height t)))) <=? tsize t + 1.
