(* Composition C03 on C05, part 4: the two loops of File.Update on the tree - the key-shifting loop
   "for ; !iter.Limit(); iter = iter.Next() { iter.Item().Key = ... }" and the "delete nodes" loop -
   compute what C03's list model says (shift32 on the nodes from the iterator on; del_loop), panics
   included, and never run out of fuel. *)
From Coq Require Import List ZArith Lia Bool.
Import ListNotations.
From Herc Require Import RBTree.Model RBTree.Spec RBTree.Arena RBTree.InsertProofs RBTree.DeleteProofs
  RBTree.MapProofs RBTree.LookupProofs RBTree.SeqProofs.
From Herc Require Import File.Model File.Spec File.NodeLists File.Locate.
From Herc Require Import Compose.TreeFileKeys Compose.TreeFileModel Compose.TreeFileLists.
Open Scope Z_scope.

Ltac spl := repeat match goal with |- _ /\ _ => split end.

(* ---------- the key-shifting loop ---------- *)

Definition shift_entry (d : Z) (e : Z * Z * Z) : Z * Z * Z := (eid e, u32 (ekey e + d), eval e).

Lemma kv_shift d l : map kv (map (shift_entry d) l) = shift32 d (map kv l).
Proof.
  unfold shift32. rewrite !map_map. apply map_ext. intros [[i k] v]. reflexivity.
Qed.

Lemma eids_shift d l : eids (map (shift_entry d) l) = eids l.
Proof. unfold eids. rewrite map_map. apply map_ext. intros [[i k] v]. reflexivity. Qed.

Lemma tshift_loop_sim d : forall b a tr fuel,
  (length b < fuel)%nat -> elems tr = a ++ b -> okl (elems tr) ->
  exists tr', tshift_loop fuel d (pos_fwd (s_min b)) tr = TOk tr' /\
    elems tr' = a ++ map (shift_entry d) b /\ okl (elems tr') /\
    (is_redblack tr -> is_redblack tr').
Proof.
  induction b as [|e b IH]; intros a tr fuel Hf He Hok.
  - destruct fuel as [|f]; [simpl in Hf; lia|]. cbn [s_min pos_fwd tshift_loop]. change (0 =? limit) with true.
    cbn iota. exists tr. rewrite He. cbn [map]. rewrite He in Hok. auto.
  - destruct fuel as [|f]; [simpl in Hf; lia|]. cbn [length] in Hf.
    cbn [s_min pos_fwd tshift_loop]. pose proof Hok as Hok'. rewrite He in Hok'.
    destruct (eid_not_limits _ _ _ Hok') as [H1 _]. rewrite H1.
    rewrite (deref_at _ _ _ _ He Hok). cbn [bind]. rewrite kv_eq. cbn [fst].
    set (tr1 := set_key (eid e) (u32 (ekey e + d)) tr).
    assert (He1 : elems tr1 = a ++ shift_entry d e :: b) by (apply set_key_at; auto).
    assert (Hok1 : okl (elems tr1)) by (eapply set_key_ok; eauto).
    change (eid e) with (eid (shift_entry d e)).
    rewrite (it_next_at _ _ _ _ He1 Hok1). cbn [bind].
    destruct (IH (a ++ [shift_entry d e]) tr1 f) as (tr' & E1 & E2 & E3 & E4).
    + lia.
    + rewrite <- app_assoc. exact He1.
    + exact Hok1.
    + exists tr'. split; [exact E1|]. split; [rewrite E2, <- app_assoc; reflexivity|]. split; [exact E3|].
      intros Hrb. apply E4. apply map_keys_redblack. exact Hrb.
Qed.

(* ---------- the "delete nodes" loop ---------- *)

Lemma map_kv_length (l : list (Z * Z * Z)) : length (map kv l) = length l.
Proof. apply map_length. Qed.

Lemma tdel_loop_sim t pos ins del prevOrigin : forall ER EL ec tr origin reps fuel,
  (length ER < fuel)%nat -> bst tr -> is_redblack tr -> okl (elems tr) -> elems tr = EL ++ ec :: ER ->
  match del_loop t pos ins del origin prevOrigin (map kv EL) (kv ec) (map kv ER) reps with
  | Panic c => tdel_loop fuel t pos ins del origin prevOrigin (eid ec) tr reps = TPanic c
  | Ok (origin1, L1, right1, reps1) =>
      exists tr1 EL1 er ER1,
        tdel_loop fuel t pos ins del origin prevOrigin (eid ec) tr reps = TOk (origin1, eid er, tr1, reps1) /\
        elems tr1 = EL1 ++ er :: ER1 /\ map kv EL1 = L1 /\ map kv (er :: ER1) = right1 /\
        bst tr1 /\ is_redblack tr1 /\ okl (elems tr1) /\ (length (elems tr1) <= length (elems tr))%nat
  end.
Proof.
  induction ER as [|e2 ER IH]; intros EL ec tr origin reps fuel Hf Hb Hrb Hok He.
  - destruct fuel as [|f]; [simpl in Hf; lia|].
    cbn [map del_loop tdel_loop]. rewrite (it_item_at _ _ _ _ He Hok), (it_next_at _ _ _ _ He Hok).
    cbn [bind s_min pos_fwd]. change (0 =? limit) with true. cbn iota.
    destruct (pos + del >? fst (kv ec)); [reflexivity|].
    exists tr, EL, ec, []. spl; auto.
  - destruct fuel as [|f]; [simpl in Hf; lia|]. cbn [length] in Hf.
    cbn [map del_loop tdel_loop]. rewrite (it_item_at _ _ _ _ He Hok), (it_next_at _ _ _ _ He Hok).
    cbn [bind s_min pos_fwd].
    assert (He2 : elems tr = (EL ++ [ec]) ++ e2 :: ER) by (rewrite <- app_assoc; exact He).
    pose proof Hok as Hok2. rewrite He2 in Hok2. destruct (eid_not_limits _ _ _ Hok2) as [H1 _]. rewrite H1.
    rewrite (deref_at _ _ _ _ He2 Hok). cbn [bind].
    set (delta := Z.min (fst (kv e2)) (pos + del) - Z.max (fst (kv ec)) pos).
    destruct ((delta =? 0) && (ins =? 0) && (fst origin =? u32 pos) && (snd prevOrigin =? snd (kv ec))).
    + destruct (t_delete_at _ _ _ _ He Hok Hb Hrb) as (tr' & D1 & D2 & D3 & D4 & D5).
      rewrite D1. cbn [bind]. exists tr', EL, e2, ER. spl; auto.
      rewrite D2, He, !app_length. cbn [length]. lia.
    + destruct (delta <=? 0).
      * exists tr, EL, ec, (e2 :: ER). spl; auto.
      * destruct (update_time t (snd (kv ec)) (- delta)) as [r|c]; [|reflexivity].
        destruct (fst (kv ec) >=? u32 pos).
        -- destruct (t_delete_at _ _ _ _ He Hok Hb Hrb) as (tr' & D1 & D2 & D3 & D4 & D5).
           rewrite D1. cbn [bind].
           specialize (IH EL e2 tr' (kv ec) (reps ++ r) f ltac:(lia) D3 D4 D5 D2).
           destruct (del_loop t pos ins del (kv ec) prevOrigin (map kv EL) (kv e2) (map kv ER) (reps ++ r))
             as [[[[o1 L1] right1] reps1]|c]; [|exact IH].
           destruct IH as (tr1 & EL1 & er & ER1 & I1 & I2 & I3 & I4 & I5 & I6 & I7 & I8).
           exists tr1, EL1, er, ER1. spl; auto.
           rewrite D2 in I8. rewrite He. rewrite !app_length in *. cbn [length] in *. lia.
        -- specialize (IH (EL ++ [ec]) e2 tr origin (reps ++ r) f ltac:(lia) Hb Hrb Hok He2).
           rewrite map_app in IH. cbn [map] in IH. exact IH.
Qed.

(* what the loop leaves under the iterator lies beyond pos (list level; del > 0, pos a uint32) *)
Lemma del_loop_tail_gt t pos ins del prevOrigin : forall rest cur origin lefts reps o1 L1 right1 reps1,
  inc (fst cur) rest -> pos < fst cur ->
  del_loop t pos ins del origin prevOrigin lefts cur rest reps = Ok (o1, L1, right1, reps1) ->
  first_gt pos right1.
Proof.
  induction rest as [|nxt rest IH]; intros cur origin lefts reps o1 L1 right1 reps1 Hinc Hcur H.
  - cbn [del_loop] in H. destruct (pos + del >? fst cur); [discriminate|]. inversion H; subst.
    destruct cur. cbn [first_gt fst] in *. exact Hcur.
  - destruct cur as [ck cv], nxt as [nk nv]. cbn [inc fst] in Hinc, Hcur. destruct Hinc as [Hn Hinc].
    cbn [del_loop fst snd] in H.
    destruct ((Z.min nk (pos + del) - Z.max ck pos =? 0) && (ins =? 0) && (fst origin =? u32 pos) && (snd prevOrigin =? cv)).
    + inversion H; subst. cbn [first_gt]. lia.
    + destruct (Z.min nk (pos + del) - Z.max ck pos <=? 0).
      * inversion H; subst. cbn [first_gt]. exact Hcur.
      * destruct (update_time t cv (- (Z.min nk (pos + del) - Z.max ck pos))) as [r|c]; [|discriminate].
        destruct (ck >=? u32 pos); eapply IH in H; eauto; cbn [fst]; lia.
Qed.

Lemma del_loop_first_gt t pos ins del prevOrigin rest ok ov lefts reps o1 L1 right1 reps1 :
  0 < del -> ok <= pos -> inc ok rest -> first_gt pos rest ->
  del_loop t pos ins del (ok, ov) prevOrigin lefts (ok, ov) rest reps = Ok (o1, L1, right1, reps1) ->
  first_gt pos right1.
Proof.
  intros Hdel Hok Hinc Hgt H. destruct rest as [|[nk nv] rest].
  - cbn [del_loop fst] in H. destruct (Z.gtb_spec (pos + del) ok); [discriminate|lia].
  - cbn [first_gt] in Hgt. cbn [inc] in Hinc. destruct Hinc as [Hn Hinc]. cbn [del_loop fst snd] in H.
    assert (Hd : Z.min nk (pos + del) - Z.max ok pos > 0) by lia.
    destruct (Z.eqb_spec (Z.min nk (pos + del) - Z.max ok pos) 0); [lia|]. cbn [andb] in H.
    destruct (Z.leb_spec (Z.min nk (pos + del) - Z.max ok pos) 0); [lia|].
    destruct (update_time t ov (- (Z.min nk (pos + del) - Z.max ok pos))) as [r|c]; [|discriminate].
    destruct (ok >=? u32 pos); eapply del_loop_tail_gt in H; eauto.
Qed.
