(* C17 - the token grid written by internal/yaml/utils.go PrintMatrix and the sequence of matrices that
   BurndownAnalysis.serializeText prints.  Only the tokens (one integer per cell) are modelled, not the
   padding; definitions only. *)
From Coq Require Import List ZArith Bool.
From Herc Require Import Results.PB.
Import ListNotations.
Open Scope Z_scope.

(* last := len(matrix[len(matrix)-1]) panics on an empty matrix; every row is printed with [last]
   cells: missing cells as 0, and negative ones as 0 when fixNegative is set *)
Definition print_cell (fix_negative : bool) (status : list Z) (i : nat) : Z :=
  match nth_error status i with
  | Some v => if fix_negative && (v <? 0) then 0 else v
  | None => 0
  end.

Definition print_matrix (m : list (list Z)) (fix_negative : bool) : res (list (list Z)) :=
  match m with
  | [] => Panic
  | _ => let last_len := length (last m []) in
         Ok (map (fun status => map (print_cell fix_negative status) (seq 0 last_len)) m)
  end.

(* the matrices serializeText hands to PrintMatrix, in order; None = a nil matrix *)
Definition text_sources (r : burndown_result) : list (option (list (list Z)) * bool) :=
  (Some (bd_global r), true)
  :: map (fun f => (Some (snd f), true)) (bd_files r)
  ++ (if is_nil (bd_people r) then []
      else map (fun p => (Some p, true)) (bd_people r) ++ [(bd_matrix r, false)]).

Definition print_source (s : option (list (list Z)) * bool) : res (list (list Z)) :=
  match fst s with None => Panic | Some m => print_matrix m (snd s) end.

(* reversedPeopleDict[key] is read for every people history *)
Definition text_burndown (r : burndown_result) : res (list (list (list Z))) :=
  if (length (bd_names r) <? length (bd_people r))%nat then Panic
  else mapM print_source (text_sources r).

(* the shape clause of the property: as many lines as rows, every line with the declared number of
   columns (the length of the last row, which is also what the binary format declares) *)
Definition shape_okb (src grid : list (list Z)) : bool :=
  (length grid =? length src)%nat
  && forallb (fun row => (length row =? length (last src []))%nat) grid.

Fixpoint shapes_okb (srcs : list (option (list (list Z)) * bool)) (grids : list (list (list Z))) : bool :=
  match srcs, grids with
  | [], [] => true
  | (Some m, _) :: srcs', g :: grids' => shape_okb m g && shapes_okb srcs' grids'
  | _, _ => false
  end.

(* helper for the replay driver: decimal digits to Z beyond the range of an OCaml int *)
Definition dec_step (acc d : Z) : Z := acc * 10 + d.
