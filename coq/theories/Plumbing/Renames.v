(* Executable model of internal/plumbing/renames.go: RenameAnalysis.Consume and what it calls
   (sortableChange.Less, sizesAreClose, the merge scan of stage 1, matchA / matchB of stage 2 and the
   assembly of stage 3).  Definitions only; the proofs are in RenamesProofs.v, the channel protocol
   of the two goroutines is in RenamesChan.v.

   What is a choice / an opaque external function here (Section variables, quantified by every theorem):
     sort_hash   sort.Sort on sortableChanges      (Go's pdqsort, unstable: any sorted permutation)
     sort_size   sort.Sort on sortableBlobs        (the same)
     cand_order  sortRenameCandidates              (sort.Slice by Levenshtein distance of the base names)
     blobs_close RenameAnalysis.blobsAreClose      (diffmatchpatch / bsdiff similarity; ANY predicate;
                                                    it has no error return path in the Go code)
   and arguments of [consume]:
     winner_b    which of the two goroutines' results the final select of Consume takes
     cut_a cut_b the number of outer-loop iterations matchA / matchB complete before the
                 "time.Now().Sub(beginTime) < ra.Timeout" test fails (>= length of the list = no timeout)
   The goroutine that loses the race is either interrupted through the [finished] channel and publishes
   nothing, or it completes and its result is dropped by the select: in both cases nothing of it reaches
   the output, so the functional model needs the winner and its cut only.

   A change is a pair (From, To) of optional entries; None is go-git's empty ChangeEntry.  An entry
   is the path (a number: the harness keeps the table of path strings), the blob hash (20 bytes)
   and the blob size that Consume reads from the blob cache under that hash.  *)
From Coq Require Import List ZArith NArith Bool Lia.
Import ListNotations.
Open Scope Z_scope.

Notation hash := (list N) (only parsing).

(* ---------- sortableChange.Less, as it is now (lexicographic) ----------
   for x := 0; x < 20; x++ {
     if change.hash[x] < other.hash[x] { return true }
     if change.hash[x] > other.hash[x] { return false } }
   return false *)
Fixpoint less (a b : hash) : bool :=
  match a, b with
  | x :: a', y :: b' => if (x <? y)%N then true else if (y <? x)%N then false else less a' b'
  | _, _ => false
  end.

(* the version before the repair (defect F4):
   for x := 0; x < 20; x++ { if change.hash[x] < other.hash[x] { return true } }  return false *)
Fixpoint old_less (a b : hash) : bool :=
  match a, b with
  | x :: a', y :: b' => if (x <? y)%N then true else old_less a' b'
  | _, _ => false
  end.

(* array equality of two hashes *)
Fixpoint hash_eqb (a b : hash) : bool :=
  match a, b with
  | [], [] => true
  | x :: a', y :: b' => (x =? y)%N && hash_eqb a' b'
  | _, _ => false
  end.

Record entry := mkEntry { e_name : N; e_hash : list N; e_size : Z }.

Notation change := (option entry * option entry)%type (only parsing).

Definition entry_eqb (x y : entry) : bool :=
  (e_name x =? e_name y)%N && hash_eqb (e_hash x) (e_hash y) && (e_size x =? e_size y).

Definition oentry_eqb (x y : option entry) : bool :=
  match x, y with
  | None, None => true
  | Some a, Some b => entry_eqb a b
  | _, _ => false
  end.

Definition change_eqb (c d : change) : bool := oentry_eqb (fst c) (fst d) && oentry_eqb (snd c) (snd d).

Definition c_add (t : entry) : change := (None, Some t).
Definition c_del (f : entry) : change := (Some f, None).
Definition c_ren (p : entry * entry) : change := (Some (fst p), Some (snd p)).

(* the three classes of object.Change.Action(); a change with both sides empty is malformed *)
Definition mods (cs : list change) : list change :=
  filter (fun c => match c with (Some _, Some _) => true | _ => false end) cs.
Definition adds (cs : list change) : list entry :=
  flat_map (fun c => match c with (None, Some t) => [t] | _ => [] end) cs.
Definition dels (cs : list change) : list entry :=
  flat_map (fun c => match c with (Some f, None) => [f] | _ => [] end) cs.
Definition malformed (cs : list change) : bool :=
  existsb (fun c => match c with (None, None) => true | _ => false end) cs.

Inductive result (A : Type) := Ok (a : A) | Err | Panic.
Arguments Ok {A} a.
Arguments Err {A}.
Arguments Panic {A}.

(* ---------- constants ---------- *)
Definition min_size : Z := 32.            (* RenameAnalysisMinimumSize *)
Definition max_candidates : Z := 50.      (* RenameAnalysisMaxCandidates *)
Definition set_size_limit : Z := 1000.    (* RenameAnalysisSetSizeLimit *)
Definition default_threshold : Z := 80.   (* RenameAnalysisDefaultThreshold *)

(* Initialize: a threshold outside 0..100 is replaced by the default *)
Definition effective_threshold (t : Z) : Z :=
  if (t <? 0) || (100 <? t) then default_threshold else t.

(* sizesAreClose: size := max(1, max(s1, s2)); abs(s1-s2)*10000/size <= (100-threshold)*100
   (int64 arithmetic; no overflow below 2^49 bytes; Go's / truncates = Z.quot) *)
Definition sizes_close (thr s1 s2 : Z) : bool :=
  let size := Z.max 1 (Z.max s1 s2) in
  Z.quot (Z.abs (s1 - s2) * 10000) size <=? (100 - thr) * 100.

(* ---------- stage 1: the merge scan over the two hash-sorted lists ----------
   for a < added.Len() && d < deleted.Len() {
     if added[a].hash == deleted[d].hash { rename(deleted[d].From, added[a].To); a++; d++ }
     else if added[a].Less(&deleted[d]) { stillAdded += added[a]; a++ }
     else { stillDeleted += deleted[d]; d++ } }
   then the two tails.  A pair is (From, To) = (deleted, added).  The less function is a parameter
   so that the scan can also be run with the old comparison. *)
Fixpoint scan_with (lt : hash -> hash -> bool) (fuel : nat) (a d : list entry)
  : list (entry * entry) * list entry * list entry :=
  match fuel with
  | O => ([], a, d)
  | S f =>
    match a, d with
    | x :: a', y :: d' =>
        if hash_eqb (e_hash x) (e_hash y) then
          let '(m, sa, sd) := scan_with lt f a' d' in ((y, x) :: m, sa, sd)
        else if lt (e_hash x) (e_hash y) then
          let '(m, sa, sd) := scan_with lt f a' d in (m, x :: sa, sd)
        else
          let '(m, sa, sd) := scan_with lt f a d' in (m, sa, y :: sd)
    | _, _ => ([], a, d)
    end
  end.

Definition scan (a d : list entry) := scan_with less (length a + length d) a d.

(* ---------- stage 2 helpers ---------- *)
(* for a = aStart; a < Len && !sizesAreClose(mySize, pool[a].size); a++ {}   ([l] is pool[i:]) *)
Fixpoint skip_far (thr my : Z) (l : list entry) (i : nat) : nat :=
  match l with
  | [] => i
  | x :: l' => if sizes_close thr my (e_size x) then i else skip_far thr my l' (S i)
  end.

(* for a = aStart; a < Len && sizesAreClose(mySize, pool[a].size); a++ { candidates += a } *)
Fixpoint window (thr my : Z) (l : list entry) (i : nat) : list (nat * entry) :=
  match l with
  | [] => []
  | x :: l' => if sizes_close thr my (e_size x) then (i, x) :: window thr my l' (S i) else []
  end.

Fixpoint remove_nth {A} (n : nat) (l : list A) : list A :=
  match n, l with
  | _, [] => []
  | O, _ :: l' => l'
  | S n', x :: l' => x :: remove_nth n' l'
  end.

Section WithOracles.
  Variable sort_hash : list entry -> list entry.
  Variable sort_size : list entry -> list entry.
  Variable cand_order : entry -> list (nat * entry) -> list nat.
  Variable blobs_close : entry -> entry -> bool.

  (* for ci, a = range candidates {
       [poll finished]
       if ci > maxCandidates { break }
       if blobsAreClose(myBlob, pool[a]) { foundMatch = true; ...; break } }
     None = index out of range (cannot happen when cand_order returns a permutation of the window) *)
  Fixpoint try_cands (maxc : Z) (me : entry) (pool : list entry) (cands : list nat) (ci : Z)
    : option (option (nat * entry)) :=
    match cands with
    | [] => Some None
    | a :: rest =>
        if maxc <? ci then Some None
        else match nth_error pool a with
             | None => None
             | Some x => if blobs_close me x then Some (Some (a, x))
                         else try_cands maxc me pool rest (ci + 1)
             end
    end.

  (* the outer loop shared by matchA (todo = deleted, pool = added) and matchB (todo = added,
     pool = deleted): one iteration per element of [todo]; the element is either matched with a pool
     element (both removed, the pair recorded) or kept.  [pstart] is aStart / dStart.
     Result: (pairs (me, partner) in the order found, the pool that is left, the todo that is left). *)
  Fixpoint match_gen (thr maxc : Z) (cut : nat) (todo pool : list entry) (pstart : nat)
    : option (list (entry * entry) * list entry * list entry) :=
    match cut, todo with
    | O, _ => Some ([], pool, todo)
    | _, [] => Some ([], pool, [])
    | S cut', me :: todo' =>
        let p1 := skip_far thr (e_size me) (skipn pstart pool) pstart in
        let cands := window thr (e_size me) (skipn p1 pool) p1 in
        match try_cands maxc me pool (cand_order me cands) 0 with
        | None => None
        | Some (Some (a, x)) =>
            match match_gen thr maxc cut' todo' (remove_nth a pool) p1 with
            | None => None
            | Some (ms, pl, tl) => Some ((me, x) :: ms, pl, tl)
            end
        | Some None =>
            match match_gen thr maxc cut' todo' pool p1 with
            | None => None
            | Some (ms, pl, tl) => Some (ms, pl, me :: tl)
            end
        end
    end.

  (* results as (matches (From, To), added left, deleted left) *)
  Definition match_a (thr maxc : Z) (cut : nat) (added deleted : list entry) :=
    match match_gen thr maxc cut deleted added 0 with
    | None => None
    | Some (ms, pl, tl) => Some (ms, pl, tl)
    end.

  Definition match_b (thr maxc : Z) (cut : nat) (added deleted : list entry) :=
    match match_gen thr maxc cut added deleted 0 with
    | None => None
    | Some (ms, pl, tl) => Some (map (fun p => (snd p, fst p)) ms, tl, pl)
    end.

  (* stage 1: (modifications, exact renames, stillAdded, stillDeleted) *)
  Definition stage1 (cs : list change) :=
    let '(m, sa, sd) := scan (sort_hash (adds cs)) (sort_hash (dels cs)) in
    (mods cs, m, sa, sd).

  Definition is_small (e : entry) : bool := e_size e <? min_size.
  Definition not_small (e : entry) : bool := negb (is_small e).

  (* the cap on the candidates and the split into small changes and size-sorted blobs *)
  Definition cap_of (sa sd : list entry) : Z :=
    if set_size_limit <? Z.of_nat (length sa) + Z.of_nat (length sd) then 1 else max_candidates.

  Definition stage3 (mds : list change) (exact : list (entry * entry))
             (r : list (entry * entry) * list entry * list entry) (sa sd : list entry) : list change :=
    let '(ms, al, dl) := r in
    mds ++ map c_ren exact ++ map c_ren ms ++ map c_add al ++ map c_del dl
        ++ map c_add (filter is_small sa) ++ map c_del (filter is_small sd).

  Definition consume (thr0 : Z) (winner_b : bool) (cut_a cut_b : nat) (cs : list change)
    : result (list change) :=
    if malformed cs then Err else
    let '(mds, exact, sa, sd) := stage1 cs in
    let thr := effective_threshold thr0 in
    let maxc := cap_of sa sd in
    let ab := sort_size (filter not_small sa) in
    let db := sort_size (filter not_small sd) in
    match (if winner_b then match_b thr maxc cut_b ab db else match_a thr maxc cut_a ab db) with
    | None => Panic
    | Some r => Ok (stage3 mds exact r sa sd)
    end.
End WithOracles.

(* ---------- the property as executable oracles (judging the implementation's output) ---------- *)

(* remove the first occurrence *)
Fixpoint remove1 {A} (eqb : A -> A -> bool) (x : A) (l : list A) : option (list A) :=
  match l with
  | [] => None
  | y :: l' => if eqb x y then Some l'
               else match remove1 eqb x l' with Some r => Some (y :: r) | None => None end
  end.

(* multiset difference l - m, defined when m is contained in l *)
Fixpoint msub {A} (eqb : A -> A -> bool) (l m : list A) : option (list A) :=
  match m with
  | [] => Some l
  | x :: m' => match remove1 eqb x l with
               | None => None
               | Some l' => msub eqb l' m'
               end
  end.

Definition perm_b {A} (eqb : A -> A -> bool) (l m : list A) : bool :=
  match msub eqb l m with Some [] => true | _ => false end.

Definition froms (cs : list change) : list entry :=
  flat_map (fun c => match fst c with Some f => [f] | None => [] end) cs.
Definition tos (cs : list change) : list entry :=
  flat_map (fun c => match snd c with Some t => [t] | None => [] end) cs.
Definition nonempty (c : change) : bool :=
  match c with (None, None) => false | _ => true end.

(* the re-pairing oracle: out = modifications of the input + a re-pairing of its deletions and additions *)
Definition repairing_b (inp out : list change) : bool :=
  match msub change_eqb out (mods inp) with
  | None => false
  | Some rest =>
      perm_b entry_eqb (froms rest) (dels inp) && perm_b entry_eqb (tos rest) (adds inp)
      && forallb nonempty rest
  end.

(* number of changes whose two sides both carry the hash h (a rename or a modification that keeps the content) *)
Definition same_hash (h : hash) (c : change) : bool :=
  match c with
  | (Some f, Some t) => hash_eqb (e_hash f) h && hash_eqb (e_hash t) h
  | _ => false
  end.
Definition count_same (h : hash) (cs : list change) : nat := length (filter (same_hash h) cs).
Definition count_hash (h : hash) (l : list entry) : nat :=
  length (filter (fun e => hash_eqb (e_hash e) h) l).

Definition exact_at (inp out : list change) (h : hash) : bool :=
  Nat.eqb (count_same h out)
          (count_same h (mods inp) + Nat.min (count_hash h (adds inp)) (count_hash h (dels inp))).

(* the hashes that can make any of the three counts non-zero *)
Definition hashes_of (inp out : list change) : list (list N) :=
  map e_hash (adds inp) ++ map e_hash (froms out) ++ map e_hash (froms (mods inp)).

Definition exact_b (inp out : list change) : bool :=
  forallb (exact_at inp out) (hashes_of inp out).

(* domain of the exact-match clause: every hash has the 20 bytes of a SHA-1 *)
Definition wf_entry (e : entry) : bool := Nat.eqb (length (e_hash e)) 20.
Definition wf_hashes_b (cs : list change) : bool :=
  forallb wf_entry (adds cs) && forallb wf_entry (dels cs).
