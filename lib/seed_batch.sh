#!/bin/bash
# usage: lib/seed_batch.sh C16 C05 ...   confirm /tmp/seedwt/<P>.out/{1,2} and run the checks against them
cd /verif
for P in "$@"; do for N in 1 2 3 4 5 6 7 8; do
  if [ -d /tmp/seedwt/$P.out/$N ] && [ ! -f /verif/seeded/$P-s$N/result.json ]; then
    r=$(lib/confirm_seed.sh /tmp/seedwt/$P.out/$N $P-s$N $P 2>&1 | grep -E "^without-patch|^CONFIRMED")
    echo "$P-s$N: $(echo $r | tr '\n' ' ')"
    if echo "$r" | grep -q "CONFIRMED=yes"; then python3 lib/seeded.py $P-s$N 2>&1 | tail -1; fi
  fi
done; done
