(* C04_hib: the model of insertHibernateBoot keeps the lifecycle sound - a hibernated branch is booted
   before its next use, never hibernated twice, never disposed while hibernated, nothing is left
   hibernated - and erasing hibernate/boot gives back the input.  For every plan and distance. *)
From Coq Require Import List ZArith Bool Arith Lia Permutation.
From Herc Require Import Plan.Syntax Plan.Exec Plan.Graph Plan.Checker Plan.Lifecycle Plan.GC Plan.Hibernate
  Plan.ExecProofs Plan.CheckerLemmas Plan.CheckerSound Plan.LifecycleProofs Plan.GCProofs.
Import ListNotations.
Local Open Scope nat_scope.

(* ---------- general facts about one step ---------- *)

Lemma step_frame s a b : ~ In b (items a) -> get (step s a) b = get s b.
Proof.
  intro H. unfold step. destruct a as [k co its]. cbn [kind items commit] in *. destruct k.
  - destruct its as [|b0 r]; [reflexivity|]. destruct co; [|reflexivity].
    apply get_set_neq. intro E. apply H. left. exact E.
  - destruct its as [|b0 r]; [reflexivity|]. rewrite (get_fold_set (fun _ => get s b0)).
    assert (F : memzb b r = false) by (apply memzb_false; intro Hin; apply H; right; exact Hin).
    rewrite F. reflexivity.
  - rewrite (get_fold_set (fun m => upd (fun x => mkB (flat_map (fun m0 => inc_of (get s m0)) its) (last x)) (get s m))).
    apply memzb_false in H. rewrite H. reflexivity.
  - destruct its as [|b0 r]; [reflexivity|]. apply get_set_neq. intro E. apply H. left. exact E.
  - destruct its as [|b0 r]; [reflexivity|]. apply get_set_neq. intro E. apply H. left. exact E.
  - rewrite get_fold_hibernate. apply memzb_false in H. rewrite H. reflexivity.
  - rewrite get_fold_boot. apply memzb_false in H. rewrite H. reflexivity.
Qed.

Definition hb_kind (a : action) : Prop := kind a <> KHibernate /\ kind a <> KBoot.

(* the effect of an action on its own items depends on the states of its items only *)
Lemma step_local t s a :
  hb_kind a -> (forall b, In b (items a) -> get t b = get s b) ->
  forall b, In b (items a) -> get (step t a) b = get (step s a) b.
Proof.
  intros [K1 K2] E b Hb. unfold step. destruct a as [k co its]. cbn [kind items commit] in *. destruct k.
  - destruct its as [|b0 r]; [destruct Hb|]. destruct co; [|apply E; exact Hb].
    rewrite !get_set. destruct (Z.eqb b0 b); [|apply E; exact Hb]. rewrite (E b0 (or_introl eq_refl)). reflexivity.
  - destruct its as [|b0 r]; [destruct Hb|].
    rewrite (get_fold_set (fun _ => get t b0)), (get_fold_set (fun _ => get s b0)).
    destruct (memzb b r); [apply E; left; reflexivity | apply E; exact Hb].
  - rewrite (get_fold_set (fun m => upd (fun x => mkB (flat_map (fun m0 => inc_of (get t m0)) its) (last x)) (get t m))).
    rewrite (get_fold_set (fun m => upd (fun x => mkB (flat_map (fun m0 => inc_of (get s m0)) its) (last x)) (get s m))).
    destruct (memzb b its); [|apply E; exact Hb]. rewrite (E b Hb).
    rewrite (flat_map_ext_in' (fun m0 => inc_of (get t m0)) (fun m0 => inc_of (get s m0))); [reflexivity|].
    intros x Hx. rewrite (E x Hx). reflexivity.
  - destruct its as [|b0 r]; [destruct Hb|]. rewrite !get_set. destruct (Z.eqb b0 b); [reflexivity | apply E; exact Hb].
  - destruct its as [|b0 r]; [destruct Hb|]. rewrite !get_set. destruct (Z.eqb b0 b); [reflexivity | apply E; exact Hb].
  - exfalso. apply K1. reflexivity.
  - exfalso. apply K2. reflexivity.
Qed.

Lemma uses_items a b : In b (uses a) -> In b (items a).
Proof.
  unfold uses. destruct (kind a); destruct (items a) as [|b0 r]; simpl; try tauto.
Qed.

Lemma creates_items a b : In b (creates a) -> In b (items a).
Proof.
  unfold creates. destruct (kind a); destruct (items a) as [|b0 r]; simpl; try tauto.
Qed.

(* every item of a commit / fork / merge / emerge is live and awake afterwards *)
Lemma items_awake_after s a b :
  step_ok s a -> gc_kind a -> In b (items a) -> awake (step s a) b.
Proof.
  intros SO G Hb. destruct SO as [W [N [U [C B]]]]. unfold wf_action in W. unfold uses in U. unfold step, awake.
  destruct a as [kd co its]. cbn [kind items commit] in *.
  destruct G as [K|[K|[K|K]]]; cbn [kind] in K; subst kd.
  - destruct W as [c [b0 [-> ->]]]. destruct Hb as [<-|[]]. rewrite get_set_eq.
    destruct (U b0 (or_introl eq_refl)) as [x Hx]. rewrite Hx. simpl. eexists. reflexivity.
  - destruct W as [b0 [t1 [ts ->]]]. rewrite (get_fold_set (fun _ => get s b0)).
    destruct (memzb b (t1 :: ts)) eqn:M; [apply (U b0 (or_introl eq_refl))|].
    destruct Hb as [<-|Hb]; [apply (U b0 (or_introl eq_refl))|]. apply memzb_In in Hb. congruence.
  - rewrite (get_fold_set (fun m => upd (fun x => mkB (flat_map (fun m0 => inc_of (get s m0)) its) (last x)) (get s m))).
    pose proof Hb as Hb'. apply memzb_In in Hb'. rewrite Hb'. destruct (U b Hb) as [x Hx]. rewrite Hx. simpl. eexists. reflexivity.
  - destruct W as [b0 ->]. destruct Hb as [<-|[]]. rewrite get_set_eq. eexists. reflexivity.
Qed.

Lemma hb_kind_cases a : hb_kind a -> gc_kind a \/ kind a = KDelete.
Proof. unfold hb_kind, gc_kind. intros [K1 K2]. destruct (kind a); try tauto. Qed.

Lemma filter_filter {A} (f g : A -> bool) l : filter f (filter g l) = filter (fun x => g x && f x) l.
Proof.
  induction l as [|x r IH]; simpl; [reflexivity|].
  destruct (g x); simpl; [destruct (f x); simpl; rewrite IH; reflexivity | exact IH].
Qed.

Lemma filter_nil_all {A} (f : A -> bool) l : (forall x, In x l -> f x = false) -> filter f l = [].
Proof.
  induction l as [|x r IH]; intro H; simpl; [reflexivity|].
  rewrite (H x (or_introl eq_refl)). apply IH. intros y Hy. apply H. right. exact Hy.
Qed.

Lemma NoDup_app_intro' {A} (l1 l2 : list A) :
  NoDup l1 -> NoDup l2 -> (forall x, In x l1 -> In x l2 -> False) -> NoDup (l1 ++ l2).
Proof.
  induction l1 as [|x r IH]; intros N1 N2 D; simpl; [exact N2|].
  inversion N1 as [|? ? Hn Nr]; subst. constructor.
  - rewrite in_app_iff. intros [H|H]; [contradiction|]. apply (D x); [left; reflexivity | exact H].
  - apply IH; [exact Nr | exact N2|]. intros y H1 H2. apply (D y); [right; exact H1 | exact H2].
Qed.

(* ---------- the first loop: what the addons list holds ---------- *)

Section Hib.
  Variable d : Z.

  Definition gap (i x : nat) : bool := (Z.of_nat x - Z.of_nat i - 1 >? d)%Z.

  (* the items insertHibernateBoot looks at: deletes are skipped *)
  Definition hitems (a : action) : list Z := if is_kind KDelete a then [] else items a.

  Definition entry (x : nat) (prev : Z -> option nat) (b : Z) : list addon :=
    match prev b with
    | Some i => if gap i x then [(x, b, false); (i, b, true)] else []
    | None => []
    end.
  Definition G (x : nat) (its : list Z) (prev : Z -> option nat) : list addon := flat_map (entry x prev) its.
  Definition bump (a : action) (x : nat) (prev : Z -> option nat) : Z -> option nat :=
    fun k => if memzb k (hitems a) then Some x else prev k.
  Fixpoint GG (q : plan) (x : nat) (prev : Z -> option nat) : list addon :=
    match q with
    | [] => []
    | a :: r => G x (hitems a) prev ++ GG r (S x) (bump a x prev)
    end.

  Lemma G_ext x its prev prev' : (forall k, In k its -> prev k = prev' k) -> G x its prev = G x its prev'.
  Proof. intro H. apply flat_map_ext_in'. intros b Hb. unfold entry. rewrite (H b Hb). reflexivity. Qed.

  Lemma GG_ext : forall q x prev prev', (forall k, prev k = prev' k) -> GG q x prev = GG q x prev'.
  Proof.
    induction q as [|a r IH]; intros x prev prev' H; simpl; [reflexivity|]. f_equal.
    - apply G_ext. intros k _. apply H.
    - apply IH. intro k. unfold bump. rewrite H. reflexivity.
  Qed.

  Lemma hb_items_spec x : forall its lu ad, NoDup its ->
      snd (hb_items x d its lu ad) = ad ++ G x its (lm_get lu) /\
      forall k, lm_get (fst (hb_items x d its lu ad)) k = if memzb k its then Some x else lm_get lu k.
  Proof.
    induction its as [|it r IH]; intros lu ad N; simpl.
    - split; [rewrite app_nil_r; reflexivity | reflexivity].
    - inversion N as [|? ? Hn Nr]; subst.
      set (ad' := match lm_get lu it with
                  | Some i => if (Z.of_nat x - Z.of_nat i - 1 >? d)%Z then ad ++ [(x, it, false); (i, it, true)] else ad
                  | None => ad end).
      assert (Ead : ad' = ad ++ entry x (lm_get lu) it).
      { unfold ad', entry, gap. destruct (lm_get lu it) as [i|]; [|rewrite app_nil_r; reflexivity].
        destruct (Z.of_nat x - Z.of_nat i - 1 >? d)%Z; [reflexivity | rewrite app_nil_r; reflexivity]. }
      destruct (IH (lm_set lu it x) ad' Nr) as [I1 I2]. split.
      + rewrite I1, Ead, <- app_assoc. f_equal. f_equal. apply G_ext.
        intros k Hk. rewrite lm_get_set. destruct (Z.eqb_spec it k) as [->|_]; [contradiction | reflexivity].
      + intro k. rewrite I2, lm_get_set, (Z.eqb_sym k it). destruct (memzb k r); simpl.
        * rewrite orb_true_r. reflexivity.
        * rewrite orb_false_r. reflexivity.
  Qed.

  Lemma hb_scan_spec : forall q x lu ad prev,
      Forall (fun a => NoDup (items a)) q -> (forall k, lm_get lu k = prev k) ->
      hb_scan q x d lu ad = ad ++ GG q x prev.
  Proof.
    induction q as [|a r IH]; intros x lu ad prev N E; simpl.
    - rewrite app_nil_r. reflexivity.
    - inversion N as [|? ? Na Nr]; subst. unfold hitems, bump. unfold hitems.
      destruct (is_kind KDelete a) eqn:K.
      + simpl. apply IH; [exact Nr|]. intro k. simpl. apply E.
      + destruct (hb_items_spec x (items a) lu ad Na) as [I1 I2].
        destruct (hb_items x d (items a) lu ad) as [lu' ad'] eqn:HI. simpl in I1, I2.
        rewrite (IH (S x) lu' ad' (fun k => if memzb k (items a) then Some x else prev k) Nr).
        * rewrite I1, <- app_assoc. f_equal. f_equal. apply G_ext. intros k _. apply E.
        * intro k. rewrite I2, E. reflexivity.
  Qed.

  (* ---------- selecting the boots / hibernates of one index ---------- *)

  Definition sel_boot (x : nat) (e : addon) : bool := (ad_idx e =? x) && negb (ad_hib e).
  Definition sel_hib (x : nat) (e : addon) : bool := (ad_idx e =? x) && ad_hib e.

  Definition boot_now (x : nat) (prev : Z -> option nat) (b : Z) : bool :=
    match prev b with Some i => gap i x | None => false end.
  Definition hib_from (x0 x : nat) (prev : Z -> option nat) (b : Z) : bool :=
    match prev b with Some i => (i =? x0) && gap x0 x | None => false end.

  Lemma boots_G x its prev :
    map ad_branch (filter (sel_boot x) (G x its prev)) = filter (boot_now x prev) its.
  Proof.
    induction its as [|b r IH]; simpl; [reflexivity|].
    rewrite filter_app, map_app, IH. unfold entry, boot_now at 2.
    destruct (prev b) as [i|]; [|reflexivity]. destruct (gap i x); [|reflexivity].
    simpl. unfold sel_boot, ad_idx, ad_hib. simpl. rewrite Nat.eqb_refl. simpl. rewrite andb_false_r. reflexivity.
  Qed.

  Lemma boots_G_other x0 x its prev : x0 <> x -> filter (sel_boot x0) (G x its prev) = [].
  Proof.
    intro H. apply filter_nil_all. intros e He. unfold G in He. apply in_flat_map in He.
    destruct He as [b [_ He]]. unfold entry in He. destruct (prev b) as [i|]; [|destruct He].
    destruct (gap i x); [|destruct He]. unfold sel_boot, ad_idx, ad_hib.
    destruct He as [<-|[<-|[]]]; simpl; [|apply andb_false_r].
    apply Nat.eqb_neq in H. rewrite Nat.eqb_sym, H. reflexivity.
  Qed.

  Lemma hibs_G x0 x its prev : x0 <> x ->
    map ad_branch (filter (sel_hib x0) (G x its prev)) = filter (hib_from x0 x prev) its.
  Proof.
    intro H. induction its as [|b r IH]; simpl; [reflexivity|].
    rewrite filter_app, map_app, IH. unfold entry, hib_from at 2.
    destruct (prev b) as [i|]; [|reflexivity].
    destruct (Nat.eqb_spec i x0) as [->|Hne]; simpl.
    - destruct (gap x0 x); [|reflexivity]. simpl. unfold sel_hib, ad_idx, ad_hib. simpl.
      apply Nat.eqb_neq in H. rewrite (Nat.eqb_sym x x0), H, Nat.eqb_refl. reflexivity.
    - destruct (gap i x); [|reflexivity]. simpl. unfold sel_hib, ad_idx, ad_hib. simpl.
      apply Nat.eqb_neq in H. rewrite (Nat.eqb_sym x x0), H. apply Nat.eqb_neq in Hne. rewrite Hne. reflexivity.
  Qed.

  (* the first use of b in q (numbered from x), if any, is further than d from index i *)
  Fixpoint pending (q : plan) (x : nat) (b : Z) (i : nat) : bool :=
    match q with
    | [] => false
    | a :: r => if memzb b (hitems a) then gap i x else pending r (S x) b i
    end.

  Lemma hitems_nodup a : NoDup (items a) -> NoDup (hitems a).
  Proof. intro H. unfold hitems. destruct (is_kind KDelete a); [constructor | exact H]. Qed.

  Lemma boots_GG : forall r x prev x0, x0 < x -> filter (sel_boot x0) (GG r x prev) = [].
  Proof.
    induction r as [|a r IH]; intros x prev x0 H; simpl; [reflexivity|].
    rewrite filter_app, boots_G_other by lia. rewrite IH by lia. reflexivity.
  Qed.

  Lemma hibs_GG : forall r x prev x0,
      x0 < x -> Forall (fun a => NoDup (items a)) r ->
      NoDup (map ad_branch (filter (sel_hib x0) (GG r x prev))) /\
      forall b, In b (map ad_branch (filter (sel_hib x0) (GG r x prev))) <->
                prev b = Some x0 /\ pending r x b x0 = true.
  Proof.
    induction r as [|a r IH]; intros x prev x0 H N; simpl.
    - split; [constructor|]. intro b. split; [intros [] | intros [_ F]; discriminate].
    - inversion N as [|? ? Na Nr]; subst.
      rewrite filter_app, map_app, hibs_G by lia.
      destruct (IH (S x) (bump a x prev) x0) as [N2 M2]; [lia | exact Nr|].
      assert (M1 : forall b, In b (filter (hib_from x0 x prev) (hitems a)) <->
                             In b (hitems a) /\ prev b = Some x0 /\ gap x0 x = true).
      { intro b. rewrite filter_In. unfold hib_from. split.
        - intros [Hb Hh]. split; [exact Hb|]. destruct (prev b) as [i|]; [|discriminate].
          apply andb_true_iff in Hh. destruct Hh as [E Gp]. apply Nat.eqb_eq in E. subst. split; [reflexivity | exact Gp].
        - intros [Hb [-> Gp]]. split; [exact Hb|]. rewrite Nat.eqb_refl. exact Gp. }
      split.
      + apply NoDup_app_intro'.
        * apply NoDup_filter. apply hitems_nodup. exact Na.
        * exact N2.
        * intros b H1 H2. apply M1 in H1. apply M2 in H2. destruct H1 as [Hb _]. destruct H2 as [Hp _].
          unfold bump in Hp. apply memzb_In in Hb. rewrite Hb in Hp. injection Hp as Hp. lia.
      + intro b. rewrite in_app_iff, M1, M2. unfold bump. destruct (memzb b (hitems a)) eqn:Mb.
        * apply memzb_In in Mb. split.
          -- intros [[_ [Hp Gp]]|[Hp _]]; [split; assumption|]. injection Hp as Hp. lia.
          -- intros [Hp Gp]. left. split; [exact Mb|]. split; assumption.
        * apply memzb_false in Mb. split.
          -- intros [[Hb _]|Hr]; [contradiction | exact Hr].
          -- intro Hr. right. exact Hr.
  Qed.
End Hib.

(* ---------- the second loop, simulated against the input plan ---------- *)

Lemma items_uses_or_creates a b :
  gc_kind a -> wf_action a -> In b (items a) -> In b (uses a) \/ In b (creates a).
Proof.
  unfold gc_kind, wf_action, uses, creates. intros [K|[K|[K|K]]] W Hb; rewrite K in *.
  - destruct W as [c [b0 [_ E]]]. rewrite E in *. left. exact Hb.
  - destruct W as [b0 [t1 [ts E]]]. rewrite E in *. destruct Hb as [<-|Hb]; [left; left; reflexivity | right; exact Hb].
  - left. destruct (items a); exact Hb.
  - destruct W as [b0 E]. rewrite E in *. right. exact Hb.
Qed.

Lemma hitems_gc a : gc_kind a -> hitems a = items a.
Proof. unfold gc_kind, hitems, is_kind. intros [K|[K|[K|K]]]; rewrite K; reflexivity. Qed.

Lemma hitems_delete a : kind a = KDelete -> hitems a = [].
Proof. unfold hitems, is_kind. intros ->. reflexivity. Qed.

Lemma hitems_items a b : In b (hitems a) -> In b (items a).
Proof. unfold hitems. destruct (is_kind KDelete a); [intros [] | auto]. Qed.

Lemma hitems_in_gc a b : hb_kind a -> In b (hitems a) -> gc_kind a.
Proof.
  intros H Hb. destruct (hb_kind_cases a H) as [G|K]; [exact G|]. rewrite (hitems_delete a K) in Hb. destruct Hb.
Qed.

Lemma lifecycle_tail s a r : lifecycle_from s (a :: r) -> step_ok s a /\ lifecycle_from (step s a) r.
Proof.
  intro L. split; [apply (L [] a r eq_refl)|].
  intros p1 a' p2 E. specialize (L (a :: p1) a' p2). rewrite run_cons in L. apply L. rewrite E. reflexivity.
Qed.

Section Sim.
  Variable d : Z.
  Notation gap := (gap d).
  Notation pending := (pending d).
  Notation GG := (GG d).
  Notation G := (G d).

  Definition Hset (q : plan) (x : nat) (prev : Z -> option nat) (b : Z) : bool :=
    match prev b with Some i => pending q x b i | None => false end.

  Definition opt (k : akind) (c : option nat) (l : list Z) : plan :=
    match l with [] => [] | _ :: _ => [mkA k c l] end.

  Lemma build_cons a r x AD :
    hb_build (a :: r) x AD =
    opt KBoot (commit a) (map ad_branch (filter (sel_boot x) AD)) ++
    a :: opt KHibernate (commit a) (map ad_branch (filter (sel_hib x) AD)) ++ hb_build r (S x) AD.
  Proof. cbn [hb_build]. rewrite !filter_filter. reflexivity. Qed.

  Lemma run_opt_boot t c l b :
    get (run t (opt KBoot c l)) b = if memzb b l then boot_life (get t b) else get t b.
  Proof.
    destruct l as [|b0 r]; [reflexivity|]. unfold opt. rewrite run_cons, run_nil. unfold step. cbn [kind items].
    apply get_fold_boot.
  Qed.

  Lemma run_opt_hib t c l b :
    get (run t (opt KHibernate c l)) b = if memzb b l then hib_life (get t b) else get t b.
  Proof.
    destruct l as [|b0 r]; [reflexivity|]. unfold opt. rewrite run_cons, run_nil. unfold step. cbn [kind items].
    apply get_fold_hibernate.
  Qed.

  Lemma lifecycle_opt_boot t c l :
    NoDup l -> (forall b, In b l -> hibernated t b) -> Forall_pre step_ok t (opt KBoot c l).
  Proof.
    intros N H. destruct l as [|b0 r]; [apply Forall_pre_nil|].
    apply (Forall_pre_cons step_ok); [|apply Forall_pre_nil].
    split; [cbn; discriminate|]. cbn [items uses creates boots kind].
    split; [exact N|]. split; [intros b []|]. split; [intros b [] | exact H].
  Qed.

  Lemma lifecycle_opt_hib t c l :
    NoDup l -> (forall b, In b l -> awake t b) -> Forall_pre step_ok t (opt KHibernate c l).
  Proof.
    intros N H. destruct l as [|b0 r]; [apply Forall_pre_nil|].
    apply (Forall_pre_cons step_ok); [|apply Forall_pre_nil].
    split; [cbn; discriminate|]. cbn [items uses creates boots kind].
    split; [exact N|]. split; [exact H|]. split; intros b [].
  Qed.

  Lemma hibs_G_self x its prev :
    (forall k i, prev k = Some i -> i < x) -> filter (sel_hib x) (G x its prev) = [].
  Proof.
    intro H. apply filter_nil_all. intros e He. unfold Hibernate.ad_idx. unfold HibernateProofs.G in He.
    apply in_flat_map in He. destruct He as [b [_ He]]. unfold entry in He.
    destruct (prev b) as [i|] eqn:P; [|destruct He]. destruct (gap i x); [|destruct He].
    unfold sel_hib, ad_idx, ad_hib. destruct He as [<-|[<-|[]]]; simpl; [apply andb_false_r|].
    specialize (H b i P). assert (E : (i =? x) = false) by (apply Nat.eqb_neq; lia). rewrite E. reflexivity.
  Qed.

  Lemma pre_sel (sel : nat -> addon -> bool) x pre :
    (forall y e, sel y e = true -> ad_idx e = y) ->
    (forall e, In e pre -> ad_idx e < x) -> filter (sel x) pre = [].
  Proof.
    intros Hs H. apply filter_nil_all. intros e He. destruct (sel x e) eqn:E; [|reflexivity].
    apply Hs in E. specialize (H e He). lia.
  Qed.

  Lemma sel_boot_idx y e : sel_boot y e = true -> ad_idx e = y.
  Proof. unfold sel_boot. rewrite andb_true_iff. intros [H _]. apply Nat.eqb_eq. exact H. Qed.
  Lemma sel_hib_idx y e : sel_hib y e = true -> ad_idx e = y.
  Proof. unfold sel_hib. rewrite andb_true_iff. intros [H _]. apply Nat.eqb_eq. exact H. Qed.

  (* after a branch has been disposed nothing uses it: it has no pending hibernation *)
  Lemma disposed_no_pending : forall r x s k i,
      get s k = Disposed -> lifecycle_from s r -> Forall hb_kind r -> pending r x k i = false.
  Proof.
    induction r as [|a r IH]; intros x s k i Hd L F; [reflexivity|].
    destruct (lifecycle_tail s a r L) as [SO L']. inversion F as [|? ? Ha Fr]; subst.
    cbn [HibernateProofs.pending]. destruct (memzb k (hitems a)) eqn:M.
    - exfalso. apply memzb_In in M. pose proof (hitems_in_gc a k Ha M) as Gk.
      destruct SO as [W [_ [U [C _]]]].
      destruct (items_uses_or_creates a k Gk W (hitems_items a k M)) as [Hu|Hc].
      + destruct (U k Hu) as [y Hy]. congruence.
      + specialize (C k Hc). congruence.
    - apply (IH (S x) (step s a)); [|exact L' | exact Fr].
      destruct (in_dec Z.eq_dec k (items a)) as [Hin|Hnin]; [|rewrite step_frame by exact Hnin; exact Hd].
      exfalso. destruct (hb_kind_cases a Ha) as [Gk|Kd].
      + rewrite <- (hitems_gc a Gk) in Hin. apply memzb_In in Hin. congruence.
      + destruct SO as [W [_ [U _]]]. unfold wf_action in W. rewrite Kd in W. destruct W as [b0 E].
        unfold uses in U. rewrite Kd, E in U. rewrite E in Hin. destruct Hin as [<-|[]].
        destruct (U b0 (or_introl eq_refl)) as [y Hy]. congruence.
  Qed.

  Lemma build_ok : forall q x prev pre t s,
      lifecycle_from s q -> Forall hb_kind q ->
      (forall e, In e pre -> ad_idx e < x) ->
      (forall k i, prev k = Some i -> i < x /\ get s k <> Absent) ->
      (forall b, get t b = if Hset q x prev b then hib_life (get s b) else get s b) ->
      lifecycle_from t (hb_build q x (pre ++ GG q x prev)) /\
      (forall b, get (run t (hb_build q x (pre ++ GG q x prev))) b = get (run s q) b).
  Proof.
    induction q as [|a r IH]; intros x prev pre t s L F Hpre Hprev Inv.
    - split; [apply Forall_pre_nil|]. intro b. simpl. rewrite Inv. unfold Hset. destruct (prev b); reflexivity.
    - destruct (lifecycle_tail s a r L) as [SO L']. inversion F as [|? ? Ha Fr]; subst.
      assert (Nd : Forall (fun a0 => NoDup (items a0)) r).
      { apply Forall_forall. intros a0 H0. apply in_split in H0. destruct H0 as [p1 [p2 E]].
        destruct (L' p1 a0 p2 E) as [_ [N _]]. exact N. }
      pose proof SO as [W [Na [U [C _]]]].
      set (prev' := bump a x prev).
      set (AD := pre ++ GG (a :: r) x prev).
      assert (EAD : AD = (pre ++ G x (hitems a) prev) ++ GG r (S x) prev').
      { unfold AD. cbn [HibernateProofs.GG]. rewrite app_assoc. reflexivity. }
      (* the boots and hibernates of this index *)
      assert (EBT : map ad_branch (filter (sel_boot x) AD) = filter (boot_now d x prev) (hitems a)).
      { rewrite EAD, !filter_app, (pre_sel sel_boot x pre sel_boot_idx Hpre), boots_GG by lia.
        rewrite app_nil_r. simpl. apply boots_G. }
      assert (EHB : map ad_branch (filter (sel_hib x) AD) = map ad_branch (filter (sel_hib x) (GG r (S x) prev'))).
      { rewrite EAD, !filter_app, (pre_sel sel_hib x pre sel_hib_idx Hpre), hibs_G_self.
        - reflexivity.
        - intros k i Hk. apply (Hprev k i Hk). }
      destruct (hibs_GG d r (S x) prev' x) as [NHB MHB]; [lia | exact Nd|].
      set (BT := filter (boot_now d x prev) (hitems a)) in *.
      set (HB := map ad_branch (filter (sel_hib x) (GG r (S x) prev'))) in *.
      assert (HBin : forall b, In b HB <-> In b (hitems a) /\ pending r (S x) b x = true).
      { intro b. rewrite MHB. unfold prev', bump. destruct (memzb b (hitems a)) eqn:M.
        - apply memzb_In in M. split; [intros [_ P]; split; assumption | intros [_ P]; split; [reflexivity | exact P]].
        - apply memzb_false in M. split; [|intros [Hb _]; contradiction].
          intros [P _]. destruct (Hprev b x P) as [Hlt _]. lia. }
      rewrite build_cons, EBT, EHB. fold AD.
      (* facts about the items of a *)
      assert (Live_item : forall b i, In b (hitems a) -> prev b = Some i -> awake s b).
      { intros b i Hb P. destruct (Hprev b i P) as [_ NA].
        destruct (items_uses_or_creates a b (hitems_in_gc a b Ha Hb) W (hitems_items a b Hb)) as [Hu|Hc].
        - apply U. exact Hu.
        - exfalso. apply NA. apply C. exact Hc. }
      assert (H1 : forall b, In b (hitems a) -> Hset (a :: r) x prev b = boot_now d x prev b).
      { intros b Hb. unfold Hset, boot_now. destruct (prev b); [|reflexivity]. cbn [HibernateProofs.pending].
        apply memzb_In in Hb. rewrite Hb. reflexivity. }
      assert (H2 : forall b, ~ In b (hitems a) -> Hset (a :: r) x prev b = Hset r (S x) prev' b).
      { intros b Hb. unfold Hset, prev', bump. apply memzb_false in Hb. rewrite Hb.
        destruct (prev b); [|reflexivity]. cbn [HibernateProofs.pending]. rewrite Hb. reflexivity. }
      assert (H3 : forall b, In b (hitems a) -> Hset r (S x) prev' b = pending r (S x) b x).
      { intros b Hb. unfold Hset, prev', bump. apply memzb_In in Hb. rewrite Hb. reflexivity. }
      assert (BTsub : forall b, In b BT -> In b (hitems a)) by (intros b Hb; apply filter_In in Hb; tauto).
      (* state after the boots *)
      set (t1 := run t (opt KBoot (commit a) BT)).
      assert (T1 : forall b, get t1 b = if memzb b BT then boot_life (get t b) else get t b) by (intro b; apply run_opt_boot).
      assert (Del : forall k, kind a = KDelete -> In k (items a) -> Hset (a :: r) x prev k = false).
      { intros k Kd Hk. unfold Hset. destruct (prev k) as [i|]; [|reflexivity]. cbn [HibernateProofs.pending].
        rewrite (hitems_delete a Kd). simpl. apply (disposed_no_pending r (S x) (step s a)); [|exact L' | exact Fr].
        unfold wf_action in W. rewrite Kd in W. destruct W as [b0 E]. rewrite E in Hk. destruct Hk as [<-|[]].
        unfold step. rewrite Kd, E. apply get_set_eq. }
      assert (C1 : forall b, In b (items a) -> get t1 b = get s b).
      { intros b Hb. rewrite T1, Inv. destruct (hb_kind_cases a Ha) as [Gk|Kd].
        - rewrite <- (hitems_gc a Gk) in Hb. rewrite (H1 b Hb).
          destruct (boot_now d x prev b) eqn:Bn.
          + assert (Hin : In b BT) by (apply filter_In; split; assumption).
            apply memzb_In in Hin. rewrite Hin. unfold boot_now in Bn. destruct (prev b) as [i|] eqn:P; [|discriminate].
            destruct (Live_item b i Hb P) as [y Hy]. rewrite Hy. reflexivity.
          + assert (Hnin : memzb b BT = false).
            { apply memzb_false. intro Hin. apply filter_In in Hin. destruct Hin as [_ Hin]. congruence. }
            rewrite Hnin. reflexivity.
        - rewrite (Del b Kd Hb).
          assert (Hnin : memzb b BT = false).
          { apply memzb_false. intro Hin. apply BTsub in Hin. rewrite (hitems_delete a Kd) in Hin. destruct Hin. }
          rewrite Hnin. reflexivity. }
      assert (C2 : forall b, ~ In b (items a) -> get t1 b = get t b).
      { intros b Hb. rewrite T1.
        assert (Hnin : memzb b BT = false).
        { apply memzb_false. intro Hin. apply Hb. apply hitems_items. apply BTsub. exact Hin. }
        rewrite Hnin. reflexivity. }
      assert (LB : Forall_pre step_ok t (opt KBoot (commit a) BT)).
      { apply lifecycle_opt_boot.
        - apply NoDup_filter. apply hitems_nodup. exact Na.
        - intros b Hb. pose proof (BTsub b Hb) as Hi. apply filter_In in Hb. destruct Hb as [_ Bn].
          pose proof Bn as Bn'. unfold boot_now in Bn'. destruct (prev b) as [i|] eqn:P; [|discriminate].
          destruct (Live_item b i Hi P) as [y Hy]. exists y. rewrite Inv, (H1 b Hi), Bn, Hy. reflexivity. }
      assert (SO1 : step_ok t1 a).
      { split; [exact W|]. split; [exact Na|]. split; [|split].
        - intros b Hb. destruct (U b Hb) as [y Hy]. exists y. rewrite (C1 b (uses_items a b Hb)). exact Hy.
        - intros b Hb. rewrite (C1 b (creates_items a b Hb)). apply C. exact Hb.
        - intros b Hb. exfalso. unfold boots in Hb. destruct Ha as [_ Kb]. destruct (kind a); try destruct Hb. apply Kb. reflexivity. }
      set (t2 := step t1 a).
      assert (T2in : forall b, In b (items a) -> get t2 b = get (step s a) b).
      { intros b Hb. apply step_local; assumption. }
      assert (T2out : forall b, ~ In b (items a) -> get t2 b = get t b).
      { intros b Hb. unfold t2. rewrite step_frame by exact Hb. apply C2. exact Hb. }
      set (t3 := run t2 (opt KHibernate (commit a) HB)).
      assert (T3 : forall b, get t3 b = if memzb b HB then hib_life (get t2 b) else get t2 b) by (intro b; apply run_opt_hib).
      assert (LH : Forall_pre step_ok t2 (opt KHibernate (commit a) HB)).
      { apply lifecycle_opt_hib; [exact NHB|]. intros b Hb. apply HBin in Hb. destruct Hb as [Hb _].
        pose proof (hitems_in_gc a b Ha Hb) as Gk.
        destruct (items_awake_after s a b SO Gk (hitems_items a b Hb)) as [y Hy].
        exists y. rewrite (T2in b (hitems_items a b Hb)). exact Hy. }
      (* the induction hypothesis on the rest *)
      destruct (IH (S x) prev' (pre ++ G x (hitems a) prev) t3 (step s a) L' Fr) as [L3 E3].
      + intros e He. apply in_app_iff in He. destruct He as [He|He]; [specialize (Hpre e He); lia|].
        unfold HibernateProofs.G in He. apply in_flat_map in He. destruct He as [b [_ He]]. unfold entry in He.
        destruct (prev b) as [i|] eqn:P; [|destruct He]. destruct (gap i x); [|destruct He].
        destruct (Hprev b i P) as [Hlt _]. destruct He as [<-|[<-|[]]]; unfold ad_idx; simpl; lia.
      + intros k i Hk. unfold prev', bump in Hk. destruct (memzb k (hitems a)) eqn:M.
        * injection Hk as <-. split; [lia|]. apply memzb_In in M.
          destruct (items_awake_after s a k SO (hitems_in_gc a k Ha M) (hitems_items a k M)) as [y Hy]. rewrite Hy. discriminate.
        * destruct (Hprev k i Hk) as [Hlt NA]. split; [lia|]. apply nonabsent_step; assumption.
      + intro b. rewrite T3. destruct (in_dec Z.eq_dec b (hitems a)) as [Hb|Hb].
        * rewrite (H3 b Hb), (T2in b (hitems_items a b Hb)).
          destruct (pending r (S x) b x) eqn:P.
          -- assert (Hin : In b HB) by (apply HBin; split; assumption). apply memzb_In in Hin. rewrite Hin. reflexivity.
          -- assert (Hnin : memzb b HB = false).
             { apply memzb_false. intro Hin. apply HBin in Hin. destruct Hin as [_ Hin]. congruence. }
             rewrite Hnin. reflexivity.
        * assert (Hnin : memzb b HB = false).
          { apply memzb_false. intro Hin. apply HBin in Hin. tauto. }
          rewrite Hnin, <- (H2 b Hb).
          destruct (in_dec Z.eq_dec b (items a)) as [Hi|Hi].
          -- destruct (hb_kind_cases a Ha) as [Gk|Kd]; [rewrite (hitems_gc a Gk) in Hb; contradiction|].
             rewrite (Del b Kd Hi). apply T2in. exact Hi.
          -- rewrite (T2out b Hi), Inv, (step_frame s a b Hi). reflexivity.
      + rewrite <- EAD in L3, E3. split.
        * apply (Forall_pre_app step_ok); [exact LB|]. fold t1.
          apply (Forall_pre_cons step_ok); [exact SO1|]. fold t2.
          apply (Forall_pre_app step_ok); [exact LH|]. fold t3. exact L3.
        * intro b. rewrite run_app. fold t1. rewrite run_cons. fold t2. rewrite run_app. fold t3.
          rewrite E3. reflexivity.
  Qed.
End Sim.

(* ---------- the theorem ---------- *)

Lemma hb_inputb_spec p : hb_inputb p = true -> Forall hb_kind p.
Proof.
  unfold hb_inputb. rewrite forallb_forall. intro H. apply Forall_forall. intros a Ha. specialize (H a Ha).
  unfold hb_kind, is_kind in *. destruct (kind a); simpl in H; try discriminate; split; discriminate.
Qed.

Lemma nohib_step s a : hb_kind a -> (forall b, ~ hibernated s b) -> forall b, ~ hibernated (step s a) b.
Proof.
  intros [K1 K2] H b [y Hy]. unfold step in Hy. destruct a as [k co its]. cbn [kind items commit] in *.
  assert (Hu : forall f l, upd f l = Hibernated y -> exists z, l = Hibernated z).
  { intros f l E. destruct l; simpl in E; try discriminate. eexists. reflexivity. }
  destruct k.
  - destruct its as [|b0 r]; [apply (H b); exists y; exact Hy|]. destruct co; [|apply (H b); exists y; exact Hy].
    rewrite get_set in Hy. destruct (Z.eqb b0 b); [|apply (H b); exists y; exact Hy].
    apply Hu in Hy. destruct Hy as [z Hz]. apply (H b0). exists z. exact Hz.
  - destruct its as [|b0 r]; [apply (H b); exists y; exact Hy|].
    rewrite (get_fold_set (fun _ => get s b0)) in Hy.
    destruct (memzb b r); [apply (H b0) | apply (H b)]; exists y; exact Hy.
  - rewrite (get_fold_set (fun m => upd (fun x => mkB (flat_map (fun m0 => inc_of (get s m0)) its) (last x)) (get s m))) in Hy.
    destruct (memzb b its); [|apply (H b); exists y; exact Hy].
    apply Hu in Hy. destruct Hy as [z Hz]. apply (H b). exists z. exact Hz.
  - destruct its as [|b0 r]; [apply (H b); exists y; exact Hy|]. rewrite get_set in Hy.
    destruct (Z.eqb b0 b); [discriminate | apply (H b); exists y; exact Hy].
  - destruct its as [|b0 r]; [apply (H b); exists y; exact Hy|]. rewrite get_set in Hy.
    destruct (Z.eqb b0 b); [discriminate | apply (H b); exists y; exact Hy].
  - apply K1. reflexivity.
  - apply K2. reflexivity.
Qed.

Lemma nohib_run : forall p s, Forall hb_kind p -> (forall b, ~ hibernated s b) -> forall b, ~ hibernated (run s p) b.
Proof.
  induction p as [|a r IH]; intros s F H; [exact H|]. inversion F; subst.
  rewrite run_cons. apply IH; [assumption|]. apply nohib_step; assumption.
Qed.

Lemma erase_hb_opt_boot c l : erase_hb (opt KBoot c l) = [].
Proof. destruct l; reflexivity. Qed.
Lemma erase_hb_opt_hib c l : erase_hb (opt KHibernate c l) = [].
Proof. destruct l; reflexivity. Qed.

Lemma erase_hb_cons_keep a l : hb_kind a -> erase_hb (a :: l) = a :: erase_hb l.
Proof.
  intros [K1 K2]. unfold erase_hb. simpl. unfold is_kind.
  destruct (kind a); simpl; try reflexivity; exfalso; [apply K1 | apply K2]; reflexivity.
Qed.

Lemma erase_hb_build : forall q x AD, Forall hb_kind q -> erase_hb (hb_build q x AD) = q.
Proof.
  induction q as [|a r IH]; intros x AD F; [reflexivity|]. inversion F as [|? ? Ka Fr]; subst.
  rewrite build_cons, erase_hb_app, erase_hb_opt_boot, app_nil_l.
  rewrite (erase_hb_cons_keep a _ Ka), erase_hb_app, erase_hb_opt_hib, (IH _ _ Fr). reflexivity.
Qed.

Theorem hib_sound : forall p d, lifecycle_ok p -> Forall hb_kind p ->
  lifecycle_ok (insert_hb p d) /\
  nothing_hibernated (run init (insert_hb p d)) /\
  erase_hb (insert_hb p d) = p.
Proof.
  intros p d L F.
  assert (Nd : Forall (fun a => NoDup (items a)) p).
  { apply Forall_forall. intros a Ha. apply in_split in Ha. destruct Ha as [p1 [p2 E]].
    destruct (L p1 a p2 E) as [_ [N _]]. exact N. }
  unfold insert_hb. rewrite (hb_scan_spec d p 0 [] [] (fun _ => None) Nd) by reflexivity.
  destruct (build_ok d p 0 (fun _ => None) [] init init L F) as [L' E'].
  - intros e [].
  - intros k i H. discriminate.
  - intro b. reflexivity.
  - split; [exact L'|]. split.
    + intros b [y Hy]. rewrite E' in Hy. apply (nohib_run p init F) with (b := b); [|exists y; exact Hy].
      intros b0 [z Hz]. discriminate.
    + apply erase_hb_build. exact F.
Qed.

(* the two stages composed, as prepareRunPlan does after generatePlan *)
Theorem gc_then_hib : forall (p : list action) (d : Z), pre_ok p ->
  exists p', collect_garbage p = Some p' /\
    lifecycle_ok (insert_hb p' d) /\ nothing_hibernated (run init (insert_hb p' d)) /\
    erase_deletes (erase_hb (insert_hb p' d)) = p.
Proof.
  intros p d H. destruct (gc_sound p H) as [p' [E [L R]]]. exists p'. split; [exact E|].
  assert (F : Forall hb_kind p').
  { apply Forall_forall. intros a Ha.
    assert (K : In a p \/ kind a = KDelete).
    { destruct (is_kind KDelete a) eqn:Kd.
      - right. apply kind_eqb_eq. exact Kd.
      - left. rewrite <- R. apply filter_In. split; [exact Ha|]. rewrite Kd. reflexivity. }
    destruct K as [K|K].
    - destruct H as [_ G]. rewrite Forall_forall in G. destruct (G a K) as [[Gk|[Gk|[Gk|Gk]]] _]; split; rewrite Gk; discriminate.
    - split; rewrite K; discriminate. }
  destruct (hib_sound p' d L F) as [L' [N' E']]. split; [exact L'|]. split; [exact N'|]. rewrite E'. exact R.
Qed.
