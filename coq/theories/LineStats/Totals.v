(* C12, end to end on the model: the line figures DevsAnalysis reports for (tick, developer) and the
   figures CommitsAnalysis lists for a commit conserve the lines of the diffs of the non-merge steps. *)
From Coq Require Import List NArith Bool Lia.
From Herc Require Import LineStats.Model LineStats.Conserve LineStats.Once.
Import ListNotations.
Open Scope N_scope.

Definition ins_of (st : stats) : N := added st + changed st.
Definition del_of (st : stats) : N := removed st + changed st.

(* the diff of a replay step: inserted / deleted lines over all its tree changes *)
Definition step_inserted (s : step) : N := fold_right (fun c a => ch_inserted c + a) 0 (s_changes s).
Definition step_deleted (s : step) : N := fold_right (fun c a => ch_deleted c + a) 0 (s_changes s).
(* every script without two neighbouring deletions (C11), every entry named once (C20) *)
Definition step_wf (s : step) : bool := forallb ch_ok (s_changes s) && keys_distinct [] (s_changes s).

Lemma step_stats_conserve : forall s, s_ismerge s = false -> step_wf s = true ->
  sum_ins (step_stats s) = step_inserted s /\ sum_del (step_stats s) = step_deleted s.
Proof.
  intros s Hm Hwf. unfold step_wf in Hwf. apply andb_true_iff in Hwf. destruct Hwf as [H1 H2].
  unfold step_stats. rewrite Hm. apply lsc_consume_conserves; assumption.
Qed.

Lemma add_files_stats : forall fs dd,
  ins_of (dt_stats (fold_left devs_add_file fs dd)) = ins_of (dt_stats dd) + sum_ins fs /\
  del_of (dt_stats (fold_left devs_add_file fs dd)) = del_of (dt_stats dd) + sum_del fs.
Proof.
  induction fs as [|[k [lang st]] r IH]; intro dd.
  - cbn. split; lia.
  - cbn [fold_left]. destruct (IH (devs_add_file dd (k, (lang, st)))) as [I1 I2].
    rewrite I1, I2, sum_ins_cons, sum_del_cons. cbn [devs_add_file dt_stats snd].
    unfold ins_of, del_of, stats_add. cbn [added removed changed]. split; lia.
Qed.

Definition ins_at (ticks : list ((N * N) * devtick)) (k : N * N) : N :=
  match tick_get ticks k with Some d => ins_of (dt_stats d) | None => 0 end.
Definition del_at (ticks : list ((N * N) * devtick)) (k : N * N) : N :=
  match tick_get ticks k with Some d => del_of (dt_stats d) | None => 0 end.

Definition step_ins_contrib (s : step) : N := if s_ismerge s then 0 else step_inserted s.
Definition step_del_contrib (s : step) : N := if s_ismerge s then 0 else step_deleted s.

Lemma devs_consume_lines : forall cec st s k, (s_ismerge s = false -> step_wf s = true) ->
  ins_at (ds_ticks (fst (devs_consume cec st s))) k =
    ins_at (ds_ticks st) k + (if snd (devs_consume cec st s) && at_key k s then step_ins_contrib s else 0) /\
  del_at (ds_ticks (fst (devs_consume cec st s))) k =
    del_at (ds_ticks st) k + (if snd (devs_consume cec st s) && at_key k s then step_del_contrib s else 0).
Proof.
  intros cec st s k Hwf. unfold devs_consume.
  destruct (should_consume (ds_merges st) s) as [ok merges].
  destruct (negb ok); [cbn; split; lia|].
  destruct ((N.of_nat (length (s_changes s)) =? 0) && negb cec); [cbn; split; lia|].
  cbn [fst snd ds_ticks andb]. unfold ins_at, del_at, at_key, step_ins_contrib, step_del_contrib. rewrite tick_get_set.
  destruct (tkey_eqb (s_tick s, s_author s) k) eqn:E.
  - apply tkey_eqb_eq in E. subst k.
    destruct (s_ismerge s) eqn:Hm.
    + cbn [dt_stats]. destruct (tick_get (ds_ticks st) (s_tick s, s_author s)); cbn [dt_stats devtick0 zero_stats]; unfold ins_of, del_of; cbn; split; lia.
    + destruct (step_stats_conserve s Hm (Hwf eq_refl)) as [C1 C2].
      match goal with |- context [fold_left devs_add_file ?fs ?dd] => destruct (add_files_stats fs dd) as [A1 A2] end.
      rewrite A1, A2, C1, C2. cbn [dt_stats].
      destruct (tick_get (ds_ticks st) (s_tick s, s_author s)); cbn [dt_stats devtick0 zero_stats]; unfold ins_of, del_of; cbn; split; lia.
  - split; lia.
Qed.

Definition sum_over (f : step -> N) (l : list step) : N := fold_right (fun s a => f s + a) 0 l.

Lemma sum_over_cons : forall f s t, sum_over f (s :: t) = f s + sum_over f t.
Proof. reflexivity. Qed.

Lemma devs_run_from_lines : forall cec l st k,
  (forall s, In s l -> s_ismerge s = false -> step_wf s = true) ->
  ins_at (ds_ticks (fst (devs_run_from cec st l))) k =
    ins_at (ds_ticks st) k + sum_over step_ins_contrib (filter (at_key k) (select l (snd (devs_run_from cec st l)))) /\
  del_at (ds_ticks (fst (devs_run_from cec st l))) k =
    del_at (ds_ticks st) k + sum_over step_del_contrib (filter (at_key k) (select l (snd (devs_run_from cec st l)))).
Proof.
  induction l as [|s r IH]; intros st k Hwf.
  - cbn. split; lia.
  - cbn [devs_run_from].
    destruct (devs_consume_lines cec st s k (Hwf s (or_introl eq_refl))) as [H1 H2].
    destruct (devs_consume cec st s) as [st1 b]. cbn [fst snd] in H1, H2.
    destruct (IH st1 k (fun x Hx => Hwf x (or_intror Hx))) as [I1 I2].
    destruct (devs_run_from cec st1 r) as [st2 bs]. cbn [fst snd] in I1, I2 |- *.
    rewrite I1, I2, H1, H2. cbn [select]. destruct b; cbn [andb].
    + cbn [filter]. destruct (at_key k s); rewrite ?sum_over_cons; split; lia.
    + split; lia.
Qed.

(* the developer statistics: at every (tick, developer), added + changed is the number of lines inserted,
   and removed + changed the number of lines deleted, by the diffs of the non-merge steps attributed there *)
Theorem devs_lines_conserve : forall cec l k,
  (forall s, In s l -> s_ismerge s = false -> step_wf s = true) ->
  ins_at (devs_result cec l) k = sum_over step_ins_contrib (filter (at_key k) (attributed cec l)) /\
  del_at (devs_result cec l) k = sum_over step_del_contrib (filter (at_key k) (attributed cec l)).
Proof.
  intros cec l k Hwf. unfold devs_result, attributed, devs_run.
  destruct (devs_run_from_lines cec l devs0 k Hwf) as [H1 H2]. rewrite H1, H2. cbn. split; lia.
Qed.

(* the listing: every listed commit is a non-merge step with the figures of that step *)
Lemma commits_run_from_in : forall l acc cs, In cs (fold_left commits_consume l acc) ->
  In cs acc \/ exists s, In s l /\ s_ismerge s = false /\ cs = mkCommitStat (s_commit s) (s_author s) (step_stats s).
Proof.
  induction l as [|s r IH]; intros acc cs H; [left; exact H|].
  cbn [fold_left] in H. destruct (IH _ cs H) as [Hacc | [x [Hx Hc]]].
  - unfold commits_consume in Hacc. destruct (s_ismerge s) eqn:Hm; [left; exact Hacc|].
    apply in_app_or in Hacc. destruct Hacc as [Hacc|[Heq|[]]]; [left; exact Hacc|].
    right. exists s. split; [left; reflexivity|]. split; [exact Hm | symmetry; exact Heq].
  - right. exists x. split; [right; exact Hx | exact Hc].
Qed.

Theorem commits_lines_conserve : forall l cs, In cs (commits_run l) ->
  exists s, In s l /\ s_ismerge s = false /\ cs_commit cs = s_commit s /\ cs_author cs = s_author s /\
    (step_wf s = true -> sum_ins (cs_files cs) = step_inserted s /\ sum_del (cs_files cs) = step_deleted s).
Proof.
  intros l cs H. unfold commits_run in H.
  destruct (commits_run_from_in l [] cs H) as [[]|[s [Hs [Hm Hc]]]].
  exists s. subst cs. cbn [cs_commit cs_author cs_files]. repeat split; auto.
  - apply step_stats_conserve; assumption.
  - apply step_stats_conserve; assumption.
Qed.
