(* C09 - a damaged temp file surfaces at the level of the run: once the file of a hibernated branch
   is missing or a proper prefix of what was written, it stays so until the branch is booted, and
   that Boot fails; the lifecycle guarantees that the branch is booted before the run can end. *)
From Coq Require Import List ZArith Bool NArith Lia.
From Herc Require Import Hibernation.Model Hibernation.Tables Hibernation.Inv Hibernation.Sim Hibernation.Erasure.
Import ListNotations.
Open Scope Z_scope.

Lemma tget_tset_all_notin : forall {V} (upd l : list (Z * V)) b,
    ~ In b (map fst upd) -> tget b (tset_all l upd) = tget b l.
Proof.
  intros V. induction upd as [|[x v] upd IH]; intros l b Hn; cbn in *; [reflexivity|].
  rewrite IH by tauto. apply tget_tset_other. tauto.
Qed.

Section Surface.
  Context {S H K R byte : Type}.
  Variable o : ops S H K R byte.
  Notation item := (ist S H K).
  Notation fsys := (list (N * list byte)).
  Notation rst := (@rstate S H K byte).

  Hypothesis boot_hibernate : forall s, size o s <> 0 -> decompress o (compress o s) = s.
  Hypothesis file_roundtrip : forall h, decode o (strip o h) (encode o h) = Some h.
  Hypothesis truncation_detected : forall h j,
      (j < length (encode o h))%nat -> decode o (strip o h) (firstn j (encode o h)) = None.

  Variable cfg : config.
  Variable io : nat -> io_choice.
  Variable adv : nat -> list (@tamper).
  Variable fs0 : fsys.
  Hypothesis names_inj : forall i j, io_name (io i) = io_name (io j) -> i = j.
  Hypothesis names_new : forall i, fs_mem (io_name (io i)) fs0 = false.

  Notation Inv := (Inv o io fs0 false).
  Let strict_io : false = true -> forall i, io_result (io i) = IoOk := fun E => ltac:(discriminate).
  Let strict_adv : false = true -> forall i, adv i = [] := fun E => ltac:(discriminate).

  (* some hibernated branch holds a temp file that is missing or a proper prefix *)
  Definition Dmg (b1 : list (Z * item)) (f : fsys) : Prop :=
    exists b k n h, tget b b1 = Some (HibDisk k n) /\ strip o h = k /\ damaged o f n h.

  Lemma damaged_ext : forall f f' n h, fs_get n f' = fs_get n f -> damaged o f n h -> damaged o f' n h.
  Proof. intros f f' n h E. unfold damaged. now rewrite E. Qed.

  Lemma damaged_stays : forall t f n h, damaged o f n h -> damaged o (apply_tamper f t) n h.
  Proof.
    intros [m|m k] f n h Hd; unfold damaged in *.
    - cbn. rewrite fs_get_remove. destruct (N.eqb m n); [now left|exact Hd].
    - rewrite fs_get_trunc. destruct (N.eqb n m); [|exact Hd].
      destruct Hd as [Hn|(j & Hj & Hp)].
      + rewrite Hn. now left.
      + rewrite Hp. cbn. right. exists (Nat.min k j). split; [lia|]. now rewrite firstn_firstn.
  Qed.

  Lemma dmg_tampers : forall ts b1 f, Dmg b1 f -> Dmg b1 (apply_tampers f ts).
  Proof.
    induction ts as [|t ts IH]; intros b1 f Hd; cbn; [exact Hd|].
    apply IH. destruct Hd as (b & k & n & h & Hb & Hk & Hd). exists b, k, n, h. repeat split; try assumption.
    now apply damaged_stays.
  Qed.

  (* ------------------------------------------------------------------------------------ *)
  (* what Hibernate / Boot of one item leave untouched *)
  Lemma hibernate_item_frame : forall b (st st' : rst) s it',
      hibernate_item o cfg io b st (Awake s) = (Ok it', st') ->
      br st' = br st /\ forall n, n <> io_name (io (nio st)) -> fs_get n (fs st') = fs_get n (fs st).
  Proof.
    intros b st st' s it'. unfold hibernate_item.
    destruct (disk cfg && (0 <? size o s) && (thr cfg <=? size o s)).
    - destruct (io_result (io (nio st))) as [|[|[|[|k]]]]; cbn [tick_io fs]; try discriminate;
        destruct (fs_mem (io_name (io (nio st))) (fs st)); try discriminate;
        destruct ((size o s <? thr cfg) || (size o s =? 0)); try discriminate.
      intros E. inversion E; subst. cbn. rewrite N.eqb_refl. cbn. split; [reflexivity|].
      intros n Hn. destruct (N.eqb (io_name (io (nio st))) n) eqn:E1; [|reflexivity].
      apply N.eqb_eq in E1. congruence.
    - destruct ((size o s <? thr cfg) || (size o s =? 0)); intros E; inversion E; subst; cbn; auto.
  Qed.

  Lemma boot_item_frame : forall b (st st' : rst) it it',
      boot_item o io b st it = (Ok it', st') ->
      br st' = br st /\ forall n, (forall k, it <> HibDisk k n) -> fs_get n (fs st') = fs_get n (fs st).
  Proof.
    intros b st st' it it'. unfold boot_item. destruct it as [s|h|k n].
    - intros E. inversion E; subst. cbn. auto.
    - intros E. inversion E; subst. cbn. auto.
    - cbn [tick_io fs].
      destruct (io_result (io (nio st))) as [|[|[|k']]]; try discriminate;
        destruct (fs_get n (fs st)) as [bytes|]; try discriminate;
        destruct (decode o k bytes); try discriminate.
      intros E. inversion E; subst. cbn. split; [reflexivity|].
      intros m Hm. rewrite fs_get_remove. destruct (N.eqb n m) eqn:E1; [|reflexivity].
      apply N.eqb_eq in E1. subst m. exfalso. now apply (Hm k).
  Qed.

  Lemma boot_item_damaged : forall b (st : rst) k n h,
      strip o h = k -> damaged o (fs st) n h ->
      forall it' st', boot_item o io b st (HibDisk k n) <> (Ok it', st').
  Proof.
    intros b st k n h Hk Hd it' st'. unfold boot_item. cbn [tick_io fs]. subst k.
    destruct Hd as [Hn|(j & Hj & Hp)].
    - rewrite Hn. destruct (io_result (io (nio st))) as [|[|[|k']]]; discriminate.
    - rewrite Hp, (truncation_detected _ _ Hj).
      destruct (io_result (io (nio st))) as [|[|[|k']]]; discriminate.
  Qed.

  (* ------------------------------------------------------------------------------------ *)
  Lemma hibernate_all_dmg : forall bs stt (st : rst) b0,
      Inv stt (br st) (fs st) (nio st) b0 ->
      nodupb bs = true -> forallb (live stt) bs = true ->
      Dmg (br st) (fs st) ->
      forall u st', for_branches (hibernate_item o cfg io) bs st = (Ok u, st') -> Dmg (br st') (fs st').
  Proof.
    induction bs as [|b bs IH]; intros stt st b0 I Hnd Hlive Hd u st'; cbn [for_branches].
    - intros E. inversion E; subst. exact Hd.
    - apply nodupb_cons in Hnd. destruct Hnd as [Hnot Hnd].
      cbn in Hlive. apply andb_prop in Hlive. destruct Hlive as [Hb Hlive].
      unfold live in Hb. destruct (tget b stt) as [[|]|] eqn:Est; try discriminate.
      destruct (inv_live o io fs0 false _ _ _ _ _ _ I Est) as (s & Hs1 & Hs0).
      rewrite Hs1.
      pose proof (hibernate_item_spec o boot_hibernate cfg io adv fs0 names_inj names_new false strict_io strict_adv
                                      stt st b0 b s I Est Hs0) as Hspec.
      destruct (hibernate_item o cfg io b st (Awake s)) as [[it'|c|e] st1] eqn:Eh; try discriminate.
      destruct Hspec as [I' _].
      destruct (hibernate_item_frame _ _ _ _ _ Eh) as [Hbr Hfs].
      apply (IH (tset b true stt) (with_br st1 (tset b it' (br st1))) b0); cbn [br fs nio with_br]; try assumption.
      + apply forallb_forall. intros x Hx. rewrite forallb_forall in Hlive. specialize (Hlive x Hx).
        unfold live in *. rewrite tget_tset_other; [exact Hlive|].
        intros ->. eapply kmem_false_neq; eauto.
      + destruct Hd as (d & k & n & h & Hdb & Hk & Hdm). exists d, k, n, h.
        assert (d <> b) by (intros ->; congruence).
        repeat split; try assumption.
        * rewrite Hbr. rewrite tget_tset_other by congruence. exact Hdb.
        * eapply damaged_ext; [|exact Hdm]. apply Hfs.
          destruct (inv_issued _ _ _ _ _ _ _ _ _ I _ _ _ Hdb) as (i & Hi & Hn).
          intros E. rewrite Hn in E. apply names_inj in E. lia.
  Qed.

  Lemma boot_all_dmg : forall bs stt (st : rst) b0,
      Inv stt (br st) (fs st) (nio st) b0 ->
      nodupb bs = true -> forallb (asleep stt) bs = true ->
      Dmg (br st) (fs st) ->
      forall u st', for_branches (boot_item o io) bs st = (Ok u, st') -> Dmg (br st') (fs st').
  Proof.
    induction bs as [|b bs IH]; intros stt st b0 I Hnd Hlive Hd u st'; cbn [for_branches].
    - intros E. inversion E; subst. exact Hd.
    - apply nodupb_cons in Hnd. destruct Hnd as [Hnot Hnd].
      cbn in Hlive. apply andb_prop in Hlive. destruct Hlive as [Hb Hlive].
      unfold asleep in Hb. destruct (tget b stt) as [[|]|] eqn:Est; try discriminate.
      destruct (tget b (br st)) as [it|] eqn:Eit; [|discriminate].
      pose proof (boot_item_spec o file_roundtrip truncation_detected io adv fs0 false strict_io strict_adv
                                 stt st b0 b it I Est Eit) as Hspec.
      destruct (boot_item o io b st it) as [[it'|c|e] st1] eqn:Eb; try discriminate.
      destruct Hspec as [I' _].
      destruct (boot_item_frame _ _ _ _ _ Eb) as [Hbr Hfs].
      destruct Hd as (d & k & n & h & Hdb & Hk & Hdm).
      assert (Hne : d <> b).
      { intros ->. rewrite Eit in Hdb. inversion Hdb; subst it.
        exact (boot_item_damaged b st k n h Hk Hdm _ _ Eb). }
      apply (IH (tset b false stt) (with_br st1 (tset b it' (br st1))) b0); cbn [br fs nio with_br]; try assumption.
      + apply forallb_forall. intros x Hx. rewrite forallb_forall in Hlive. specialize (Hlive x Hx).
        unfold asleep in *. rewrite tget_tset_other; [exact Hlive|].
        intros ->. eapply kmem_false_neq; eauto.
      + exists d, k, n, h. repeat split; try assumption.
        * rewrite Hbr. rewrite tget_tset_other by congruence. exact Hdb.
        * eapply damaged_ext; [|exact Hdm]. apply Hfs.
          intros k' ->. apply Hne. eapply (inv_distinct _ _ _ _ _ _ _ _ _ I); eauto.
  Qed.

  (* one plan step keeps the damage (or fails) *)
  Lemma step_dmg : forall a done rest stt (st : rst) b0,
      action_ok stt a = true ->
      Inv stt (br st) (apply_tampers (fs st) (adv (length done))) (nio st) b0 ->
      Dmg (br st) (apply_tampers (fs st) (adv (length done))) ->
      forall u st', step o cfg io adv done rest a st = (Ok u, st') -> Dmg (br st') (fs st').
  Proof.
    intros a done rest stt st b0 Hok It Hd u st'.
    destruct Hd as (d & k & n & h & Hdb & Hk & Hdm).
    assert (Hds : tget d stt = Some true) by (eapply inv_holder_asleep; eauto).
    assert (Hkeep : forall b1' : list (Z * item), tget d b1' = tget d (br st) ->
                                           Dmg b1' (apply_tampers (fs st) (adv (length done)))).
    { intros b1' E. exists d, k, n, h. rewrite E. auto. }
    destruct a as [b c|b news|b others|b|b|b others|b others]; cbn [action_ok] in Hok; unfold step.
    - (* Commit *)
      unfold live in Hok. destruct (tget b stt) as [[|]|] eqn:Est; try discriminate.
      unfold get_awake. cbn [br with_fs cidx].
      destruct (tget b (br st)) as [[s| |]|]; try discriminate.
      destruct (consume o c (cidx st) (is_merge done rest c) s); try discriminate.
      intros E. inversion E; subst. cbn. apply Hkeep. apply tget_tset_other. congruence.
    - (* Fork *)
      apply andb_prop in Hok. destruct Hok as [Hok Habs].
      unfold get_awake. cbn [br with_fs cidx].
      destruct (tget b (br st)) as [[s| |]|]; try discriminate.
      intros E. inversion E; subst. cbn. apply Hkeep.
      rewrite tget_tset_all_const. replace (kmem d news) with false; [reflexivity|].
      symmetry. destruct (kmem d news) eqn:Ek; [|reflexivity].
      unfold kmem in Ek. apply existsb_exists in Ek. destruct Ek as (x & Hx & Ex).
      apply Z.eqb_eq in Ex. subst x. rewrite forallb_forall in Habs. specialize (Habs _ Hx).
      unfold absent in Habs. now rewrite Hds in Habs.
    - (* Merge *)
      apply andb_prop in Hok. destruct Hok as [_ Hl].
      destruct (get_awakes (with_fs st (apply_tampers (fs st) (adv (length done)))) (b :: others)); try discriminate.
      destruct (merge o a) as [ss'| |]; try discriminate.
      intros E. apply (f_equal snd) in E. cbn -[combine] in E. subst st'. cbn -[combine]. apply Hkeep.
      apply tget_tset_all_notin. intros Hin. apply in_combine_keys in Hin.
      rewrite forallb_forall in Hl. specialize (Hl _ Hin). unfold live in Hl. now rewrite Hds in Hl.
    - (* Emerge *)
      intros E. inversion E; subst. cbn. apply Hkeep. apply tget_tset_other.
      intros ->. unfold absent in Hok. now rewrite Hds in Hok.
    - (* Delete *)
      intros E. inversion E; subst. cbn. apply Hkeep. rewrite tget_tdel.
      destruct (Z.eqb b d) eqn:Eb; [|reflexivity].
      apply Z.eqb_eq in Eb. subst. unfold live in Hok. now rewrite Hds in Hok.
    - apply andb_prop in Hok. destruct Hok as [Hnd Hl].
      apply (hibernate_all_dmg (b :: others) stt (with_fs st (apply_tampers (fs st) (adv (length done)))) b0 It Hnd Hl).
      cbn. exists d, k, n, h. auto.
    - apply andb_prop in Hok. destruct Hok as [Hnd Hl].
      apply (boot_all_dmg (b :: others) stt (with_fs st (apply_tampers (fs st) (adv (length done)))) b0 It Hnd Hl).
      cbn. exists d, k, n, h. auto.
  Qed.

  (* ------------------------------------------------------------------------------------ *)
  (* the whole run: with a damaged file it cannot end Ok *)
  Lemma exec_dmg : forall rest done stt (st st0 : rst),
      lifecycle stt rest = true ->
      (done = [] -> stt = []) ->
      (done = [] \/ erase_hb done <> []) ->
      back_agree done ->
      Inv stt (br st) (fs st) (nio st) (br st0) -> cidx st = cidx st0 ->
      Dmg (br st) (apply_tampers (fs st) (adv (length done))) ->
      forall u st', exec o cfg io adv done rest st <> (Ok u, st').
  Proof.
    induction rest as [|a rest IH]; intros done stt st st0 Hlc Hd0 Hp Hg I Hc Hd u st'.
    - (* nothing sleeps at the end, but the holder of the damaged file does *)
      exfalso. destruct Hd as (d & k & n & h & Hdb & _ & _).
      apply (inv_holder_asleep o io fs0 false _ _ _ _ _ _ _ _ I) in Hdb.
      cbn in Hlc. apply (all_awake_flag _ _ _ Hlc) in Hdb. discriminate.
    - rewrite lifecycle_cons in Hlc. apply andb_prop in Hlc. destruct Hlc as [Hok Hlc].
      assert (Hg' : back_agree (a :: done)) by (now apply back_agree_cons).
      assert (It : Inv stt (br st) (apply_tampers (fs st) (adv (length done))) (nio st) (br st0)).
      { apply inv_tampers; [exact strict_io|intros E; discriminate|exact I]. }
      cbn [exec].
      pose proof (step_dmg a done rest stt st (br st0) Hok It Hd) as Hkeep.
      destruct (is_hb a) eqn:Ehb.
      + assert (Hdne : done <> []).
        { intros ->. rewrite (Hd0 eq_refl) in Hok.
          destruct a; cbn in Ehb; try discriminate; cbn [action_ok] in Hok;
            apply andb_prop in Hok; destruct Hok as [_ Hok]; cbn in Hok; discriminate. }
        pose proof (step_hb o boot_hibernate file_roundtrip truncation_detected cfg io adv fs0 names_inj names_new
                            false strict_io strict_adv a done rest stt st (br st0) Ehb Hok I) as Hs.
        destruct (step o cfg io adv done rest a st) as [[v|c|e] st1]; try discriminate.
        destruct Hs as [I1 Hc1].
        apply (IH (a :: done) (next_status stt a) st1 st0); try assumption.
        * discriminate.
        * right. rewrite erase_hb_cons, Ehb. destruct Hp as [Hp|Hp]; [contradiction|exact Hp].
        * congruence.
        * apply dmg_tampers. eapply Hkeep; eauto.
      + assert (Him : forall c, is_merge done rest c = is_merge (erase_hb done) (erase_hb rest) c).
        { intros c. unfold is_merge. rewrite (Hg c). now rewrite near_match_erase. }
        pose proof (step_sim o cfg io adv fs0 cfg io adv false strict_io strict_adv
                             a done rest (erase_hb done) (erase_hb rest) stt st st0 Ehb Hok I Hc Him) as Hs.
        destruct (step o cfg io adv done rest a st) as [[v|c|e] st1]; try discriminate.
        destruct (step o cfg io adv (erase_hb done) (erase_hb rest) a st0) as [r0 st01].
        destruct Hs as [_ Hs]. destruct v. destruct (Hs eq_refl) as [I1 Hc1].
        apply (IH (a :: done) (next_status stt a) st1 st01); try assumption.
        * discriminate.
        * right. rewrite erase_hb_cons, Ehb. discriminate.
        * apply dmg_tampers. eapply Hkeep; eauto.
  Qed.

  (* the first n steps of the run *)
  Fixpoint exec_n (n : nat) (done rest : list action) (st : rst) : option (list action * list action * rst) :=
    match n, rest with
    | O, _ => Some (done, rest, st)
    | Datatypes.S n', a :: rest' =>
        match step o cfg io adv done rest' a st with
        | (Ok _, st') => exec_n n' (a :: done) rest' st'
        | _ => None
        end
    | Datatypes.S _, [] => None
    end.

  Lemma exec_n_exec : forall n done rest st done' rest' st',
      exec_n n done rest st = Some (done', rest', st') ->
      exec o cfg io adv done rest st = exec o cfg io adv done' rest' st' /\ length done' = (n + length done)%nat.
  Proof.
    induction n as [|n IH]; intros done rest st done' rest' st' E; cbn in E.
    - inversion E; subst. auto.
    - destruct rest as [|a rest]; [discriminate|]. cbn [exec].
      destruct (step o cfg io adv done rest a st) as [[u|c|e] st1]; try discriminate.
      destruct (IH _ _ _ _ _ _ E) as [E1 E2]. split; [exact E1|]. cbn in E2. lia.
  Qed.

  (* the invariant holds at every state the run passes through *)
  Lemma exec_n_inv : forall n rest done stt (st st0 : rst) done' rest' st',
      lifecycle stt rest = true ->
      (done = [] -> stt = []) ->
      (done = [] \/ erase_hb done <> []) ->
      back_agree done ->
      Inv stt (br st) (fs st) (nio st) (br st0) -> cidx st = cidx st0 ->
      exec_n n done rest st = Some (done', rest', st') ->
      exists stt' (st0' : rst),
        lifecycle stt' rest' = true /\ (done' = [] -> stt' = []) /\ (done' = [] \/ erase_hb done' <> []) /\
        back_agree done' /\ Inv stt' (br st') (fs st') (nio st') (br st0') /\ cidx st' = cidx st0'.
  Proof.
    induction n as [|n IH]; intros rest done stt st st0 done' rest' st' Hlc Hd0 Hp Hg I Hc E; cbn in E.
    - inversion E; subst. exists stt, st0. auto 10.
    - destruct rest as [|a rest]; [discriminate|].
      rewrite lifecycle_cons in Hlc. apply andb_prop in Hlc. destruct Hlc as [Hok Hlc].
      assert (Hg' : back_agree (a :: done)) by (now apply back_agree_cons).
      destruct (is_hb a) eqn:Ehb.
      + assert (Hdne : done <> []).
        { intros ->. rewrite (Hd0 eq_refl) in Hok.
          destruct a; cbn in Ehb; try discriminate; cbn [action_ok] in Hok;
            apply andb_prop in Hok; destruct Hok as [_ Hok]; cbn in Hok; discriminate. }
        pose proof (step_hb o boot_hibernate file_roundtrip truncation_detected cfg io adv fs0 names_inj names_new
                            false strict_io strict_adv a done rest stt st (br st0) Ehb Hok I) as Hs.
        destruct (step o cfg io adv done rest a st) as [[v|c|e] st1]; try discriminate.
        destruct Hs as [I1 Hc1].
        apply (IH rest (a :: done) (next_status stt a) st1 st0 done' rest' st'); try assumption.
        * discriminate.
        * right. rewrite erase_hb_cons, Ehb. destruct Hp as [Hp|Hp]; [contradiction|exact Hp].
        * congruence.
      + assert (Him : forall c, is_merge done rest c = is_merge (erase_hb done) (erase_hb rest) c).
        { intros c. unfold is_merge. rewrite (Hg c). now rewrite near_match_erase. }
        pose proof (step_sim o cfg io adv fs0 cfg io adv false strict_io strict_adv
                             a done rest (erase_hb done) (erase_hb rest) stt st st0 Ehb Hok I Hc Him) as Hs.
        destruct (step o cfg io adv done rest a st) as [[v|c|e] st1]; try discriminate.
        destruct (step o cfg io adv (erase_hb done) (erase_hb rest) a st0) as [r0 st01].
        destruct Hs as [_ Hs]. destruct v. destruct (Hs eq_refl) as [I1 Hc1].
        apply (IH rest (a :: done) (next_status stt a) st1 st01 done' rest' st'); try assumption.
        * discriminate.
        * right. rewrite erase_hb_cons, Ehb. discriminate.
  Qed.

  Theorem damaged_file_surfaces : forall p n done rest (st : rst),
      lifecycle_ok_h p = true ->
      exec_n n [] p (start fs0) = Some (done, rest, st) ->
      (exists b k m h, tget b (br st) = Some (HibDisk k m) /\ strip o h = k /\
                       damaged o (apply_tampers (fs st) (adv n)) m h) ->
      forall r, outcome (run o cfg io adv p fs0) <> Ok r.
  Proof.
    intros p n done rest st Hlc En Hd r.
    destruct (exec_n_exec _ _ _ _ _ _ _ En) as [Eex Elen]. cbn in Elen. rewrite Nat.add_0_r in Elen.
    destruct (exec_n_inv n p [] [] (start fs0) (start fs0) done rest st Hlc (fun _ => eq_refl) (or_introl eq_refl)
                         back_agree_nil (inv_init o io fs0 false) eq_refl En)
      as (stt' & st0' & Hlc' & Hd0 & Hp & Hg & I & Hc).
    unfold outcome, run. rewrite Eex.
    destruct (exec o cfg io adv done rest st) as [[u|c|e] st'] eqn:Ee; cbn; try discriminate.
    exfalso. eapply (exec_dmg rest done stt' st st0'); eauto.
    rewrite Elen. exact Hd.
  Qed.
End Surface.
