(* Soundness of the plan validator: plan_ok g p = true -> C02_spec g p (and the facts C04 needs).

   Step 1: an accepted plan has a derivation [Acc] with one constructor per case of [check]
           (the boolean tests reflected into propositions).
   Step 2: every clause of the specification by induction over [Acc]. *)
From Coq Require Import List ZArith Bool Arith Lia Permutation.
From Herc Require Import Plan.Syntax Plan.Exec Plan.Graph Plan.Checker Plan.Spec Plan.Lifecycle
  Plan.GraphProofs Plan.ExecProofs Plan.CheckerLemmas.
Import ListNotations.
Local Open Scope nat_scope.

Section Sound.
  Variable g : dag.
  Hypothesis T : topob g = true.
  Let tab := anc_tab g.

  Inductive Acc : state -> list nat -> plan -> Prop :=
  | Acc_nil : forall s done, finalb g s done = true -> Acc s done []
  | Acc_single : forall s done c b rest,
      ~ In c done -> replay_ok g s c b -> lasts_ok g c [last_on s b] ->
      Acc (step s (commit_on c b)) (c :: done) rest ->
      Acc s done (commit_on c b :: rest)
  | Acc_multi : forall s done c bs m rest,
      2 <= length bs -> ~ In c done -> NoDup bs ->
      (forall bs1 b bs2, bs = bs1 ++ b :: bs2 -> replay_ok g (run s (block c bs1)) c b) ->
      lasts_ok g c (map (last_on s) bs) ->
      kind m = KMerge -> Permutation (items m) bs ->
      (forall b, In b (items m) -> exists x, get (run s (block c bs)) b = Live x /\ last x = Some c) ->
      (forall a, In a (flat_map (fun k => inc_of (get (run s (block c bs)) k)) (items m)) <-> Anc g a c) ->
      Acc (step (run s (block c bs)) m) (c :: done) rest ->
      Acc s done (block c bs ++ m :: rest)
  | Acc_other : forall s done a rest,
      kind a <> KCommit -> kind a <> KMerge -> step_ok s a ->
      Acc (step s a) done rest -> Acc s done (a :: rest).

  (* ---------- step 1 ---------- *)

  Lemma awakeb_spec s b : awakeb s b = true <-> awake s b.
  Proof.
    unfold awakeb, awake. destruct (get s b) as [|x|x|]; split; intro H; try discriminate;
      try (destruct H as [y Hy]; discriminate).
    - exists x. reflexivity.
    - reflexivity.
  Qed.

  Lemma hibernatedb_spec s b : hibernatedb s b = true <-> hibernated s b.
  Proof.
    unfold hibernatedb, hibernated. destruct (get s b) as [|x|x|]; split; intro H; try discriminate;
      try (destruct H as [y Hy]; discriminate).
    - exists x. reflexivity.
    - reflexivity.
  Qed.

  Lemma absentb_spec s b : absentb s b = true <-> get s b = Absent.
  Proof. unfold absentb. destruct (get s b); split; intro H; try discriminate; reflexivity. Qed.

  Lemma forallb_In {A} (f : A -> bool) (P : A -> Prop) l :
    (forall x, f x = true -> P x) -> forallb f l = true -> forall x, In x l -> P x.
  Proof. intros H Hf x Hx. rewrite forallb_forall in Hf. apply H, Hf, Hx. Qed.

  Lemma check_Acc : forall fuel s done p, check g tab fuel s done p = true -> Acc s done p.
  Proof.
    induction fuel as [|f IH]; intros s done p H; [discriminate|].
    destruct p as [|a p']; [apply Acc_nil; exact H|].
    cbn [check] in H.
    destruct a as [k co its]. cbn [kind items commit] in H.
    destruct k.
    - (* commit *)
      destruct its as [|b [|b' its']]; try discriminate.
      destruct co as [c|]; [|discriminate].
      destruct (take_block c (mkA KCommit (Some c) [b] :: p')) as [bs rest] eqn:TB.
      apply take_block_spec in TB.
      rewrite !andb_true_iff in H. destruct H as [[[[Hd Hnd] Hco] Hla] Hrest].
      apply negb_true_iff, memn_false in Hd. apply nodupz_NoDup in Hnd.
      pose proof (commits_okb_sound g T c bs s Hco) as Hrep.
      destruct bs as [|b1 [|b2 bs']]; [discriminate| |].
      + (* one replay *)
        rewrite TB. change (block c [b1] ++ rest) with (commit_on c b1 :: rest).
        pose proof (Hrep [] b1 [] eq_refl) as R1. simpl in R1.
        apply Acc_single; [exact Hd | exact R1 | | apply (IH _ _ _ Hrest)].
        apply (lasts_okb_sound g T); [apply R1 | exact Hla].
      + (* several replays and the merge *)
        destruct rest as [|m rest']; [discriminate|].
        rewrite !andb_true_iff in Hrest. destruct Hrest as [[[Hk Hperm] Hm] Hrest].
        apply kind_eqb_eq in Hk. apply permz_spec in Hperm. destruct Hperm as [_ [_ Hperm]].
        assert (Hc : c < length g) by (apply (Hrep [] b1 (b2 :: bs') eq_refl)).
        destruct (merge_okb_sound g T _ c (items m) Hc Hm) as [M1 M2].
        rewrite TB. apply Acc_multi; try assumption.
        * simpl. lia.
        * apply (lasts_okb_sound g T); assumption.
        * apply (IH _ _ _ Hrest).
    - (* fork *)
      destruct its as [|b [|t ts]]; try discriminate.
      rewrite !andb_true_iff in H. destruct H as [[[Hb Hnd] Habs] Hrest].
      apply awakeb_spec in Hb. apply nodupz_NoDup in Hnd.
      pose proof (forallb_In _ (fun t => get s t = Absent) _ (fun x => proj1 (absentb_spec s x)) Habs) as Ha.
      apply Acc_other; [discriminate | discriminate | | apply (IH _ _ _ Hrest)].
      split; [exists b, t, ts; reflexivity|]. cbn [items uses creates boots kind].
      split.
      { constructor; [|exact Hnd]. intro Hin. specialize (Ha b Hin). destruct Hb as [x Hx]. congruence. }
      split; [intros b0 [<-|[]]; exact Hb|].
      split; [exact Ha | intros b0 []].
    - (* merge: only after a block *)
      destruct its; discriminate.
    - (* emerge *)
      destruct its as [|b [|b' its']]; try discriminate.
      rewrite andb_true_iff in H. destruct H as [Hb Hrest]. apply absentb_spec in Hb.
      apply Acc_other; [discriminate | discriminate | | apply (IH _ _ _ Hrest)].
      split; [exists b; reflexivity|]. cbn [items uses creates boots kind].
      split; [constructor; [intros []|constructor]|].
      split; [intros b0 []|]. split; [intros b0 [<-|[]]; exact Hb | intros b0 []].
    - (* delete *)
      destruct its as [|b [|b' its']]; try discriminate.
      rewrite andb_true_iff in H. destruct H as [Hb Hrest]. apply awakeb_spec in Hb.
      apply Acc_other; [discriminate | discriminate | | apply (IH _ _ _ Hrest)].
      split; [exists b; reflexivity|]. cbn [items uses creates boots kind].
      split; [constructor; [intros []|constructor]|].
      split; [intros b0 [<-|[]]; exact Hb|]. split; intros b0 [].
    - (* hibernate *)
      destruct its as [|b bs]; try discriminate.
      rewrite !andb_true_iff in H. destruct H as [[Hnd Haw] Hrest]. apply nodupz_NoDup in Hnd.
      pose proof (forallb_In _ (awake s) _ (fun x => proj1 (awakeb_spec s x)) Haw) as Ha.
      apply Acc_other; [discriminate | discriminate | | apply (IH _ _ _ Hrest)].
      split; [cbn; discriminate|]. cbn [items uses creates boots kind].
      split; [exact Hnd|]. split; [exact Ha|]. split; intros b0 [].
    - (* boot *)
      destruct its as [|b bs]; try discriminate.
      rewrite !andb_true_iff in H. destruct H as [[Hnd Hh] Hrest]. apply nodupz_NoDup in Hnd.
      pose proof (forallb_In _ (hibernated s) _ (fun x => proj1 (hibernatedb_spec s x)) Hh) as Ha.
      apply Acc_other; [discriminate | discriminate | | apply (IH _ _ _ Hrest)].
      split; [cbn; discriminate|]. cbn [items uses creates boots kind].
      split; [exact Hnd|]. split; [intros b0 []|]. split; [intros b0 []| exact Ha].
  Qed.

  (* ---------- step 2 ---------- *)

  Lemma replay_ok_awake s c b : replay_ok g s c b -> awake s b.
  Proof. intros [_ [x [Hx _]]]. exists x. exact Hx. Qed.

  Lemma step_ok_commit s c b : replay_ok g s c b -> step_ok s (commit_on c b).
  Proof.
    intro H. split; [exists c, b; split; reflexivity|]. cbn [items uses creates boots kind commit_on].
    split; [constructor; [intros []|constructor]|].
    split; [intros b0 [<-|[]]; eapply replay_ok_awake; exact H|]. split; intros b0 [].
  Qed.

  Lemma step_ok_merge s m bs c :
    kind m = KMerge -> 2 <= length bs -> NoDup bs -> Permutation (items m) bs ->
    (forall b, In b (items m) -> exists x, get s b = Live x /\ last x = Some c) ->
    step_ok s m.
  Proof.
    intros K L Hnd Hp Hl.
    assert (Hn : NoDup (items m)) by (eapply Permutation_NoDup; [apply Permutation_sym; exact Hp | exact Hnd]).
    pose proof (Permutation_length Hp) as Len.
    split.
    { unfold wf_action. rewrite K. destruct (items m) as [|b1 [|b2 r]]; simpl in Len; try lia.
      exists b1, b2, r. reflexivity. }
    split; [exact Hn|]. unfold uses, creates, boots. rewrite K.
    split; [|split; intros b0 []].
    intros b Hb. assert (Hb' : In b (items m)) by (destruct (items m); exact Hb).
    destruct (Hl b Hb') as [x [Hx _]]. exists x. exact Hx.
  Qed.

  Lemma Acc_lifecycle s done p : Acc s done p -> lifecycle_from s p.
  Proof.
    unfold lifecycle_from. change (Acc s done p -> Forall_pre step_ok s p).
    induction 1 as [s done Hf | s done c b rest Hd Hr Hl _ IH
                   | s done c bs m rest L Hd Hnd Hr Hl K Hp Hlive Hcov _ IH
                   | s done a rest K1 K2 Hs _ IH].
    - apply Forall_pre_nil.
    - apply Forall_pre_cons; [apply step_ok_commit; exact Hr | exact IH].
    - apply Forall_pre_app.
      + apply Forall_pre_block. intros bs1 b bs2 E. apply step_ok_commit. eapply Hr. exact E.
      + apply Forall_pre_cons; [eapply step_ok_merge; eassumption | exact IH].
    - apply Forall_pre_cons; assumption.
  Qed.

  Definition replay_at (s : state) (a : action) : Prop :=
    forall c b, a = commit_on c b -> replay_ok g s c b.

  Lemma Acc_replay s done p : Acc s done p -> Forall_pre replay_at s p.
  Proof.
    induction 1 as [s done Hf | s done c b rest Hd Hr Hl _ IH
                   | s done c bs m rest L Hd Hnd Hr Hl K Hp Hlive Hcov _ IH
                   | s done a rest K1 K2 Hs _ IH].
    - apply Forall_pre_nil.
    - apply Forall_pre_cons; [|exact IH]. intros c' b' E. injection E as <- <-. exact Hr.
    - apply Forall_pre_app.
      + apply Forall_pre_block. intros bs1 b bs2 E c' b' E'. injection E' as <- <-. eapply Hr. exact E.
      + apply Forall_pre_cons; [|exact IH]. intros c' b' E. rewrite E in K. discriminate.
    - apply Forall_pre_cons; [|exact IH]. intros c' b' E. rewrite E in K1. exfalso. apply K1. reflexivity.
  Qed.

  Definition merge_at (s : state) (a : action) : Prop := kind a = KMerge -> merge_ok g s a.

  Lemma Acc_merges s done p : Acc s done p -> Forall_pre merge_at s p.
  Proof.
    induction 1 as [s done Hf | s done c b rest Hd Hr Hl _ IH
                   | s done c bs m rest L Hd Hnd Hr Hl K Hp Hlive Hcov _ IH
                   | s done a rest K1 K2 Hs _ IH].
    - apply Forall_pre_nil.
    - apply Forall_pre_cons; [|exact IH]. intro K. discriminate.
    - apply Forall_pre_app.
      + apply Forall_pre_block. intros bs1 b bs2 E K'. discriminate.
      + apply Forall_pre_cons; [|exact IH]. intros _. split.
        * eapply Permutation_NoDup; [apply Permutation_sym; exact Hp | exact Hnd].
        * exists c. split; [|exact Hlive].
          apply (lasts_ok_merge_commit g c _ Hl). rewrite map_length. exact L.
    - apply Forall_pre_cons; [|exact IH]. intro K. contradiction.
  Qed.

  Lemma replay_block_prefix pre s p c :
    ~ replayed c pre -> replay_block g (run s pre) p c -> replay_block g s (pre ++ p) c.
  Proof.
    intros Hn [p1 [bs [p2 [E [H1 [H2 [Hnd [Hl Hm]]]]]]]].
    exists (pre ++ p1), bs, p2. split; [rewrite E, app_assoc; reflexivity|].
    split.
    { unfold replayed in *. rewrite analysed_app, in_app_iff. tauto. }
    split; [exact H2|]. split; [exact Hnd|].
    split; [rewrite run_app; exact Hl|].
    intro L. destruct (Hm L) as [m [p3 [E2 [K [Hp Hc]]]]].
    exists m, p3. split; [exact E2|]. split; [exact K|]. split; [exact Hp|].
    intros b Hb. rewrite <- app_assoc, run_app. apply Hc. exact Hb.
  Qed.

  Lemma covers_after_merge s m c :
    kind m = KMerge ->
    (forall b, In b (items m) -> exists x, get s b = Live x /\ last x = Some c) ->
    (forall a, In a (flat_map (fun k => inc_of (get s k)) (items m)) <-> Anc g a c) ->
    forall b, In b (items m) -> covers g (step s m) b c.
  Proof.
    intros K Hl Hc b Hb. destruct (Hl b Hb) as [x [Hx Hlast]].
    unfold covers. rewrite (get_step_merge s m b K).
    apply memzb_In in Hb. rewrite Hb, Hx. simpl.
    eexists. split; [reflexivity|]. simpl. split; [exact Hlast | exact Hc].
  Qed.

  Lemma Acc_blocks s done p : Acc s done p ->
    forall c, replayed c p -> ~ In c done /\ replay_block g s p c.
  Proof.
    induction 1 as [s done Hf | s done c b rest Hd Hr Hl _ IH
                   | s done c bs m rest L Hd Hnd Hr Hl K Hp Hlive Hcov _ IH
                   | s done a rest K1 K2 Hs _ IH]; intros c' Hc'.
    - destruct Hc'.
    - destruct (Nat.eq_dec c' c) as [->|Hne].
      + split; [exact Hd|]. exists [], [b], rest. split; [reflexivity|].
        split; [intros []|]. split.
        { intro Hx. destruct (IH c Hx) as [Hn _]. apply Hn. left. reflexivity. }
        split; [constructor; [intros []|constructor]|].
        split; [exact Hl|]. simpl. lia.
      + assert (Hin : replayed c' rest).
        { unfold replayed in *. simpl in Hc'. destruct Hc' as [E|Hx]; [congruence | exact Hx]. }
        destruct (IH c' Hin) as [Hn Hb]. split; [intro Hx; apply Hn; right; exact Hx|].
        apply (replay_block_prefix [commit_on c b] s rest c'); [|exact Hb].
        unfold replayed. simpl. intros [E|[]]. congruence.
    - assert (Ebs : exists b0 bs0, bs = b0 :: bs0) by (destruct bs as [|b0 bs0]; [simpl in L; lia | eauto]).
      destruct Ebs as [b0 [bs0 Ebs]].
      destruct (Nat.eq_dec c' c) as [->|Hne].
      + split; [exact Hd|]. exists [], bs, (m :: rest). split; [reflexivity|].
        split; [intros []|]. split.
        { unfold replayed. change (m :: rest) with ([m] ++ rest).
          rewrite analysed_app, in_app_iff, (analysed_noncommit m) by (rewrite K; discriminate).
          intros [[]|Hx]. destruct (IH c Hx) as [Hn _]. apply Hn. left. reflexivity. }
        split; [exact Hnd|]. split; [exact Hl|].
        intros _. exists m, rest. split; [reflexivity|]. split; [exact K|]. split; [exact Hp|].
        intros b Hb. simpl app. rewrite run_app. change (run (run s (block c bs)) [m]) with (step (run s (block c bs)) m).
        apply covers_after_merge; [exact K | exact Hlive | exact Hcov |].
        eapply Permutation_in; [apply Permutation_sym; exact Hp | exact Hb].
      + assert (Hin : replayed c' rest).
        { unfold replayed in *. change (m :: rest) with ([m] ++ rest) in Hc'.
          rewrite !analysed_app, !in_app_iff, (analysed_noncommit m) in Hc' by (rewrite K; discriminate).
          destruct Hc' as [Hx|[[]|Hx]]; [|exact Hx]. apply analysed_block in Hx. congruence. }
        destruct (IH c' Hin) as [Hn Hb]. split; [intro Hx; apply Hn; right; exact Hx|].
        change (block c bs ++ m :: rest) with (block c bs ++ [m] ++ rest). rewrite app_assoc.
        apply replay_block_prefix.
        * unfold replayed. rewrite analysed_app, in_app_iff, (analysed_noncommit m) by (rewrite K; discriminate).
          intros [Hx|[]]. apply analysed_block in Hx. congruence.
        * rewrite run_app. exact Hb.
    - assert (Hin : replayed c' rest).
      { unfold replayed in *. change (a :: rest) with ([a] ++ rest) in Hc'.
        rewrite analysed_app, in_app_iff, (analysed_noncommit a K1) in Hc'. destruct Hc' as [[]|Hx]. exact Hx. }
      destruct (IH c' Hin) as [Hn Hb]. split; [exact Hn|].
      apply (replay_block_prefix [a] s rest c'); [|exact Hb].
      unfold replayed. rewrite (analysed_noncommit a K1). intros [].
  Qed.

  Lemma Acc_final s done p : Acc s done p ->
    exists A, finalb g (run s p) A = true /\ forall x, In x A <-> In x done \/ replayed x p.
  Proof.
    induction 1 as [s done Hf | s done c b rest Hd Hr Hl _ IH
                   | s done c bs m rest L Hd Hnd Hr Hl K Hp Hlive Hcov _ IH
                   | s done a rest K1 K2 Hs _ IH].
    - exists done. split; [exact Hf|]. intro x. unfold replayed. simpl. tauto.
    - destruct IH as [A [HA HE]]. exists A. split; [exact HA|].
      intro x. rewrite HE. unfold replayed. simpl. intuition congruence.
    - destruct IH as [A [HA HE]]. exists A. split.
      { rewrite run_app, run_cons. exact HA. }
      assert (Ebs : exists b0 bs0, bs = b0 :: bs0) by (destruct bs as [|b0 bs0]; [simpl in L; lia | eauto]).
      destruct Ebs as [b0 [bs0 Ebs]].
      intro x. rewrite HE. unfold replayed. change (m :: rest) with ([m] ++ rest).
      rewrite !analysed_app, !in_app_iff, (analysed_noncommit m) by (rewrite K; discriminate).
      simpl. split.
      + intros [[<-|Hx]|Hx]; [|tauto|tauto]. right. left. rewrite Ebs. apply analysed_block_in.
      + intros [Hx|[Hx|[[]|Hx]]]; [tauto| |tauto]. apply analysed_block in Hx. subst. tauto.
    - destruct IH as [A [HA HE]]. exists A. split; [rewrite run_cons; exact HA|].
      intro x. rewrite HE. unfold replayed. change (a :: rest) with ([a] ++ rest).
      rewrite analysed_app, in_app_iff, (analysed_noncommit a K1). simpl. tauto.
  Qed.

  Lemma lifecycle_shape s p : lifecycle_from s p -> Forall wf_action p.
  Proof.
    intro H. apply Forall_forall. intros a Ha. apply in_split in Ha. destruct Ha as [p1 [p2 E]].
    destruct (H p1 a p2 E) as [W _]. exact W.
  Qed.
End Sound.

(* ---------- the theorems ---------- *)

Lemma plan_ok_Acc g p : plan_ok g p = true -> topob g = true /\ Acc g init [] p.
Proof.
  unfold plan_ok. rewrite andb_true_iff. intros [T H]. split; [exact T|].
  eapply check_Acc; eassumption.
Qed.

Theorem checker_sound : forall g p, plan_ok g p = true -> C02_spec g p.
Proof.
  intros g p H. destruct (plan_ok_Acc g p H) as [T A].
  constructor.
  - eapply lifecycle_shape. eapply Acc_lifecycle; eassumption.
  - destruct (Acc_final g _ _ _ A) as [A' [HF HE]].
    destruct (finalb_sound g _ _ HF) as [R _].
    eapply retained_ext; [|exact R]. intro x. rewrite HE. unfold replayed. simpl. tauto.
  - intros p1 c b p2 E. exact (Acc_replay g _ _ _ A p1 _ p2 E c b eq_refl).
  - intros c Hc. exact (proj2 (Acc_blocks g _ _ _ A c Hc)).
  - intros p1 m p2 E K. exact (Acc_merges g _ _ _ A p1 m p2 E K).
Qed.

(* what C04 uses of an accepted plan *)
Theorem checker_lifecycle : forall g p, plan_ok g p = true ->
  lifecycle_ok p /\ nothing_hibernated (run init p) /\
  (single_head g (analysed p) ->
   exists b, master_of (run init p) b /\ forall c, replayed c p -> In c (inc_of (get (run init p) b))).
Proof.
  intros g p H. destruct (plan_ok_Acc g p H) as [T A].
  split; [eapply Acc_lifecycle; eassumption|].
  destruct (Acc_final g _ _ _ A) as [A' [HF HE]].
  destruct (finalb_sound g _ _ HF) as [_ [NH M]].
  split; [exact NH|]. intro SH.
  assert (SH' : single_head g A').
  { intros h1 h2 [H1 N1] [H2 N2]. apply SH; split.
    - apply HE in H1. destruct H1 as [[]|H1]. exact H1.
    - intros c Hc. apply N1. apply HE. right. exact Hc.
    - apply HE in H2. destruct H2 as [[]|H2]. exact H2.
    - intros c Hc. apply N2. apply HE. right. exact Hc. }
  destruct (M SH') as [b [Mb Hb]]. exists b. split; [exact Mb|].
  intros c Hc. apply Hb. apply HE. right. exact Hc.
Qed.

(* the same statement with the record and the predicates of Spec.v written out (restated in props/C02.v) *)
Theorem checker_sound_spelled_out : forall (g : list (list nat)) (p : list action),
  plan_ok g p = true ->
  (* every commit of the retained connected component is analysed (and nothing else) *)
  retained g (analysed p) /\
  (* whenever a commit is analysed on a branch, that branch is live and has analysed exactly the ancestors
     (or self) of one parent of the commit, that parent last; a commit without parents starts a fresh branch *)
  (forall p1 c b p2, p = p1 ++ commit_on c b :: p2 ->
     c < length g /\
     exists x, get (run init p1) b = Live x /\
       match last x with
       | None => inc x = [] /\ parents g c = []
       | Some q => In q (parents g c) /\ forall a, In a (inc x) <-> Anc g a q
       end) /\
  (* the replays of a commit are one block on distinct branches, one per non-redundant parent (redundant =
     fast-forward parents cause no replay); with several replays the next action merges exactly these
     branches, after which each of them holds exactly the full ancestry of the commit *)
  (forall c, In c (analysed p) ->
     exists p1 bs p2,
       p = p1 ++ map (commit_on c) bs ++ p2 /\
       ~ In c (analysed p1) /\ ~ In c (analysed p2) /\ NoDup bs /\
       ((parents g c = [] /\ map (last_on (run init p1)) bs = [None]) \/
        (parents g c <> [] /\
         exists qs, map (last_on (run init p1)) bs = map Some qs /\ NoDup qs /\
                    forall q, In q qs <-> (In q (parents g c) /\
                                           ~ exists q', In q' (parents g c) /\ q' <> q /\ Anc g q q'))) /\
       (2 <= length bs ->
        exists m p3, p2 = m :: p3 /\ kind m = KMerge /\ Permutation (items m) bs /\
          forall b, In b bs ->
            exists x, get (run init (p1 ++ map (commit_on c) bs ++ [m])) b = Live x /\
                      last x = Some c /\ forall a, In a (inc x) <-> Anc g a c)) /\
  (* there is no other merge: every merge joins distinct live branches that analysed the same commit with at
     least two non-redundant parents last *)
  (forall p1 m p2, p = p1 ++ m :: p2 -> kind m = KMerge ->
     NoDup (items m) /\
     exists c, (exists q1 q2, q1 <> q2 /\ nonredundant g c q1 /\ nonredundant g c q2) /\
       forall b, In b (items m) -> exists x, get (run init p1) b = Live x /\ last x = Some c) /\
  (* actions have the shape Pipeline.Run expects *)
  Forall wf_action p.
Proof.
  intros g p H. destruct (checker_sound g p H) as [S R C B M].
  split; [exact R|]. split; [exact C|]. split; [exact B|]. split; [exact M | exact S].
Qed.
