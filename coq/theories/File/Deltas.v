(* The reported deltas: per value, the deltas an Update reports sum to the change of the histogram of the
   lines (operations not stamped with the merge mark); operations stamped with the mark report nothing. *)
From Coq Require Import List ZArith Lia Bool.
Import ListNotations.
From Herc Require Import File.Model File.Spec File.NodeLists File.Locate File.DelLoop File.Values File.Refines.
Open Scope Z_scope.

Lemma sumv_app v a b : sumv v (a ++ b) = sumv v a + sumv v b.
Proof. induction a as [|[[c p] d] a IH]; simpl; lia. Qed.

(* number of lines in [a, a+n) whose value under f is v *)
Definition countv (v : Z) (f : Z -> Z) (a : Z) (n : nat) : Z :=
  Z.of_nat (length (filter (fun i => f i =? v) (zseq a n))).

Lemma countv_app v f a n m : countv v f a (n + m) = countv v f a n + countv v f (a + Z.of_nat n) m.
Proof. unfold countv. rewrite zseq_app, filter_app, app_length. lia. Qed.

Lemma zseq_In a n i : In i (zseq a n) -> a <= i < a + Z.of_nat n.
Proof.
  unfold zseq. rewrite in_map_iff. intros (j & <- & Hj). apply in_seq in Hj. lia.
Qed.

Lemma countv_ext v f g a n : (forall i, a <= i < a + Z.of_nat n -> f i = g i) -> countv v f a n = countv v g a n.
Proof.
  intros H. unfold countv. f_equal. f_equal. apply filter_ext_in. intros i Hi.
  rewrite (H i (zseq_In a n i Hi)). reflexivity.
Qed.

Lemma filter_true {A} (l : list A) : filter (fun _ => true) l = l.
Proof. induction l; simpl; congruence. Qed.
Lemma filter_false {A} (l : list A) : filter (fun _ => false) l = [].
Proof. induction l; simpl; auto. Qed.

Lemma countv_const v w a n : countv v (fun _ => w) a n = if w =? v then Z.of_nat n else 0.
Proof.
  unfold countv. destruct (w =? v).
  - rewrite filter_true, zseq_length. reflexivity.
  - rewrite filter_false. reflexivity.
Qed.

Section RepSum.
Variables (t P Q : Z).
Hypothesis HPQ : P < Q.
Hypothesis Hmark : is_mark t = false.

Lemma rep_list_sum v : forall rest ck cv,
  inc ck rest -> first_gt P rest -> Q <= klast ck rest -> compat_list t Q (ck, cv) rest ->
  sumv v (rep_list t P Q (ck, cv) rest) =
    - countv v (vfrom cv rest) (Z.max ck P) (Z.to_nat (Q - Z.max ck P)).
Proof.
  induction rest as [|[nk nv] rest IH]; intros ck cv Hinc Hgt Hk Hc.
  - simpl in *. replace (Z.to_nat (Q - Z.max ck P)) with 0%nat by lia. reflexivity.
  - destruct Hinc as [Hn Hinc]. simpl in Hgt, Hk. cbn [rep_list compat_list fst snd] in *.
    destruct (Z.ltb_spec ck Q) as [Hlt|Hge].
    + destruct Hc as [Hcv Hc]. rewrite (rep_plain t cv _ Hmark Hcv). cbn [app sumv].
      rewrite (IH nk nv Hinc).
      * replace (Z.max nk P) with nk by lia.
        set (a := Z.max ck P).
        assert (Ha : a < nk) by (unfold a; lia).
        replace (Z.to_nat (Q - a)) with (Z.to_nat (Z.min nk Q - a) + Z.to_nat (Q - Z.min nk Q))%nat by lia.
        rewrite countv_app.
        rewrite (countv_ext v (vfrom cv ((nk, nv) :: rest)) (fun _ => cv) a).
        2:{ intros i Hi. cbn [vfrom]. destruct (Z.ltb_spec i nk); [auto|exfalso; lia]. }
        rewrite countv_const.
        replace (a + Z.of_nat (Z.to_nat (Z.min nk Q - a))) with (Z.min nk Q) by lia.
        destruct (Z.ltb_spec nk Q) as [HnQ|HnQ].
        -- replace (Z.min nk Q) with nk by lia.
           rewrite (countv_ext v (vfrom cv ((nk, nv) :: rest)) (vfrom nv rest) nk).
           2:{ intros i Hi. cbn [vfrom]. destruct (Z.ltb_spec i nk); [exfalso; lia|auto]. }
           destruct (cv =? v); lia.
        -- replace (Z.to_nat (Q - Z.min nk Q)) with 0%nat by lia.
           replace (Z.to_nat (Q - nk)) with 0%nat by lia.
           unfold countv. simpl. destruct (cv =? v); lia.
      * destruct rest as [|[k2 v2] r2]; simpl in *; auto. lia.
      * exact Hk.
      * exact Hc.
    + simpl. replace (Z.to_nat (Q - Z.max ck P)) with 0%nat by lia. reflexivity.
Qed.
End RepSum.

(* an operation stamped with the merge mark reports nothing *)
Lemma rep_list_mark t P Q : is_mark t = true -> forall rest cur, rep_list t P Q cur rest = [].
Proof.
  intros Hm. induction rest as [|nxt rest IH]; intros cur; cbn [rep_list]; auto.
  destruct (fst cur <? Q); auto. rewrite rep_mark by auto. rewrite IH. reflexivity.
Qed.

Lemma upd_reports_mark t P ins del s : is_mark t = true -> upd_reports t P ins del s = [].
Proof.
  intros Hm. unfold upd_reports. rewrite rep_mark by auto.
  destruct (ins >? 0); cbn [app]; destruct (del =? 0); auto;
    destruct (find_le P [] s) as [[[L o] R]|]; auto; apply rep_list_mark; auto.
Qed.

Lemma hist_map v (f : Z -> Z) l : hist v (map f l) = Z.of_nat (length (filter (fun i => f i =? v) l)).
Proof.
  unfold hist. induction l as [|a l IH]; simpl; auto.
  destruct (Z.eq_dec (f a) v) as [E|E].
  - replace (f a =? v) with true by (symmetry; apply Z.eqb_eq; auto). simpl. lia.
  - replace (f a =? v) with false by (symmetry; apply Z.eqb_neq; auto). lia.
Qed.

Lemma hist_flatten v s : WF2 s -> hist v (flatten s) = countv v (sval s) 0 (Z.to_nat (slen s)).
Proof. intros W. rewrite (flatten_tab s W), hist_map. reflexivity. Qed.

Lemma countv_shift v f a d n : countv v (fun i => f (i + d)) a n = countv v f (a + d) n.
Proof.
  unfold countv, zseq. rewrite !map_length || idtac.
  f_equal. revert a; induction (seq 0 n) as [|j l IH]; intros a; simpl; auto.
  replace (a + d + Z.of_nat j) with (a + Z.of_nat j + d) by lia.
  destruct (f (a + Z.of_nat j + d) =? v); simpl; rewrite IH; reflexivity.
Qed.

Theorem update_hist t P ins del s s' reps :
  WF s -> in_range s t P ins del -> (ins <> 0 \/ del <> 0) -> compat_lines s t P del ->
  is_mark t = false ->
  update t P ins del s = Ok (s', reps) ->
  forall v, hist v (flatten s') = hist v (flatten s) + sumv v reps.
Proof.
  intros HWF0 Hr Hne Hc Hmark E v.
  destruct (update_pointwise t P ins del s HWF0 Hr Hne Hc) as (s2 & E2 & W2 & Hl2 & Hv2).
  rewrite E in E2. inversion E2; subst s2 reps. clear E2.
  pose proof (WF_WF2 _ HWF0) as HWF. destruct Hr as (Ht & HP & Hi & Hd & Hlen & H32).
  rewrite (hist_flatten v s' (WF_WF2 _ W2)), (hist_flatten v s HWF), Hl2.
  (* split both ranges at P and at the end of the edit *)
  assert (HlenP : 0 <= slen s - P - del) by lia.
  replace (Z.to_nat (slen s + ins - del)) with (Z.to_nat P + (Z.to_nat ins + Z.to_nat (slen s - P - del)))%nat by lia.
  replace (Z.to_nat (slen s)) with (Z.to_nat P + (Z.to_nat del + Z.to_nat (slen s - P - del)))%nat by lia.
  rewrite !countv_app.
  replace (0 + Z.of_nat (Z.to_nat P)) with P by lia.
  replace (P + Z.of_nat (Z.to_nat ins)) with (P + ins) by lia.
  replace (P + Z.of_nat (Z.to_nat del)) with (P + del) by lia.
  (* left part: unchanged *)
  rewrite (countv_ext v (sval s') (sval s) 0 (Z.to_nat P)).
  2:{ intros i Hi'. rewrite Hv2 by lia. unfold spec_val. destruct (Z.ltb_spec i P); auto. exfalso; lia. }
  (* inserted part: constant t *)
  rewrite (countv_ext v (sval s') (fun _ => t) P (Z.to_nat ins)).
  2:{ intros i Hi'. rewrite Hv2 by lia. unfold spec_val.
      destruct (Z.ltb_spec i P); [exfalso; lia|]. destruct (Z.ltb_spec i (P + ins)); auto. exfalso; lia. }
  rewrite countv_const.
  (* right part: shifted *)
  rewrite (countv_ext v (sval s') (fun i => sval s (i + (del - ins))) (P + ins) (Z.to_nat (slen s - P - del))).
  2:{ intros i Hi'. rewrite Hv2 by lia. unfold spec_val.
      destruct (Z.ltb_spec i P); [exfalso; lia|]. destruct (Z.ltb_spec i (P + ins)); [exfalso; lia|].
      f_equal. lia. }
  rewrite countv_shift. replace (P + ins + (del - ins)) with (P + del) by lia.
  (* the reports *)
  unfold upd_reports. rewrite sumv_app.
  assert (Hins : sumv v (if ins >? 0 then rep t t ins else []) = if t =? v then Z.of_nat (Z.to_nat ins) else 0).
  { rewrite (rep_plain t t ins Hmark) by (intros _; reflexivity).
    destruct (Z.gtb_spec ins 0); simpl.
    - destruct (t =? v); lia.
    - replace (Z.to_nat ins) with 0%nat by lia. destruct (t =? v); reflexivity. }
  rewrite Hins.
  destruct (Z.eqb_spec del 0) as [Ed|Nd].
  - subst del. change (Z.to_nat 0) with 0%nat.
    assert (Hz : forall f a, countv v f a 0 = 0) by reflexivity.
    rewrite (Hz (sval s) P). cbn [sumv]. lia.
  - (* deleted lines, by value *)
    destruct HWF as (Hinc & Hend & v0 & r & Es). subst s.
    destruct (find_le_spec r (0, v0) [] P ltac:(simpl; lia)) as (L & [ok ov] & R & Ef & Es & Hok & Hgt).
    change ([] ++ L) with L in Ef. cbn [fst] in Hok. rewrite Ef.
    rewrite Es in *. destruct (inc_decomp _ _ _ Hinc) as (HL & HLo & HR). cbn [fst] in *.
    assert (HQ : P + del <= klast ok R) by (unfold slen in Hlen; rewrite klast_app in Hlen; exact Hlen).
    assert (Hcl : compat_list t (P + del) (ok, ov) R) by (apply (compat_lines_list L); auto; lia).
    rewrite (rep_list_sum t P (P + del) ltac:(lia) Hmark v R ok ov HR Hgt HQ Hcl).
    replace (Z.max ok P) with P by lia. replace (P + del - P) with del by lia.
    rewrite (countv_ext v (sval (L ++ (ok, ov) :: R)) (vfrom ov R) P (Z.to_nat del)).
    2:{ intros i Hi'. rewrite sval_L_cons by exact Hinc.
        destruct (Z.ltb_spec i (klast (-1) L)); [exfalso; lia|].
        destruct (Z.ltb_spec i ok); [exfalso; lia|reflexivity]. }
    lia.
Qed.

Theorem update_silent t P ins del s s' reps :
  WF s -> in_range s t P ins del -> (ins <> 0 \/ del <> 0) -> compat_lines s t P del ->
  is_mark t = true ->
  update t P ins del s = Ok (s', reps) -> reps = [].
Proof.
  intros HWF0 Hr Hne Hc Hmark E.
  destruct (update_pointwise t P ins del s HWF0 Hr Hne Hc) as (s2 & E2 & _).
  rewrite E in E2. inversion E2. apply upd_reports_mark; auto.
Qed.
