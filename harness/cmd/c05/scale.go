// The `scale` family of C05: LARGE trees (10^3 .. 10^6 elements) in adversarial insertion orders, with
// every operation of the API exercised on the big tree.  A scale case is marked by the input field
// (scale 1) and is written in a macro language (every argument is an integer):
//
//	(fill t ord n base stride seed)  Insert the n keys base+i*stride (mod 2^32), i taken in the order `ord`:
//	                                 0 ascending, 1 descending, 2 shuffled (seed), 3 outside-in (lo, hi, lo+1, ...),
//	                                 4 inside-out, 5 sawtooth (ascending blocks of `seed` keys, blocks descending)
//	(mdel t ord n base stride seed)  DeleteWithKey of the same key sequence
//	(sweep t dir every phase limit)  iterate from Min (dir 0) / Max (dir 1); the element at position j is deleted
//	                                 through a second iterator AFTER the first one moved on when j%every == phase;
//	                                 stop after `limit` elements (0: walk to the end)
//	(walk t dir)                     complete forward / backward iteration, the visited nodes are recorded
//	(probe t n seed)                 Len, Min, Max and FindGE / FindLE / Get at 0, 1, 2^31-1, 2^31, 2^31+1, 2^32-2,
//	                                 2^32-1, around the smallest and the largest key and around n sampled elements
//	(qkeys t ord n base stride seed) FindGE / FindLE / Get at every key of the key sequence of fill / mdel (n <= 2000)
//	(hold t k r)                     register r = FindGE(k); Item() of every live register is recorded at checkpoints
//	(erase t) (clone s d)            Erase / CloneDeep (only onto an empty tree)
//	(forksw hib)                     fork: the allocator is Clone()-d, every tree CloneShallow()-ed, the case goes on
//	                                 with the fork (hib != 0: after Hibernate + Boot of the new allocator)
//	(chk)                            checkpoint: the change of the whole arena since the previous checkpoint, the
//	                                 gaps and every tree header are recorded; the driver runs the oracles here
//
// Bulk observations (one record per element) do not go into the trace line but into the side file
// <trace>.side as little-endian uint32 words; the observation of the operation names the offset (in
// words) and the number of records.
package main

import (
	"bufio"
	"encoding/binary"
	"fmt"
	"math/rand"
	"os"
	"runtime"
	"sync/atomic"
	"time"

	"gopkg.in/src-d/hercules.v10/verifapi"
	. "verifharness/lib"
)

var macroKinds = map[string]bool{"fill": true, "mdel": true, "sweep": true, "walk": true, "probe": true, "qkeys": true, "hold": true, "chk": true, "forksw": true}

// the side file of the run; every case owns a contiguous region of it (offsets in the observations
// are relative to the base of the case)
type sideFile struct {
	path string
	f    *os.File
	w    *bufio.Writer
	off  int
}

var sideOut *sideFile

func openSide(c *Config) {
	if sideOut != nil {
		return
	}
	p := c.Out + ".side"
	f, err := os.Create(p)
	if err != nil {
		fmt.Fprintln(os.Stderr, err)
		os.Exit(2)
	}
	sideOut = &sideFile{path: p, f: f, w: bufio.NewWriterSize(f, 1<<20)}
}

func closeSide() {
	if sideOut != nil {
		sideOut.w.Flush()
		sideOut.f.Close()
	}
}

// the bulk observations of one case, in memory until the case is emitted
type sideBuf struct {
	b   []byte
	off int
}

func (s *sideBuf) u32(x uint32) {
	s.b = binary.LittleEndian.AppendUint32(s.b, x)
	s.off++
}

func b2u(b bool) uint32 {
	if b {
		return 1
	}
	return 0
}

// the key sequence of fill / mdel
func scaleKeys(ord, n, base, stride, seed int) []uint32 {
	if n < 0 {
		n = 0
	}
	if n > 4000000 {
		n = 4000000
	}
	idx := make([]int, 0, n)
	switch ord {
	case 1:
		for i := n - 1; i >= 0; i-- {
			idx = append(idx, i)
		}
	case 2:
		idx = rand.New(rand.NewSource(int64(seed))).Perm(n)
	case 3, 4:
		lo, hi := 0, n-1
		for lo <= hi {
			idx = append(idx, lo)
			if lo != hi {
				idx = append(idx, hi)
			}
			lo++
			hi--
		}
		if ord == 4 {
			for i, j := 0, len(idx)-1; i < j; i, j = i+1, j-1 {
				idx[i], idx[j] = idx[j], idx[i]
			}
		}
	case 5:
		blk := seed
		if blk < 1 {
			blk = 1
		}
		for hi := n; hi > 0; hi -= blk {
			lo := hi - blk
			if lo < 0 {
				lo = 0
			}
			for i := lo; i < hi; i++ {
				idx = append(idx, i)
			}
		}
	default:
		for i := 0; i < n; i++ {
			idx = append(idx, i)
		}
	}
	keys := make([]uint32, len(idx))
	for i, x := range idx {
		keys[i] = uint32(int64(base) + int64(x)*int64(stride))
	}
	return keys
}

func scaleVal(k uint32, seed int) uint32 {
	switch k % 7 {
	case 0:
		return 0
	case 1:
		return negLimit - k%3
	}
	return k*2654435761 + uint32(seed)
}

type sworld struct {
	side  *sideBuf
	alloc *verifapi.Allocator
	trees []*verifapi.RBTree
	regs  [nregs]reg
	prev  []verifapi.VerifNode
	nIns  int
	nDel  int
}

func (w *sworld) dropKey(t int, k uint32) {
	for r := range w.regs {
		x := &w.regs[r]
		if x.valid && x.elem && x.t == t && x.key == k {
			x.valid = false
		}
	}
}

func (w *sworld) checkpoint() Sx {
	side := w.side
	s := w.alloc.VerifSnapshot()
	start := side.off
	ncells := 0
	for i, c := range s.Storage {
		if i < len(w.prev) && w.prev[i] == c {
			continue
		}
		if i >= len(w.prev) && c == (verifapi.VerifNode{}) {
			continue
		}
		side.u32(uint32(i))
		side.u32(c.Key)
		side.u32(c.Value)
		side.u32(c.Parent)
		side.u32(c.Left)
		side.u32(c.Right)
		side.u32(b2u(c.Color))
		ncells++
	}
	for _, g := range s.Gaps {
		side.u32(g)
	}
	w.prev = s.Storage
	out := []Sx{T("sz", I(len(s.Storage))), T("side", I(start), I(ncells), I(len(s.Gaps)))}
	for t, tr := range w.trees {
		h := tr.VerifHeader()
		out = append(out, T("h", I(t), U64(uint64(h.Root)), U64(uint64(h.MinNode)), U64(uint64(h.MaxNode)), I(int(h.Count))))
	}
	var rg []Sx
	for r := range w.regs {
		x := &w.regs[r]
		if x.valid && x.elem {
			item := x.it.Item()
			rg = append(rg, L(I(r), I(x.t), U64(uint64(x.it.VerifNode())), U64(uint64(item.Key)), U64(uint64(item.Value))))
		}
	}
	out = append(out, T("rg", rg...))
	return T("chk", out...)
}

// Erase and CloneDeep iterate over the whole tree and allocate while they do: on a tree whose links form
// a cycle they would eat all memory, so the iteration is tried first
func terminates(tr *verifapi.RBTree) bool {
	bound := int(tr.VerifHeader().Count) + 1
	j := 0
	for it := tr.Min(); !it.Limit(); it = it.Next() {
		j++
		if j > bound {
			return false
		}
	}
	return true
}

func itSx(it verifapi.Iterator) Sx { return U64(uint64(it.VerifNode())) }

func (w *sworld) exec(o op) Sx {
	side := w.side
	nt := len(w.trees)
	a := func(i int) int {
		if i < len(o.a) {
			return o.a[i]
		}
		return 0
	}
	t := a(0)
	if o.kind != "chk" && o.kind != "hold" && (t < 0 || t >= nt) {
		return T("skip")
	}
	switch o.kind {
	case "fill":
		keys := scaleKeys(a(1), a(2), a(3), a(4), a(5))
		start, cnt := side.off, 0
		tr := w.trees[t]
		for _, k := range keys {
			v := scaleVal(k, a(5))
			ok, it := tr.Insert(verifapi.Item{Key: k, Value: v})
			side.u32(k)
			side.u32(v)
			side.u32(b2u(ok))
			side.u32(it.VerifNode())
			if ok {
				cnt++
			}
		}
		w.nIns += cnt
		return T("fill", I(start), I(len(keys)), I(cnt))
	case "mdel":
		keys := scaleKeys(a(1), a(2), a(3), a(4), a(5))
		start, cnt := side.off, 0
		tr := w.trees[t]
		for _, k := range keys {
			ok := tr.DeleteWithKey(k)
			side.u32(k)
			side.u32(b2u(ok))
			if ok {
				cnt++
				w.dropKey(t, k)
			}
		}
		w.nDel += cnt
		return T("mdel", I(start), I(len(keys)), I(cnt))
	case "sweep":
		dir, every, phase, limit := a(1), a(2), a(3), a(4)
		if every < 1 {
			every = 1
		}
		tr := w.trees[t]
		bound := int(tr.VerifHeader().Count) + 1
		var it verifapi.Iterator
		if dir == 0 {
			it = tr.Min()
		} else {
			it = tr.Max()
		}
		start, j := side.off, 0
		for j <= bound && (limit == 0 || j < limit) {
			if (dir == 0 && it.Limit()) || (dir != 0 && it.NegativeLimit()) {
				break
			}
			cur := it
			item := *cur.Item()
			if dir == 0 {
				it = it.Next()
			} else {
				it = it.Prev()
			}
			del := j%every == phase
			side.u32(cur.VerifNode())
			side.u32(item.Key)
			side.u32(b2u(del))
			if del {
				tr.DeleteWithIterator(cur)
				w.nDel++
				w.dropKey(t, item.Key)
			}
			j++
		}
		return T("sweep", I(start), I(j), itSx(it))
	case "walk":
		dir := a(1)
		tr := w.trees[t]
		bound := int(tr.VerifHeader().Count) + 1
		var it verifapi.Iterator
		if dir == 0 {
			it = tr.Min()
		} else {
			it = tr.Max()
		}
		start, j := side.off, 0
		for j <= bound {
			if (dir == 0 && it.Limit()) || (dir != 0 && it.NegativeLimit()) {
				break
			}
			side.u32(it.VerifNode())
			if dir == 0 {
				it = it.Next()
			} else {
				it = it.Prev()
			}
			j++
		}
		return T("walk", I(start), I(j), itSx(it))
	case "probe":
		tr := w.trees[t]
		rng := rand.New(rand.NewSource(int64(a(2))))
		qs := []uint32{0, 1, 2147483647, 2147483648, 2147483649, negLimit - 1, negLimit}
		around := func(it verifapi.Iterator) {
			if item := it.Item(); item != nil {
				qs = append(qs, item.Key-1, item.Key, item.Key+1)
			}
		}
		mn, mx := tr.Min(), tr.Max()
		around(mn)
		around(mx)
		lo, hi := uint32(0), uint32(negLimit)
		if a, b := mn.Item(), mx.Item(); a != nil && b != nil && a.Key <= b.Key {
			lo, hi = a.Key, b.Key
		}
		for i := 0; i < a(1); i++ {
			x := rng.Uint32()
			if i%4 != 3 {
				// inside the key range of the tree
				x = lo + uint32(rng.Int63n(int64(hi-lo)+1))
			}
			qs = append(qs, x)
			around(tr.FindGE(x))
		}
		out := []Sx{T("len", I(tr.Len())), T("min", itSx(mn)), T("max", itSx(mx))}
		for _, q := range qs {
			ge, le, g := tr.FindGE(q), tr.FindLE(q), tr.Get(q)
			pres, val := 0, uint32(0)
			if g != nil {
				pres, val = 1, *g
			}
			out = append(out, T("q", U64(uint64(q)), itSx(ge), itSx(le), I(pres), U64(uint64(val))))
		}
		return T("probe", out...)
	case "qkeys":
		tr := w.trees[t]
		n := a(2)
		if n > 2000 {
			n = 2000
		}
		out := []Sx{}
		for _, q := range scaleKeys(a(1), n, a(3), a(4), a(5)) {
			ge, le, g := tr.FindGE(q), tr.FindLE(q), tr.Get(q)
			pres, val := 0, uint32(0)
			if g != nil {
				pres, val = 1, *g
			}
			out = append(out, T("q", U64(uint64(q)), itSx(ge), itSx(le), I(pres), U64(uint64(val))))
		}
		return T("probe", out...)
	case "hold":
		r := a(2)
		if t < 0 || t >= nt || r < 0 || r >= nregs {
			return T("skip")
		}
		it := w.trees[t].FindGE(uint32(a(1)))
		x := reg{valid: true, t: t, it: it}
		if item := it.Item(); item != nil {
			x.elem, x.key = true, item.Key
		}
		w.regs[r] = x
		return T("it", itSx(it))
	case "erase":
		if !terminates(w.trees[t]) {
			return T("cycle")
		}
		w.trees[t].Erase()
		for r := range w.regs {
			x := &w.regs[r]
			if x.valid && x.elem && x.t == t {
				x.valid = false
			}
		}
		return T("u")
	case "clone":
		s, d := t, a(1)
		if d < 0 || d >= nt || s == d || w.trees[d].Len() != 0 || w.trees[d].VerifHeader().Root != 0 {
			return T("skip")
		}
		for r := range w.regs {
			if w.regs[r].t == d {
				w.regs[r].valid = false
			}
		}
		if !terminates(w.trees[s]) {
			return T("cycle")
		}
		w.trees[d] = w.trees[s].CloneDeep(w.alloc)
		start, n := side.off, 0
		for it := w.trees[d].Min(); !it.Limit() && n <= w.trees[s].Len(); it = it.Next() {
			side.u32(it.VerifNode())
			n++
		}
		return T("clone", I(start), I(n))
	case "chk":
		return w.checkpoint()
	case "forksw":
		// the fork idiom of leaves/burndown.go: Allocator.Clone() + CloneShallow() of every tree; the case
		// goes on with the FORK (hib != 0: the fork is hibernated and booted first), the held iterators are
		// re-bound to the same nodes of the forked trees.  The next checkpoint compares the fork's arena with
		// what the original's was.
		na := w.alloc.Clone()
		for i, tr := range w.trees {
			w.trees[i] = tr.CloneShallow(na)
		}
		if a(0) != 0 {
			na.Hibernate()
			na.Boot()
		}
		w.alloc = na
		for r := range w.regs {
			x := &w.regs[r]
			if x.valid {
				x.it = w.trees[x.t].VerifIterator(x.it.VerifNode())
			}
		}
		return T("u")
	}
	panic("unknown scale op " + o.kind)
}

func runScale(ntrees int, ops []op, cur *atomic.Int32) (obs []Sx, w *sworld) {
	w = &sworld{alloc: verifapi.NewAllocator(), side: &sideBuf{}}
	for i := 0; i < ntrees; i++ {
		w.trees = append(w.trees, verifapi.NewRBTree(w.alloc))
	}
	for i, o := range ops {
		cur.Store(int32(i))
		var res Sx
		_, p := Catch(func() { res = w.exec(o) })
		if p {
			obs = append(obs, T("o", T("panic")))
			return
		}
		obs = append(obs, T("o", res))
		if res.Tag() == "cycle" {
			return
		}
	}
	return
}

// a scale case: started at once (at most scaleParallel run at a time), emitted in order by flushScale
type scaleJob struct {
	kind   string
	ntrees int
	ops    []op
	done   chan struct{}
	obs    []Sx
	w      *sworld
	start  atomic.Int64 // unix nanoseconds when the case began to run, 0 before
	cur    atomic.Int32 // the operation that is running
}

// how long a case may run: 10 s + 3 s per 10^5 inserted elements
func (j *scaleJob) limit() time.Duration {
	n := 0
	for _, o := range j.ops {
		if o.kind == "fill" && len(o.a) > 2 {
			n += o.a[2]
		}
	}
	return 30*time.Second + time.Duration(3*n/100000)*time.Second
}

const scaleParallel = 6

var scaleJobs []*scaleJob
var scaleSem = make(chan struct{}, scaleParallel)

func emitScale(c *Config, kind string, ntrees int, ops []op) {
	j := &scaleJob{kind: kind, ntrees: ntrees, ops: ops, done: make(chan struct{})}
	scaleJobs = append(scaleJobs, j)
	go func() {
		scaleSem <- struct{}{}
		j.start.Store(time.Now().UnixNano())
		j.obs, j.w = runScale(ntrees, ops, &j.cur)
		<-scaleSem
		close(j.done)
	}()
}

func flushScale(c *Config) {
	for _, j := range scaleJobs {
		openSide(c)
		hang := false
		tick := time.NewTicker(50 * time.Millisecond)
	wait:
		for k := 0; ; k++ {
			select {
			case <-j.done:
				break wait
			case <-tick.C:
				st := j.start.Load()
				if st != 0 && time.Since(time.Unix(0, st)) > j.limit() {
					hang = true
				}
				if k%20 == 19 {
					var ms runtime.MemStats
					runtime.ReadMemStats(&ms)
					if ms.HeapAlloc > 16<<30 {
						hang = true
					}
				}
				if hang {
					// an operation does not terminate (or eats all memory): report it and stop - the
					// runaway goroutine cannot be killed
					j.obs, j.w = []Sx{T("o", T("hang", I(int(j.cur.Load()))))}, &sworld{side: &sideBuf{}}
					break wait
				}
			}
		}
		tick.Stop()
		sops := make([]Sx, len(j.ops))
		for i, o := range j.ops {
			sops[i] = o.sx()
		}
		obs := append([]Sx{T("side", A(sideOut.path), I(sideOut.off))}, j.obs...)
		sideOut.w.Write(j.w.side.b)
		sideOut.off += j.w.side.off
		c.Emit(T("kind", A(j.kind)), T("nt", B(j.w.nIns >= 3 && j.w.nDel >= 1)), T("ntrees", I(j.ntrees)), T("scale", I(1)), T("ops", sops...), T("obs", obs...))
		j.obs, j.w = nil, nil
		if hang {
			c.Close()
			closeSide()
			os.Exit(0)
		}
	}
	scaleJobs = nil
}

// ---------------------------------------------------------------------------------------------
// generators

func mk(kind string, a ...int) op { return op{kind: kind, a: a} }

var ordNames = []string{"asc", "desc", "rnd", "outin", "inout", "saw"}

// where the n keys of the main tree lie: 0: 1..n; 1: straddling 2^31; 2: the top key is 2^32-1 and
// the keys are spread over the whole uint32 range; 3: the lowest key is 0, odd stride
func keyLayout(layout, n int) (base, stride int) {
	switch layout {
	case 1:
		return 2147483648 - n/2, 1
	case 2:
		stride = 4294967295 / n
		if stride < 1 {
			stride = 1
		}
		return 4294967295 - (n-1)*stride, stride
	case 3:
		return 0, 3
	}
	return 1, 1
}

// the grand tour: every operation on a tree of n elements filled in the order ord, next to a small
// bystander tree (tree 1) on the same allocator; tree 2 receives the clone
func tour(c *Config, n, ord, layout int, full bool) []op {
	r := c.Rng
	base, stride := keyLayout(layout, n)
	seed := 1 + r.Intn(1000000)
	if ord == 5 {
		seed = []int{255, 256, 257, 1023, 1025, 33}[r.Intn(6)]
	}
	key := func(i int) int { return int(uint32(int64(base) + int64(i)*int64(stride))) }
	var ops []op
	ops = append(ops, mk("fill", 1, 2, 300, 7, 1000003, seed+1))
	ops = append(ops, mk("fill", 0, ord, n, base, stride, seed))
	ops = append(ops, mk("hold", 0, key(0), 0), mk("hold", 0, key(n/2), 1), mk("hold", 0, key(n-1), 2), mk("hold", 1, 0, 3))
	ops = append(ops, mk("chk"), mk("probe", 0, 24, seed+2), mk("walk", 0, 0), mk("walk", 0, 1))
	ops = append(ops, mk("clone", 0, 2))
	if full {
		ops = append(ops, mk("chk"), mk("probe", 2, 8, seed+3))
	}
	ops = append(ops, mk("erase", 2), mk("chk"))
	if !full {
		// a few thousand deletions through iterators at both ends and by key all over the tree, judged by
		// the answers and a complete iteration only (no checkpoint on the big tree after them)
		ops = append(ops, mk("sweep", 0, 0, 1, 0, 500), mk("sweep", 0, 1, 2, 0, 1000), mk("mdel", 0, 2, 1000, base, stride*(n/1000), seed+14))
		ops = append(ops, mk("probe", 0, 8, seed+15), mk("walk", 0, 0))
		ops = append(ops, mk("erase", 0), mk("chk"), mk("fill", 0, ord, 100, base, stride, seed), mk("probe", 0, 4, seed+4), mk("chk"))
		return ops
	}
	// deletion through iterators while iterating, in both directions
	ops = append(ops, mk("sweep", 0, 0, 3, 1, 0), mk("chk"), mk("sweep", 0, 1, 2, 0, 0), mk("probe", 0, 8, seed+5), mk("chk"))
	// mass deletion at the low end, then at the high end: Min / Max move
	ops = append(ops, mk("mdel", 0, 0, n/4, base, stride, 0), mk("probe", 0, 8, seed+6), mk("sweep", 0, 0, 1, 0, n/16+1), mk("probe", 0, 4, seed+7), mk("chk"))
	ops = append(ops, mk("mdel", 0, 1, n/4, key(n-n/4), stride, 0), mk("probe", 0, 8, seed+8), mk("sweep", 0, 1, 1, 0, n/16+1), mk("probe", 0, 4, seed+9), mk("chk"))
	// refill through the free list (malloc takes arbitrary gaps), again in the adversarial order
	ops = append(ops, mk("fill", 0, ord, n/2, base, stride, seed), mk("chk"), mk("walk", 0, 0), mk("probe", 0, 8, seed+10))
	ops = append(ops, mk("mdel", 0, 2, n, base, stride, seed+11), mk("probe", 0, 2, seed+12), mk("chk"))
	ops = append(ops, mk("fill", 0, ord, n/3, base, stride, seed), mk("erase", 0), mk("chk"), mk("fill", 0, 1-ord%2, 100, base, stride, seed), mk("probe", 0, 4, seed+13), mk("chk"))
	return ops
}

// fill in chunks with a checkpoint after each (the tree is judged while it grows)
func growing(c *Config, n, ord, chunk int) []op {
	var ops []op
	for lo := 0; lo < n; lo += chunk {
		m := chunk
		if lo+m > n {
			m = n - lo
		}
		b := 1 + lo
		if ord == 1 {
			b = 1 + n - lo - m
		}
		ops = append(ops, mk("fill", 0, ord, m, b, 1, 0), mk("chk"))
	}
	ops = append(ops, mk("walk", 0, 0), mk("erase", 0), mk("chk"))
	return ops
}

// several big trees on one allocator that hand cells to each other: every tree holds the keys 1..n (own
// values); in every round one tree is asked for a block of its keys (Get / FindGE / FindLE) and loses them, the
// next tree inserts as many NEW keys (every freed cell is re-used, in malloc's arbitrary order), then all trees
// are asked for the old and for the new block, Len / Min / Max and sampled keys; one round ends with Erase of a
// tree and a refill of the others, one with a CloneDeep that is then mutated next to its original
func sharedScale(c *Config, n, blk, rounds int) []op {
	seed := 1 + c.Rng.Intn(1000000)
	var ops []op
	for t := 0; t < 3; t++ {
		ops = append(ops, mk("fill", t, (t*2)%6, n, 1, 1, seed+t))
	}
	ops = append(ops, mk("hold", 0, n/2, 0), mk("hold", 1, n/2, 1), mk("hold", 2, n/2, 2), mk("chk"))
	next := n + 1 // the new keys
	all := func(ord, cnt, base, stride int) {
		for t := 0; t < 3; t++ {
			ops = append(ops, mk("qkeys", t, ord, cnt, base, stride, seed))
		}
	}
	for r := 0; r < rounds; r++ {
		a, b := r%3, (r+1)%3
		base := 1 + (r*blk*7)%(n-blk)
		ops = append(ops, mk("qkeys", a, r%3, blk, base, 1, seed+r))
		ops = append(ops, mk("mdel", a, (r+1)%3, blk, base, 1, seed+r))
		ops = append(ops, mk("fill", b, (r+2)%3, blk, next, 1, seed+b))
		all(0, blk, next, 1)
		all(1, blk, base, 1)
		for t := 0; t < 3; t++ {
			ops = append(ops, mk("probe", t, 4, seed+10*r+t))
		}
		next += blk
		if r%2 == 1 {
			ops = append(ops, mk("chk"))
		}
	}
	// Erase of one tree, its cells go to the two others; the erased tree is used again afterwards
	ops = append(ops, mk("qkeys", 2, 0, blk, 1, n/blk, seed), mk("erase", 2), mk("fill", 0, 2, n/2, next, 1, seed), mk("fill", 1, 2, n/2, next+n/4, 1, seed+1))
	all(2, blk, next, n/blk)
	ops = append(ops, mk("chk"), mk("fill", 2, 1, blk, 5, 3, seed+2))
	all(0, blk, 1, 2)
	ops = append(ops, mk("walk", 2, 0), mk("walk", 0, 1), mk("chk"))
	// copy, then mutate either side, then use both
	ops = append(ops, mk("erase", 1), mk("clone", 2, 1), mk("mdel", 2, 0, blk/2, 5, 6, 0), mk("mdel", 1, 0, blk/2, 8, 6, 0), mk("fill", 0, 0, blk, 3, 1, seed))
	all(0, blk, 1, 1)
	ops = append(ops, mk("walk", 1, 0), mk("walk", 2, 1), mk("chk"))
	return ops
}

func scaleCases(c *Config) {
	run := func(name string, ops []op) { emitScale(c, "scale-"+name, 3, ops) }
	if c.Tier == "search" {
		for ord := 0; ord < 6; ord++ {
			run(fmt.Sprintf("%s-%d", ordNames[ord], 2000), tour(c, 1500+c.Rng.Intn(1000), ord, c.Rng.Intn(4), true))
		}
		return
	}
	thorough := c.Tier == "thorough"
	if thorough {
		run("shared-3x100000", sharedScale(c, 100000, 1000, 12))
	}
	// the biggest cases first: the driver judges scale cases in child processes while it goes on
	if thorough {
		for ord := 0; ord < 3; ord++ {
			run(fmt.Sprintf("%s-%d", ordNames[ord], 1000000), tour(c, 1000000, ord, []int{0, 2, 1}[ord], false))
		}
		run("asc-1048577-full", tour(c, 1048577, 0, 0, true))
	}
	// a right spine deeper than 32 (ascending order, more than 228802 keys), and 10^5
	run("asc-262144", tour(c, 262144, 0, 0, false))
	run("asc-100000", tour(c, 100000, 0, 2, false))
	if thorough {
		for ord := 1; ord < 6; ord++ {
			run(fmt.Sprintf("%s-%d", ordNames[ord], 100000), tour(c, 100000, ord, ord%4, true))
		}
		run("asc-100000-full", tour(c, 100000, 0, 1, true))
		run("asc-228803", tour(c, 228803, 0, 3, false))
		run("asc-262144-full", tour(c, 262144, 0, 1, true))
		run("desc-262144", tour(c, 262144, 1, 2, false))
		run("grow-asc-200000", growing(c, 200000, 0, 10000))
		for i, n := range []int{32767, 32768, 32769} {
			run(fmt.Sprintf("%s-%d", ordNames[i%2], n), tour(c, n, i%2, i%4, true))
		}
	}
	// sizes straddling 2^16
	for i, n := range []int{65535, 65536, 65537} {
		run(fmt.Sprintf("%s-%d", ordNames[i], n), tour(c, n, i, (i+1)%4, thorough))
	}
	// sizes straddling 2^8 and the 10^3 / 10^4 decades, every order, every key layout
	for ord := 0; ord < 6; ord++ {
		big := 10000
		if ord >= 3 && !thorough {
			big = 3000
		}
		for i, n := range []int{255, 256, 257, 1000, big} {
			run(fmt.Sprintf("%s-%d", ordNames[ord], n), tour(c, n, ord, (ord+i)%4, true))
		}
	}
	// fork (Allocator.Clone + CloneShallow) of a big tree, a root-only tree and an empty tree with genuine gaps
	if thorough {
		run("fork-300000", forkScale(c, 300000, 0))
		run("fork-65537", forkScale(c, 65537, 1))
	}
	run("fork-20000", forkScale(c, 20000, 2))
	run("fork-2000", forkScale(c, 2000, 1))
	run("fork-257", forkScale(c, 257, 0))
	// several trees that exchange cells
	run("shared-3x2000", sharedScale(c, 2000, 300, 6))
	run("shared-3x257", sharedScale(c, 257, 33, 9))
	// judged while growing
	run("grow-asc-10000", growing(c, 10000, 0, 1250))
	run("grow-desc-10000", growing(c, 10000, 1, 1250))
}
